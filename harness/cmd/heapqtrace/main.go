// Command heapqtrace drives heapq.Queue and heapq.Sort of the working tree and records every
// observable, one case per line:
//
//	H <op>;<op>;…   | <res>@<moves>#<layout>;…     a queue history
//	S <dir><elems>  | <elems>                      heapq.Sort
//	Z <n>           | ok <len> | PANIC:index[<i>]  heapq.New(cmp).Set(make([]struct{}, n)) on the
//	                                               zero-size element type (machine-int audit, known
//	                                               finding F14); '?' for 4096 < n <= 2^62 (the loop
//	                                               would run n times) and for n < 0
//	B <op>;<op>;…   | <rec>;<rec>;…                the scale stream: batched ops, bounded records (big.go)
//	T <mode><dir><G>[+<off>] | <digests>           heapq.Sort on a window of a larger array, digests (r4.go)
//
// Elements are key.payload, lists are joined by ','.  dir names the comparison function:
//
//	a  cmp.Compare(a.K, b.K)            d  -cmp.Compare(a.K, b.K)
//	A  3*(a.K-b.K) (arbitrary magnitudes) D  7*(b.K-a.K)
//	m  cmp.Compare(a.K/4, b.K/4) (coarse: keys tie in blocks of four)
//	M  (b.K/4-a.K/4)*2                    z  0 (everything ties)
//	p  a.P-b.P (by payload, whatever the keys)
//
// Every history starts with heapq.New(a).Update(callback).  Ops:
//
//	n<dir>          start over with New(cmp).Update(cb)
//	w<dir><elems>   start over with NewWithData(cmp, slice).Update(cb)
//	a<k>.<p>       Add                       -> i<index>
//	p              Pop                       -> v<elem> | -
//	r<i>           Remove(i)                 -> v<elem> | - | !   (! = the documented panic for i < 0)
//	x<p>           Remove(pos[p]), pos = last position the callback reported for payload p
//	k<i>           Peek(i)                   -> v<elem> | - | !
//	f              Front                     -> v<elem> (zero value v0.0)
//	s<elems>       Set(slice), then the caller's slice is overwritten with -1.-1 (aliasing poison)
//	o<dir>         Reorder
//	c l e          Clear, Len -> n<k>, IsEmpty -> b0|b1
//	U0 U1          Update(nil) (no callback any more), Update(callback)
//	E<k>           Each, the callback answering false at its k-th call (0 = never) -> [elems]
//
// After the result every op prints '@' + the Update-callback calls it made (<elem>:<index>,…) and
// '#' + the layout read through Peek(0..Len-1).  An unreadable op prints '?' and is skipped; any
// other panic prints PANIC:<kind> and ends the history.
package main

import (
	"cmp"
	"fmt"
	"strconv"
	"strings"
	"time"

	"github.com/creachadair/mds/heapq"
	"verif/harness/internal/tr"
)

type E struct{ K, P int }

func (e E) String() string { return strconv.Itoa(e.K) + "." + strconv.Itoa(e.P) }

func asc(a, b E) int  { return cmp.Compare(a.K, b.K) }
func desc(a, b E) int { return -cmp.Compare(a.K, b.K) }

const dirs = "adADmMzp"

func cmpOf(d byte) (func(a, b E) int, bool) {
	switch d {
	case 'a':
		return asc, true
	case 'd':
		return desc, true
	case 'A':
		return func(a, b E) int { return 3 * (a.K - b.K) }, true
	case 'D':
		return func(a, b E) int { return 7 * (b.K - a.K) }, true
	case 'm':
		return func(a, b E) int { return cmp.Compare(a.K/4, b.K/4) }, true
	case 'M':
		return func(a, b E) int { return (b.K/4 - a.K/4) * 2 }, true
	case 'z':
		return func(a, b E) int { return 0 }, true
	case 'p':
		return func(a, b E) int { return a.P - b.P }, true
	}
	return nil, false
}

func parseElem(s string) (E, bool) {
	i := strings.IndexByte(s, '.')
	if i <= 0 {
		return E{}, false
	}
	k, err1 := strconv.Atoi(s[:i])
	p, err2 := strconv.Atoi(s[i+1:])
	if err1 != nil || err2 != nil || strings.ContainsAny(s, "+ ") {
		return E{}, false
	}
	return E{k, p}, true
}

func parseElems(s string) ([]E, bool) {
	if s == "" {
		return []E{}, true
	}
	parts := strings.Split(s, ",")
	out := make([]E, len(parts))
	for i, p := range parts {
		e, ok := parseElem(p)
		if !ok {
			return nil, false
		}
		out[i] = e
	}
	return out, true
}

func parseInt(s string) (int, bool) {
	if s == "" || strings.ContainsAny(s, "+ ") || len(s) > 9 {
		return 0, false
	}
	n, err := strconv.Atoi(s)
	return n, err == nil
}

func elems(es []E) string {
	ss := make([]string, len(es))
	for i, e := range es {
		ss[i] = e.String()
	}
	return strings.Join(ss, ",")
}

type session struct {
	q     *heapq.Queue[E]
	moves []string
	pos   map[int]int
	cur   func(a, b E) int // the comparison function the queue currently has
}

func (s *session) cb(e E, i int) {
	s.moves = append(s.moves, e.String()+":"+strconv.Itoa(i))
	s.pos[e.P] = i
}

func (s *session) layout() string {
	n := s.q.Len()
	out := make([]string, 0, n)
	for i := 0; i < n; i++ {
		v, ok := s.q.Peek(i)
		if !ok {
			out = append(out, "missing")
			continue
		}
		out = append(out, v.String())
	}
	return strings.Join(out, ",")
}

func val(v E, ok bool) string {
	if !ok {
		return "-"
	}
	return "v" + v.String()
}

// one op; returns its result string ("?" = unreadable)
func (s *session) do(op string) string {
	if op == "" {
		return "?"
	}
	arg := op[1:]
	switch op[0] {
	case 'n':
		c, ok := cmpOf(last(arg))
		if !ok || len(arg) != 1 {
			return "?"
		}
		s.q = heapq.New(c).Update(s.cb)
		s.cur = c
		return "u"
	case 'w':
		if arg == "" {
			return "?"
		}
		c, ok := cmpOf(arg[0])
		es, ok2 := parseElems(arg[1:])
		if !ok || !ok2 {
			return "?"
		}
		s.q = heapq.NewWithData(c, es).Update(s.cb)
		s.cur = c
		return "u"
	case 'a':
		e, ok := parseElem(arg)
		if !ok {
			return "?"
		}
		return "i" + strconv.Itoa(s.q.Add(e))
	case 'p':
		if arg != "" {
			return "?"
		}
		return val(s.q.Pop())
	case 'r', 'x':
		n, ok := parseInt(arg)
		if !ok {
			return "?"
		}
		if op[0] == 'x' {
			p, ok := s.pos[n]
			if !ok {
				return "?"
			}
			n = p
		}
		if n >= 0 {
			return val(s.q.Remove(n))
		}
		var res string
		if pk := tr.Catch(func() { res = val(s.q.Remove(n)) }); pk == "panic:index" {
			return "!"
		} else if pk != "" {
			panic(pk)
		}
		return res
	case 'k':
		n, ok := parseInt(arg)
		if !ok {
			return "?"
		}
		if n >= 0 {
			return val(s.q.Peek(n))
		}
		var res string
		if pk := tr.Catch(func() { res = val(s.q.Peek(n)) }); pk == "panic:index" {
			return "!"
		} else if pk != "" {
			panic(pk)
		}
		return res
	case 'f':
		if arg != "" {
			return "?"
		}
		return "v" + s.q.Front().String()
	case 's':
		es, ok := parseElems(arg)
		if !ok {
			return "?"
		}
		s.q.Set(es)
		for i := range es {
			es[i] = E{-1, -1}
		}
		return "u"
	case 'o':
		c, ok := cmpOf(last(arg))
		if !ok || len(arg) != 1 {
			return "?"
		}
		s.q.Reorder(c)
		s.cur = c
		return "u"
	case 'c':
		if arg != "" {
			return "?"
		}
		s.q.Clear()
		return "u"
	case 'l':
		if arg != "" {
			return "?"
		}
		return "n" + strconv.Itoa(s.q.Len())
	case 'e':
		if arg != "" {
			return "?"
		}
		return "b" + tr.B(s.q.IsEmpty())
	case 'U':
		switch arg {
		case "0":
			if s.q.Update(nil) != s.q {
				return "?"
			}
		case "1":
			if s.q.Update(s.cb) != s.q {
				return "?"
			}
		default:
			return "?"
		}
		return "u"
	case 'E':
		k, ok := parseInt(arg)
		if !ok || k < 0 {
			return "?"
		}
		var seen []E
		calls := 0
		s.q.Each(func(e E) bool {
			calls++
			seen = append(seen, e)
			return calls != k
		})
		return "[" + elems(seen) + "]"
	}
	return "?"
}

func last(s string) byte {
	if s == "" {
		return 0
	}
	return s[len(s)-1]
}

func exec(in string) string {
	kind, rest, ok := strings.Cut(in, " ")
	if !ok { // inputs printed by the extra steps use '_' for the blank
		kind, rest, _ = strings.Cut(in, "_")
	}
	switch kind {
	case "S":
		if rest == "" {
			return "?"
		}
		c, ok := cmpOf(rest[0])
		es, ok2 := parseElems(rest[1:])
		if !ok || !ok2 {
			return "?"
		}
		if pk := tr.Catch(func() { heapq.Sort(c, es) }); pk != "" {
			return "PANIC:" + strings.TrimPrefix(pk, "panic:")
		}
		return elems(es)
	case "Z":
		n, err := strconv.Atoi(rest)
		if err != nil || n < 0 || (n > 4096 && n <= 1<<62) || strings.ContainsAny(rest, "+ ") {
			return "?"
		}
		var out string
		g := tr.Guard(20*time.Second, func() {
			defer func() {
				if r := recover(); r != nil {
					msg := fmt.Sprint(r)
					if i, j := strings.IndexByte(msg, '['), strings.IndexByte(msg, ']'); strings.Contains(msg, "index out of range") && i >= 0 && j > i {
						out = "PANIC:index" + msg[i:j+1]
					} else {
						out = "PANIC:other"
					}
				}
			}()
			q := heapq.New(func(a, b struct{}) int { return 0 })
			q.Set(make([]struct{}, n))
			out = "ok " + strconv.Itoa(q.Len())
		})
		if g == "hang" {
			return "HANG"
		}
		return out
	case "B":
		return execBig(rest)
	case "T":
		return execSortDigest(rest)
	case "H":
		s := &session{pos: map[int]int{}, cur: asc}
		s.q = heapq.New(asc).Update(s.cb)
		var outs []string
		for _, op := range strings.Split(rest, ";") {
			s.moves = s.moves[:0]
			var res string
			if pk := tr.Catch(func() { res = s.do(op) }); pk != "" {
				outs = append(outs, "PANIC:"+strings.TrimPrefix(pk, "panic:"))
				break
			}
			if res == "?" {
				outs = append(outs, "?")
				continue
			}
			outs = append(outs, res+"@"+strings.Join(s.moves, ",")+"#"+s.layout())
		}
		return strings.Join(outs, ";")
	}
	return "?"
}

// ---------------------------------------------------------------- generation

// hist builds a history while running it on a shadow queue, so that indexes and payloads can be
// aimed at what is actually held.
type hist struct {
	g      *tr.G
	ops    []string
	sh     *session
	nextP  int
	dup    bool // C05 mode: whole elements may repeat
	keys   int  // key range
	tags   map[string]bool
	maxLen int
}

func newHist(g *tr.G, dup bool, keys int) *hist {
	h := &hist{g: g, dup: dup, keys: keys, tags: map[string]bool{}, nextP: 1}
	h.sh = &session{pos: map[int]int{}, cur: asc}
	h.sh.q = heapq.New(asc).Update(h.sh.cb)
	return h
}

// classify tags an Add / Remove by the trigger conditions of the known findings (notes/C05.md):
// the shadow queue's layout before the op decides.
func (h *hist) classify(s string) {
	q := h.sh.q
	n := q.Len()
	at := func(i int) E { v, _ := q.Peek(i); return v }
	switch s[0] {
	case 'a':
		x, ok := parseElem(s[1:])
		if !ok {
			return
		}
		switch {
		case n <= 2 || (n+1)&n == 0:
			if n >= 3 {
				h.tags["add-left-spine"] = true
			}
		case h.sh.cur(at(n/2), x) <= 0 && h.sh.cur(at((n-1)/2), x) <= 0:
			h.tags["add-deep-in-order"] = true
		default:
			h.tags["F1-trigger"] = true
		}
	case 'r', 'x':
		i, ok := parseInt(s[1:])
		if !ok {
			return
		}
		if s[0] == 'x' {
			if i, ok = h.sh.pos[i]; !ok {
				return
			}
		}
		if i > 0 && i < n-1 {
			if h.sh.cur(at((i-1)/2), at(n-1)) <= 0 {
				h.tags["remove-interior-no-up"] = true
			} else {
				h.tags["F2-trigger"] = true
			}
		}
	}
}

func (h *hist) op(s string) {
	h.ops = append(h.ops, s)
	if s != "" {
		h.classify(s)
	}
	tr.Catch(func() { h.sh.do(s) })
	if n := h.sh.q.Len(); n > h.maxLen {
		h.maxLen = n
	}
	if h.maxLen >= 15 {
		h.tags["levels>=4"] = true
	}
	if h.maxLen >= 31 {
		h.tags["levels>=5"] = true
	}
}

func (h *hist) fresh(key int) E {
	if h.dup && h.nextP > 1 && h.g.R.Chance(1, 6) {
		h.tags["dup-elem"] = true
		return E{key, h.g.R.Range(1, h.nextP-1)}
	}
	e := E{key, h.nextP}
	h.nextP++
	return e
}

func (h *hist) key() int { return h.g.R.Range(1, h.keys) }

// dir picks a comparison function: mostly the two plain ones, otherwise one of the six others
func (h *hist) dir() string {
	d := "ad"[h.g.R.Intn(2)]
	if h.g.R.Chance(2, 5) {
		d = dirs[h.g.R.Range(2, len(dirs)-1)]
	}
	switch d {
	case 'A', 'D':
		h.tags["cmp-magnitude"] = true
	case 'm', 'M':
		h.tags["cmp-coarse"] = true
	case 'z':
		h.tags["cmp-all-tie"] = true
	case 'p':
		h.tags["cmp-payload"] = true
	}
	return string(d)
}

func (h *hist) add(key int) { h.op("a" + h.fresh(key).String()) }

func (h *hist) list(n int) []E {
	es := make([]E, n)
	for i := range es {
		es[i] = h.fresh(h.key())
	}
	return es
}

func (h *hist) drain() {
	h.tags["drain"] = true
	for h.sh.q.Len() > 0 {
		h.op("p")
	}
	h.op("p")
}

func (h *hist) held() []E {
	var es []E
	h.sh.q.Each(func(e E) bool { es = append(es, e); return true })
	return es
}

func (h *hist) phase() {
	r := h.g.R
	n := h.sh.q.Len()
	switch r.Intn(25) {
	case 0: // ascending run
		k := r.Range(1, 30)
		base := h.key()
		for i := 0; i < k; i++ {
			h.add(base + i)
		}
	case 1: // descending run
		k := r.Range(1, 30)
		base := h.key() + k
		for i := 0; i < k; i++ {
			h.add(base - i)
		}
	case 2: // zig-zag
		k := r.Range(2, 24)
		for i := 0; i < k; i++ {
			if i%2 == 0 {
				h.add(1 + i)
			} else {
				h.add(h.keys - i)
			}
		}
	case 3, 4, 5: // random adds
		k := r.Range(1, 20)
		for i := 0; i < k; i++ {
			h.add(h.key())
		}
	case 6, 7: // interior removals
		k := r.Range(1, 4)
		for i := 0; i < k && h.sh.q.Len() > 1; i++ {
			h.tags["interior-remove"] = true
			h.op("r" + strconv.Itoa(r.Range(1, h.sh.q.Len()-1)))
		}
		if r.Chance(1, 2) {
			h.drain()
		}
	case 8: // removal through the reported position
		es := h.held()
		k := r.Range(1, 4)
		for i := 0; i < k && len(es) > 0; i++ {
			e := tr.Pick(r, es)
			h.tags["x-remove"] = true
			h.op("x" + strconv.Itoa(e.P))
			es = h.held()
		}
		if r.Chance(1, 2) {
			h.drain()
		}
	case 9: // pops
		k := r.Range(1, 6)
		for i := 0; i < k; i++ {
			h.op("p")
		}
	case 10:
		h.drain()
	case 11: // reorder mid-life
		h.tags["reorder"] = true
		d := h.dir()
		if strings.Contains("mMz", d) && n >= 8 {
			h.tags["reorder-to-ties"] = true
		}
		h.op("o" + d)
		if r.Chance(2, 3) {
			h.drain()
		}
	case 12: // Set
		h.tags["set"] = true
		k := r.Intn(21)
		if r.Chance(1, 5) {
			k = r.Range(20, 45)
		}
		h.op("s" + elems(h.list(k)))
	case 13: // NewWithData
		h.tags["newwithdata"] = true
		h.op("w" + h.dir() + elems(h.list(r.Intn(25))))
	case 14:
		h.op("c")
	case 15:
		h.op("n" + h.dir())
	case 16: // out-of-range / negative
		h.op(tr.Pick(r, []string{"r", "k"}) + strconv.Itoa(tr.Pick(r, []int{-1, -7, n, n + 1, n + 9})))
	case 17:
		h.op("f")
		h.op("l")
		h.op("e")
	case 18:
		h.op("E" + strconv.Itoa(r.Intn(n+2)))
	case 19:
		if n > 0 {
			h.op("k" + strconv.Itoa(r.Intn(n)))
		}
	case 20: // remove the last or the root explicitly
		if n > 0 {
			h.op("r" + strconv.Itoa(tr.Pick(r, []int{0, n - 1})))
		}
	case 22, 23: // a Remove aimed at finding F2's trigger: the last element is below the parent of slot i
		var cand []int
		for i := 1; i < n-1; i++ {
			p, _ := h.sh.q.Peek((i - 1) / 2)
			l, _ := h.sh.q.Peek(n - 1)
			if h.sh.cur(l, p) < 0 {
				cand = append(cand, i)
			}
		}
		if len(cand) > 0 {
			h.tags["interior-remove"] = true
			h.op("r" + strconv.Itoa(tr.Pick(r, cand)))
			h.op("f")
			if r.Chance(2, 3) {
				h.drain()
			}
		}
	case 24: // the callback removed for a while, then installed again
		if r.Chance(1, 2) {
			h.tags["update-nil"] = true
			h.op("U0")
			for i, k := 0, r.Range(1, 6); i < k; i++ {
				switch r.Intn(3) {
				case 0:
					h.add(h.key())
				case 1:
					h.op("p")
				default:
					if m := h.sh.q.Len(); m > 0 {
						h.op("r" + strconv.Itoa(r.Intn(m)))
					}
				}
			}
			h.op("U1")
		}
	case 21: // add then immediately remove through the callback position
		e := h.fresh(h.key())
		h.op("a" + e.String())
		h.tags["x-remove"] = true
		h.op("x" + strconv.Itoa(e.P))
	}
}

func (h *hist) emit() {
	if h.nextP > 1 && h.keys <= 6 {
		h.tags["dup-keys"] = true
	}
	var tags []string
	for t := range h.tags {
		tags = append(tags, t)
	}
	h.g.Emit("H "+strings.Join(h.ops, ";"), h.maxLen >= 8, tags...)
}

func permutations(n int, f func(p []int)) {
	p := make([]int, n)
	for i := range p {
		p[i] = i + 1
	}
	var rec func(k int)
	rec = func(k int) {
		if k == n {
			f(p)
			return
		}
		for i := k; i < n; i++ {
			p[k], p[i] = p[i], p[k]
			rec(k + 1)
			p[k], p[i] = p[i], p[k]
		}
	}
	rec(0)
}

func main() {
	tr.Main("heapq histories built in phases against a shadow queue (ascending, descending, zig-zag and random insertion runs reaching 4-6 heap levels, interior Remove by index and by reported position followed by full drains, Reorder and Set mid-life, NewWithData adoption, Clear/New, Update(nil) for a while and Update(callback) again, negative and out-of-range Remove/Peek, Front/Pop on empty, Each with early stop; key ranges from 3 (many duplicates) to 1000; eight comparison functions at New/NewWithData/Reorder/Sort: by key in both directions, 3*(a-b) and 7*(b-a), key/4 in both directions (coarse), constant 0, by payload; Adds and Removes are tagged by the trigger conditions of findings F1/F2; C05 also repeats whole elements, C06 keeps payloads distinct); exhaustive small scopes: every insertion order of 1..5 then drain, every heap-ordered array of 5..7 (thorough 5..9) distinct keys through Set then Remove(i) for every i then drain, every permutation of 1..5 (thorough 1..6) through Set then Remove(i) then drain, every permutation of 1..5 through NewWithData in both directions and under the six other comparison functions with a Reorder to a coarse one; every heap-ordered array of 3..7 keys through Set then Add of every rank then drain; heapq.Sort on random slices of length 0..40 in both directions; Set on heapq.Queue[struct{}] of 0..4096 and of more than 2^62 elements (known finding F14). Scale stream (B lines, batched operations, records bounded by FNV digests of the layout, of the sorted contents and of the callback log): queues of 2^k-1, 2^k, 2^k+1 elements for k up to 12 built by Add, by Set and by NewWithData (spare capacity too) from arithmetic key patterns (ascending, descending, zig-zag, all equal, runs of 33..100 equal keys, random over 2..100000 keys) with distinct payloads, every observer on them (Len, IsEmpty, Front, Each to the end and stopped, Peek at every offset, Peek(-1), Peek(Len)), one interior Remove per heap level, Remove through reported positions, grow / drain to an eighth..a half by Pop / observe / regrow / drain, Reorder in mid-life at even and odd sizes, Update(nil) .. Update(callback) cycles in mid-life, Set with an empty and a one-element slice as a reset and a big Set into the old buffer, long runs of equal priorities, random batched histories up to 3000 elements; heapq.Sort of 2^k-1, 2^k, 2^k+1 elements up to 1025. Round 4: the same contents reached by eight different histories (Set, Adds, Adds with extras removed through their reported positions, drained by Pop / by Remove / cleared and put in again, a larger queue drained long ago then Clear, elements taken out one by one and put back) followed by the whole observer set, an Add, removals through reported positions and a drain; damaged states: the queue is driven without resets until the front is not minimal (known finding F1), the insertion point is steered so that offset n/2 or (n-1)/2 is a chosen held element (one ranking before the front when there is one) and a key around that element, around the front, between them, before or behind everything is added with the callback installed, then removed through its reported position; capacity history (B lines): buffers of capacity 2^k-1, 2^k, 2^k+1 for k = 8..13 (spare capacity of the slice adopted by NewWithData) and buffers really grown to 1023..1025 and beyond 4096 by Set, Adds, NewWithData, brought back to few or no elements by Clear, Set of nothing or of one element, Pops or Removes, optionally cleared again, then every operation with every report checked; the sweep (B lines): every queue length 0..600 (quick tier: every one up to 160, every fifth beyond) built by Add, Set, NewWithData in turn, then Add, interior Remove, Pop, Reorder to a different comparison function and the observers each at exactly that length in a random order, and a Set of exactly as many elements as the buffer holds, one fewer, one or two more; heapq.Sort at every length 0..1100 (T lines: the argument is a window of a larger array with spare capacity 0, 1, n, 3n, 3n+1, 4n or what brings the capacity to 1023..1025, 2048, 4097 and 0, 1, 3 or 64 elements in front; the whole array is looked at after the call: order of the window under the comparison function, digest of its comparison classes, digest of its contents sorted by (key, payload), elements outside it). Non-trivial: the history held at least 8 elements at some point, or a Sort of at least 2 elements.",
		exec, func(g *tr.G) {
			dup := g.Prop != "C06"
			// exhaustive small scopes
			permutations(5, func(p []int) {
				var ops []string
				for i, k := range p {
					ops = append(ops, "a"+E{k, i + 1}.String())
				}
				ops = append(ops, "p", "p", "p", "p", "p", "p")
				g.Emit("H "+strings.Join(ops, ";"), false, "exhaustive-add5")
			})
			// Set of an array that already is a heap (so Set leaves the layout alone), Remove at every
			// index, then drain: sizes 5..7 (quick), 5..9 (thorough).  Size 7 is the smallest that
			// shows finding F2 through a non-minimal Pop.
			for n := 5; n <= g.Scale(7, 9); n++ {
				permutations(n, func(p []int) {
					for i := 1; i < n; i++ {
						if p[(i-1)/2] > p[i] {
							return
						}
					}
					es := make([]E, n)
					for i, k := range p {
						es[i] = E{k, i + 1}
					}
					for i := 0; i < n; i++ {
						g.Emit("H s"+elems(es)+";r"+strconv.Itoa(i)+strings.Repeat(";p", n), false, "exhaustive-setheap-remove", "interior-remove", "drain", "set")
					}
				})
			}
			// every permutation of 1..5 (thorough: 1..6) through Set, one Remove, drain
			permutations(g.Scale(5, 6), func(p []int) {
				es := make([]E, len(p))
				for i, k := range p {
					es[i] = E{k, i + 1}
				}
				for i := 0; i < len(p); i++ {
					g.Emit("H s"+elems(es)+";r"+strconv.Itoa(i)+strings.Repeat(";p", len(p)), false, "exhaustive-set-remove", "interior-remove", "drain", "set")
				}
			})
			permutations(5, func(p []int) {
				es := make([]E, len(p))
				for i, k := range p {
					es[i] = E{k, i + 1}
				}
				for _, d := range []string{"a", "d"} {
					g.Emit("H w"+d+elems(es)+";p;a3.9;p;p;p;p;p;p", false, "exhaustive-newwithdata5", "newwithdata")
				}
			})
			// every heap-ordered array of 4..7 keys (2,4,..,2n) through Set, then Add of every key
			// 1..2n+1 (every rank between, below, above and equal to the held ones), then drain: Add at
			// every offset 4..7 with every outcome of pushUp's comparisons (finding F1's trigger and
			// its harmless cases); the same for 3 (an offset where i/2 is the parent)
			for n := 3; n <= 7; n++ {
				permutations(n, func(p []int) {
					for i := 1; i < n; i++ {
						if p[(i-1)/2] > p[i] {
							return
						}
					}
					es := make([]E, n)
					for i, k := range p {
						es[i] = E{2 * k, i + 1}
					}
					for x := 1; x <= 2*n+1; x++ {
						g.Emit("H s"+elems(es)+";a"+E{x, n + 1}.String()+strings.Repeat(";p", n+2), false, "exhaustive-setheap-add", "drain", "set")
					}
				})
			}
			// comparison functions other than the plain ones on small exhaustive scopes: every
			// permutation of 1..5 through NewWithData under each, an Add, a Reorder to a coarse one, drain
			permutations(5, func(p []int) {
				es := make([]E, len(p))
				for i, k := range p {
					es[i] = E{k, 6 - i}
				}
				for _, d := range []string{"A", "D", "m", "M", "z", "p"} {
					g.Emit("H w"+d+elems(es)+";p;a3.9;f;om;p;p;oz;p;p;p;p", false, "exhaustive-newwithdata5-cmps", "newwithdata", "reorder")
				}
			})
			// random histories; a part of them short (small states are where index bugs show first)
			for i := 0; i < g.Scale(3800, 20000); i++ {
				keys := tr.Pick(g.R, []int{3, 6, 20, 100, 1000})
				h := newHist(g, dup, keys)
				target := g.R.Range(20, 90)
				if g.R.Chance(1, 10) {
					target = g.R.Range(120, 200)
				} else if g.R.Chance(2, 5) {
					target = g.R.Range(6, 30)
				}
				for len(h.ops) < target {
					h.phase()
				}
				if g.R.Chance(2, 3) {
					h.drain()
				}
				h.emit()
			}
			// Sort
			if g.Prop != "C06" {
				for i := 0; i < g.Scale(4000, 60000); i++ {
					n := g.R.Intn(41)
					if g.R.Chance(1, 5) {
						n = g.R.Intn(4)
					}
					keys := tr.Pick(g.R, []int{2, 5, 50, 1000})
					es := make([]E, n)
					for j := range es {
						es[j] = E{g.R.Range(1, keys), j + 1}
					}
					tags := []string{"sort"}
					if n == 2 {
						tags = append(tags, "sort-len2")
					}
					d := "ad"[g.R.Intn(2)]
					if g.R.Chance(1, 3) {
						d = dirs[g.R.Range(2, len(dirs)-1)]
						tags = append(tags, "sort-other-cmp")
					}
					g.Emit("S "+string(d)+elems(es), n >= 2, tags...)
				}
				// the zero-size element type: small sizes, and sizes above 2^62 where the child index
				// 2*i+1 leaves the int range (known finding F14; immediate, allocates nothing)
				for _, n := range []int{0, 1, 2, 3, 100, 4096} {
					g.Emit("Z "+strconv.Itoa(n), n >= 2, "zero-size")
				}
				for _, n := range []int{1<<62 + 1, 1<<62 + 2, 1<<63 - 1 - 7, 1<<63 - 1} {
					g.Emit("Z "+strconv.Itoa(n), true, "zero-size", "zero-size-above-2^62")
				}
				permutations(4, func(p []int) {
					es := make([]E, len(p))
					for i, k := range p {
						es[i] = E{k, i + 1}
					}
					for n := 0; n <= 4; n++ {
						g.Emit("S a"+elems(es[:n]), n >= 2, "sort", "exhaustive-sort4")
					}
				})
			}
			// the scale stream (big.go)
			genScale(g)
			// round 4 (r4.go): histories to the same contents, damaged states, capacity history, the
			// sweep over every length, Sort at every length
			genRound4(g)
		})
}
