// Round 6.
//
// (a) Drain sweeps: arithmetic progressions of sizes for the rebuild thresholds of the tree below the map.
// The Delete that takes the tree under (250*peak+1000)/2000 keys rebuilds it, and after that rebuild the
// peak is the size it had then - so a map drained key by key is rebuilt again and again, each time with
// a count that depends on the peak it started from.  The size sweep of round 4 stops one Delete after
// the FIRST rebuild and the big maps go to fractions of the peak; a rebuild that goes wrong for one
// particular count of keys (2^k-3 of them, say: 1, 5, 13, 29 ...) shows only when a drain passes through
// that count at the moment a rebuild is due.  Here: every peak 0..130, grown in a rotating order, drained
// ONE Delete at a time (lowest key first, highest first, a random one) all the way to the empty map,
// with the probe of every key (Q1: Len, Keys, Seek / GetOK / Get / Next / Prev / zig-zag / Iter.Seek from
// every key, First..Next and Last..Prev sweeps) after every single Delete below 41 keys (thorough: after
// every Delete), then the same keys again and a second drain (the peak is then what the first drain left).
//
// (b) Iterators taken when the map was EMPTY: First / Last / Seek on a map that holds nothing (new, emptied by
// Clear, emptied key by key, through the copy of the Map value), kept while entries are Set, and then
// re-synchronized with Iter.Seek(k) - the documented way to use an iterator on after edits - for every
// target below, at, between and above the keys; then moved.  Observers before the first edit and after the
// last one.  Int keys (natural and magnitude comparators) and string keys.
package main

import (
	"strconv"
	"strings"

	"verif/harness/internal/tr"
)

func (x *gen) drainLines() {
	g := x.g
	r := tr.NewRand(tr.NewRand(g.Seed).Uint64() ^ 0xC04D6A)
	its := strconv.Itoa
	const fullBelow = 41
	pats := "adzrib"
	cmps := []string{"n", "n", "a", "n", "x", "n", "D", "n", "r"}
	n := 0
	for p := 0; p <= 130; p++ {
		for oi, ord := range "lhr" {
			n++
			at := func() string { // a fifth of the Deletes through the copy of the Map value
				if r.Chance(1, 5) {
					return "@"
				}
				return ""
			}
			ops := []string{"Q1", "B" + string(pats[(p+oi)%len(pats)]) + ":0:" + its(p) + ":3:" + its(r.Intn(1000)), "Q1"}
			drain := func(from int) {
				for c := from - 1; c >= 0; c-- {
					if !g.Thorough() && c >= fullBelow {
						// quick: down to 41 keys in one macro (it deletes key by key; no probe in between)
						c = fullBelow
						ops = append(ops, at()+"D"+string(ord)+":"+its(c)+":"+its(r.Intn(1000)), "l")
						continue
					}
					ops = append(ops, at()+"D"+string(ord)+":"+its(c)+":"+its(r.Intn(1000)), "Q1")
				}
			}
			drain(p)
			tags := []string{"drain-sweep", "drain-sweep-" + string(ord)}
			if p%3 == oi && p >= 8 {
				// the same keys again (half of them): the peak is now what the drain left behind, not p
				q := p / 2
				ops = append(ops, "B"+string(pats[(p+oi+1)%len(pats)])+":0:"+its(q)+":3:"+its(r.Intn(1000)), "Q1")
				drain(q)
				tags = append(tags, "drain-sweep-twice")
			}
			ops = append(ops, "l", "k", "t", "F0", "L1", "S2=3")
			g.Emit("M "+cmps[n%len(cmps)]+" n "+strings.Join(ops, ";"), p >= 1, tags...)
		}
	}
}

func (x *gen) emptyIterLines() {
	g := x.g
	r := tr.NewRand(tr.NewRand(g.Seed).Uint64() ^ 0xC04E17)
	type base struct {
		head          string
		keys          []string // what is Set afterwards, in the comparator's order
		targets       []string // Iter.Seek targets: below, at, between, above
		v1, v2, fresh string
	}
	bases := []base{
		{"M n n ", []string{"10", "20", "30"}, []string{"5", "10", "15", "20", "25", "30", "35"}, "1", "2", "99"},
		{"M a n ", []string{"10", "20", "30"}, []string{"5", "10", "15", "20", "25", "30", "35"}, "1", "2", "99"},
		{"M X n ", []string{"30", "20", "10"}, []string{"35", "30", "25", "20", "15", "10", "5"}, "1", "2", "99"},
		{"M n n ", []string{"7"}, []string{"6", "7", "8"}, "1", "2", "99"},
		{"T n n ", []string{"~", "b", "bb"}, []string{"~", "a", "b", "ba", "bb", "c"}, "p", "~", "zz"},
		{"T r n ", []string{"bb", "b", "~"}, []string{"c", "bb", "ba", "b", "a", "~"}, "p", "~", "zz"},
	}
	// how the map came to be empty
	empties := func(b base) [][]string {
		k0 := b.keys[0]
		return [][]string{
			nil,           // new
			{"l", "k", "t"}, // observers before the first edit
			{"s" + k0 + "=" + b.v1, "c"},
			{"s" + k0 + "=" + b.v1, "d" + k0},
			{"s" + k0 + "=" + b.v1, "s" + b.fresh + "=" + b.v2, "d" + b.fresh, "d" + k0},
			{"s" + k0 + "=" + b.v1, "@c"},
			{"d" + k0, "c"},
		}
	}
	// how the iterator is taken (register 0), through the Map or through its copy
	takes := []string{"F0", "L0", "@F0", "@L0", "S0=", "@S0="}
	for _, b := range bases {
		for ei, emp := range empties(b) {
			for ti, take := range takes {
				for gi, tgt := range b.targets {
					if !g.Thorough() && (ei+ti+gi)%2 != 0 && ti >= 2 {
						continue
					}
					tk := take
					if strings.HasSuffix(tk, "=") {
						tk += b.targets[(gi+ti)%len(b.targets)]
					}
					ops := append([]string(nil), emp...)
					ops = append(ops, tk, "l")
					// the entries arrive while the iterator is held
					for _, j := range perm(r, len(b.keys)) {
						at := ""
						if r.Chance(1, 4) {
							at = "@"
						}
						ops = append(ops, at+"s"+b.keys[j]+"="+[]string{b.v1, b.v2}[j%2])
					}
					// re-synchronize, look, move; a second register taken now for comparison
					ops = append(ops, "e0="+tgt, "S1="+tgt, "n0", "n1", "e0="+tgt, "p0", "e0="+tgt, "N0")
					// and once more after a further edit
					other := b.targets[(gi+3)%len(b.targets)]
					ops = append(ops, "d"+b.keys[len(b.keys)/2], "e0="+other, "P0", "e0="+other, "s"+b.fresh+"="+b.v1, "e0="+tgt, "n0")
					// observers after the last edit
					ops = append(ops, "l", "k", "t", "F2", "N2", "L2", "P2")
					tags := []string{"empty-map-iterator", "empty-map-iterator-" + strings.TrimLeft(take, "@")[:1]}
					if strings.HasPrefix(b.head, "T") {
						tags = append(tags, "string-keys")
					}
					g.Emit(b.head+strings.Join(ops, ";"), true, tags...)
				}
			}
		}
	}
}
