// Big maps (round 3): macro operations of the M lines (Map[int,int]) whose key sequences are
// arithmetic (the OCaml driver expands them the same way), so that a line stays short however big
// the map is.  Each yields ONE item:
//
//	B<pat>:<lo>:<n>:<step>:<seed>   Set(k, bigVal(k, seed)) for the n keys k = lo+step*j, j in the order <pat>
//	                                of 0..n-1: a ascending, d descending, z outside-in, i inside-out,
//	                                r random (LCG seed), b breadth-first order of the ideal balanced tree,
//	                                B its reverse.   item b<number of Sets that returned true>
//	D<ord>:<keep>:<seed>            Delete keys until <keep> remain; the keys of Keys() are numbered
//	                                0..L-1; deleted, in this order: l the lowest ascending, h the highest
//	                                descending, o outside-in, i inside-out, b/B the ideal breadth-first
//	                                order / its reverse, r random, e/E all but <keep> evenly spaced keys
//	                                ascending / descending, s/p the shallowest / deepest keys first by
//	                                their REAL depth in the tree below the map, measured through the public
//	                                API as the number of comparator calls GetOK(key) makes (only for a
//	                                Map from NewFunc, i.e. a comparator other than n; ties by rank); P the
//	                                keys with the shortest longest root-to-leaf path through them first
//	                                (the keys GetOK(k) compares k with are k's ancestors): what remains are
//	                                the deepest keys WITH their ancestors.
//	                                item d<number of Deletes that returned true>
//	Q<s>                            probe every key, see probe() for the item
package main

import (
	"fmt"
	"sort"
	"strconv"
	"strings"

	"github.com/creachadair/mds/omap"
	"verif/harness/internal/tr"
)

// ---------------------------------------------------------------- digest, LCG, orders (mirrored in ocaml/omap_driver.ml; the same as in cmd/cursortrace/scale.go)

const (
	dgP1 = 2147483647
	dgM1 = 1000003
	dgP2 = 2147483629
	dgM2 = 1000033
)

type dig struct{ h1, h2 int64 }

func (d *dig) add(x int) {
	v1 := ((int64(x) % dgP1) + dgP1) % dgP1
	v2 := ((int64(x) % dgP2) + dgP2) % dgP2
	d.h1 = (d.h1*dgM1 + v1 + 12345) % dgP1
	d.h2 = (d.h2*dgM2 + v2 + 54321) % dgP2
}

func (d *dig) addStr(s string) {
	for i := 0; i < len(s); i++ {
		d.add(int(s[i]))
	}
	d.add(-1)
}

func (d *dig) String() string { return fmt.Sprintf("%08x%08x", d.h1, d.h2) }

func digestOf(xs []int) string {
	var d dig
	for _, x := range xs {
		d.add(x)
	}
	return d.String()
}

const plainMax = 200

// zigzag: the moves of the probe's direction-changing walk (n Next, p Prev)
const zigzag = "npppnnpn"

func fmtInts(xs []int) string {
	if len(xs) <= plainMax {
		return tr.Ints(xs)
	}
	return fmt.Sprintf("#%d~%d~%d~%s", len(xs), xs[0], xs[len(xs)-1], digestOf(xs))
}

type lcg struct{ x int64 }

func (l *lcg) next() int {
	l.x = (l.x*1103515245 + 12345) % 2147483648
	return int(l.x >> 8)
}

func permOf(n, seed int) []int {
	p := make([]int, n)
	for i := range p {
		p[i] = i
	}
	l := &lcg{x: int64(((seed % 2147483648) + 2147483648) % 2147483648)}
	for i := n - 1; i > 0; i-- {
		j := l.next() % (i + 1)
		p[i], p[j] = p[j], p[i]
	}
	return p
}

func reversed(p []int) []int {
	out := make([]int, len(p))
	for i, x := range p {
		out[len(p)-1-i] = x
	}
	return out
}

// orderIdx: the indices 0..n-1 in the order named by pat (nil for an unknown name)
func orderIdx(pat byte, n, seed int) []int {
	out := make([]int, 0, n)
	switch pat {
	case 'a':
		for i := 0; i < n; i++ {
			out = append(out, i)
		}
	case 'd':
		for i := n - 1; i >= 0; i-- {
			out = append(out, i)
		}
	case 'z':
		lo, hi := 0, n-1
		for lo <= hi {
			out = append(out, lo)
			if lo != hi {
				out = append(out, hi)
			}
			lo++
			hi--
		}
	case 'i':
		return reversed(orderIdx('z', n, seed))
	case 'r':
		return permOf(n, seed)
	case 'b':
		type rg struct{ lo, hi int }
		q := []rg{{0, n - 1}}
		for len(q) > 0 {
			g := q[0]
			q = q[1:]
			if g.lo > g.hi {
				continue
			}
			mid := g.lo + (g.hi-g.lo)/2
			out = append(out, mid)
			q = append(q, rg{g.lo, mid - 1}, rg{mid + 1, g.hi})
		}
	case 'B':
		return reversed(orderIdx('b', n, seed))
	default:
		return nil
	}
	return out
}

// removalIdx: which ranks (of L keys) to remove, in order, so that keep remain
func removalIdx(ord byte, L, keep, seed int, metric func(ord byte) []int) []int {
	m := L - keep
	if m <= 0 || keep < 0 {
		return nil
	}
	switch ord {
	case 'l':
		return orderIdx('a', L, 0)[:m]
	case 'h':
		return orderIdx('d', L, 0)[:m]
	case 'o':
		return orderIdx('z', L, 0)[:m]
	case 'i', 'b', 'B':
		return orderIdx(ord, L, 0)[:m]
	case 'r':
		return permOf(L, seed)[:m]
	case 'e', 'E':
		kept := make([]bool, L)
		for j := 0; j < keep; j++ {
			kept[j*L/keep] = true
		}
		var out []int
		for i := 0; i < L; i++ {
			if !kept[i] {
				out = append(out, i)
			}
		}
		if ord == 'E' {
			out = reversed(out)
		}
		return out
	case 's', 'p', 'P':
		d := metric(ord)
		idx := orderIdx('a', L, 0)
		sort.SliceStable(idx, func(a, b int) bool {
			if ord == 'p' {
				return d[idx[a]] > d[idx[b]]
			}
			return d[idx[a]] < d[idx[b]]
		})
		return idx[:m]
	}
	return nil
}

// ---------------------------------------------------------------- macro operations

const maxBigKeys = 20000

func atoiOK(s string) (int, bool) {
	n, err := strconv.Atoi(s)
	return n, err == nil
}

func bigVal(k, seed int) int { return (((k*7+seed)%1000)+1000)%1000 + 1 }

func iterKey(it *omap.Iter[int, int]) int {
	if it.IsValid() {
		return it.Key()
	}
	return -1
}

func iterVal(it *omap.Iter[int, int]) int {
	if it.IsValid() {
		return it.Value()
	}
	return -1
}

// probe: from EVERY key k of Keys() (rank i):
//
//	n        Len;   keys  Keys() (in full up to 200 keys, else #len~first~last~digest)
//	nv fb    number of valid Seek(k) positioned at k; the first k where Seek(k) is invalid or at another key ("-" if none)
//	dkey dval  digest of Seek(k).Key() / .Value()
//	nget dget  GetOK(k): number found; digest of GetOK's value, then Get's
//	dabs     Seek(k+1): its key, or -1 if invalid
//	dnext dprev  from Seek(k), s times Next (Prev): key and value (or -1, -1) after every step
//	dzig     from Seek(k): Next,Prev,Prev,Prev,Next,Next,Prev,Next, key and value (or -1, -1) after every step
//	dre      the iterator left by the Prev steps re-synchronized with Iter.Seek(k): its key and value
//	nfwd dfwd dvfwd  First() then Next to the end: number of entries, digest of keys, of values
//	nbwd dbwd  Last() then Prev: number, digest of the reversed key list
func probe(h omap.Map[int, int], s int) string {
	keys := h.Keys()
	n := len(keys)
	var dkey, dval, dget, dabs, dnext, dprev, dzig, dre dig
	nv, nget := 0, 0
	fb := "-"
	for _, k := range keys {
		it := h.Seek(k)
		if it.IsValid() && it.Key() == k {
			nv++
		} else if fb == "-" {
			fb = strconv.Itoa(k)
		}
		dkey.add(it.Key())
		dval.add(it.Value())
		if v, ok := h.GetOK(k); ok {
			nget++
			dget.add(v)
		} else {
			dget.add(-1)
		}
		dget.add(h.Get(k))
		dabs.add(iterKey(h.Seek(k + 1)))
		for j := 0; j < s; j++ {
			it.Next()
			dnext.add(iterKey(it))
			dnext.add(iterVal(it))
		}
		it = h.Seek(k)
		for j := 0; j < s; j++ {
			it.Prev()
			dprev.add(iterKey(it))
			dprev.add(iterVal(it))
		}
		iz := h.Seek(k)
		for _, ch := range zigzag {
			if ch == 'n' {
				iz.Next()
			} else {
				iz.Prev()
			}
			dzig.add(iterKey(iz))
			dzig.add(iterVal(iz))
		}
		it.Seek(k)
		dre.add(iterKey(it))
		dre.add(iterVal(it))
	}
	var fwd, vfwd, bwd []int
	it := h.First()
	for step := 0; it.IsValid() && step < n+2; step++ {
		fwd = append(fwd, it.Key())
		vfwd = append(vfwd, it.Value())
		it.Next()
	}
	it = h.Last()
	for step := 0; it.IsValid() && step < n+2; step++ {
		bwd = append(bwd, it.Key())
		it.Prev()
	}
	bwd = reversed(bwd)
	f := []string{
		"n=" + strconv.Itoa(h.Len()), "keys=" + fmtInts(keys),
		"nv=" + strconv.Itoa(nv), "fb=" + fb, "dkey=" + dkey.String(), "dval=" + dval.String(),
		"nget=" + strconv.Itoa(nget), "dget=" + dget.String(), "dabs=" + dabs.String(),
		"dnext=" + dnext.String(), "dprev=" + dprev.String(), "dzig=" + dzig.String(), "dre=" + dre.String(),
		"nfwd=" + strconv.Itoa(len(fwd)), "dfwd=" + digestOf(fwd), "dvfwd=" + digestOf(vfwd),
		"nbwd=" + strconv.Itoa(len(bwd)), "dbwd=" + digestOf(bwd),
	}
	return "q/" + strings.Join(f, "/")
}

// cmpLog: what the comparator given to NewFunc records while on: the second argument of every call
// (stree calls compare(key, node key): the keys a lookup is compared with are the nodes on its path)
type cmpLog struct {
	on   bool
	seen []int
}

// intMacro returns the function that runs a B, D or Q operation on h; handled is false when op is
// none of them, edited reports that the map may have changed (iterators positioned before are
// stale).  lg is the log the map's comparator writes, nil for omap.New.
func intMacro(lg *cmpLog) func(h omap.Map[int, int], op string) (item string, handled, edited bool) {
	return func(h omap.Map[int, int], op string) (string, bool, bool) { return intMacroOp(lg, h, op) }
}

func intMacroOp(lg *cmpLog, h omap.Map[int, int], op string) (item string, handled, edited bool) {
	if op == "" {
		return "", false, false
	}
	switch op[0] {
	case 'B':
		a := strings.Split(op[1:], ":")
		if len(a) != 5 || len(a[0]) != 1 {
			return "?", true, false
		}
		lo, ok1 := atoiOK(a[1])
		n, ok2 := atoiOK(a[2])
		step, ok3 := atoiOK(a[3])
		seed, ok4 := atoiOK(a[4])
		if !ok1 || !ok2 || !ok3 || !ok4 || n < 0 || n > maxBigKeys {
			return "?", true, false
		}
		idx := orderIdx(a[0][0], n, seed)
		if idx == nil && n > 0 {
			return "?", true, false
		}
		cnt := 0
		for _, j := range idx {
			k := lo + step*j
			if h.Set(k, bigVal(k, seed)) {
				cnt++
			}
		}
		return "b" + strconv.Itoa(cnt), true, true
	case 'D':
		a := strings.Split(op[1:], ":")
		if len(a) != 3 || len(a[0]) != 1 {
			return "?", true, false
		}
		keep, ok1 := atoiOK(a[1])
		seed, ok2 := atoiOK(a[2])
		if !ok1 || !ok2 || !strings.Contains("lhoibBreEspP", a[0]) || (lg == nil && strings.Contains("spP", a[0])) {
			return "?", true, false
		}
		keys := h.Keys()
		cnt := 0
		metric := func(ord byte) []int {
			// s/p: the number of nodes on the path to each key; P: the largest such number among the keys
			// below it (itself included)
			rank := make(map[int]int, len(keys))
			for i, k := range keys {
				rank[k] = i
			}
			d := make([]int, len(keys))
			for i, k := range keys {
				lg.on, lg.seen = true, lg.seen[:0]
				h.GetOK(k)
				lg.on = false
				if ord != 'P' {
					d[i] = len(lg.seen)
					continue
				}
				for _, a := range lg.seen {
					if j, ok := rank[a]; ok && len(lg.seen) > d[j] {
						d[j] = len(lg.seen)
					}
				}
			}
			return d
		}
		for _, j := range removalIdx(a[0][0], len(keys), keep, seed, metric) {
			if h.Delete(keys[j]) {
				cnt++
			}
		}
		return "d" + strconv.Itoa(cnt), true, true
	case 'Q':
		s, ok := atoiOK(op[1:])
		if !ok || s < 0 || s > 64 {
			return "?", true, false
		}
		return probe(h, s), true, false
	}
	return "", false, false
}

var _ = tr.Ints
