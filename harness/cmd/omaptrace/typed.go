// Round 5: omap.New at the other ordered key types, and every constructor.
//
//	K <type> <cmp> <kind> <ops>  |  <item>;...
//
// Keys and values are written as small integer CODES in ops and items; the table of the type maps a code
// to the real key (ocaml/omap_driver.ml has the same tables: per code its rank in cmp.Compare's total
// order - equal ranks are equivalent keys - and its %v text).  ops and items as in the M lines (no macros).
//
//	type   key type / value type
//	f64    float64 / int          codes: two NaNs of different bits, -Inf, -MaxFloat64, .., -5e-324, -0, +0,
//	f32    float32 / int                 5e-324, smallest normal, 0.1, 0.3, 0.1+0.2, 1, nextafter(1), 2.5,
//	nf     type celsius float64 / int    2^53, 2^53+2, 1e21, MaxFloat64, +Inf (f32: the float32 counterparts)
//	i8     int8 / bool            code = the key (-128..127); value code 0 = false, other = true
//	u8     uint8 / [5]int64       code = the key (0..255); value code v = {v, v+1, v+2, v+3, v+4} (a 40-byte value), 0 = all zero
//	i64    int64 / int            MinInt64, MinInt64+1, -2^53-1, -2, -1, 0, 1, 2, 2^53+1, MaxInt64-1, MaxInt64
//	u64    uint64 / *int          0, 1, 2, 2^31, 2^32, 2^63-1, 2^63, 2^63+1, MaxUint64-1, MaxUint64;
//	                              value code 0 = nil, v = a pointer to an int holding v (no String op)
//	ns     type label string / string    "", NUL, blank, A, Z, a, a NUL, aa, ab, b, z, 0x7f, 0x80, e-acute, 0xff;
//	                              value code 0 = "", v = "v<v>"
//	cmp    n omap.New[K,V]()   c omap.NewFunc(cmp.Compare[K])   w omap.NewFunc of a total order written out
//	       here (NaN below everything and equal to itself, -0 = +0)   r the same reversed
//	kind   n a Map from the constructor, z the zero Map
//
// The reference order is cmp.Compare's: a total order, NaN first and equal to every NaN, -0 equal to +0.
package main

import (
	"cmp"
	"fmt"
	"math"
	"strconv"
	"strings"

	"github.com/creachadair/mds/omap"
	"verif/harness/internal/tr"
)

type celsius float64
type label string

var f64Table = []float64{
	math.Float64frombits(0x7FF8000000000001), math.Float64frombits(0xFFF8000000000000), // NaN, NaN (sign bit set)
	math.Inf(-1), -math.MaxFloat64, -2.5, -1, -math.SmallestNonzeroFloat64, math.Copysign(0, -1), 0,
	math.SmallestNonzeroFloat64, 2.2250738585072014e-308, 0.1, 0.3, 0.30000000000000004, 1, 1.0000000000000002, 2.5,
	9007199254740992, 9007199254740994, 1e21, math.MaxFloat64, math.Inf(1),
}

var f32Table = []float32{
	math.Float32frombits(0x7FC00001), math.Float32frombits(0xFFC00000),
	float32(math.Inf(-1)), -math.MaxFloat32, -2.5, -1, -math.SmallestNonzeroFloat32, float32(math.Copysign(0, -1)), 0,
	math.SmallestNonzeroFloat32, 1.1754944e-38, 0.1, 0.3, 0.30000004, 1, 1.0000001, 2.5,
	16777216, 16777218, 1e21, math.MaxFloat32, float32(math.Inf(1)),
}

var i64Table = []int64{math.MinInt64, math.MinInt64 + 1, -(1 << 53) - 1, -2, -1, 0, 1, 2, 1<<53 + 1, math.MaxInt64 - 1, math.MaxInt64}
var u64Table = []uint64{0, 1, 2, 1 << 31, 1 << 32, 1<<63 - 1, 1 << 63, 1<<63 + 1, math.MaxUint64 - 1, math.MaxUint64}
var nsTable = []label{"", "\x00", " ", "A", "Z", "a", "a\x00", "aa", "ab", "b", "z", "\x7f", "\x80", "\xc3\xa9", "\xff"}

// tableCodec: codes 0..len-1 stand for the entries of tab; ident maps a key to something comparable that
// tells all entries apart (the bits of a float: NaNs and zeros differ only there)
func tableCodec[K any, I comparable](tab []K, ident func(K) I, poison K) codec[K] {
	back := map[I]int{}
	for i, k := range tab {
		back[ident(k)] = i
	}
	return codec[K]{
		parse: func(s string) K {
			i, err := strconv.Atoi(s)
			if err != nil || i < 0 || i >= len(tab) {
				var zero K
				return zero
			}
			return tab[i]
		},
		show: func(k K) string {
			if i, ok := back[ident(k)]; ok {
				return strconv.Itoa(i)
			}
			return "?" + escToken(fmt.Sprint(k))
		},
		poison: poison,
	}
}

func intLikeCodec[K int8 | uint8](poison K) codec[K] {
	return codec[K]{
		parse:  func(s string) K { n, _ := strconv.Atoi(s); return K(n) },
		show:   func(k K) string { return strconv.Itoa(int(k)) },
		poison: poison,
	}
}

type wide [5]int64

var boolCodec = codec[bool]{parse: func(s string) bool { n, _ := strconv.Atoi(s); return n != 0 }, show: func(b bool) string { return tr.B(b) }}
var wideCodec = codec[wide]{
	parse: func(s string) wide {
		n, _ := strconv.Atoi(s)
		if n == 0 { // code 0 = the zero value
			return wide{}
		}
		v := int64(n)
		return wide{v, v + 1, v + 2, v + 3, v + 4}
	},
	show: func(w wide) string {
		if w == (wide{}) { // the zero value, as Get of an absent key returns it
			return "0"
		}
		for i := 1; i < 5; i++ {
			if w[i] != w[0]+int64(i) {
				return "?" + escToken(fmt.Sprint(w))
			}
		}
		return strconv.FormatInt(w[0], 10)
	},
}
var ptrCodec = codec[*int]{
	parse: func(s string) *int {
		n, _ := strconv.Atoi(s)
		if n == 0 {
			return nil
		}
		return &n
	},
	show: func(p *int) string {
		if p == nil {
			return "0"
		}
		return strconv.Itoa(*p)
	},
}
var labelValCodec = codec[string]{
	parse: func(s string) string {
		if s == "0" {
			return ""
		}
		return "v" + s
	},
	show: func(s string) string {
		if s == "" {
			return "0"
		}
		if strings.HasPrefix(s, "v") {
			return s[1:]
		}
		return "?" + escToken(s)
	},
	poison: "POISON",
}

// total: the natural total order written out: NaN (the only values unequal to themselves) below
// everything else and equal to each other, otherwise by < and >
func total[K cmp.Ordered](a, b K) int {
	an, bn := a != a, b != b
	switch {
	case an && bn:
		return 0
	case an:
		return -1
	case bn:
		return 1
	case a < b:
		return -1
	case a > b:
		return 1
	}
	return 0
}

func typedRun[K cmp.Ordered, V any](cmpName string, zero bool, ops string, kc codec[K], vc codec[V]) string {
	var mk func() omap.Map[K, V]
	switch cmpName {
	case "n":
		mk = func() omap.Map[K, V] { return omap.New[K, V]() }
	case "c":
		mk = func() omap.Map[K, V] { return omap.NewFunc[K, V](cmp.Compare[K]) }
	case "w":
		mk = func() omap.Map[K, V] { return omap.NewFunc[K, V](total[K]) }
	case "r":
		mk = func() omap.Map[K, V] { return omap.NewFunc[K, V](func(a, b K) int { return total(b, a) }) }
	default:
		return "?"
	}
	return run(ops, zero, mk, kc, vc, nil)
}

func execTyped(f []string) string {
	if len(f) < 4 {
		return "?"
	}
	ops := ""
	if len(f) >= 5 {
		ops = f[4]
	}
	zero := f[3] != "n"
	switch f[1] {
	case "f64":
		return typedRun(f[2], zero, ops, tableCodec(f64Table, math.Float64bits, 7777.5), intCodec)
	case "f32":
		return typedRun(f[2], zero, ops, tableCodec(f32Table, math.Float32bits, 7777.5), intCodec)
	case "nf":
		tab := make([]celsius, len(f64Table))
		for i, v := range f64Table {
			tab[i] = celsius(v)
		}
		return typedRun(f[2], zero, ops, tableCodec(tab, func(c celsius) uint64 { return math.Float64bits(float64(c)) }, 7777.5), intCodec)
	case "i8":
		return typedRun(f[2], zero, ops, intLikeCodec[int8](-77), boolCodec)
	case "u8":
		return typedRun(f[2], zero, ops, intLikeCodec[uint8](177), wideCodec)
	case "i64":
		return typedRun(f[2], zero, ops, tableCodec(i64Table, func(v int64) int64 { return v }, -7777), intCodec)
	case "u64":
		return typedRun(f[2], zero, ops, tableCodec(u64Table, func(v uint64) uint64 { return v }, 7777), ptrCodec)
	case "ns":
		return typedRun(f[2], zero, ops, tableCodec(nsTable, func(v label) label { return v }, "POISON"), labelValCodec)
	}
	return "?"
}

// ---------------------------------------------------------------- generation

type typedKind struct {
	name  string
	codes []int // the key codes the generator uses
	zero  int   // the code of the zero key
	str   bool  // does String() make sense (not for pointer values)
	vals  int   // value codes 1..vals (0 = the zero value)
}

func seqInts(lo, hi int) []int {
	var out []int
	for i := lo; i <= hi; i++ {
		out = append(out, i)
	}
	return out
}

var typedKinds = []typedKind{
	{"f64", seqInts(0, len(f64Table)-1), 8, true, 900},
	{"f32", seqInts(0, len(f32Table)-1), 8, true, 900},
	{"nf", seqInts(0, len(f64Table)-1), 8, true, 900},
	{"i8", []int{-128, -127, -2, -1, 0, 1, 2, 126, 127}, 0, true, 1},
	{"u8", []int{0, 1, 2, 127, 128, 129, 254, 255}, 0, true, 900},
	{"i64", seqInts(0, len(i64Table)-1), 5, true, 900},
	{"u64", seqInts(0, len(u64Table)-1), 0, false, 900},
	{"ns", seqInts(0, len(nsTable)-1), 0, true, 900},
}

func (x *gen) typedLines() {
	g, r := x.g, x.g.R
	for _, tk := range typedKinds {
		it := strconv.Itoa
		val := func() string {
			if tk.vals == 1 { // bool values: both
				return it(r.Intn(2))
			}
			return it(1 + r.Intn(tk.vals))
		}
		str := func(ops []string) []string { // drop String() where it prints addresses
			if tk.str {
				return ops
			}
			var out []string
			for _, o := range ops {
				if strings.TrimPrefix(o, "@") != "t" {
					out = append(out, o)
				}
			}
			return out
		}
		emit := func(cmps, kind string, ops []string, tags ...string) {
			tags = append(tags, "typed-keys", "typed-"+tk.name, "typed-ctor-"+cmps)
			g.Emit("K "+tk.name+" "+cmps+" "+kind+" "+strings.Join(str(ops), ";"), true, tags...)
		}
		cmpOf := func(i int) string { return []string{"n", "n", "c", "n", "w", "n", "r", "n"}[i%8] }
		// (a) every ordered pair of keys (a third one around them): Set both, everything observed, the
		// other key looked up, Seek of each with sweeps, Delete of the first
		n := 0
		for _, a := range tk.codes {
			for _, b := range tk.codes {
				c := tr.Pick(r, tk.codes)
				ops := []string{"s" + it(a) + "=" + val(), "l", "s" + it(b) + "=" + val(), "l", "k", "t", "g" + it(a), "g" + it(b), "g" + it(c),
					"S0=" + it(a), "N0", "S0=" + it(b), "P0", "S1=" + it(c), "p1", "n1", "n1", "s" + it(c) + "=" + val(), "k", "t",
					"d" + it(a), "l", "k", "g" + it(b), "g" + it(c), "F0", "N0", "L1", "P1"}
				emit(cmpOf(n), "n", ops, "typed-pairs")
				n++
			}
		}
		// (b) the whole alphabet in several orders, then every observer from every key, deletes, again
		orders := [][]int{tk.codes, nil, nil, nil, nil}
		for i := len(tk.codes) - 1; i >= 0; i-- {
			orders[1] = append(orders[1], tk.codes[i])
		}
		for j := 2; j < 5; j++ {
			for _, i := range perm(r, len(tk.codes)) {
				orders[j] = append(orders[j], tk.codes[i])
			}
		}
		for j, ord := range orders {
			for _, cmps := range []string{"n", "c", "w", "r"} {
				if cmps != "n" && j >= 3 {
					continue
				}
				var ops []string
				for _, k := range ord {
					ops = append(ops, "s"+it(k)+"="+val())
					if r.Chance(1, 3) {
						ops = append(ops, "l")
					}
				}
				ops = append(ops, "l", "k", "t")
				for _, k := range tk.codes {
					ops = append(ops, "g"+it(k), "S0="+it(k), "n0", "p0", "p0", "S1="+it(k), tr.Pick(r, []string{"N1", "P1"}))
				}
				ops = append(ops, "F0", "N0", "L0", "P0")
				for i, k := range ord {
					if i%2 == 0 {
						ops = append(ops, "@d"+it(k))
					}
				}
				ops = append(ops, "l", "k", "t", "F0", "N0")
				for _, k := range tk.codes {
					ops = append(ops, "g"+it(k), "S0="+it(k))
				}
				for _, k := range ord {
					ops = append(ops, "s"+it(k)+"="+val()) // the survivors replaced (by the same or an equivalent key), the others new
				}
				ops = append(ops, "l", "k", "t", "c", "l", "k", "s"+it(tk.zero)+"="+val(), "k", "t")
				emit(cmps, "n", ops, "typed-alphabet")
			}
		}
		// (c) random histories over the alphabet
		key := func() string { return it(tr.Pick(r, tk.codes)) }
		for i := 0; i < g.Scale(40, 800); i++ {
			emit(cmpOf(i), "n", x.history(key, val, 8+r.Intn(40), true), "typed-random")
		}
		// (d) the zero Map of the type: reads, Delete, Clear, iterators; Set panics
		emit("n", "z", []string{"l", "k", "t", "g" + it(tk.zero), "g" + key(), "d" + key(), "c", "l", "F0", "L1", "S2=" + key(), "n0", "p1", "n2", "N0", "P1", "e2=" + key(), "@l", "@k", "@t"}, "zero-map")
		emit("w", "z", []string{"l", "s" + key() + "=" + val(), "l"}, "zero-map", "zero-map-set")
	}
	// (e) a comparator that reads the map it belongs to (Len, GetOK, Seek+Next, Keys, First/Last+Prev) whenever
	// it is called from a read-only operation: random histories and the seek battery of every target
	for i := 0; i < g.Scale(500, 6000); i++ {
		cmps := "q" + tr.Pick(r, []string{"n", "n", "r", "a", "t", "D", "x", "M7", "m5"})
		space := 4 + r.Intn(14)
		ops := x.history(x.intKey(space), x.intVal, 8+r.Intn(40), true)
		if i%3 == 0 {
			for k := -1; k <= space+1; k++ {
				ks := strconv.Itoa(k)
				ops = append(ops, "S0="+ks, string("NP"[r.Intn(2)])+"0", "g"+ks)
			}
			ops = append(ops, "k", "t", "l")
		}
		g.Emit("M "+cmps+" n "+strings.Join(ops, ";"), true, "reentrant-comparator", "custom-comparator")
	}
}
