// Command omaptrace drives omap.Map of the working tree.  One case per line:
//
//	M <cmp> <kind> <ops>  |  <item>;<item>;...
//
// cmp   n natural order (omap.New), r reversed, m<k> keys compared modulo k (omap.NewFunc)
// kind  n a Map from New/NewFunc, z the zero Map
// ops   ';'-separated; a leading '@' runs the op through a COPY of the Map value taken at the start
//
//	s<k>=<v> Set    d<k> Delete    c Clear    g<k> Get and GetOK    l Len    k Keys    t String
//	F<r> L<r> S<r>=<k>   iterator register r (0..3) = m.First() / m.Last() / m.Seek(k)
//	n<r> p<r> e<r>=<k>   it.Next() / it.Prev() / it.Seek(k) on register r   ("!" if the result is not the receiver)
//	N<r> P<r>            for ; it.IsValid(); it.Next()/Prev(): entries visited (at most Len+2), then final IsValid
//
// items  s,d: 0/1   c: -   g: <Get>,<GetOK value>,<ok>   l: n   k: nil | k,k,...   t: the string, ' ' as '_'
//
//	iterator ops: state of every assigned register, '/'-separated, each <IsValid>,<Key>,<Value>
//	sweeps: s:<k>=<v>,...:<IsValid>
//	an iterator op on a register whose map was edited since it was positioned (other than e, which
//	re-synchronizes) is not executed: item "stale".  A panic ends the case: panic:<kind>.
package main

import (
	"strconv"
	"strings"
	"time"

	"github.com/creachadair/mds/omap"
	"verif/harness/internal/tr"
)

func cmpFor(s string) func(a, b int) int {
	nat := func(a, b int) int {
		if a < b {
			return -1
		} else if a > b {
			return 1
		}
		return 0
	}
	switch {
	case s == "n":
		return nat
	case s == "r":
		return func(a, b int) int { return nat(b, a) }
	case strings.HasPrefix(s, "m"):
		k, _ := strconv.Atoi(s[1:])
		if k <= 0 {
			k = 1
		}
		md := func(a int) int { return ((a % k) + k) % k }
		return func(a, b int) int { return nat(md(a), md(b)) }
	}
	panic("bad comparator " + s)
}

type iter = omap.Iter[int, int]

func exec(in string) string {
	f := strings.Fields(in)
	if len(f) < 3 || f[0] != "M" {
		return "?"
	}
	opsField := ""
	if len(f) >= 4 {
		opsField = f[3]
	}
	var items []string
	res := tr.Guard(20*time.Second, func() {
		var m omap.Map[int, int]
		if f[2] == "n" {
			if f[1] == "n" {
				m = omap.New[int, int]()
			} else {
				m = omap.NewFunc[int, int](cmpFor(f[1]))
			}
		}
		cp := m // a copy of the Map value: shares the contents
		var regs [4]*iter
		var fresh [4]bool // positioned since the last edit
		used := 0
		touch := func(r int) {
			if r+1 > used {
				used = r + 1
			}
		}
		state := func() string {
			var s []string
			for i := 0; i < used; i++ {
				it := regs[i]
				if it == nil || !fresh[i] {
					s = append(s, "x")
					continue
				}
				s = append(s, tr.B(it.IsValid())+","+strconv.Itoa(it.Key())+","+strconv.Itoa(it.Value()))
			}
			return strings.Join(s, "/")
		}
		edited := func() {
			for i := range fresh {
				fresh[i] = false
			}
		}
		if opsField == "" {
			return
		}
		for _, op := range strings.Split(opsField, ";") {
			h := m
			if strings.HasPrefix(op, "@") {
				h = cp
				op = op[1:]
			}
			if op == "" {
				items = append(items, "?")
				continue
			}
			arg := op[1:]
			num := func(s string) int { n, _ := strconv.Atoi(s); return n }
			switch op[0] {
			case 's':
				kvs := strings.SplitN(arg, "=", 2)
				if len(kvs) != 2 {
					items = append(items, "?")
					continue
				}
				ok := h.Set(num(kvs[0]), num(kvs[1]))
				edited()
				items = append(items, tr.B(ok))
			case 'd':
				ok := h.Delete(num(arg))
				edited()
				items = append(items, tr.B(ok))
			case 'c':
				h.Clear()
				edited()
				items = append(items, "-")
			case 'g':
				v, ok := h.GetOK(num(arg))
				items = append(items, strconv.Itoa(h.Get(num(arg)))+","+strconv.Itoa(v)+","+tr.B(ok))
			case 'l':
				items = append(items, strconv.Itoa(h.Len()))
			case 'k':
				ks := h.Keys()
				if ks == nil {
					items = append(items, "nil")
				} else {
					items = append(items, tr.Ints(ks))
					for i := range ks { // the result is the caller's: overwriting it must not reach the map
						ks[i] = -7777
					}
				}
			case 't':
				items = append(items, strings.ReplaceAll(h.String(), " ", "_"))
			case 'F', 'L', 'S', 'n', 'p', 'e', 'N', 'P':
				if len(arg) < 1 || arg[0] < '0' || arg[0] > '3' {
					items = append(items, "?")
					continue
				}
				r := int(arg[0] - '0')
				key := 0
				if i := strings.IndexByte(arg, '='); i >= 0 {
					key = num(arg[i+1:])
				}
				switch op[0] {
				case 'F':
					regs[r], fresh[r] = h.First(), true
					touch(r)
					items = append(items, state())
				case 'L':
					regs[r], fresh[r] = h.Last(), true
					touch(r)
					items = append(items, state())
				case 'S':
					regs[r], fresh[r] = h.Seek(key), true
					touch(r)
					items = append(items, state())
				case 'e':
					if regs[r] == nil {
						items = append(items, "stale")
						continue
					}
					got := regs[r].Seek(key)
					fresh[r] = true
					s := state()
					if got != regs[r] {
						s += "!"
					}
					items = append(items, s)
				case 'n', 'p':
					if regs[r] == nil || !fresh[r] {
						items = append(items, "stale")
						continue
					}
					var got *iter
					if op[0] == 'n' {
						got = regs[r].Next()
					} else {
						got = regs[r].Prev()
					}
					s := state()
					if got != regs[r] {
						s += "!"
					}
					items = append(items, s)
				case 'N', 'P':
					if regs[r] == nil || !fresh[r] {
						items = append(items, "stale")
						continue
					}
					it := regs[r]
					var es []string
					for step := 0; it.IsValid() && step < h.Len()+2; step++ {
						es = append(es, strconv.Itoa(it.Key())+"="+strconv.Itoa(it.Value()))
						if op[0] == 'N' {
							it.Next()
						} else {
							it.Prev()
						}
					}
					l := strings.Join(es, ",")
					if l == "" {
						l = "."
					}
					items = append(items, "s:"+l+":"+tr.B(it.IsValid()))
				}
			default:
				items = append(items, "?")
			}
		}
	})
	if res != "" {
		items = append(items, res)
	}
	return strings.Join(items, ";")
}

// ---------------------------------------------------------------- generation

type gen struct{ g *tr.G }

func (x *gen) history(space, n int, iters bool) []string {
	r := x.g.R
	var ops []string
	key := func() string {
		switch r.Intn(12) {
		case 0:
			return strconv.Itoa(-1 - r.Intn(3)) // below every stored key (mostly)
		case 1:
			return strconv.Itoa(space + r.Intn(3)) // above
		}
		return strconv.Itoa(r.Intn(space))
	}
	at := func() string {
		if r.Chance(1, 5) {
			return "@"
		}
		return ""
	}
	live := [4]bool{}
	for i := 0; i < n; i++ {
		switch c := r.Intn(100); {
		case c < 30:
			ops = append(ops, at()+"s"+key()+"="+strconv.Itoa(r.Intn(1000)))
			live = [4]bool{}
		case c < 42:
			ops = append(ops, at()+"d"+key())
			live = [4]bool{}
		case c < 44:
			ops = append(ops, at()+"c")
			live = [4]bool{}
		case c < 52:
			ops = append(ops, at()+"g"+key())
		case c < 56:
			ops = append(ops, at()+"l")
		case c < 60:
			ops = append(ops, at()+"k")
		case c < 63:
			ops = append(ops, at()+"t")
		default:
			if !iters {
				ops = append(ops, at()+"g"+key())
				continue
			}
			reg := r.Intn(3)
			rs := strconv.Itoa(reg)
			switch d := r.Intn(100); {
			case d < 12:
				ops = append(ops, at()+"F"+rs)
				live[reg] = true
			case d < 24:
				ops = append(ops, at()+"L"+rs)
				live[reg] = true
			case d < 50:
				ops = append(ops, at()+"S"+rs+"="+key())
				live[reg] = true
			case d < 60:
				ops = append(ops, "e"+rs+"="+key()) // re-synchronize (also after edits)
				live[reg] = true
			default:
				if !live[reg] {
					ops = append(ops, at()+"S"+rs+"="+key())
					live[reg] = true
					continue
				}
				ops = append(ops, string("nnppNP"[r.Intn(6)])+rs)
			}
		}
	}
	return ops
}

func main() {
	tr.Main("C04: exhaustive histories of up to 3 (quick) / 4 (thorough) Set/Delete/Clear over 3 keys each followed by Len, Keys, String, Get of every key and First/Last/Seek of every target (below, present, between, above) with full Next and Prev sweeps; random histories of up to 60 operations over small and large key spaces under natural, reversed and modular comparators mixing edits with lookups, Keys, String, iterators in 3 registers (First, Last, Seek, Iter.Seek re-synchronization after edits, Next/Prev steps and sweeps from seek positions), a fifth of the operations through a copy of the Map value; ascending/descending bulk loads to 300 keys; the zero Map with every read operation and with Set. A case is non-trivial when it contains at least one edit and one observation; distinct = distinct input lines.",
		exec, func(g *tr.G) {
			x := &gen{g}
			r := g.R
			// 1. exhaustive small histories, each followed by a full battery of observations
			edits := []string{"s10=1", "s20=2", "s30=3", "s20=9", "d10", "d20", "d30", "c"}
			battery := "l;k;t;g10;g20;g30;g15"
			for _, tgt := range []string{"5", "10", "15", "20", "25", "30", "35"} {
				battery += ";S0=" + tgt + ";N0;S0=" + tgt + ";P0;S1=" + tgt + ";p1;n1;n1"
			}
			battery += ";F0;N0;L0;P0;F0;p0;L1;n1;F2;e2=20;n2;e2=99;e2=0"
			var rec func(cur []string, d int)
			rec = func(cur []string, d int) {
				x.g.Emit("M n n "+strings.Join(append(append([]string(nil), cur...), battery), ";"), len(cur) > 0, "exhaustive")
				if d == 0 {
					return
				}
				for _, e := range edits {
					rec(append(cur[:len(cur):len(cur)], e), d-1)
				}
			}
			rec(nil, g.Scale(3, 4))
			// 2. the zero Map: every read, Delete, Clear, iterators; Set panics
			g.Emit("M n z l;k;t;g5;d5;c;l;F0;L1;S2=5;n0;p1;n2;N0;P1;e2=3;@l;@k;@g1", true, "zero-map")
			g.Emit("M n z l;s5=1;l", true, "zero-map", "zero-map-set")
			g.Emit("M r z F0;n0;p0;k;t;@s1=1", true, "zero-map", "zero-map-set")
			g.Emit("M n n l;k;t;g5;d5;c;F0;L1;S2=5;n0;p1;n2;N0;P1", true, "empty-map")
			// 2b. random histories on the zero Map: reads, Delete, Clear and iterators (Set only as the last op)
			for i := 0; i < g.Scale(200, 3000); i++ {
				ops := x.history(4+r.Intn(8), 5+r.Intn(25), true)
				for j, o := range ops {
					o2 := strings.TrimPrefix(o, "@")
					if strings.HasPrefix(o2, "s") {
						ops[j] = strings.Replace(o, "s", "d", 1)
						if i := strings.IndexByte(ops[j], '='); i >= 0 {
							ops[j] = ops[j][:i]
						}
					}
				}
				tags := []string{"zero-map"}
				if r.Chance(1, 3) {
					ops = append(ops, "s"+strconv.Itoa(r.Intn(9))+"=1", "l")
					tags = append(tags, "zero-map-set")
				}
				x.g.Emit("M "+[]string{"n", "r", "m5"}[r.Intn(3)]+" z "+strings.Join(ops, ";"), true, tags...)
			}
			// 3. random histories
			for i := 0; i < g.Scale(9000, 90000); i++ {
				cmps := "n"
				switch r.Intn(5) {
				case 0:
					cmps = "r"
				case 1:
					cmps = "m" + strconv.Itoa(3+r.Intn(20))
				}
				space := 4 + r.Intn(12)
				if r.Chance(1, 4) {
					space = 30 + r.Intn(200)
				}
				n := 5 + r.Intn(55)
				ops := x.history(space, n, true)
				tags := []string{"random-history"}
				if cmps != "n" {
					tags = append(tags, "custom-comparator")
				}
				x.g.Emit("M "+cmps+" n "+strings.Join(ops, ";"), true, tags...)
			}
			// 4. seek battery after arbitrary edits: every target from below the minimum to above the maximum
			for i := 0; i < g.Scale(900, 6000); i++ {
				space := 6 + r.Intn(14)
				ops := x.history(space, 10+r.Intn(30), false)
				for k := -2; k <= space+2; k++ {
					ks := strconv.Itoa(k)
					ops = append(ops, "S0="+ks, string("NP"[r.Intn(2)])+"0")
					if r.Chance(1, 3) {
						ops = append(ops, "S1="+ks, "p1", "p1", "n1")
					}
				}
				cmps := []string{"n", "n", "r", "m7", "m11"}[r.Intn(5)]
				x.g.Emit("M "+cmps+" n "+strings.Join(ops, ";"), true, "seek-every-target")
			}
			// 5. bulk loads (rebalancing on the way), then deletes from both ends and sweeps
			for i := 0; i < g.Scale(8, 120); i++ {
				n := 50 + r.Intn(g.Scale(150, 250))
				var ops []string
				for k := 0; k < n; k++ {
					kk := k
					if i%2 == 1 {
						kk = n - k
					}
					ops = append(ops, "s"+strconv.Itoa(kk*2)+"="+strconv.Itoa(k))
				}
				for k := 0; k < n/3; k++ {
					ops = append(ops, "d"+strconv.Itoa(r.Intn(2*n)))
				}
				ops = append(ops, "l", "k", "F0", "N0", "L0", "P0", "S0="+strconv.Itoa(n), "N0", "S1="+strconv.Itoa(n+1), "P1", "S2="+strconv.Itoa(5*n), "S2=-1", "N2")
				x.g.Emit("M n n "+strings.Join(ops, ";"), true, "bulk-load")
			}
		})
}
