// Command omaptrace drives omap.Map of the working tree.  One case per line:
//
//	M <cmp> <kind> <ops>  |  <item>;<item>;...      Map[int,int]
//	T <cmp> <kind> <ops>  |  <item>;<item>;...      Map[string,string]; a key or value token is "~" (the
//	                                                empty string = the zero value) or a run of letters/digits
//	                                                and %XX escapes (any byte: %20 a blank, %5B "[", %3A ":")
//
//	K <type> <cmp> <kind> <ops>  |  ...              typed keys and values written as codes: see typed.go
//
// cmp (M)  n natural order (omap.New, i.e. cmp.Compare); every other one goes through omap.NewFunc:
//
//	q<c> the comparator <c>, which in addition READS the map it belongs to (Len, GetOK, Seek+Next, Keys,
//	First/Last+Prev in rotation) whenever it is called from a read-only operation (round 5)
//
//	r reversed, m<k> keys compared modulo k          -- results -1/0/+1
//	a  a-b     t 3*(a-b)     h (a-b)<<32             -- ascending, arbitrary magnitudes
//	A  b-a     D 7*(b-a)                             -- descending, arbitrary magnitudes
//	M<k> (a mod k)-(b mod k)   R<k> (b mod k)-(a mod k)   -- coarser than identity, arbitrary magnitudes
//	x  MinInt / 0 / MaxInt     X the same reversed   -- extreme magnitudes (a negation would overflow)
//
// cmp (T)  n natural (omap.New); r strings.Compare(b,a); l len(a)-len(b); L len(b)-len(a);
//
//	b first differing byte difference, else length difference; B the same reversed;
//	f difference of the first bytes only (0 for the empty string)
//
// kind  n a Map from New/NewFunc, z the zero Map
// ops   ';'-separated; a leading '@' runs the op through a COPY of the Map value taken at the start
//
//	s<k>=<v> Set    d<k> Delete    c Clear    g<k> Get and GetOK    l Len    k Keys    t String
//	F<r> L<r> S<r>=<k>   iterator register r (0..3) = m.First() / m.Last() / m.Seek(k)
//	n<r> p<r> e<r>=<k>   it.Next() / it.Prev() / it.Seek(k) on register r   ("!" if the result is not the receiver)
//	N<r> P<r>            for ; it.IsValid(); it.Next()/Prev(): entries visited (at most Len+2), then final IsValid
//
//	B.. D.. Q<s>         (M lines only) bulk Set / bulk Delete / probe of every key: see scale.go
//
// items  s,d: 0/1   c: -   g: <Get>,<GetOK value>,<ok>   l: n   k: nil | k,k,...
//
//	t: String() byte by byte: ' ' as '_', letters, digits and [ ] : - as they are, every other byte as %XX
//
//	iterator ops: state of every assigned register, '/'-separated, each <IsValid>,<Key>,<Value>
//	sweeps: s:<k>=<v>,...:<IsValid>
//	an iterator op on a register whose map was edited since it was positioned (other than e, which
//	re-synchronizes) is not executed: item "stale".  A panic ends the case: panic:<kind>.
package main

import (
	"fmt"
	"math"
	"strconv"
	"strings"
	"time"

	"github.com/creachadair/mds/omap"
	"verif/harness/internal/tr"
)

func nat(a, b int) int {
	if a < b {
		return -1
	} else if a > b {
		return 1
	}
	return 0
}

func cmpFor(s string) func(a, b int) int {
	modk := func() func(int) int {
		k, _ := strconv.Atoi(s[1:])
		if k <= 0 {
			k = 1
		}
		return func(a int) int { return ((a % k) + k) % k }
	}
	ext := func(a, b int) int {
		if a < b {
			return math.MinInt
		} else if a > b {
			return math.MaxInt
		}
		return 0
	}
	switch {
	case s == "n":
		return nat
	case s == "r":
		return func(a, b int) int { return nat(b, a) }
	case s == "a":
		return func(a, b int) int { return a - b }
	case s == "t":
		return func(a, b int) int { return 3 * (a - b) }
	case s == "h":
		return func(a, b int) int { return (a - b) << 32 }
	case s == "A":
		return func(a, b int) int { return b - a }
	case s == "D":
		return func(a, b int) int { return 7 * (b - a) }
	case s == "x":
		return ext
	case s == "X":
		return func(a, b int) int { return ext(b, a) }
	case strings.HasPrefix(s, "m"):
		md := modk()
		return func(a, b int) int { return nat(md(a), md(b)) }
	case strings.HasPrefix(s, "M"):
		md := modk()
		return func(a, b int) int { return md(a) - md(b) }
	case strings.HasPrefix(s, "R"):
		md := modk()
		return func(a, b int) int { return md(b) - md(a) }
	}
	panic("bad comparator " + s)
}

func strCmpFor(s string) func(a, b string) int {
	bytewise := func(a, b string) int {
		for i := 0; i < len(a) && i < len(b); i++ {
			if a[i] != b[i] {
				return int(a[i]) - int(b[i])
			}
		}
		return len(a) - len(b)
	}
	first := func(a string) int {
		if a == "" {
			return 0
		}
		return int(a[0])
	}
	switch s {
	case "n":
		return strings.Compare
	case "r":
		return func(a, b string) int { return strings.Compare(b, a) }
	case "l":
		return func(a, b string) int { return len(a) - len(b) }
	case "L":
		return func(a, b string) int { return len(b) - len(a) }
	case "b":
		return bytewise
	case "B":
		return func(a, b string) int { return bytewise(b, a) }
	case "f":
		return func(a, b string) int { return first(a) - first(b) }
	}
	panic("bad string comparator " + s)
}

// codec: how keys/values are written in trace lines
type codec[K any] struct {
	parse  func(string) K
	show   func(K) string
	poison K
}

var intCodec = codec[int]{
	parse:  func(s string) int { n, _ := strconv.Atoi(s); return n },
	show:   strconv.Itoa,
	poison: -7777,
}

const hexDigits = "0123456789ABCDEF"

func isAlnum(c byte) bool {
	return (c >= 'a' && c <= 'z') || (c >= 'A' && c <= 'Z') || (c >= '0' && c <= '9')
}

func unhex(c byte) (int, bool) {
	switch {
	case c >= '0' && c <= '9':
		return int(c - '0'), true
	case c >= 'A' && c <= 'F':
		return int(c-'A') + 10, true
	}
	return 0, false
}

// unescToken: %XX (upper-case hex) -> that byte, everything else as it is
func unescToken(s string) string {
	if strings.IndexByte(s, '%') < 0 {
		return s
	}
	var sb strings.Builder
	for i := 0; i < len(s); i++ {
		if s[i] == '%' && i+2 < len(s) {
			h, ok1 := unhex(s[i+1])
			l, ok2 := unhex(s[i+2])
			if ok1 && ok2 {
				sb.WriteByte(byte(16*h + l))
				i += 2
				continue
			}
		}
		sb.WriteByte(s[i])
	}
	return sb.String()
}

// escToken: letters and digits as they are, every other byte as %XX
func escToken(s string) string {
	var sb strings.Builder
	for i := 0; i < len(s); i++ {
		if c := s[i]; isAlnum(c) {
			sb.WriteByte(c)
		} else {
			sb.WriteByte('%')
			sb.WriteByte(hexDigits[c>>4])
			sb.WriteByte(hexDigits[c&15])
		}
	}
	return sb.String()
}

// escString: how String() is written into the trace: every byte is visible and none can be taken for a
// separator of the trace line
func escString(s string) string {
	var sb strings.Builder
	for i := 0; i < len(s); i++ {
		switch c := s[i]; {
		case c == ' ':
			sb.WriteByte('_')
		case isAlnum(c) || c == '[' || c == ']' || c == ':' || c == '-':
			sb.WriteByte(c)
		default:
			sb.WriteByte('%')
			sb.WriteByte(hexDigits[c>>4])
			sb.WriteByte(hexDigits[c&15])
		}
	}
	return sb.String()
}

var strCodec = codec[string]{
	parse: func(s string) string {
		if s == "~" {
			return ""
		}
		return unescToken(s)
	},
	show: func(s string) string {
		if s == "" {
			return "~"
		}
		return escToken(s)
	},
	poison: "POISON",
}

func run[K, V any](opsField string, zero bool, mk func() omap.Map[K, V], kc codec[K], vc codec[V],
	macro func(h omap.Map[K, V], op string) (item string, handled, edited bool)) string {
	var items []string
	res := tr.Guard(20*time.Second, func() {
		var m omap.Map[K, V]
		if !zero {
			m = mk()
		}
		cp := m // a copy of the Map value: shares the contents
		var regs [4]*omap.Iter[K, V]
		var fresh [4]bool // positioned since the last edit
		used := 0
		touch := func(r int) {
			if r+1 > used {
				used = r + 1
			}
		}
		state := func() string {
			var s []string
			for i := 0; i < used; i++ {
				it := regs[i]
				if it == nil || !fresh[i] {
					s = append(s, "x")
					continue
				}
				s = append(s, tr.B(it.IsValid())+","+kc.show(it.Key())+","+vc.show(it.Value()))
			}
			return strings.Join(s, "/")
		}
		edited := func() {
			for i := range fresh {
				fresh[i] = false
			}
		}
		if opsField == "" {
			return
		}
		for _, op := range strings.Split(opsField, ";") {
			h := m
			if strings.HasPrefix(op, "@") {
				h = cp
				op = op[1:]
			}
			if op == "" {
				items = append(items, "?")
				continue
			}
			curOp = op[0]
			if macro != nil { // B, D, Q: thousands of Sets / Deletes / lookups and iterator moves, one item each
				if it, handled, ed := macro(h, op); handled {
					if ed {
						edited()
					}
					items = append(items, it)
					continue
				}
			}
			arg := op[1:]
			switch op[0] {
			case 's':
				kvs := strings.SplitN(arg, "=", 2)
				if len(kvs) != 2 {
					items = append(items, "?")
					continue
				}
				ok := h.Set(kc.parse(kvs[0]), vc.parse(kvs[1]))
				edited()
				items = append(items, tr.B(ok))
			case 'd':
				ok := h.Delete(kc.parse(arg))
				edited()
				items = append(items, tr.B(ok))
			case 'c':
				h.Clear()
				edited()
				items = append(items, "-")
			case 'g':
				v, ok := h.GetOK(kc.parse(arg))
				items = append(items, vc.show(h.Get(kc.parse(arg)))+","+vc.show(v)+","+tr.B(ok))
			case 'l':
				items = append(items, strconv.Itoa(h.Len()))
			case 'k':
				ks := h.Keys()
				if ks == nil {
					items = append(items, "nil")
				} else {
					out := make([]string, len(ks))
					for i, k := range ks {
						out[i] = kc.show(k)
					}
					if len(out) == 0 {
						items = append(items, "empty") // a non-nil empty slice
					} else {
						items = append(items, strings.Join(out, ","))
					}
					ks = ks[:cap(ks)]
					for i := range ks { // the result is the caller's: overwriting it must not reach the map
						ks[i] = kc.poison
					}
				}
			case 't':
				items = append(items, escString(h.String()))
			case 'F', 'L', 'S', 'n', 'p', 'e', 'N', 'P':
				if len(arg) < 1 || arg[0] < '0' || arg[0] > '3' {
					items = append(items, "?")
					continue
				}
				r := int(arg[0] - '0')
				var key K
				if i := strings.IndexByte(arg, '='); i >= 0 {
					key = kc.parse(arg[i+1:])
				} else {
					key = kc.parse("0")
				}
				switch op[0] {
				case 'F':
					regs[r], fresh[r] = h.First(), true
					touch(r)
					items = append(items, state())
				case 'L':
					regs[r], fresh[r] = h.Last(), true
					touch(r)
					items = append(items, state())
				case 'S':
					regs[r], fresh[r] = h.Seek(key), true
					touch(r)
					items = append(items, state())
				case 'e':
					if regs[r] == nil {
						items = append(items, "stale")
						continue
					}
					got := regs[r].Seek(key)
					fresh[r] = true
					s := state()
					if got != regs[r] {
						s += "!"
					}
					items = append(items, s)
				case 'n', 'p':
					if regs[r] == nil || !fresh[r] {
						items = append(items, "stale")
						continue
					}
					var got *omap.Iter[K, V]
					if op[0] == 'n' {
						got = regs[r].Next()
					} else {
						got = regs[r].Prev()
					}
					s := state()
					if got != regs[r] {
						s += "!"
					}
					items = append(items, s)
				case 'N', 'P':
					if regs[r] == nil || !fresh[r] {
						items = append(items, "stale")
						continue
					}
					it := regs[r]
					var es []string
					for step := 0; it.IsValid() && step < h.Len()+2; step++ {
						es = append(es, kc.show(it.Key())+"="+vc.show(it.Value()))
						if op[0] == 'N' {
							it.Next()
						} else {
							it.Prev()
						}
					}
					l := strings.Join(es, ",")
					if l == "" {
						l = "."
					}
					items = append(items, "s:"+l+":"+tr.B(it.IsValid()))
				}
			default:
				items = append(items, "?")
			}
		}
	})
	if res != "" {
		items = append(items, res)
	}
	return strings.Join(items, ";")
}

// curOp: the letter of the operation run is executing (read by the re-entrant comparator q)
var curOp byte

// reentrant wraps a comparator of a Map[int,int] into one that, when it is called from a read-only
// operation of the map, first reads the very map it belongs to (round 5: read-only re-entrancy)
func reentrant(base func(a, b int) int, self *omap.Map[int, int]) func(a, b int) int {
	depth, calls := 0, 0
	return func(a, b int) int {
		if depth == 0 && strings.IndexByte("glktFLSnpeNP", curOp) >= 0 {
			depth++
			calls++
			// (lookups of OTHER keys than the one being searched: the search paths differ)
			switch calls % 6 {
			case 0:
				self.Len()
				self.GetOK(self.Last().Key())
			case 1:
				self.GetOK(b)
			case 2:
				self.Seek(self.First().Key()).Next()
			case 3:
				self.Keys()
			case 4:
				self.Seek(self.Last().Key()).Prev()
			default:
				self.GetOK(self.First().Key())
			}
			depth--
		}
		return base(a, b)
	}
}

func exec(in string) string {
	f := strings.Fields(in)
	if len(f) >= 4 && f[0] == "K" {
		return execTyped(f)
	}
	if len(f) < 3 || (f[0] != "M" && f[0] != "T") {
		return "?"
	}
	opsField := ""
	if len(f) >= 4 {
		opsField = f[3]
	}
	zero := f[2] != "n"
	if f[0] == "M" {
		if f[1] == "n" {
			return run(opsField, zero, func() omap.Map[int, int] { return omap.New[int, int]() }, intCodec, intCodec, intMacro(nil))
		}
		if strings.HasPrefix(f[1], "q") && len(f[1]) > 1 {
			var self omap.Map[int, int]
			cf := reentrant(cmpFor(f[1][1:]), &self)
			return run(opsField, zero, func() omap.Map[int, int] { self = omap.NewFunc[int, int](cf); return self }, intCodec, intCodec, intMacro(nil))
		}
		lg := new(cmpLog) // the node keys the comparator is called with (the real-depth orders of D read it)
		base := cmpFor(f[1])
		return run(opsField, zero, func() omap.Map[int, int] {
			return omap.NewFunc[int, int](func(a, b int) int {
				if lg.on {
					lg.seen = append(lg.seen, b)
				}
				return base(a, b)
			})
		}, intCodec, intCodec, intMacro(lg))
	}
	return run(opsField, zero, func() omap.Map[string, string] {
		if f[1] == "n" {
			return omap.New[string, string]()
		}
		return omap.NewFunc[string, string](strCmpFor(f[1]))
	}, strCodec, strCodec, nil)
}

// ---------------------------------------------------------------- generation

type gen struct{ g *tr.G }

// history: key() yields a key token (mostly inside the populated range, sometimes below the
// minimum or above the maximum), val() a value token
func (x *gen) history(key, val func() string, n int, iters bool) []string {
	r := x.g.R
	var ops []string
	at := func() string {
		if r.Chance(1, 5) {
			return "@"
		}
		return ""
	}
	live := [4]bool{}
	for i := 0; i < n; i++ {
		switch c := r.Intn(100); {
		case c < 30:
			ops = append(ops, at()+"s"+key()+"="+val())
			live = [4]bool{}
		case c < 42:
			ops = append(ops, at()+"d"+key())
			live = [4]bool{}
		case c < 44:
			ops = append(ops, at()+"c")
			live = [4]bool{}
		case c < 52:
			ops = append(ops, at()+"g"+key())
		case c < 56:
			ops = append(ops, at()+"l")
		case c < 60:
			ops = append(ops, at()+"k")
		case c < 63:
			ops = append(ops, at()+"t")
		default:
			if !iters {
				ops = append(ops, at()+"g"+key())
				continue
			}
			reg := r.Intn(3)
			rs := strconv.Itoa(reg)
			switch d := r.Intn(100); {
			case d < 12:
				ops = append(ops, at()+"F"+rs)
				live[reg] = true
			case d < 24:
				ops = append(ops, at()+"L"+rs)
				live[reg] = true
			case d < 50:
				ops = append(ops, at()+"S"+rs+"="+key())
				live[reg] = true
			case d < 60:
				ops = append(ops, "e"+rs+"="+key()) // re-synchronize (also after edits)
				live[reg] = true
			default:
				if !live[reg] {
					ops = append(ops, at()+"S"+rs+"="+key())
					live[reg] = true
					continue
				}
				ops = append(ops, string("nnppNP"[r.Intn(6)])+rs)
			}
		}
	}
	return ops
}

func (x *gen) intKey(space int) func() string {
	r := x.g.R
	return func() string {
		switch r.Intn(12) {
		case 0:
			return strconv.Itoa(-1 - r.Intn(3)) // below every stored key (mostly)
		case 1:
			return strconv.Itoa(space + r.Intn(3)) // above
		}
		return strconv.Itoa(r.Intn(space))
	}
}

func (x *gen) intVal() string { return strconv.Itoa(x.g.R.Intn(1000)) }

// string keys over the first `letters` letters up to length 3, the empty string included
func (x *gen) strKey(letters int) func() string {
	r := x.g.R
	return func() string {
		n := r.Intn(4)
		if n == 0 {
			return "~"
		}
		b := make([]byte, n)
		for i := range b {
			b[i] = byte('a' + r.Intn(letters))
		}
		return string(b)
	}
}

func (x *gen) strVal() string {
	r := x.g.R
	if r.Chance(1, 8) {
		return "~"
	}
	return string([]byte{byte('p' + r.Intn(8)), byte('p' + r.Intn(8))})
}

func perm(r *tr.Rand, n int) []int {
	p := make([]int, n)
	for i := range p {
		p[i] = i
	}
	for i := n - 1; i > 0; i-- {
		j := r.Intn(i + 1)
		p[i], p[j] = p[j], p[i]
	}
	return p
}

// the comparators of the M kind other than the natural one, by family
var magCmps = []string{"a", "t", "h", "A", "D", "x", "X"}

func (x *gen) customCmp() (string, []string) {
	r := x.g.R
	switch r.Intn(8) {
	case 0:
		return "r", []string{"custom-comparator"}
	case 1:
		return "m" + strconv.Itoa(3+r.Intn(20)), []string{"custom-comparator", "coarser-than-identity"}
	case 2:
		return "M" + strconv.Itoa(3+r.Intn(20)), []string{"custom-comparator", "coarser-than-identity", "comparator-magnitudes"}
	case 3:
		return "R" + strconv.Itoa(3+r.Intn(20)), []string{"custom-comparator", "coarser-than-identity", "comparator-magnitudes"}
	default:
		return tr.Pick(r, magCmps), []string{"custom-comparator", "comparator-magnitudes"}
	}
}

// scaleSize: a size around a power of two, 2^k-1, 2^k or 2^k+1
func scaleSize(r *tr.Rand, kmin, kmax int) int {
	return 1<<(kmin+r.Intn(kmax-kmin+1)) + r.Intn(3) - 1
}

func (x *gen) bigMaps() {
	// (tr.Rand streams of different seeds are shifts of one sequence and often fall into step after a
	// few thousand draws: this section draws from a stream whose offset is a scrambled function of the seed)
	g, r := x.g, tr.NewRand(tr.NewRand(x.g.Seed).Uint64()^0xC04B16)
	pats := "adzrib"
	orders := "lhoibBreE"
	adversarial := map[byte]string{'a': "lbe", 'd': "hbE", 'z': "oib", 'r': "rbB", 'i': "oib", 'b': "lhB"}
	count := 0
	sizeFor := func() int {
		count++
		if g.Thorough() {
			if count%8 == 0 {
				return scaleSize(r, 12, 13)
			}
			return scaleSize(r, 8, 11)
		}
		if count%18 == 7 {
			return scaleSize(r, 12, 12)
		}
		if count%6 == 3 {
			return scaleSize(r, 11, 11)
		}
		return scaleSize(r, 8, 10)
	}
	emitOne := func(pat, ord byte, n int, cmps string) {
		var ops []string
		at := func() string { // a fifth of the operations through the copy of the Map value
			if r.Chance(1, 5) {
				return "@"
			}
			return ""
		}
		probeOp := func(size int) {
			s := 1 + r.Intn(4)
			if size > 1100 {
				s = 1
			}
			ops = append(ops, at()+"Q"+strconv.Itoa(s))
		}
		// explicit iterator sessions: the keys are lo+3j; the survivors are not known to the generator
		// without running the map, so the targets are spread over the whole range
		session := func() {
			for _, tgt := range []int{-5, 0, 3 * n / 2, 3*n/2 + 1, 3 * (n - 1), 3*n + 5, 3 * r.Intn(n), 3*r.Intn(n) + 2} {
				ks := strconv.Itoa(tgt)
				ops = append(ops, at()+"S0="+ks, "n0", "n0", "p0", "p0", "p0", at()+"g"+ks, "e0="+ks, "p0", "S1="+ks, "p1", "e1="+ks, "n1")
			}
			ops = append(ops, "F0", "p0", "F0", "n0", "L1", "n1", "L1", "p1", "l")
		}
		tags := []string{"big-map", "big-grow-" + string(pat), "big-shrink-" + string(ord)}
		if n >= 1023 {
			tags = append(tags, "big-1023-or-more")
		}
		if n >= 4095 {
			tags = append(tags, "big-4095-or-more")
		}
		ops = append(ops, fmt.Sprintf("%sB%c:0:%d:3:%d", at(), pat, n, r.Intn(100000)))
		probeOp(n)
		// the tree below the map (balance 250) is rebuilt by the Delete that takes it under (250*peak+1000)/2000,
		// about 1/8 of its peak: the stages are 1/2, 1/4, exactly that threshold (the smallest size not yet
		// rebuilt), and 1/16 (rebuilt)
		for _, keep := range []int{n / 2, n / 4, (250*n + 1000) / 2000, n / 16} {
			ops = append(ops, fmt.Sprintf("%sD%c:%d:%d", at(), ord, keep, r.Intn(100000)))
			probeOp(keep)
			if keep == n/4 || keep == n/16 {
				session()
			}
		}
		// regrow: new keys between the survivors, and the survivors' values overwritten
		ops = append(ops, fmt.Sprintf("%sB%c:1:%d:3:%d", at(), "adzr"[r.Intn(4)], n/2, r.Intn(100000)))
		ops = append(ops, fmt.Sprintf("%sB%c:0:%d:6:%d", at(), "adzr"[r.Intn(4)], n/2, r.Intn(100000)))
		probeOp(n)
		session()
		g.Emit("M "+cmps+" n "+strings.Join(ops, ";"), true, tags...)
	}
	custom := func() string { return tr.Pick(r, []string{"r", "a", "t", "h", "A", "D", "x", "X"}) }
	cmpOf := func() string {
		if r.Chance(1, 3) {
			return custom()
		}
		return "n"
	}
	for pi := 0; pi < len(pats); pi++ {
		pat := pats[pi]
		if g.Thorough() {
			for oi := 0; oi < len(orders); oi++ {
				emitOne(pat, orders[oi], sizeFor(), cmpOf())
				emitOne(pat, orders[oi], sizeFor(), cmpOf())
			}
			for j := 0; j < 6; j++ { // the real-depth orders need a comparator given to NewFunc (its calls are logged)
				emitOne(pat, "PPPssp"[j], sizeFor(), custom())
			}
			continue
		}
		// quick: the order that keeps the deepest keys with their ancestors; the real shallow-first order; an order that keeps the keys this growth pattern puts deepest;
		// one order at random (for random growth: one that removes from the ends or from the middle)
		adv := adversarial[pat]
		emitOne(pat, 'P', sizeFor(), custom())
		emitOne(pat, 's', sizeFor(), custom())
		emitOne(pat, adv[r.Intn(len(adv))], sizeFor(), cmpOf())
		if pat == 'r' {
			emitOne(pat, "oilh"[r.Intn(4)], sizeFor(), cmpOf())
			emitOne(pat, "oilh"[r.Intn(4)], sizeFor(), "n")
		} else {
			emitOne(pat, (orders + "sp")[r.Intn(len(orders)+2)], sizeFor(), custom())
		}
	}
}

func main() {
	tr.Main("C04: exhaustive histories of up to 3 (quick) / 4 (thorough) Set/Delete/Clear over 3 keys each followed by Len, Keys, String, Get of every key and First/Last/Seek of every target (below, present, between, above) with full Next and Prev sweeps, under cmp.Compare and (one level shallower) under comparators returning arbitrary magnitudes (a-b, 7*(b-a), MinInt/MaxInt); the same battery on Map[string,string] with the empty string as a key and as a value; random histories of up to 60 operations over small and large key spaces under natural, reversed, modular, magnitude (a-b, 3*(a-b), (a-b)<<32, b-a, 7*(b-a), modular differences, MinInt/MaxInt) comparators and on string keys under strings.Compare, reversed, length-difference, byte-difference and first-byte comparators, mixing edits with lookups, Keys, String, iterators in 3 registers (First, Last, Seek, Iter.Seek re-synchronization after edits, Next/Prev steps and sweeps from seek positions), a fifth of the operations through a copy of the Map value; deleting, updating and inserting while iterating with Iter.Seek re-synchronization after every edit; ascending/descending bulk loads to 300 keys; big maps (round 3, macro operations B/D/Q of scale.go): growth order (ascending, descending, outside-in, inside-out, random, ideal breadth-first) x delete order (low end, high end, outside-in, inside-out, ideal breadth-first and its reverse, random, evenly spaced survivors, and - measured through the comparator calls of GetOK on a NewFunc map - shallowest/deepest first by real depth and keeping the deepest root-to-leaf paths) with 2^k-1, 2^k, 2^k+1 keys for k = 8..12 (thorough ..13), shrunk in stages to 1/2, 1/4, the exact size at which the tree below is not yet rebuilt (about 1/8 of the peak) and 1/16, then regrown with new and overwritten keys; after every stage from EVERY key Seek, GetOK/Get, Next and Prev steps, a Next/Prev zig-zag, Iter.Seek of a moved iterator, Seek of the absent key just above, and full First/Next and Last/Prev sweeps folded into digests, plus explicit iterator sessions at both ends, in the middle and at random keys; the zero Map (both key types) with every read operation, Delete, Clear, every iterator constructor and move, and with Set.; round 4: observer; edit; the whole observer set (a lookup, Seek to every target, iterators moved and left behind, Len, Keys, String - then a Set that replaces a value or an equivalent key, a new neighbour, Delete, Delete and Set again, the same Len by another key, Clear, Clear or key-by-key drain and the same keys again - then every observer, each part through the Map or its copy) on int and string maps under plain, magnitude and coarse comparators; a big map drained and a small one after it; every map size 0..600 with the stage at which the tree below is not yet rebuilt; Map[string,string] whose keys and values are empty, only blanks, begin or end with blanks, contain [ ] : blank tab newline NUL no-break space ~ % _ in the first, a middle and the last entry, String() compared byte by byte. Round 5 (K lines, typed.go): omap.New, omap.NewFunc(cmp.Compare), omap.NewFunc of a hand-written total order (and its reverse) and the zero Map at key types float64, float32, a named float64, int8, uint8, int64, uint64 and a named string type, with values int, bool, a 40-byte array, *int, string - keys written as codes: two NaNs of different bits, -Inf, -Max, -5e-324, -0, +0, 5e-324, smallest normal, 0.1, 0.3, 0.1+0.2, 1, nextafter(1), 2^53, 2^53+2, 1e21, Max, +Inf; MinInt64..MaxInt64; 0..MaxUint64 around 2^31, 2^32, 2^63; strings with NUL, blank, 0x7f, 0x80, 0xff, a two-byte rune; the reference order is cmp.Compare's (NaN first and equal to every NaN, -0 equal to +0; the stored key is the one last Set); every ordered pair of keys, the whole alphabet in five orders under every constructor with every observer from every key, random histories; M lines under comparators q<base> that READ the map they belong to (Len, GetOK, Seek+Next, Keys, First/Last+Prev) whenever they are called from a read-only operation. Round 6 (round6.go): drain sweeps - every peak 0..130 (grown in six orders) drained ONE Delete at a time (lowest key, highest key, a random key; a fifth through the copy) down to the empty map, the probe of every key after every Delete below 41 keys (thorough: after every Delete), a third of them regrown to half and drained again: every count at which the tree below is rebuilt, from every peak; iterators taken by First / Last / Seek while the map was EMPTY (new, cleared, drained key by key, through the copy), kept across Sets and re-synchronized with Iter.Seek at every target, on int and string keys, with the observers before the first edit and after the last. A case is non-trivial when it contains at least one edit and one observation; distinct = distinct input lines.",
		exec, func(g *tr.G) {
			x := &gen{g}
			r := g.R
			// 1. exhaustive small histories, each followed by a full battery of observations
			edits := []string{"s10=1", "s20=2", "s30=3", "s20=9", "d10", "d20", "d30", "c"}
			battery := "l;k;t;g10;g20;g30;g15"
			for _, tgt := range []string{"5", "10", "15", "20", "25", "30", "35"} {
				battery += ";S0=" + tgt + ";N0;S0=" + tgt + ";P0;S1=" + tgt + ";p1;n1;n1"
			}
			battery += ";F0;N0;L0;P0;F0;p0;L1;n1;F2;e2=20;n2;e2=99;e2=0"
			var rec func(head string, edits []string, battery string, cur []string, d int, tags ...string)
			rec = func(head string, edits []string, battery string, cur []string, d int, tags ...string) {
				x.g.Emit(head+strings.Join(append(append([]string(nil), cur...), battery), ";"), len(cur) > 0, tags...)
				if d == 0 {
					return
				}
				for _, e := range edits {
					rec(head, edits, battery, append(cur[:len(cur):len(cur)], e), d-1, tags...)
				}
			}
			rec("M n n ", edits, battery, nil, g.Scale(3, 4), "exhaustive")
			for _, c := range []string{"a", "D", "x", "M7"} {
				rec("M "+c+" n ", edits, battery, nil, g.Scale(2, 3), "exhaustive", "custom-comparator", "comparator-magnitudes")
			}
			// the same on string keys and values; "~" (the empty string) is a key and a value
			sedits := []string{"s~=p", "sb=q", "sbb=~", "sb=r", "d~", "db", "dbb", "c"}
			sbattery := "l;k;t;g~;gb;gbb;ga"
			for _, tgt := range []string{"~", "a", "b", "ba", "bb", "c"} {
				sbattery += ";S0=" + tgt + ";N0;S0=" + tgt + ";P0;S1=" + tgt + ";p1;n1;n1"
			}
			sbattery += ";F0;N0;L0;P0;F0;p0;L1;n1;F2;e2=b;n2;e2=zz;e2=~"
			for _, c := range []string{"n", "b", "B", "r"} {
				rec("T "+c+" n ", sedits, sbattery, nil, g.Scale(2, 3), "exhaustive", "string-keys")
			}
			// 2. the zero Map: every read, Delete, Clear, iterators; Set panics
			g.Emit("M n z l;k;t;g5;d5;c;l;F0;L1;S2=5;n0;p1;n2;N0;P1;e2=3;e0=1;e1=9;N2;@l;@k;@t;@g1;@d1;@c;@F0;@L1;@S2=0", true, "zero-map")
			g.Emit("M n z l;s5=1;l", true, "zero-map", "zero-map-set")
			g.Emit("M r z F0;n0;p0;k;t;@s1=1", true, "zero-map", "zero-map-set")
			g.Emit("M n n l;k;t;g5;d5;c;F0;L1;S2=5;n0;p1;n2;N0;P1", true, "empty-map")
			g.Emit("T n z l;k;t;g~;ga;d~;da;c;l;F0;L1;S2=a;S3=~;n0;p1;n2;p3;N0;P1;e2=b;e3=~;@l;@k;@t;@ga", true, "zero-map", "string-keys")
			g.Emit("T n z l;sa=p;l", true, "zero-map", "zero-map-set", "string-keys")
			g.Emit("T l z F0;n0;k;t;@s~=~", true, "zero-map", "zero-map-set", "string-keys")
			g.Emit("T n n l;k;t;g~;d~;c;F0;L1;S2=~;n0;p1;n2;N0;P1", true, "empty-map", "string-keys")
			// 2b. random histories on the zero Map: reads, Delete, Clear and iterators (Set only as the last op)
			for i := 0; i < g.Scale(200, 3000); i++ {
				strs := i%4 == 3
				var ops []string
				if strs {
					ops = x.history(x.strKey(3), x.strVal, 5+r.Intn(25), true)
				} else {
					ops = x.history(x.intKey(4+r.Intn(8)), x.intVal, 5+r.Intn(25), true)
				}
				for j, o := range ops {
					o2 := strings.TrimPrefix(o, "@")
					if strings.HasPrefix(o2, "s") {
						ops[j] = strings.Replace(o, "s", "d", 1)
						if i := strings.IndexByte(ops[j], '='); i >= 0 {
							ops[j] = ops[j][:i]
						}
					}
				}
				tags := []string{"zero-map"}
				if r.Chance(1, 3) {
					if strs {
						ops = append(ops, "sa=p", "l")
					} else {
						ops = append(ops, "s"+strconv.Itoa(r.Intn(9))+"=1", "l")
					}
					tags = append(tags, "zero-map-set")
				}
				if strs {
					x.g.Emit("T "+[]string{"n", "l", "b"}[r.Intn(3)]+" z "+strings.Join(ops, ";"), true, append(tags, "string-keys")...)
				} else {
					x.g.Emit("M "+[]string{"n", "r", "m5", "a", "x"}[r.Intn(5)]+" z "+strings.Join(ops, ";"), true, tags...)
				}
			}
			// 2c. round 6 (round6.go): iterators taken while the map was empty, kept across Sets, re-synchronized
			// with Iter.Seek; observers before the first edit and after the last
			x.emptyIterLines()
			// 3. random histories, int keys
			for i := 0; i < g.Scale(9000, 90000); i++ {
				cmps := "n"
				tags := []string{"random-history"}
				if r.Chance(1, 2) {
					var t []string
					cmps, t = x.customCmp()
					tags = append(tags, t...)
				}
				space := 4 + r.Intn(12)
				if r.Chance(1, 4) {
					space = 30 + r.Intn(200)
				}
				n := 5 + r.Intn(55)
				ops := x.history(x.intKey(space), x.intVal, n, true)
				x.g.Emit("M "+cmps+" n "+strings.Join(ops, ";"), true, tags...)
			}
			// 3b. random histories, string keys and values
			for i := 0; i < g.Scale(2500, 25000); i++ {
				cmps := []string{"n", "n", "r", "l", "L", "b", "B", "f"}[r.Intn(8)]
				tags := []string{"random-history", "string-keys"}
				switch cmps {
				case "l", "L", "f":
					tags = append(tags, "custom-comparator", "coarser-than-identity", "comparator-magnitudes")
				case "b", "B":
					tags = append(tags, "custom-comparator", "comparator-magnitudes")
				case "r":
					tags = append(tags, "custom-comparator")
				}
				ops := x.history(x.strKey(2+r.Intn(3)), x.strVal, 5+r.Intn(45), true)
				x.g.Emit("T "+cmps+" n "+strings.Join(ops, ";"), true, tags...)
			}
			// 4. seek battery after arbitrary edits: every target from below the minimum to above the maximum
			for i := 0; i < g.Scale(900, 6000); i++ {
				space := 6 + r.Intn(14)
				ops := x.history(x.intKey(space), x.intVal, 10+r.Intn(30), false)
				for k := -2; k <= space+2; k++ {
					ks := strconv.Itoa(k)
					ops = append(ops, "S0="+ks, string("NP"[r.Intn(2)])+"0")
					if r.Chance(1, 3) {
						ops = append(ops, "S1="+ks, "p1", "p1", "n1")
					}
					if r.Chance(1, 4) {
						ops = append(ops, "g"+ks)
					}
				}
				cmps := []string{"n", "n", "r", "m7", "m11", "a", "A", "t", "D", "M7", "R11", "x", "X", "h"}[r.Intn(14)]
				tags := []string{"seek-every-target"}
				if cmps != "n" {
					tags = append(tags, "custom-comparator")
				}
				x.g.Emit("M "+cmps+" n "+strings.Join(ops, ";"), true, tags...)
			}
			// 4b. delete (or update) while iterating, re-synchronizing with Iter.Seek after every edit (the
			// pattern of the package documentation and of TestIterEdit); a second iterator walks backwards
			for i := 0; i < g.Scale(300, 3000); i++ {
				n := 3 + r.Intn(14)
				cmps := []string{"n", "n", "a", "t", "x", "h"}[r.Intn(6)]
				var ops []string
				for _, k := range perm(r, n) {
					ops = append(ops, "s"+strconv.Itoa(2*k)+"="+strconv.Itoa(k))
				}
				ops = append(ops, "F0", "L1")
				for k := 0; k < n; k++ { // register 0 is at key 2k here
					ks := strconv.Itoa(2 * k)
					switch r.Intn(5) {
					case 0:
						ops = append(ops, "d"+ks, "e0="+ks) // delete the current key, re-seek: now at the next one
					case 1:
						ops = append(ops, "s"+ks+"="+strconv.Itoa(100+k), "e0="+ks, "n0") // update, re-seek (same key), advance
					case 2:
						ops = append(ops, "s"+strconv.Itoa(2*k+1)+"=7", "e0="+ks, "n0", "n0") // insert just after, re-seek, step over both
					default:
						ops = append(ops, "n0")
					}
					if r.Chance(1, 4) {
						ops = append(ops, "e1="+strconv.Itoa(2*(n-k)), "p1")
					}
				}
				ops = append(ops, "n0", "l", "k", "F2", "N2")
				x.g.Emit("M "+cmps+" n "+strings.Join(ops, ";"), true, "edit-while-iterating")
			}
			// 5. bulk loads (rebalancing on the way), then deletes from both ends and sweeps
			for i := 0; i < g.Scale(8, 120); i++ {
				n := 50 + r.Intn(g.Scale(150, 250))
				var ops []string
				for k := 0; k < n; k++ {
					kk := k
					if i%2 == 1 {
						kk = n - k
					}
					ops = append(ops, "s"+strconv.Itoa(kk*2)+"="+strconv.Itoa(k))
				}
				for k := 0; k < n/3; k++ {
					ops = append(ops, "d"+strconv.Itoa(r.Intn(2*n)))
				}
				ops = append(ops, "l", "k", "F0", "N0", "L0", "P0", "S0="+strconv.Itoa(n), "N0", "S1="+strconv.Itoa(n+1), "P1", "S2="+strconv.Itoa(5*n), "S2=-1", "N2")
				for k := 0; k < 12; k++ {
					ops = append(ops, "g"+strconv.Itoa(r.Intn(2*n+4)-2))
				}
				cmps := []string{"n", "a", "t", "x"}[i%4]
				x.g.Emit("M "+cmps+" n "+strings.Join(ops, ";"), true, "bulk-load")
			}
			// 6. big maps: grow to a few hundred .. a few thousand keys (sizes around powers of two), shrink to
			// 1/2, 1/4, 1/8, 1/16 of the peak (the tree below is rebuilt only when it falls under about 1/8 of
			// its peak), regrow; after every stage from EVERY key: Seek, GetOK/Get, Next and Prev steps,
			// Iter.Seek, Seek of the absent key just above, and full First/Next and Last/Prev sweeps; explicit
			// iterator sessions at the ends and in the middle
			x.bigMaps()
			// 6b. round 6 (round6.go): every peak 0..130 drained one Delete at a time to the empty map
			x.drainLines()
			// 7. round 4: observer; edit; the whole observer set (memo.go)
			x.memoLines()
			// 8. round 4: keys and values made of blanks, brackets, colons (values.go)
			x.valueLines()
			// 9. round 5: omap.New at float, small-int, extreme-int and named string key types, every
			// constructor, other value kinds; comparators that read their own map (typed.go)
			x.typedLines()
		})
}
