// Round 4, conditions on values: Map[string,string] with keys AND values whose text begins or ends with
// blanks, is only blanks, is empty, contains "[", "]", ":", " " (what String() itself is made of), a tab, a
// newline, "~", "%", "_" (what the trace syntax is made of) - in the first, a middle and the LAST entry
// of String() and Keys(), alone and together.  String() is compared byte by byte (escString).
package main

import (
	"sort"
	"strings"

	"verif/harness/internal/tr"
)

// the special texts, as tokens
var specials = []string{
	"~", "%20", "%20%20", "%20%20%20", "a%20", "a%20%20", "%20a", "%20a%20", "a%20b", "a%20%20b",
	"%5B", "%5D", "%5B%5D", "a%5D", "%5Bb", "a%5Db", "%5D%20", "%20%5D", "%5D%5D",
	"%3A", "a%3A", "%3Ab", "a%3Ab", "%3A%20", "%20%3A", "%3A%3A", "b%3Ac%20d%3Ae", "omap%5B%5D", "omap%5Ba%3Ab%5D",
	"%09", "a%09", "%0A", "a%0A", "%0D", "a%0B", "%C2%A0", "a%C2%A0", "a%E2%80%83", "a%00", "%00",
	"%7E", "%25", "%5F", "a%5F", "%2520", "nil", "%3Cnil%3E",
}

func (x *gen) valueLines() {
	g := x.g
	r := tr.NewRand(tr.NewRand(g.Seed).Uint64() ^ 0xC04A15)
	battery := func(keys []string) []string {
		ops := []string{"t", "k", "l"}
		for _, k := range keys {
			ops = append(ops, "g"+k)
		}
		return append(ops, "F0", "N0", "L0", "P0", "t")
	}
	emit := func(cmps string, ops []string, tags ...string) {
		g.Emit("T "+cmps+" n "+strings.Join(ops, ";"), true, append([]string{"special-text"}, tags...)...)
	}
	plainV := []string{"p", "q", "r"}
	for _, s := range specials {
		// ---- as a value: of the first, the middle, the last entry; of all; of the only one
		for pos := 0; pos < 3; pos++ {
			keys := []string{"a", "b", "c"}
			var ops []string
			for _, j := range perm(r, 3) {
				v := plainV[j]
				if j == pos {
					v = s
				}
				ops = append(ops, "s"+keys[j]+"="+v)
			}
			tag := []string{"special-value-first", "special-value-middle", "special-value-last"}[pos]
			emit("n", append(ops, battery(keys)...), tag)
			if pos != 1 {
				// the same under the reversed order: the entry is now at the other end
				emit("r", append(ops, battery(keys)...), []string{"special-value-last", "", "special-value-first"}[pos])
			}
		}
		emit("n", append([]string{"sa=" + s, "sb=" + s, "sc=" + s}, battery([]string{"a", "b", "c"})...), "special-value-last", "special-value-all")
		emit("n", append([]string{"sa=" + s}, battery([]string{"a"})...), "special-value-last", "special-value-only-entry")
		// set, then replaced by a plain value and back: the latest value is what String() shows
		emit("n", []string{"sa=p", "sb=" + s, "t", "sb=q", "t", "sb=" + s, "t", "da", "t", "db", "t"}, "special-value-last")
		// ---- as a key: between fillers that sort below and above it, so that it is first, in the middle
		// or last, under the natural and the reversed order; the values plain, special too, empty
		if s != "~" || true {
			fillers := [][]string{{"%01", "%7F"}, {"%7F", "%7F%7F"}, {"%01", "%01%01"}}
			for fi, fl := range fillers {
				keys := []string{fl[0], s, fl[1]}
				if s == fl[0] || s == fl[1] {
					continue
				}
				for _, cmps := range []string{"n", "r"} {
					var ops []string
					v := []string{"p", s, "~", tr.Pick(r, specials)}[r.Intn(4)]
					for _, j := range perm(r, 3) {
						if j == 1 {
							ops = append(ops, "s"+keys[j]+"="+v)
						} else {
							ops = append(ops, "s"+keys[j]+"="+plainV[j])
						}
					}
					// where did it land? (byte order, as strings.Compare)
					sorted := []string{strCodec.parse(keys[0]), strCodec.parse(keys[1]), strCodec.parse(keys[2])}
					sort.Strings(sorted)
					at := 0
					for i, k := range sorted {
						if k == strCodec.parse(s) {
							at = i
						}
					}
					if cmps == "r" {
						at = 2 - at
					}
					tag := []string{"special-key-first", "special-key-middle", "special-key-last"}[at]
					_ = fi
					emit(cmps, append(ops, append(battery(keys), "S0="+s, "N0", "S1="+s, "P1", "d"+s, "t", "k")...), tag)
				}
			}
		}
		emit("n", append([]string{"s" + s + "=" + s}, battery([]string{s})...), "special-key-last", "special-key-only-entry")
	}
	// ---- random histories over the special texts (keys and values), every comparator of the string kind
	sk := func() string { return tr.Pick(r, specials) }
	for i := 0; i < g.Scale(400, 5000); i++ {
		cmps := []string{"n", "n", "r", "l", "L", "b", "B", "f"}[r.Intn(8)]
		keyf := sk
		if r.Chance(1, 3) { // mixed with ordinary keys
			ord := x.strKey(3)
			keyf = func() string {
				if r.Chance(1, 2) {
					return ord()
				}
				return sk()
			}
		}
		ops := x.history(keyf, func() string {
			if r.Chance(1, 4) {
				return x.strVal()
			}
			return sk()
		}, 6+r.Intn(30), true)
		ops = append(ops, "t", "k", "F0", "N0", "L1", "P1")
		emit(cmps, ops, "special-random-history")
	}
}
