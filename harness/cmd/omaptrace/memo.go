// Round 4: "observer; edit; the whole observer set".  Anything a Map (or the tree and the cursors below
// it) remembers between calls is set by one method and used by another: a lookup, a Seek, a Len, a
// Keys, a String, an iterator left somewhere - then an edit that has to invalidate it (a Set that only
// replaces a value, a Set of an equivalent key under a coarse comparator, a Delete, a Clear, a Delete
// put back, the same Len reached by another key), through the Map or through its copy - then every
// observer again.  Also the same contents reached by different histories (drained by Clear or key by
// key and put back; a much larger map earlier).  The lines use only the ordinary ops of main.go.
package main

import (
	"strconv"
	"strings"

	"verif/harness/internal/tr"
)

type mbase struct {
	head  string   // "M <cmp> n " or "T <cmp> n "
	build []string // the Sets that make the map
	keys  []string // its keys in the comparator's order (tokens)
	// per key: a token just below it and just above it in the comparator's order that the map does not hold
	// ("" if the generator has none), and a token equivalent to it that is not the key itself ("" if none)
	below, above, equiv []string
	tags                []string
}

func (x *gen) memoBases(r *tr.Rand) []*mbase {
	var out []*mbase
	its := strconv.Itoa
	intBase := func(cmps string, n int, desc bool, mod int, tags ...string) {
		b := &mbase{head: "M " + cmps + " n ", tags: tags}
		var ks []int
		for i := 0; i < n; i++ {
			ks = append(ks, 10*(i+1))
		}
		if mod > 0 {
			ks = ks[:0]
			for i := 0; i < n; i++ {
				ks = append(ks, i+1) // 1..n, n < mod
			}
		}
		for _, j := range perm(r, n) {
			b.build = append(b.build, "s"+its(ks[j])+"="+its(100+j))
		}
		if desc {
			for i, j := 0, len(ks)-1; i < j; i, j = i+1, j-1 {
				ks[i], ks[j] = ks[j], ks[i]
			}
		}
		for _, k := range ks {
			b.keys = append(b.keys, its(k))
			lo, hi := k-1, k+1
			if desc {
				lo, hi = k+1, k-1
			}
			if mod > 0 {
				b.below, b.above = append(b.below, ""), append(b.above, "")
				b.equiv = append(b.equiv, its(k+mod))
			} else {
				b.below, b.above = append(b.below, its(lo)), append(b.above, its(hi))
				b.equiv = append(b.equiv, "")
			}
		}
		out = append(out, b)
	}
	for _, n := range []int{0, 1, 2, 3, 5} {
		intBase("n", n, false, 0, "memo-int")
	}
	intBase(tr.Pick(r, []string{"a", "t", "h", "x"}), 4, false, 0, "memo-int", "custom-comparator", "comparator-magnitudes")
	intBase(tr.Pick(r, []string{"r", "A", "D", "X"}), 4, true, 0, "memo-int", "custom-comparator")
	intBase("M7", 4, false, 7, "memo-int", "custom-comparator", "coarser-than-identity")
	intBase("m11", 6, false, 11, "memo-int", "custom-comparator", "coarser-than-identity")
	intBase("n", 9+r.Intn(8), false, 0, "memo-int")
	// string keys: natural order over b, bb, c, d (with "~" = the empty string below everything), and the
	// length comparator (keys of lengths 1, 2, 3: any other string of that length is an equivalent key)
	sb := &mbase{head: "T n n ", tags: []string{"memo-string", "string-keys"},
		keys:  []string{"~", "b", "bb", "d"},
		below: []string{"", "a", "ba", "c"}, above: []string{"a", "ba", "c", "e"}, equiv: []string{"", "", "", ""}}
	for _, j := range perm(r, 4) {
		sb.build = append(sb.build, "s"+sb.keys[j]+"="+[]string{"p", "~", "qq", "r"}[j])
	}
	out = append(out, sb)
	sl := &mbase{head: "T l n ", tags: []string{"memo-string", "string-keys", "custom-comparator", "coarser-than-identity"},
		keys:  []string{"a", "bb", "ccc"},
		below: []string{"~", "", ""}, above: []string{"", "", "dddd"}, equiv: []string{"z", "zz", "zzz"}}
	for _, j := range perm(r, 3) {
		sl.build = append(sl.build, "s"+sl.keys[j]+"="+[]string{"p", "q", "~"}[j])
	}
	out = append(out, sl)
	return out
}

func (x *gen) memoLines() {
	g := x.g
	r := tr.NewRand(tr.NewRand(g.Seed).Uint64() ^ 0xC04504)
	full := g.Thorough()
	for _, b := range x.memoBases(r) {
		n := len(b.keys)
		strs := strings.HasPrefix(b.head, "T")
		val := func() string {
			if strs {
				return x.strVal()
			}
			return strconv.Itoa(500 + r.Intn(500))
		}
		// seek / lookup targets: every key, what lies between, below and above
		type target struct {
			tok string
			i   int // index of the key at or after which it falls (n: above everything)
		}
		var tgts []target
		for i, k := range b.keys {
			if b.below[i] != "" {
				tgts = append(tgts, target{b.below[i], i})
			}
			tgts = append(tgts, target{k, i})
			if b.equiv[i] != "" {
				tgts = append(tgts, target{b.equiv[i], i})
			}
			if i == n-1 && b.above[i] != "" {
				tgts = append(tgts, target{b.above[i], n})
			}
		}
		if n == 0 {
			if strs {
				tgts = append(tgts, target{"b", 0})
			} else {
				tgts = append(tgts, target{"10", 0})
			}
		}
		if n > 8 && !full {
			var sm []target
			for i, t := range tgts {
				if i < 2 || i >= len(tgts)-2 || r.Chance(5, len(tgts)) {
					sm = append(sm, t)
				}
			}
			tgts = sm
		}
		// ---- the observers that could leave something behind, each with the key it was about
		type setter struct {
			ops []string
			i   int
		}
		var sets []setter
		for _, t := range tgts {
			sets = append(sets,
				setter{[]string{"g" + t.tok}, t.i},
				setter{[]string{"S0=" + t.tok}, t.i},
				setter{[]string{"S0=" + t.tok, "n0"}, t.i},
				setter{[]string{"S0=" + t.tok, "p0"}, t.i},
				setter{[]string{"S0=" + t.tok, "N0"}, t.i},
				setter{[]string{"F0", "e0=" + t.tok}, t.i},
				setter{[]string{"L0", "e0=" + t.tok, "p0", "e0=" + t.tok}, t.i})
		}
		mid := n / 2
		sets = append(sets, setter{[]string{"l"}, mid}, setter{[]string{"k"}, mid}, setter{[]string{"t"}, mid},
			setter{[]string{"F0"}, 0}, setter{[]string{"L0"}, n - 1}, setter{[]string{"F0", "N0"}, mid}, setter{[]string{"L0", "P0"}, mid},
			setter{[]string{"F0", "n0", "L1", "p1"}, mid}, setter{[]string{"l", "k", "t"}, mid})
		// ---- the edits between, about key i (or about the ends when the map is empty there)
		editsFor := func(i int) [][]string {
			var out [][]string
			add := func(ops ...string) { out = append(out, ops) }
			fresh := "1000"
			if strs {
				fresh = "zzzz"
			}
			add("s" + fresh + "=" + val())
			add("d" + fresh)
			add("c")
			if i >= 0 && i < n {
				k := b.keys[i]
				add("s" + k + "=" + val())
				add("d" + k)
				add("d"+k, "s"+k+"="+val())
				if b.equiv[i] != "" {
					add("s" + b.equiv[i] + "=" + val())
					add("d" + b.equiv[i])
					add("d"+k, "s"+b.equiv[i]+"="+val())
				}
				if b.above[i] != "" {
					add("s" + b.above[i] + "=" + val())
					add("d"+k, "s"+b.above[i]+"="+val()) // the same Len by another key
				}
				if b.below[i] != "" {
					add("s" + b.below[i] + "=" + val())
					add("d"+k, "s"+b.below[i]+"="+val())
				}
				if i > 0 {
					add("d" + b.keys[i-1])
				}
				if i+1 < n {
					add("d" + b.keys[i+1])
					add("d"+k, "d"+b.keys[i+1])
				}
			}
			if n > 0 {
				// the same keys by another history: Clear (or Delete key by key) and Set again, new values
				var re, drain []string
				for _, j := range perm(r, n) {
					re = append(re, "s"+b.keys[j]+"="+val())
				}
				for _, j := range perm(r, n) {
					drain = append(drain, "d"+b.keys[j])
				}
				add(append([]string{"c"}, re...)...)
				add(append(drain, re...)...)
				add(drain...)
			}
			return out
		}
		battery := func(i int) []string {
			ops := []string{"l", "k", "t"}
			for _, k := range b.keys {
				ops = append(ops, "g"+k)
			}
			var near []string
			if i >= 0 && i < n {
				near = append(near, b.keys[i], b.below[i], b.above[i], b.equiv[i])
			}
			if strs {
				near = append(near, "zzzz", "~")
			} else {
				near = append(near, "1000", "-5")
			}
			for _, t := range near {
				if t == "" {
					continue
				}
				ops = append(ops, "g"+t, "e0="+t, "n0", "S1="+t, "p1", "S2="+t, "N2", "S2="+t, "P2")
			}
			return append(ops, "F0", "N0", "L1", "P1", "F2", "p2", "L2", "n2", "l")
		}
		via := func(ops []string, at bool) []string {
			if !at {
				return ops
			}
			out := make([]string, len(ops))
			for j, o := range ops {
				if strings.IndexByte("npNPe", o[0]) >= 0 { // moves of an iterator go to the iterator, not to a Map value
					out[j] = o
				} else {
					out[j] = "@" + o
				}
			}
			return out
		}
		for si, set := range sets {
			edits := editsFor(set.i)
			for ei, e := range edits {
				if !full && (ei+si)%4 != 0 && !r.Chance(1, 10) {
					continue
				}
				// each part through the Map or through its copy
				a1, a2, a3 := r.Chance(1, 3), r.Chance(1, 3), r.Chance(1, 3)
				ops := append([]string(nil), b.build...)
				ops = append(ops, via(set.ops, a1)...)
				ops = append(ops, via(e, a2)...)
				ops = append(ops, via(battery(set.i), a3)...)
				tags := append([]string{"memo", "memo-setter-" + string(set.ops[len(set.ops)-1][0])}, b.tags...)
				if a1 != a2 || a2 != a3 {
					tags = append(tags, "memo-across-copies")
				}
				g.Emit(b.head+strings.Join(ops, ";"), true, tags...)
			}
		}
	}
	// ---- a much larger map earlier, drained (by Clear, from one end, or at random) and a small one after it:
	// whatever was sized or positioned for the big one is consumed by the small one
	for i := 0; i < g.Scale(12, 80); i++ {
		big := []int{40, 70, 130, 260, 520}[r.Intn(5)] + r.Intn(9)
		if g.Thorough() && i%8 == 0 {
			big = 1030 + r.Intn(10)
		}
		ops := []string{"B" + string("adzr"[r.Intn(4)]) + ":0:" + strconv.Itoa(big) + ":3:" + strconv.Itoa(r.Intn(1000))}
		switch r.Intn(3) {
		case 0:
			ops = append(ops, "S0="+strconv.Itoa(3*r.Intn(big)), "k", "c")
		case 1:
			ops = append(ops, "S0="+strconv.Itoa(3*r.Intn(big)), "D"+string("lhr"[r.Intn(3)])+":0:"+strconv.Itoa(r.Intn(1000)))
		default:
			ops = append(ops, "L0", "p0", "D"+string("lhroi"[r.Intn(5)])+":3:"+strconv.Itoa(r.Intn(1000)), "Q2", "c")
		}
		ops = append(ops, "l", "k", "t", "F0", "L1", "S2=5")
		small := 1 + r.Intn(6)
		for j := 0; j < small; j++ {
			ops = append(ops, "s"+strconv.Itoa(3*r.Intn(big))+"="+strconv.Itoa(j))
		}
		ops = append(ops, "Q2", "l", "k", "t", "F0", "N0", "L1", "P1", "S2="+strconv.Itoa(3*r.Intn(big)), "N2")
		cmps := []string{"n", "n", "a", "D", "x"}[r.Intn(5)]
		g.Emit("M "+cmps+" n "+strings.Join(ops, ";"), true, "memo", "memo-big-then-small")
	}
	// ---- every size 0..600: bulk Set, probe every key; Delete down to exactly the size at which the tree below
	// is not yet rebuilt ((250*n+1000)/2000), probe; for every third size (the offset moves with the seed)
	// one more Delete (the rebuild), probe, Clear, a few keys, probe
	off := r.Intn(3)
	for n := 0; n <= 600; n++ {
		its := strconv.Itoa
		ops := []string{"B" + string("adzrib"[r.Intn(6)]) + ":0:" + its(n) + ":3:" + its(r.Intn(1000)), "Q1"}
		thr := (250*n + 1000) / 2000
		ord := string("lhoibBre"[r.Intn(8)])
		if thr >= 1 && thr < n {
			ops = append(ops, "D"+ord+":"+its(thr)+":"+its(r.Intn(1000)), "Q1")
			if full || n%3 == off {
				ops = append(ops, "D"+ord+":"+its(thr-1)+":"+its(r.Intn(1000)), "Q2", "c", "l", "k", "t", "F0", "S1=5",
					"B"+"a"+":1:"+its(1+n%5)+":3:0", "Q2", "t")
			}
		}
		g.Emit("M n n "+strings.Join(ops, ";"), n >= 2, "memo", "size-sweep-0-600")
	}
}
