// Command ringtrace drives ring.Ring[int] of the working tree through operation histories and
// records every observable, one history per line:
//
//	H <op>;<op>;…  |  <out>;<out>;…
//
// Ring elements are named 1,2,3,… in the order in which New/Of hand them out: the j-th element
// met when walking Next from the returned handle (j = 0,1,…,n-1) gets the next free name.
// 0 is nil.  A name that was never handed out makes the operation print "fault" (it can only
// occur in shrunk inputs).  Operations:
//
//	N<n>        New(n)                      -> name of the handle
//	O<v,…>      Of(v…) (the argument slice is overwritten afterwards) -> name
//	J<r>,<s>    r.Join(s)                   -> name
//	P<r>        r.Pop()                     -> name
//	X<r> V<r>   r.Next(), r.Prev()          -> name
//	A<r>,<n>    r.At(n)                     -> name
//	K<r>,<n>    r.Peek(n)                   -> value:ok
//	L<r>        r.Len()                     -> int
//	E<r>,<lim>  r.Each(f), f false on its lim-th call (0 = never) -> values passed to f
//	Z<r>        r.IsEmpty()                 -> 0/1
//	F<r>,<k> B<r>,<k>  k successive Next (Prev) calls starting at r -> names reached
//	S           snapshot: for every name x handed out so far, with c = number of names:
//	            F x,c+1 ~ B x,c+1 ~ L x ~ E x,0 ~ A x,o and K x,o for o = -(L+1)..(L+1) (L = the Len result)
//
// Bulk operations of the scale stream (a snapshot is cubic in the number of names):
//
//	R<n>,<b>    Of(b+1,…,b+n)               -> name
//	D<r>,<k>    k times: x := r.Next(); x.Pop()   -> the names popped
//	C<r>,<k>    k times: x := r.Prev(); x.Pop()   -> the names popped
//	G<r>,<lo>,<hi>  for x = lo..hi: r.Join(x)   -> the names returned
//	T<r>,<o>+<o>+…  At and Peek at every offset -> name=value:ok,…
//
// Lists of more than 200 items (E, F, B, D, C, G) are printed as a digest on both sides:
// #<count>:<FNV-1a-64 of the comma-joined text>:<first three>~<last three>.
//
// A nil dereference prints panic:nil; a watchdog turns a hang into "hang".
package main

import (
	"fmt"
	"math"
	"strconv"
	"strings"
	"sync"
	"time"

	"github.com/creachadair/mds/ring"
	"verif/harness/internal/tr"
)

type R = ring.Ring[int]

type sess struct {
	hs   []*R // hs[0] = nil
	name map[*R]int
}

func (s *sess) nm(p *R) string {
	if p == nil {
		return "0"
	}
	if k, ok := s.name[p]; ok {
		return strconv.Itoa(k)
	}
	return "?"
}

func (s *sess) get(a string) (*R, bool) {
	k, err := strconv.Atoi(a)
	if err != nil || k < 0 || k >= len(s.hs) {
		return nil, false
	}
	return s.hs[k], true
}

// register names the n elements of a freshly built ring by walking Next from r.
func (s *sess) register(r *R, n int) {
	cur := r
	for i := 0; i < n && cur != nil; i++ {
		if _, ok := s.name[cur]; !ok {
			s.name[cur] = len(s.hs)
			s.hs = append(s.hs, cur)
		}
		cur = cur.Next()
	}
}

type runaway struct{}

func catch(f func() string) (res string) {
	defer func() {
		if r := recover(); r != nil {
			if _, ok := r.(runaway); ok {
				res = "hang"
				return
			}
			res = "panic:" + tr.PanicKind(r)
		}
	}()
	return f()
}

// digestAbove: longer lists are printed as count, hash and both ends (the OCaml driver prints the
// model's and the reference's lists by the same rule).
const digestAbove = 200

func list(items []string) string {
	if len(items) == 0 {
		return "."
	}
	joined := strings.Join(items, ",")
	n := len(items)
	if n <= digestAbove {
		return joined
	}
	h := uint64(14695981039346656037)
	for i := 0; i < len(joined); i++ {
		h ^= uint64(joined[i])
		h *= 1099511628211
	}
	return fmt.Sprintf("#%d:%016x:%s~%s", n, h, strings.Join(items[:3], ","), strings.Join(items[n-3:], ","))
}

func intList(xs []int) string {
	out := make([]string, len(xs))
	for i, x := range xs {
		out[i] = strconv.Itoa(x)
	}
	return list(out)
}

const maxBulk = 1 << 17 // a bulk count beyond this is not an input of the generator

// drain pops k successors (predecessors) of r, one Pop each, and names them.
func (s *sess) drain(r *R, k int, back bool) string {
	var out []string
	res := catch(func() string {
		for i := 0; i < k; i++ {
			x := r.Next()
			if back {
				x = r.Prev()
			}
			out = append(out, s.nm(x.Pop()))
		}
		return ""
	})
	if res != "" {
		out = append(out, res)
	}
	return list(out)
}

func (s *sess) each(r *R, lim int) string {
	var vs []int
	calls := 0
	limit := 4*len(s.hs) + 8
	r.Each(func(v int) bool {
		calls++
		if calls > limit {
			panic(runaway{})
		}
		vs = append(vs, v)
		return calls != lim
	})
	return intList(vs)
}

func (s *sess) walk(r *R, k int, back bool) string {
	var out []string
	cur := r
	res := catch(func() string {
		for i := 0; i < k; i++ {
			if back {
				cur = cur.Prev()
			} else {
				cur = cur.Next()
			}
			out = append(out, s.nm(cur))
		}
		return ""
	})
	if res != "" {
		out = append(out, res)
	}
	return list(out)
}

func (s *sess) peek(r *R, n int) string {
	return catch(func() string {
		v, ok := r.Peek(n)
		return strconv.Itoa(v) + ":" + tr.B(ok)
	})
}

func (s *sess) op(o string) string {
	if o == "" {
		return "?"
	}
	args := strings.Split(o[1:], ",")
	arg := func(i int) string {
		if i < len(args) {
			return args[i]
		}
		return ""
	}
	num := func(i int) int { n, _ := strconv.Atoi(arg(i)); return n }
	switch o[0] {
	case 'N':
		n := num(0)
		if n > 100000 {
			return "too-large" // not an input of the generator (it would only exhaust memory)
		}
		return catch(func() string {
			r := ring.New[int](n)
			s.register(r, n)
			return s.nm(r)
		})
	case 'O':
		vs := tr.UnInts(o[1:])
		return catch(func() string {
			r := ring.Of(vs...)
			n := len(vs)
			for i := range vs {
				vs[i] = -777 // the ring must not alias the argument slice
			}
			s.register(r, n)
			return s.nm(r)
		})
	case 'R':
		n, b := num(0), num(1)
		if n < 0 || n > maxBulk {
			return "too-large"
		}
		vs := make([]int, n)
		for i := range vs {
			vs[i] = b + 1 + i
		}
		return catch(func() string {
			r := ring.Of(vs...)
			for i := range vs {
				vs[i] = -777
			}
			s.register(r, n)
			return s.nm(r)
		})
	case 'S':
		c := len(s.hs) - 1
		var blocks []string
		for x := 1; x <= c; x++ {
			r := s.hs[x]
			l := catch(func() string { return strconv.Itoa(r.Len()) })
			f := []string{s.walk(r, c+1, false), s.walk(r, c+1, true), l, catch(func() string { return s.each(r, 0) })}
			if ln, err := strconv.Atoi(l); err == nil {
				var as, ks []string
				for o := -(ln + 1); o <= ln+1; o++ {
					as = append(as, catch(func() string { return s.nm(r.At(o)) }))
					ks = append(ks, s.peek(r, o))
				}
				f = append(f, strings.Join(as, ","), strings.Join(ks, ","))
			}
			blocks = append(blocks, strings.Join(f, "~"))
		}
		if len(blocks) == 0 {
			return "."
		}
		return strings.Join(blocks, "/")
	}
	r, ok := s.get(arg(0))
	if !ok {
		return "fault"
	}
	switch o[0] {
	case 'J':
		q, ok := s.get(arg(1))
		if !ok {
			return "fault"
		}
		return catch(func() string { return s.nm(r.Join(q)) })
	case 'P':
		return catch(func() string { return s.nm(r.Pop()) })
	case 'X':
		return catch(func() string { return s.nm(r.Next()) })
	case 'V':
		return catch(func() string { return s.nm(r.Prev()) })
	case 'A':
		return catch(func() string { return s.nm(r.At(num(1))) })
	case 'K':
		return s.peek(r, num(1))
	case 'L':
		return catch(func() string { return strconv.Itoa(r.Len()) })
	case 'E':
		return catch(func() string { return s.each(r, num(1)) })
	case 'Z':
		return catch(func() string { return tr.B(r.IsEmpty()) })
	case 'F', 'B':
		return s.walk(r, num(1), o[0] == 'B')
	case 'D', 'C':
		return s.drain(r, num(1), o[0] == 'C')
	case 'G':
		lo, hi := num(1), num(2)
		if lo < 0 || hi >= len(s.hs) {
			return "fault"
		}
		var out []string
		res := catch(func() string {
			for x := lo; x <= hi; x++ {
				out = append(out, s.nm(r.Join(s.hs[x])))
			}
			return ""
		})
		if res != "" {
			out = append(out, res)
		}
		return list(out)
	case 'T':
		var out []string
		for _, a := range strings.Split(strings.Join(args[1:], ","), "+") {
			n, err := strconv.Atoi(a)
			if err != nil {
				return "?"
			}
			out = append(out, catch(func() string { return s.nm(r.At(n)) })+"="+s.peek(r, n))
		}
		return strings.Join(out, ",")
	}
	return "?"
}

// hangs counts the histories stopped by the watchdog; each leaves a spinning goroutine behind,
// so after a few of them the remaining histories are not run at all.
var hangs int

func exec(in string) string {
	f := strings.SplitN(in, " ", 2)
	if f[0] != "H" {
		return "?"
	}
	if hangs >= 4 {
		return "not-run:earlier-hangs"
	}
	var ops []string
	if len(f) > 1 && f[1] != "" {
		ops = strings.Split(f[1], ";")
	}
	var mu sync.Mutex
	var outs []string
	res := tr.Guard(3*time.Second, func() {
		s := &sess{hs: []*R{nil}, name: map[*R]int{}}
		for _, o := range ops {
			r := s.op(o)
			mu.Lock()
			outs = append(outs, r)
			mu.Unlock()
		}
	})
	mu.Lock()
	defer mu.Unlock()
	got := append([]string(nil), outs...)
	if res != "" {
		got = append(got, res)
		if res == "hang" {
			hangs++
		}
	}
	return strings.Join(got, ";")
}

func seqInts(lo, n int) string {
	xs := make([]int, n)
	for i := range xs {
		xs[i] = lo + i
	}
	return tr.Ints(xs)
}

// ---- scale stream: one ring of n elements (n around the powers of two), split into two big
// rings by a Join of two far-apart elements and put together again by a Join of the two rings,
// drained by single Pops of the handle's successors / predecessors to 1/2, 1/4, 1/8, 1/16 of n
// and to one element (observed after every phase: Len, Each, a full walk forward and backward,
// At/Peek at the ends, in the middle and just beyond, in both directions), Pop on a ring of
// one, regrown by Joins of the popped singletons, drained again.  No snapshots: a snapshot is
// cubic in the number of elements ever made.

func ringProbes(n int) string {
	seen := map[int]bool{}
	var out []string
	for _, x := range []int{0, 1, n / 2, n - 1, n, n + 1, -1, -(n / 2), -(n - 1), -n, -(n + 1)} {
		if !seen[x] {
			seen[x] = true
			out = append(out, strconv.Itoa(x))
		}
	}
	return strings.Join(out, "+")
}

// ringScale: fullRegrow = put every popped element back (otherwise an eighth of them);
// lastDrain = drain the regrown ring completely once more; obsMax = above this size only Len and
// the neighbourhood of the handle are observed (every step of a walk is linear in the number of
// elements ever made when the extracted model replays it).
func ringScale(n int, fullRegrow, lastDrain bool, obsMax int) string {
	var ops []string
	add := func(f string, a ...any) { ops = append(ops, fmt.Sprintf(f, a...)) }
	obs := func(r, cur int) {
		add("L%d", r)
		if cur > obsMax {
			add("F%d,3", r)
			add("B%d,3", r)
			add("T%d,0+1+2+-1+-2", r)
			return
		}
		add("E%d,0", r)
		add("F%d,%d", r, cur+1)
		add("B%d,%d", r, cur+1)
		add("T%d,%s", r, ringProbes(cur))
	}
	add("R%d,1000", n)
	obs(1, n)
	if n > obsMax { // the far ends of the full ring, once in each direction
		add("T1,%d+%d", n-1, -(n - 1))
	}
	if n >= 4 { // split far apart: [1, h+1 … n] stays, [2 … h] is returned; then join the two rings again
		h := n/2 + 1
		add("J1,%d", h)
		obs(1, n-(h-2))
		obs(2, h-2)
		add("J1,2")
		obs(1, n)
	}
	// names 2 … lo-1 have been popped from the front, hi+1 … n from the back
	lo, hi := 2, n
	cur := n
	back := false
	down := func(t int) {
		k := cur - t
		if k <= 0 {
			return
		}
		if back {
			add("C1,%d", k)
			hi -= k
		} else {
			add("D1,%d", k)
			lo += k
		}
		back = !back
		cur = t
		obs(1, cur)
	}
	plan := []int{n / 2, n / 4, n / 8, n / 16, 1}
	for _, t := range plan {
		if t >= 1 && t < cur {
			down(t)
		}
	}
	// a ring of one: its successor is itself, Pop changes nothing; the popped ones are singletons
	add("D1,2")
	add("C1,1")
	if lo > 2 {
		add("L2")
		add("F%d,2", lo-1)
	}
	if hi < n {
		add("B%d,2", n)
	}
	obs(1, 1)
	// regrow: join the popped singletons back in, front ones then back ones
	if fullRegrow {
		if lo > 2 {
			add("G1,2,%d", lo-1)
		}
		if hi < n {
			add("G1,%d,%d", hi+1, n)
		}
		cur = n
	} else if lo > 2 {
		k := min(lo-2, n/8+1)
		add("G1,2,%d", 1+k)
		cur = 1 + k
	}
	obs(1, cur)
	if lastDrain {
		add("C1,%d", cur/2)
		obs(1, cur-cur/2)
		add("D1,%d", cur)
		obs(1, 1)
	}
	return "H " + strings.Join(ops, ";")
}

func main() {
	tr.Main("C10_ring: Join of every ordered pair of elements of one ring (every distance, equal, adjacent) and of two different rings, ring sizes 1..8 (quick) / 1..10 (thorough), with a snapshot before and after; Pop of every element (rings of one and of two elements tagged), put back with the popped element as argument and as receiver; New for n = -2..9, for n <= 0 down to math.MinInt64 and for one ring of a few hundred elements; Of without values; nil receivers and arguments; Each stopped at every call; At/Peek at every offset -(len+1)..(len+1) and far beyond, up to math.MaxInt64 and down to math.MinInt64; random histories of Join/Pop/New/Of over several rings with a snapshot after every mutation.  Scale stream (every tier): one ring of 2^k-1, 2^k, 2^k+1 elements (k<=10, then one size each at 2^11 and 2^12 in the quick tier; all sizes to 2^11 and one each at 2^12 and 2^13 thorough) and a few random sizes: split into two big rings by a Join of two far-apart elements, rejoined by a Join of the two rings, drained by single Pops of the successors / predecessors of the handle to 1/2, 1/4, 1/8, 1/16 and to one element, Pop on the ring of one, regrown by Joins of the popped singletons and drained again; after every phase Len, Each, a full walk in both directions (digests above 200 items) and At/Peek at the ends, the middle and beyond in both directions.  A snapshot walks Next and Prev c+1 steps from every element ever handed out and records Len, Each, At and Peek at all offsets.  A case is non-trivial when it contains a Join or a Pop; distinct = distinct histories.",
		exec, func(g *tr.G) {
			maxN := g.Scale(8, 10)
			// nil receivers / arguments, empty rings
			for _, h := range []string{"J0,0", "O1,2;J0,1;S", "O1,2;J1,0;S", "X0", "V0", "A0,0", "A0,3", "A0,-3", "K0,0", "K0,2", "L0", "E0,0", "E0,1", "Z0", "O5;Z1", "P0", "O;S", "O;Z0", "N0;S", "F0,2", "B0,2"} {
				g.Emit("H "+h, false, "nil-or-empty")
			}
			for n := -2; n <= maxN+1; n++ {
				g.Emit(fmt.Sprintf("H N%d;S", n), false, "new")
			}
			// New with no elements to make, down to the minimum int; Of with no values; the observers on the nil result
			for _, n := range []int{math.MinInt64, math.MinInt64 + 1, -(1 << 40), -1, 0} {
				g.Emit(fmt.Sprintf("H N%d;S;N%d;L0;E0,0;Z0;O;N2;S", n, n), false, "new-nonpos")
			}
			// a ring large against the sizes above: the counters of New, Len and At run a few hundred steps
			for _, n := range []int{g.Scale(300, 1500)} {
				g.Emit(fmt.Sprintf("H N%d;L1;A1,%d;A1,%d;A1,%d;A1,%d;K1,%d;E1,3;X1;V1;P1;L1;L2;J1,2;L1", n, n-1, n, -(n - 1), -n, n/2), true, "new-large")
			}
			for n := 1; n <= maxN; n++ {
				of := "O" + seqInts(11, n)
				g.Emit("H "+of+";S", false, "of")
				// same ring, every ordered pair
				for i := 1; i <= n; i++ {
					for j := 1; j <= n; j++ {
						d := ((j-i)%n + n) % n
						tag := "same-ring-apart"
						switch {
						case i == j:
							tag = "same-ring-equal"
						case d == 1:
							tag = "same-ring-adjacent"
						case d == n-1:
							tag = "same-ring-s-before-r"
						}
						g.Emit(fmt.Sprintf("H %s;S;J%d,%d;S", of, i, j), true, tag)
						if n <= 5 {
							// and once more on the result, between the two pieces
							g.Emit(fmt.Sprintf("H %s;J%d,%d;J%d,%d;S;J%d,%d;S", of, i, j, j, i, i, i%n+1), true, "same-ring-then-rejoin")
						}
					}
					ptag := "pop"
					switch n {
					case 1:
						ptag = "pop-singleton"
					case 2:
						ptag = "pop-ring-of-two" // the two neighbours of the popped element are the same element
					}
					g.Emit(fmt.Sprintf("H %s;P%d;S;P%d;S;J%d,%d;S", of, i, i, i%n+1, i), true, ptag)
					// the popped element as the receiver of the Join that puts it back, then Pop of its new successor
					g.Emit(fmt.Sprintf("H %s;P%d;J%d,%d;S;P%d;S", of, i, i, i%n+1, i%n+1), true, ptag+"-rejoin")
					for lim := 0; lim <= n+1; lim++ {
						g.Emit(fmt.Sprintf("H %s;E%d,%d", of, i, lim), false, "each-stop")
					}
					for _, o := range []int{n, n + 1, 2 * n, 2*n + 1, 1000, 1 << 40, 1<<62 + 12345, math.MaxInt64} {
						g.Emit(fmt.Sprintf("H %s;A%d,%d;K%d,%d;A%d,%d;K%d,%d", of, i, o, i, o, i, -o, i, -o), false, "at-far")
					}
					// the minimum int has no negation; At must still count it toward zero and stop after len steps
					g.Emit(fmt.Sprintf("H %s;A%d,%d;K%d,%d;A%d,%d;K%d,%d", of, i, math.MinInt64, i, math.MinInt64, i, math.MinInt64+1, i, math.MinInt64+1), false, "at-minint")
				}
				// different rings, every pair
				for m := 1; m <= maxN; m++ {
					of2 := "O" + seqInts(31, m)
					for i := 1; i <= n; i++ {
						for j := 1; j <= m; j++ {
							tag := "different-rings"
							if n == 1 || m == 1 {
								tag = "different-rings-singleton"
							}
							g.Emit(fmt.Sprintf("H %s;%s;S;J%d,%d;S", of, of2, i, n+j), true, tag)
						}
					}
				}
			}
			// scale stream (see ringScale): all sizes 2^k-1, 2^k, 2^k+1 up to 2^allK, one size per k
			// (2^k+1, 2^k, 2^k-1 in turn) up to 2^kmax, and a few random ones.  The extracted model
			// replays one Pop, Join or step of a walk in time linear in the number of elements ever
			// made, so above 2^allK the rings are observed in full only once drained below obsMax,
			// regrown by an eighth and not drained a second time.
			allK, kmax, obsMax := g.Scale(10, 11), g.Scale(12, 13), g.Scale(1100, 2100)
			seen := map[int]bool{}
			var sizes []int
			for k := 1; k <= allK; k++ {
				for d := -1; d <= 1; d++ {
					if n := 1<<k + d; n >= 1 && !seen[n] {
						seen[n] = true
						sizes = append(sizes, n)
					}
				}
			}
			for k := allK + 1; k <= kmax; k++ {
				sizes = append(sizes, 1<<k+1-(k-allK-1)%3)
			}
			for i := 0; i < g.Scale(2, 6); i++ {
				sizes = append(sizes, g.R.Range(300, g.Scale(600, 2000)))
			}
			for _, n := range sizes {
				small := n <= 1<<allK+1
				g.Emit(ringScale(n, small, small, obsMax), true, "scale")
			}
			// random histories
			for it := 0; it < g.Scale(3000, 60000); it++ {
				var ops []string
				total := 0
				maxTotal := g.R.Range(4, 12)
				mk := func() {
					n := g.R.Range(1, 4)
					if g.R.Chance(1, 10) {
						n = g.R.Range(-1, 6)
					}
					if g.R.Bool() {
						ops = append(ops, fmt.Sprintf("N%d", n))
					} else {
						if n < 0 {
							n = 0
						}
						ops = append(ops, "O"+seqInts(10*(total+1), n))
					}
					if n > 0 {
						total += n
					}
				}
				for k := g.R.Range(1, 4); k > 0 || total < 2; k-- {
					mk()
				}
				h := func() int {
					if g.R.Chance(1, 40) {
						return 0
					}
					return g.R.Range(1, total)
				}
				nops := g.R.Range(3, 14)
				for k := 0; k < nops; k++ {
					switch c := g.R.Intn(20); {
					case c < 11:
						ops = append(ops, fmt.Sprintf("J%d,%d", h(), h()), "S")
					case c < 15:
						ops = append(ops, fmt.Sprintf("P%d", h()), "S")
					case c < 17 && total < maxTotal:
						mk()
						ops = append(ops, "S")
					case c < 18:
						ops = append(ops, fmt.Sprintf("E%d,%d", h(), g.R.Intn(5)))
					case c < 19:
						ops = append(ops, fmt.Sprintf("K%d,%d", h(), g.R.Range(-30, 30)), fmt.Sprintf("A%d,%d", h(), g.R.Range(-30, 30)))
					default:
						ops = append(ops, fmt.Sprintf("X%d", h()), fmt.Sprintf("V%d", h()), fmt.Sprintf("L%d", h()), fmt.Sprintf("Z%d", h()))
					}
				}
				g.Emit("H "+strings.Join(ops, ";"), true, "random")
			}
		})
}
