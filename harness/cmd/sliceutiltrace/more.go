// Y lines (round 7): Reverse, Dedup, Select and MatchingKeys -- exported functions of package slice
// the generators did not call -- at four element types, on views with spare capacity, on nil and
// on empty slices / maps.
//
// The trace speaks about CODES (small ints); the harness maps a code to an element of the type
// under test and back.  ty:
//
//	i int (code c is c+9)          s string          t the 40-byte struct rec of scale.go
//	f float64: c >= 0 is c+0.5, -1 is NaN, -2 is -0.0, -3 is +0.0  (NaN != NaN; -0.0 == +0.0 but the
//	  two are told apart when decoding, which is what shows WHICH element of a run Dedup kept)
//
// The zero value decodes to -9 (f: -3).  vs = base[pre : pre+n : pre+n+extra] (pre = -1: nil),
// base[j] outside the window holds the code 30+j.  keep(c) = bit c of mask (bit 62+c for c < 0).
//
//	Y V ty pre extra codes             | codes(base after)                                Reverse
//	Y D ty pre extra codes             | view codes(result) codes(base after) N|S         Dedup; view = off:len:cap:cls
//	                                     as for the other ops, N = the result is nil
//	Y L ty pre extra codes mask m form | got f-calls yield-calls codes(base after)        Select; the consumer stops after m
//	                                     values (m <= 0: never); form r = range-over-func, d = the iterator called
//	                                     directly with a yield function that keeps counting calls after it said stop
//	Y K ty form keys mask m            | m <= 0: sorted(got) f-calls yield-calls          MatchingKeys on {k: val(k)},
//	                                     m > 0:  n=<count of got> yield-calls             val(k) = -1 if k%4 == 3 else (7k+3)%13,
//	                                     keys = nil (nil map), "." (empty map) or codes; the predicate is keep on the VALUE.
//	                                     Which keys arrive before a stop depends on the map order, so only their number is printed.
package main

import (
	"fmt"
	"math"
	"slices"
	"sort"
	"strconv"
	"unsafe"

	"github.com/creachadair/mds/slice"
	"verif/harness/internal/tr"
)

const yOutside = 30

func yKeep(mask int) func(int) bool {
	return func(c int) bool {
		if c < 0 {
			c += 62
		}
		return c >= 0 && c < 62 && (mask>>uint(c))&1 == 1
	}
}

func yVal(k int) int {
	if k%4 == 3 {
		return -1
	}
	return (7*k + 3) % 13
}

var yCodecI = codec[int]{func(c int) int { return c + 9 }, func(v int) int { return v - 9 }}
var yCodecS = codec[string]{encS, func(s string) int {
	if s == "" {
		return -9
	}
	return decS(s)
}}
var yCodecT = codec[rec]{encT, func(r rec) int {
	if r == (rec{}) {
		return -9
	}
	return decT(r)
}}
var yCodecF = codec[float64]{func(c int) float64 {
	switch c {
	case -1:
		return math.NaN()
	case -2:
		return math.Copysign(0, -1)
	case -3:
		return 0
	}
	return float64(c) + 0.5
}, func(v float64) int {
	switch {
	case v != v:
		return -1
	case v == 0 && math.Signbit(v):
		return -2
	case v == 0:
		return -3
	}
	return int(v - 0.5)
}}

func yMk[T comparable](c codec[T], pre, extra int, vals []int) (base, vs []T) {
	if pre < 0 {
		return nil, nil
	}
	n := len(vals)
	base = make([]T, pre+n+extra)
	for j := range base {
		base[j] = c.enc(yOutside + j)
	}
	for j, v := range vals {
		base[pre+j] = c.enc(v)
	}
	return base, base[pre : pre+n : pre+n+extra]
}

// yView is viewT with the elements compared by their codes (NaN != NaN would report a change).
func yView[T comparable](c codec[T], base []T, pre, n int, r []T) xview {
	v := xview{off: "-", ln: len(r), cp: cap(r)}
	if cap(r) > 0 {
		v.off = offT(base, unsafe.SliceData(r))
	}
	snap := slices.Clone(base)
	before := codes(c, base)
	_ = append(r, c.enc(xSentinel))
	for i, x := range codes(c, base) {
		if x != before[i] && i >= pre && pre >= 0 && i < pre+n {
			v.overwrit = true
		}
	}
	copy(base, snap)
	return v
}

func runY[T comparable](c codec[T], f []string) string {
	op := f[1]
	if op == "K" {
		if len(f) != 7 {
			return "?"
		}
		form, mask, m := f[3], atoi(f[5]), atoi(f[6])
		var mp map[T]T
		if f[4] != "nil" {
			mp = map[T]T{}
			for _, k := range tr.UnInts(f[4]) {
				mp[c.enc(k)] = c.enc(yVal(k))
			}
		}
		kp := yKeep(mask)
		return guard(func() string {
			calls, ycalls := 0, 0
			var got []int
			it := slice.MatchingKeys(mp, func(v T) bool { calls++; return kp(c.dec(v)) })
			if form == "r" {
				for k := range it {
					ycalls++
					got = append(got, c.dec(k))
					if len(got) == m {
						break
					}
				}
			} else {
				stopped := false
				it(func(k T) bool {
					ycalls++
					if stopped {
						return false
					}
					got = append(got, c.dec(k))
					stopped = len(got) == m
					return !stopped
				})
			}
			if m > 0 {
				return fmt.Sprintf("n=%d %d", len(got), ycalls)
			}
			sort.Ints(got)
			return tr.Ints(got) + " " + strconv.Itoa(calls) + " " + strconv.Itoa(ycalls)
		})
	}
	if len(f) < 6 {
		return "?"
	}
	pre, extra, vals := atoi(f[3]), atoi(f[4]), tr.UnInts(f[5])
	if pre < -1 || extra < 0 || pre > 1<<16 || extra > 1<<16 || (pre < 0 && (len(vals) > 0 || extra > 0)) {
		return "?"
	}
	n := len(vals)
	base, vs := yMk(c, pre, extra, vals)
	switch op {
	case "V":
		return guard(func() string { slice.Reverse(vs); return tr.Ints(codes(c, base)) })
	case "D":
		return guard(func() string {
			r := slice.Dedup(vs)
			elems := tr.Ints(codes(c, r)) // before the append test
			isNil := "S"
			if r == nil {
				isNil = "N"
			}
			v := yView(c, base, pre, n, r)
			return v.String() + " " + elems + " " + tr.Ints(codes(c, base)) + " " + isNil
		})
	case "L":
		if len(f) != 9 {
			return "?"
		}
		mask, m, form := atoi(f[6]), atoi(f[7]), f[8]
		kp := yKeep(mask)
		return guard(func() string {
			calls, ycalls := 0, 0
			var got []int
			it := slice.Select(vs, func(v T) bool { calls++; return kp(c.dec(v)) })
			if form == "r" {
				for v := range it {
					ycalls++
					got = append(got, c.dec(v))
					if len(got) == m {
						break
					}
				}
			} else {
				stopped := false
				it(func(v T) bool {
					ycalls++
					if stopped {
						return false
					}
					got = append(got, c.dec(v))
					stopped = len(got) == m
					return !stopped
				})
			}
			return tr.Ints(got) + " " + strconv.Itoa(calls) + " " + strconv.Itoa(ycalls) + " " + tr.Ints(codes(c, base))
		})
	}
	return "?"
}

func execY(f []string) string {
	if len(f) < 3 {
		return "?"
	}
	switch f[2] {
	case "i":
		return runY(yCodecI, f)
	case "s":
		return runY(yCodecS, f)
	case "t":
		return runY(yCodecT, f)
	case "f":
		return runY(yCodecF, f)
	}
	return "?"
}

// ---- the generator

var yLayouts = []layout{{-1, 0}, {0, 0}, {2, 3}, {0, 4}, {3, 0}}
var yTypes = []string{"i", "s", "t", "f"}

func yLine(op, ty string, l layout, vals []int) string {
	return fmt.Sprintf("Y %s %s %d %d %s", op, ty, l.pre, l.extra, tr.Ints(vals))
}

func yTags(op, ty string, l layout, n int, more ...string) []string {
	t := []string{"uncalled-api:" + op, "typed:" + ty}
	if l.pre < 0 {
		t = append(t, "state:"+op+"-nil-slice")
	} else if n == 0 {
		t = append(t, "state:"+op+"-empty-slice")
	}
	if l.pre >= 0 && l.extra > 0 {
		t = append(t, "state:"+op+"-spare-capacity")
	}
	return append(t, more...)
}

// allSeqs calls f with every sequence over alphabet of length <= maxLen.
func allSeqs(alphabet []int, maxLen int, f func([]int)) {
	var rec func(cur []int)
	rec = func(cur []int) {
		f(cur)
		if len(cur) == maxLen {
			return
		}
		for _, v := range alphabet {
			rec(append(slices.Clone(cur), v))
		}
	}
	rec(nil)
}

func hasRun(vals []int, a, b int) bool {
	for i := 1; i < len(vals); i++ {
		if (vals[i-1] == a && vals[i] == b) || (vals[i-1] == b && vals[i] == a && a != b) {
			return true
		}
	}
	return false
}

func genReverse(g *tr.G) {
	for _, ty := range yTypes {
		for _, l := range yLayouts {
			for n := 0; n <= g.Scale(12, 20); n++ {
				if l.pre < 0 && n > 0 {
					break
				}
				g.Emit(yLine("V", ty, l, iota(n)), n >= 2, yTags("reverse", ty, l, n, "reverse-exhaustive-lengths")...)
			}
		}
	}
	for it := 0; it < g.Scale(300, 5000); it++ {
		n := g.R.Intn(200)
		if g.R.Chance(1, 3) {
			n = g.R.Intn(6)
		}
		vals := make([]int, n)
		for i := range vals {
			vals[i] = g.R.Intn(25)
		}
		l := layout{g.R.Intn(4), g.R.Intn(5)}
		ty := tr.Pick(g.R, yTypes)
		g.Emit(yLine("V", ty, l, vals), n >= 2, yTags("reverse", ty, l, n, "reverse-random")...)
	}
}

func genDedup(g *tr.G) {
	emit := func(ty string, l layout, vals []int, tag string) {
		if l.pre < 0 && len(vals) > 0 {
			return
		}
		more := []string{tag}
		if hasRun(vals, -1, -1) {
			more = append(more, "state:dedup-adjacent-NaN")
		}
		if hasRun(vals, -2, -3) {
			more = append(more, "state:dedup-run-of-distinguishable-equals")
		}
		g.Emit(yLine("D", ty, l, vals), len(vals) >= 2, yTags("dedup", ty, l, len(vals), more...)...)
	}
	// every sequence over two values to length 7 (quick), every type
	for _, ty := range yTypes {
		allSeqs([]int{0, 1}, g.Scale(7, 9), func(vals []int) {
			for li, l := range yLayouts {
				if len(vals) > 5 && li >= 3 {
					continue
				}
				emit(ty, l, vals, "dedup-exhaustive-2")
			}
		})
	}
	// three values to length 6 at int
	allSeqs([]int{0, 1, 2}, 6, func(vals []int) {
		for _, l := range yLayouts[1:3] {
			emit("i", l, vals, "dedup-exhaustive-3")
		}
	})
	// floats: NaN, the two zeros and one ordinary value
	allSeqs([]int{-1, -2, -3, 1}, g.Scale(5, 6), func(vals []int) {
		for _, l := range yLayouts[1:4] {
			emit("f", l, vals, "dedup-float-irreflexive")
		}
	})
	for it := 0; it < g.Scale(600, 10000); it++ {
		n := g.R.Intn(60)
		vals := make([]int, n)
		ty := tr.Pick(g.R, yTypes)
		for i := range vals {
			vals[i] = g.R.Intn(3)
			if ty == "f" && g.R.Chance(1, 2) {
				vals[i] = -1 - g.R.Intn(3)
			}
			if i > 0 && g.R.Chance(1, 3) {
				vals[i] = vals[i-1]
			}
		}
		emit(ty, layout{g.R.Intn(4), g.R.Intn(5)}, vals, "dedup-random")
	}
}

func genSelect(g *tr.G) {
	emit := func(ty string, l layout, vals []int, mask, m int, form, tag string) {
		if l.pre < 0 && len(vals) > 0 {
			return
		}
		kept := 0
		kp := yKeep(mask)
		for _, v := range vals {
			if kp(v) {
				kept++
			}
		}
		more := []string{tag, "select-form-" + form}
		if m > 0 && m <= kept {
			more = append(more, "state:select-consumer-stops")
			if m < kept {
				more = append(more, "state:select-stops-with-matches-left")
			}
		}
		g.Emit(fmt.Sprintf("%s %d %d %s", yLine("L", ty, l, vals), mask, m, form), len(vals) >= 2, yTags("select", ty, l, len(vals), more...)...)
	}
	for _, ty := range yTypes {
		for n := 0; n <= g.Scale(5, 6); n++ {
			for li, l := range yLayouts {
				if li >= 3 && n > 3 {
					continue
				}
				for mask := 0; mask < 1<<uint(n); mask++ {
					for m := -1; m <= n+1; m++ {
						for _, form := range []string{"r", "d"} {
							emit(ty, l, iota(n), mask, m, form, "select-exhaustive")
						}
					}
				}
			}
		}
	}
	for it := 0; it < g.Scale(600, 10000); it++ {
		n := g.R.Intn(40)
		vals := make([]int, n)
		ty := tr.Pick(g.R, yTypes)
		for i := range vals {
			vals[i] = g.R.Intn(14)
			if ty == "f" && g.R.Chance(1, 4) {
				vals[i] = -1 - g.R.Intn(3)
			}
		}
		mask := g.R.Intn(1<<14) | g.R.Intn(8)<<59
		emit(ty, layout{g.R.Intn(4), g.R.Intn(5)}, vals, mask, g.R.Range(-1, n+1), tr.Pick(g.R, []string{"r", "d"}), "select-random")
	}
}

func genMatchingKeys(g *tr.G) {
	emit := func(ty, form, keys string, nk, mask, m int, tag string) {
		more := []string{tag, "typed:" + ty, "uncalled-api:matchingkeys", "matchingkeys-form-" + form}
		switch {
		case keys == "nil":
			more = append(more, "state:matchingkeys-nil-map")
		case nk == 0:
			more = append(more, "state:matchingkeys-empty-map")
		}
		if m > 0 {
			more = append(more, "state:matchingkeys-consumer-may-stop")
		}
		g.Emit(fmt.Sprintf("Y K %s %s %s %d %d", ty, form, keys, mask, m), nk >= 2, more...)
	}
	all := 1<<13 - 1 | 1<<61
	for _, ty := range yTypes {
		for _, form := range []string{"r", "d"} {
			for m := -1; m <= 1; m++ {
				for _, mask := range []int{0, all, 5} {
					emit(ty, form, "nil", 0, mask, m, "matchingkeys-nil-empty")
					emit(ty, form, ".", 0, mask, m, "matchingkeys-nil-empty")
				}
			}
			for n := 1; n <= g.Scale(7, 9); n++ {
				masks := []int{0, all}
				for j := 0; j < g.Scale(6, 20); j++ {
					masks = append(masks, g.R.Intn(1<<13)|g.R.Intn(2)<<61)
				}
				for _, mask := range masks {
					for m := -1; m <= n+1; m++ {
						emit(ty, form, tr.Ints(iota(n)), n, mask, m, "matchingkeys-small")
					}
				}
			}
		}
	}
	for it := 0; it < g.Scale(300, 5000); it++ {
		n := g.R.Intn(60)
		var keys []int
		for k := 0; len(keys) < n; k++ {
			if g.R.Chance(2, 3) {
				keys = append(keys, k)
			}
		}
		emit(tr.Pick(g.R, yTypes), tr.Pick(g.R, []string{"r", "d"}), tr.Ints(keys), n, g.R.Intn(1<<13)|g.R.Intn(2)<<61, g.R.Range(-1, n+1), "matchingkeys-random")
	}
}
