// Command sliceutiltrace drives slice.Partition, Rotate, Chunks, Batches, Head, Tail, Stripe, At
// and PtrAt of the working tree and records inputs and observables, one case per line.
//
// A slice argument is built as a window of a larger backing array ("base"):
//
//	base = [1000 1001 … | vals … | 1000+k …],  vs = base[pre : pre+n : pre+n+extra]
//
// (pre = -1: vs is nil).  A returned slice is printed as the view  off:len:cap:cls  where off is
// the index in base of the slot its data pointer addresses (measured with unsafe pointer
// arithmetic; "-" when cap is 0, "ext" when it does not point into base), cap is cap(r), and cls is
// measured, not computed: the harness appends a sentinel to the returned slice and reports 1 when
// an element of vs changed (then restores base).  The exact capacity is what "capacity-clipped"
// is judged by; cls is kept as the independent, measured observation of the harm.
//
//	P pre extra vals mask | view result-elements base-after        Partition, keep(v) = bit v of mask
//	R pre extra vals k    | base-after                             Rotate
//	C pre extra vals n    | view,view,… base-after                 Chunks
//	B pre extra vals n    | view,view,… base-after                 Batches
//	H pre extra vals n    | view base-after                        Head
//	T pre extra vals n    | view base-after                        Tail
//	A pre extra vals i    | value                                  At
//	Q pre extra vals i    | nil or index in base                   PtrAt
//	S i l1;l2;…           | elements [ALIAS]                       Stripe ("-" = no lists)
//
// The scale stream (slices of 2^k-1, 2^k, 2^k+1 elements up to 8193, element types other than int,
// named inputs, bounded outputs):  X <op> <ty> <rep> <pre> <extra> <n> <vgen> <arg>, see scale.go.
//
// Reverse, Dedup, Select and MatchingKeys at int, string, float64 (NaN, signed zeros) and a 40-byte
// struct, on views with spare capacity, nil and empty:  Y <op> <ty> ..., see more.go.
//
// Zero-size elements (known finding F13; corpus only -- these calls are linear in len unless they
// panic at once):
//
//	E R len k             | ok                                     Rotate(make([]struct{}, len), k)
//	E C len n             | len:cap,len:cap,…                      Chunks(make([]struct{}, len), n)
//
// Supplementary operations, outside property C17, generated only with -prop C17x:
//
//	Z pre extra vals 0    | base-after                             Zero
//	D pre extra vals 0    | view base-after                        Dedup (slices.Compact)
//	V pre extra vals 0    | base-after                             Reverse (slices.Reverse)
//	L vals mask m         | yielded-values f-calls                 Select, consumer breaks after m values (m <= 0: never)
//	M keys                | nil, or sorted keys                    MapKeys
//	K keys mask m order   | yielded-keys f-calls                   MatchingKeys on {k: k+100}; order = the keys in the
//	                                                               order the runtime visited them (oracle, filled in by the harness)
//
// Any panic is printed as panic:<kind> with kind in {rt-index, rt-slice, rt-div, rt-make, rt-other,
// doc-index, doc-offset, doc-max, doc-n, doc-other}; a call that does not return within the
// watchdog is "hang".
package main

import (
	"fmt"
	"math"
	"runtime"
	"slices"
	"strconv"
	"strings"
	"time"
	"unsafe"

	"github.com/creachadair/mds/slice"
	"verif/harness/internal/tr"
)

const sentinel = -7

func kind(r any) string {
	if e, ok := r.(runtime.Error); ok {
		s := e.Error()
		switch {
		case strings.Contains(s, "index out of range"):
			return "rt-index"
		case strings.Contains(s, "slice bounds out of range"):
			return "rt-slice"
		case strings.Contains(s, "divide by zero"):
			return "rt-div"
		case strings.Contains(s, "makeslice"):
			return "rt-make"
		}
		return "rt-other"
	}
	switch fmt.Sprint(r) {
	case "index out of range":
		return "doc-index"
	case "offset out of range":
		return "doc-offset"
	case "max must be positive":
		return "doc-max"
	case "n out of range":
		return "doc-n"
	}
	return "doc-other"
}

// hangs counts watchdog expiries per operation; after three, further cases of that operation are
// not run any more (each one would leave another spinning goroutine behind) and are reported as
// "hang-skipped", which no model output or specification accepts.
var hangs = map[string]int{}
var curOp string

// guard runs f under a watchdog; f returns the output string.
func guard(f func() string) string {
	if hangs[curOp] >= 3 {
		return "hang-skipped"
	}
	done := make(chan string, 1)
	go func() {
		defer func() {
			if r := recover(); r != nil {
				done <- "panic:" + kind(r)
			}
		}()
		done <- f()
	}()
	select {
	case s := <-done:
		return s
	case <-time.After(3 * time.Second):
		hangs[curOp]++
		return "hang"
	}
}

func mk(pre, extra int, vals []int) (base, vs []int) {
	if pre < 0 {
		return nil, nil
	}
	n := len(vals)
	base = make([]int, pre+n+extra)
	for i := range base {
		base[i] = 1000 + i
	}
	copy(base[pre:], vals)
	return base, base[pre : pre+n : pre+n+extra]
}

func off(base, r []int) string {
	if cap(r) == 0 {
		return "-"
	}
	if len(base) == 0 {
		return "ext"
	}
	d := int64(uintptr(unsafe.Pointer(unsafe.SliceData(r)))) - int64(uintptr(unsafe.Pointer(&base[0])))
	if d < 0 || d%8 != 0 || d >= int64(8*len(base)) {
		return "ext"
	}
	return strconv.FormatInt(d/8, 10)
}

// cls appends a sentinel to r and reports whether an element of vs = base[pre:pre+n] changed.
func cls(base []int, pre, n int, r []int) string {
	snap := slices.Clone(base)
	_ = append(r, sentinel)
	changed := false
	for i := pre; i >= 0 && i < pre+n; i++ {
		if base[i] != snap[i] {
			changed = true
		}
	}
	copy(base, snap)
	return tr.B(changed)
}

func view(base []int, pre, n int, r []int) string {
	return off(base, r) + ":" + strconv.Itoa(len(r)) + ":" + strconv.Itoa(cap(r)) + ":" + cls(base, pre, n, r)
}

func views(base []int, pre, n int, rs [][]int) string {
	if len(rs) == 0 {
		return "."
	}
	out := make([]string, len(rs))
	for i, r := range rs {
		out[i] = view(base, pre, n, r)
	}
	return strings.Join(out, ",")
}

func exec(in string) string {
	f := strings.Fields(strings.ReplaceAll(in, "_", " ")) // "_" for blanks: inputs reported by the extra steps
	curOp = f[0]
	if f[0] == "X" {
		if len(f) > 1 {
			curOp = "X" + f[1]
		}
		return execX(f)
	}
	if f[0] == "Y" { // Reverse, Dedup, Select, MatchingKeys at several element types (more.go)
		if len(f) > 1 {
			curOp = "Y" + f[1]
		}
		return execY(f)
	}
	if f[0] == "S" {
		i, _ := strconv.Atoi(f[1])
		var ls [][]int
		if f[2] != "-" {
			for _, p := range strings.Split(f[2], ";") {
				ls = append(ls, tr.UnInts(p))
			}
		}
		snap := make([][]int, len(ls))
		for j := range ls {
			snap[j] = slices.Clone(ls[j])
		}
		return guard(func() string {
			r := slice.Stripe(ls, i)
			out := tr.Ints(r)
			for j := range r { // poison the result: the inputs must not change
				r[j] = sentinel
			}
			for j := range ls {
				if !slices.Equal(ls[j], snap[j]) {
					out += " ALIAS"
					break
				}
			}
			return out
		})
	}
	switch f[0] {
	case "E":
		ln, _ := strconv.Atoi(f[2])
		arg, _ := strconv.Atoi(f[3])
		return guard(func() string {
			big := make([]struct{}, ln)
			if f[1] == "R" {
				slice.Rotate(big, arg)
				return "ok"
			}
			var out []string
			for _, c := range slice.Chunks(big, arg) {
				out = append(out, strconv.Itoa(len(c))+":"+strconv.Itoa(cap(c)))
			}
			if len(out) == 0 {
				return "."
			}
			return strings.Join(out, ",")
		})
	case "L":
		vals := tr.UnInts(f[1])
		mask, _ := strconv.Atoi(f[2])
		m, _ := strconv.Atoi(f[3])
		return guard(func() string {
			calls := 0
			var got []int
			for v := range slice.Select(vals, func(v int) bool { calls++; return v >= 0 && v < 62 && (mask>>uint(v))&1 == 1 }) {
				got = append(got, v)
				if len(got) == m {
					break
				}
			}
			return tr.Ints(got) + " " + strconv.Itoa(calls)
		})
	case "M":
		var m map[int]int
		if f[1] != "nil" {
			m = map[int]int{}
			for _, k := range tr.UnInts(f[1]) {
				m[k] = k + 100
			}
		}
		return guard(func() string {
			r := slice.MapKeys(m)
			if r == nil {
				return "nil"
			}
			slices.Sort(r)
			return tr.Ints(r)
		})
	case "K":
		_, out := matchingKeys(f)
		return out
	}
	pre, _ := strconv.Atoi(f[1])
	extra, _ := strconv.Atoi(f[2])
	vals := tr.UnInts(f[3])
	arg, _ := strconv.Atoi(f[4])
	base, vs := mk(pre, extra, vals)
	n := len(vals)
	switch f[0] {
	case "P":
		keep := func(v int) bool { return v >= 0 && v < 62 && (arg>>uint(v))&1 == 1 }
		return guard(func() string {
			r := slice.Partition(vs, keep)
			elems := tr.Ints(r) // before the append test
			return view(base, pre, n, r) + " " + elems + " " + tr.Ints(base)
		})
	case "R":
		return guard(func() string { slice.Rotate(vs, arg); return tr.Ints(base) })
	case "Z":
		return guard(func() string { slice.Zero(vs); return tr.Ints(base) })
	case "V":
		return guard(func() string { slice.Reverse(vs); return tr.Ints(base) })
	case "D":
		return guard(func() string { r := slice.Dedup(vs); return view(base, pre, n, r) + " " + tr.Ints(base) })
	case "C":
		return guard(func() string { r := slice.Chunks(vs, arg); return views(base, pre, n, r) + " " + tr.Ints(base) })
	case "B":
		return guard(func() string { r := slice.Batches(vs, arg); return views(base, pre, n, r) + " " + tr.Ints(base) })
	case "H":
		return guard(func() string { r := slice.Head(vs, arg); return view(base, pre, n, r) + " " + tr.Ints(base) })
	case "T":
		return guard(func() string { r := slice.Tail(vs, arg); return view(base, pre, n, r) + " " + tr.Ints(base) })
	case "A":
		return guard(func() string { return strconv.Itoa(slice.At(vs, arg)) })
	case "Q":
		return guard(func() string {
			p := slice.PtrAt(vs, arg)
			if p == nil {
				return "nil"
			}
			return off(base, unsafe.Slice(p, 1))
		})
	}
	return "?"
}

// matchingKeys runs MatchingKeys on {k: k+100}.  The order in which the runtime visits the map is
// an oracle: it is recovered from the values f is called with and written into the last field of
// the input.  When the input already names an order (a replayed line) the call is repeated until
// the runtime happens to visit the map in that order (maps of up to 8 entries have few orders).
func matchingKeys(f []string) (string, string) {
	keys := tr.UnInts(f[1])
	mask, _ := strconv.Atoi(f[2])
	m, _ := strconv.Atoi(f[3])
	want := "?"
	if len(f) > 4 {
		want = f[4]
	}
	mp := map[int]int{}
	for _, k := range keys {
		mp[k] = k + 100
	}
	var order, out string
	for try := 0; try < 400; try++ {
		var visited []int
		out = guard(func() string {
			var got []int
			for k := range slice.MatchingKeys(mp, func(v int) bool {
				visited = append(visited, v-100)
				return v-100 >= 0 && v-100 < 62 && (mask>>uint(v-100))&1 == 1
			}) {
				got = append(got, k)
				if len(got) == m {
					break
				}
			}
			return tr.Ints(got) + " " + strconv.Itoa(len(visited))
		})
		order = tr.Ints(visited)
		if want == "?" || want == order {
			break
		}
	}
	return fmt.Sprintf("K %s %d %d %s", f[1], mask, m, order), out
}

type layout struct{ pre, extra int }

var layouts = []layout{{0, 0}, {2, 3}, {0, 4}}

func iota(n int) []int {
	out := make([]int, n)
	for i := range out {
		out[i] = i
	}
	return out
}

func line(k string, l layout, vals []int, arg int) string {
	return fmt.Sprintf("%s %d %d %s %d", k, l.pre, l.extra, tr.Ints(vals), arg)
}

func gcd(a, b int) int {
	for b != 0 {
		a, b = b, a%b
	}
	return a
}

// emit runs one case and counts, besides the generator's own tag, the states the property text
// names that the case reaches.
func emit(g *tr.G, k string, l layout, vals []int, arg int, nontrivial bool, tag string) {
	n := len(vals)
	tags := []string{tag}
	add := func(c bool, t string) {
		if c {
			tags = append(tags, t)
		}
	}
	spare := l.pre >= 0 && l.extra > 0
	add(n == 0 && k != "S", "state:empty-slice")
	add(n == 1, "state:single-element")
	switch k {
	case "P":
		kept := 0
		for _, v := range vals {
			if v >= 0 && v < 62 && (arg>>uint(v))&1 == 1 {
				kept++
			}
		}
		add(n > 0 && kept == n && spare, "state:partition-all-kept-spare-capacity")
		add(n > 0 && kept == 0 && spare, "state:partition-none-kept-spare-capacity")
		add(n == 0 && spare, "state:partition-empty-spare-capacity")
		add(kept > 0 && kept < n && spare, "state:partition-mixed-spare-capacity")
	case "R":
		add(n > 0 && (arg == n || arg == -n), "state:rotate-k-is-plus-minus-n")
		add(arg == 0, "state:rotate-k-0")
		add(n > 0 && arg > -n && arg < n && arg != 0 && gcd(max(arg, -arg), n) > 1, "state:rotate-several-cycles")
		add(arg < -n || arg > n, "state:rotate-k-out-of-range")
	case "C":
		add(arg >= 0 && (arg == 0 || arg >= n) && spare, "state:chunks-early-return-spare-capacity")
		add(arg > 0 && arg < n && n%arg != 0, "state:chunks-short-last-chunk")
		add(arg > 0 && arg < n && spare, "state:chunks-loop-spare-capacity")
		add(arg < 0, "state:negative-count")
	case "B":
		add(arg > n, "state:batches-n-above-len")
		add(arg > 0 && arg <= n && n%arg != 0, "state:batches-uneven")
		add(arg > 0 && n == 0, "state:batches-empty-slice-F3")
		add(arg > 0 && n > 0 && spare, "state:batches-spare-capacity")
		add(arg < 0, "state:negative-count")
	case "H", "T":
		add(arg > n, "state:head-tail-n-above-len")
		add(arg < 0, "state:negative-count")
	case "A", "Q":
		add(arg < 0 && arg >= -n, "state:at-negative-index")
		add(arg == n || arg == -n-1, "state:at-just-out-of-range")
	}
	g.Emit(line(k, l, vals, arg), nontrivial, tags...)
}

func main() {
	tr.Main("C17: exhaustive small scope - every length n <= 10 (quick) / 12 (thorough) under three base layouts (no slack; 2 elements before and 3 spare after; 4 spare after) plus the nil slice: every keep mask for Partition, every k in [-n-2, n+2] for Rotate (n <= 40/64), every chunk size / batch count in [-2, n+3], every Head/Tail count in [-2, n+extra+3], every At/PtrAt index in [-n-2, n+2], Stripe over all tuples of up to three lists of length <= 3; then the scale stream (X lines: slices of 2^k-1, 2^k, 2^k+1 elements for k <= 13 and a few random long ones as windows of larger arrays under seven layouts, over five element types -- int, ints at the ends of the range, strings, 40-byte structs with pointers, pointers --, Rotate by 0, +-1, +-n/2, +-(n-1), +-n, out of range, +-31..65, +-255..257, +-4095..4097 and k with gcd(k, n) > 1, Chunks/Batches with n around 1, sqrt(len), len/2, len-1, len, len+1 and powers of two, Partition under 19 keep patterns (all, none, alternating, ends only, all but the ends, long runs, kept prefix / suffix, periodic) with the whole array digested afterwards, Head/Tail/At/PtrAt at the boundaries and at the ends of int, Stripe over thousands of lists and over long lists; outputs as digests and run-length encoded views); then random larger cases (duplicate values, lengths to 200). Returned slices are observed as offset/len/append-overwrites-input; the whole base array is re-read after every call. A case is non-trivial when the slice has at least two elements; distinct = distinct input lines.",
		exec, func(g *tr.G) {
			if g.Prop == "C17x" {
				genExtra(g)
				return
			}
			N := g.Scale(10, 12)
			// the nil slice
			nl := layout{-1, 0}
			for _, k := range []string{"P", "R", "C", "B", "H", "T", "A", "Q"} {
				for a := -2; a <= 2; a++ {
					emit(g, k, nl, nil, a, false, "nil-slice")
				}
			}
			for n := 0; n <= N; n++ {
				vals := iota(n)
				for li, l := range layouts {
					if li == 2 && n > 8 {
						continue
					}
					for m := 0; m < 1<<uint(n); m++ {
						emit(g, "P", l, vals, m, n >= 2, "partition-exhaustive")
					}
					for a := -2; a <= n+3; a++ {
						emit(g, "C", l, vals, a, n >= 2, "chunks-exhaustive")
						emit(g, "B", l, vals, a, n >= 2, "batches-exhaustive")
					}
					for a := -2; a <= n+l.extra+3; a++ {
						emit(g, "H", l, vals, a, n >= 2, "head-tail-exhaustive")
						emit(g, "T", l, vals, a, n >= 2, "head-tail-exhaustive")
					}
					for a := -n - 2; a <= n+2; a++ {
						emit(g, "A", l, vals, a, n >= 2, "at-exhaustive")
						emit(g, "Q", l, vals, a, n >= 2, "at-exhaustive")
					}
				}
			}
			for n := 0; n <= g.Scale(40, 64); n++ {
				vals := iota(n)
				for li, l := range layouts[:2] {
					if li == 1 && n > 16 {
						continue
					}
					for k := -n - 2; k <= n+2; k++ {
						tag := "rotate-exhaustive"
						if k < -n || k > n {
							tag = "rotate-out-of-range"
						}
						emit(g, "R", l, vals, k, n >= 2, tag)
					}
				}
			}
			// machine integers: every function with arguments at and next to the ends of int
			// (the code computes i+n, len-n, i+k, len+n-1 on them)
			for n := 0; n <= 4; n++ {
				vals := iota(n)
				ext := []int{math.MinInt, math.MinInt + 1, math.MinInt + n, math.MinInt + n + 1, -1 << 62, -1<<62 - 1,
					-1 << 32, -1 << 31, 1<<31 - 1, 1 << 32, 1<<62 - 1, 1 << 62, math.MaxInt - n - 1, math.MaxInt - n, math.MaxInt - 1, math.MaxInt}
				for _, l := range layouts {
					for _, a := range ext {
						for _, k := range []string{"R", "C", "B", "H", "T", "A", "Q"} {
							emit(g, k, l, vals, a, n >= 2, "extreme-int")
						}
					}
				}
				for _, a := range ext {
					g.Emit(fmt.Sprintf("S %d %s", a, "0,1;.;2"), true, "extreme-int")
				}
			}
			// Stripe: all tuples of up to three lists from a small pool
			pool := []string{".", "1", "2,3", "4,5,6"}
			var tuples []string
			tuples = append(tuples, "-")
			for _, a := range pool {
				tuples = append(tuples, a)
				for _, b := range pool {
					tuples = append(tuples, a+";"+b)
					for _, c := range pool {
						tuples = append(tuples, a+";"+b+";"+c)
					}
				}
			}
			for _, t := range tuples {
				for i := -1; i <= 3; i++ {
					g.Emit(fmt.Sprintf("S %d %s", i, t), t != "-", "stripe-exhaustive")
				}
			}
			// sizes around powers of two up to 8193, element types other than int (scale.go)
			genScale(g)
			// exported functions no generator called before round 7 (more.go)
			genReverse(g)
			genDedup(g)
			genSelect(g)
			genMatchingKeys(g)
			genExtra(g) // the small int lines Z V D L M K (MatchingKeys with the map order as an oracle)
			// random, larger, duplicate values
			rnd := func(maxN, maxV int) []int {
				n := g.R.Intn(maxN + 1)
				out := make([]int, n)
				for i := range out {
					out[i] = g.R.Intn(maxV)
				}
				return out
			}
			for it := 0; it < g.Scale(3000, 100000); it++ {
				l := layout{g.R.Intn(4), g.R.Intn(5)}
				vals := rnd(40, 12)
				n := len(vals)
				mask := g.R.Intn(1 << 12)
				switch g.R.Intn(8) { // skew towards the two shapes that end the loop differently
				case 0:
					mask = 0
				case 1:
					mask = 1<<12 - 1
				case 2:
					mask &= g.R.Intn(1 << 12)
				}
				emit(g, "P", l, vals, mask, n >= 2, "partition-random")
				big := rnd(200, 1000)
				nb := len(big)
				k := g.R.Range(-nb-1, nb+1)
				if g.R.Chance(1, 3) && nb > 0 { // divisors and near-divisors of the length: many cycles
					d := 1 + g.R.Intn(nb)
					for nb%d != 0 {
						d--
					}
					k = d * (1 + g.R.Intn(nb/d))
					if g.R.Bool() {
						k = -k
					}
				}
				emit(g, "R", l, big, k, nb >= 2, "rotate-random")
				a := g.R.Range(-1, n+2)
				emit(g, "C", l, vals, a, n >= 2, "chunks-random")
				emit(g, "B", l, vals, a, n >= 2, "batches-random")
				emit(g, "H", l, vals, g.R.Range(-1, n+l.extra+2), n >= 2, "head-tail-random")
				emit(g, "T", l, vals, g.R.Range(-1, n+l.extra+2), n >= 2, "head-tail-random")
				emit(g, "A", l, vals, g.R.Range(-n-1, n+1), n >= 2, "at-random")
				emit(g, "Q", l, vals, g.R.Range(-n-1, n+1), n >= 2, "at-random")
				nl := g.R.Intn(6)
				parts := make([]string, nl)
				for j := range parts {
					parts[j] = tr.Ints(rnd(6, 100))
				}
				t := strings.Join(parts, ";")
				if nl == 0 {
					t = "-"
				}
				g.Emit(fmt.Sprintf("S %d %s", g.R.Range(-1, 7), t), nl > 0, "stripe-random")
			}
		})
}

// genExtra: the supplementary operations (outside C17).
func genExtra(g *tr.G) {
	for n := 0; n <= 6; n++ {
		for _, l := range layouts {
			emit(g, "Z", l, iota(n), 0, n >= 1, "zero")
			emit(g, "V", l, iota(n), 0, n >= 2, "reverse")
		}
		for mask := 0; mask < 1<<uint(n); mask++ {
			for m := -1; m <= n+1; m++ {
				g.Emit(fmt.Sprintf("L %s %d %d", tr.Ints(iota(n)), mask, m), n >= 2, "select-exhaustive")
			}
		}
	}
	// Dedup: all sequences over {0,1,2} up to length 6
	var rec func(cur []int)
	rec = func(cur []int) {
		for _, l := range layouts {
			emit(g, "D", l, cur, 0, len(cur) >= 2, "dedup-exhaustive")
		}
		if len(cur) == 6 {
			return
		}
		for v := 0; v < 3; v++ {
			rec(append(slices.Clone(cur), v))
		}
	}
	rec(nil)
	g.Emit("M nil", false, "mapkeys")
	for n := 0; n <= 8; n++ {
		g.Emit("M "+tr.Ints(iota(n)), n >= 1, "mapkeys")
	}
	for it := 0; it < g.Scale(3000, 30000); it++ {
		n := g.R.Intn(9)
		keys := make([]int, 0, n)
		for k := 0; len(keys) < n; k++ {
			if g.R.Chance(2, 3) {
				keys = append(keys, k)
			}
		}
		mask := g.R.Intn(1 << 14)
		m := g.R.Range(-1, n+1)
		in, out := matchingKeys([]string{"K", tr.Ints(keys), strconv.Itoa(mask), strconv.Itoa(m)})
		g.W.Case(in, out, n >= 2, "matchingkeys")
		big := make([]int, g.R.Intn(40))
		for i := range big {
			big[i] = g.R.Intn(14)
		}
		g.Emit(fmt.Sprintf("L %s %d %d", tr.Ints(big), mask, g.R.Range(-1, len(big)+1)), len(big) >= 2, "select-random")
		emit(g, "D", layout{g.R.Intn(3), g.R.Intn(4)}, big, 0, len(big) >= 2, "dedup-random")
		emit(g, "Z", layout{g.R.Intn(3), g.R.Intn(4)}, big, 0, len(big) >= 1, "zero")
		emit(g, "V", layout{g.R.Intn(3), g.R.Intn(4)}, big, 0, len(big) >= 2, "reverse")
	}
}
