// X lines: the "scale" stream.  Slices of 2^k-1, 2^k, 2^k+1 elements for k up to 13 (and a few
// random large ones), always a window of a larger backing array, over several ELEMENT TYPES, with
// every argument class the documentation distinguishes.  The line names the input instead of
// listing it and the output is bounded (digests, run-length encoded views), so that a line stays
// short however long the slice is:
//
//	X <op> <ty> <rep> <pre> <extra> <n> <vgen> <arg>
//
//	op    P R C B H T A Q as in the small lines, S = Stripe
//	ty    element type.  The trace speaks about CODES (ints); the harness maps every code to an
//	      element of the type under test, calls the generic function at that type and maps back:
//	        i int            x int at the two ends of the range (even codes MinInt+c/2, odd MaxInt-c/2)
//	        s string         (different lengths, some multi-byte)
//	        t struct{int32; string; [3]byte; *int}   (40 bytes, pointers inside)
//	        p *int           (pointer-shaped element)
//	rep   how the driver replays the line: l = on the loop model, f = on the linear-time function
//	      proved equal to the loop model (Slice/SliceUtilFastProofs.v) -- the loop models walk a list
//	      per step, quadratic over all; the implementation does not look at this field
//	vgen  the codes of vs: "i" = 0,1,2,…,n-1;  "d<M>" = (7j + j/M) mod M for j = 0…n-1 (duplicates).
//	      base[j] outside the window holds 1000000+j.
//	arg   R C B H T A Q: the int argument.  P: the name of the keep pattern, a predicate on the code c:
//	        all none alt0 (c even) alt1 (c odd) ends (c = 0 or n-1) first last notends
//	        runs<L> ((c/L) even)   lo<h> (c < h)   hi<h> (c >= h)   m<M>r<R> (c mod M < R)
//	      S: the index i; there pre/extra are 0, n is the NUMBER of lists and vgen names their lengths:
//	        c<L> all of length L;  v<L> list j has length (5j+3) mod (L+1);  o<L> length L+1 for odd j, L for even j
//	      list j holds the codes (31j + p) mod 1000003 for p = 0,1,….
//
// Outputs (seq = <count>:<FNV-1a 64 of the comma-separated decimal codes, "." when empty>:<codes at
// 0,1,2, count/2-1..count/2+1, count-3..count-1>):
//
//	P | view seq(result) seq(base after) seq(sorted codes of vs after) seq(base after, outside vs)
//	R | seq(base after)
//	C B | views seq(base after)        views = runs  off:len:cap:cls*count  of consecutive views
//	                                   (each next one starting where the previous ends), "," between runs
//	H T | view seq(base after)
//	A | code          Q | nil, or off:code (the slot of base the pointer addresses and what it points at)
//	S | seq(result) [ALIAS]
package main

import (
	"fmt"
	"math"
	"slices"
	"sort"
	"strconv"
	"strings"
	"unsafe"

	"github.com/creachadair/mds/slice"
	"verif/harness/internal/tr"
)

const xSentinel = 999999999
const xOutside = 1000000

func fnvInts(xs []int) uint64 {
	h := uint64(0xcbf29ce484222325)
	put := func(b byte) { h ^= uint64(b); h *= 0x100000001b3 }
	if len(xs) == 0 {
		put('.')
		return h
	}
	var buf [24]byte
	for i, x := range xs {
		if i > 0 {
			put(',')
		}
		for _, b := range strconv.AppendInt(buf[:0], int64(x), 10) {
			put(b)
		}
	}
	return h
}

func seq(xs []int) string {
	n := len(xs)
	var ix []int
	for _, c := range []int{0, 1, 2, n/2 - 1, n / 2, n/2 + 1, n - 3, n - 2, n - 1} {
		if c >= 0 && c < n {
			ix = append(ix, c)
		}
	}
	sort.Ints(ix)
	ix = slices.Compact(ix)
	w := make([]int, len(ix))
	for i, j := range ix {
		w[i] = xs[j]
	}
	return fmt.Sprintf("%d:%x:%s", n, fnvInts(xs), tr.Ints(w))
}

// ---- element types

type codec[T comparable] struct {
	enc func(int) T
	dec func(T) int
}

type rec struct {
	A int32
	S string
	B [3]byte
	P *int
}

var recAnchor int
var ptrTable = map[int]*int{}

func encX(c int) int {
	if c&1 == 0 {
		return math.MinInt + c>>1
	}
	return math.MaxInt - c>>1
}
func decX(v int) int {
	if v < 0 {
		return (v - math.MinInt) << 1
	}
	return (math.MaxInt-v)<<1 | 1
}
func encS(c int) string {
	d := strconv.Itoa(c)
	switch c % 5 {
	case 0:
		return "é世\U0001F600:" + d
	case 1:
		return strings.Repeat("=", 17) + ":" + d
	}
	return ":" + d
}
func decS(s string) int {
	i := strings.LastIndexByte(s, ':')
	if i < 0 || s != encS(atoi(s[i+1:])) {
		return -888888
	}
	return atoi(s[i+1:])
}
func atoi(s string) int { n, _ := strconv.Atoi(s); return n }
func encT(c int) rec {
	return rec{A: int32(c), S: strconv.Itoa(c), B: [3]byte{byte(c), byte(c >> 8), byte(c >> 16)}, P: &recAnchor}
}
func decT(r rec) int {
	if r != encT(int(r.A)) { // a torn element (fields of different elements)
		return -888888
	}
	return int(r.A)
}
func encP(c int) *int {
	p, ok := ptrTable[c]
	if !ok {
		p = new(int)
		*p = c
		ptrTable[c] = p
	}
	return p
}
func decP(p *int) int {
	if p == nil {
		return -888888
	}
	return *p
}

// ---- the named inputs

func xVals(vgen string, n int) []int {
	out := make([]int, n)
	if vgen == "i" {
		for j := range out {
			out[j] = j
		}
		return out
	}
	m := atoi(vgen[1:])
	if vgen[0] != 'd' || m <= 0 {
		panic("bad vgen " + vgen)
	}
	for j := range out {
		out[j] = (7*j + j/m) % m
	}
	return out
}

func xKeep(pat string, n int) func(int) bool {
	num := func(p string) int { return atoi(strings.TrimPrefix(pat, p)) }
	switch {
	case pat == "all":
		return func(int) bool { return true }
	case pat == "none":
		return func(int) bool { return false }
	case pat == "alt0":
		return func(c int) bool { return c%2 == 0 }
	case pat == "alt1":
		return func(c int) bool { return c%2 == 1 }
	case pat == "ends":
		return func(c int) bool { return c == 0 || c == n-1 }
	case pat == "first":
		return func(c int) bool { return c == 0 }
	case pat == "last":
		return func(c int) bool { return c == n-1 }
	case pat == "notends":
		return func(c int) bool { return c != 0 && c != n-1 }
	case strings.HasPrefix(pat, "runs"):
		l := max(num("runs"), 1)
		return func(c int) bool { return (c/l)%2 == 0 }
	case strings.HasPrefix(pat, "lo"):
		h := num("lo")
		return func(c int) bool { return c < h }
	case strings.HasPrefix(pat, "hi"):
		h := num("hi")
		return func(c int) bool { return c >= h }
	case strings.HasPrefix(pat, "m"):
		var m, r int
		fmt.Sscanf(pat, "m%dr%d", &m, &r)
		m = max(m, 1)
		return func(c int) bool { return c%m < r }
	}
	panic("bad keep pattern " + pat)
}

func xListLen(lgen string, j int) int {
	l := atoi(lgen[1:])
	switch lgen[0] {
	case 'c':
		return l
	case 'v':
		return (5*j + 3) % (l + 1)
	case 'o':
		return l + j%2
	}
	panic("bad list generator " + lgen)
}

// ---- one case at element type T

func offT[T comparable](base []T, p *T) string {
	if len(base) == 0 || p == nil {
		return "ext"
	}
	sz := int64(unsafe.Sizeof(base[0]))
	d := int64(uintptr(unsafe.Pointer(p))) - int64(uintptr(unsafe.Pointer(&base[0])))
	if d < 0 || d%sz != 0 || d >= sz*int64(len(base)) {
		return "ext"
	}
	return strconv.FormatInt(d/sz, 10)
}

func codes[T comparable](c codec[T], xs []T) []int {
	out := make([]int, len(xs))
	for i, x := range xs {
		out[i] = c.dec(x)
	}
	return out
}

type xview struct {
	off      string
	ln, cp   int
	overwrit bool
}

// viewT measures one returned slice: where it starts, len, cap, and whether appending to it changes
// an element of vs = base[pre:pre+n] (the base is restored).  With full = false only the slots
// next to the end of r are compared (an append within capacity writes the slot behind the last
// element and nothing else); the caller then compares the whole base once at the end.
func viewT[T comparable](c codec[T], base []T, pre, n int, r []T, full bool) xview {
	v := xview{off: "-", ln: len(r), cp: cap(r)}
	if cap(r) > 0 {
		v.off = offT(base, unsafe.SliceData(r))
	}
	lo, hi := 0, len(base)
	if !full {
		if o, err := strconv.Atoi(v.off); err == nil {
			lo, hi = max(0, o+len(r)-1), min(len(base), o+len(r)+2)
		}
	}
	snap := slices.Clone(base[lo:hi])
	_ = append(r, c.enc(xSentinel))
	for i := lo; i < hi; i++ {
		if base[i] != snap[i-lo] && i >= pre && pre >= 0 && i < pre+n {
			v.overwrit = true
		}
	}
	copy(base[lo:hi], snap)
	return v
}

func (v xview) String() string {
	return v.off + ":" + strconv.Itoa(v.ln) + ":" + strconv.Itoa(v.cp) + ":" + tr.B(v.overwrit)
}

// rle prints consecutive views as runs.
func rle(vs []xview) string {
	if len(vs) == 0 {
		return "."
	}
	var out []string
	for i := 0; i < len(vs); {
		j := i + 1
		for j < len(vs) && vs[j].ln == vs[i].ln && vs[j].cp == vs[i].cp && vs[j].overwrit == vs[i].overwrit && follows(vs[j-1], vs[j]) {
			j++
		}
		out = append(out, vs[i].String()+"*"+strconv.Itoa(j-i))
		i = j
	}
	return strings.Join(out, ",")
}

func follows(a, b xview) bool {
	if a.off == b.off && (a.off == "-" || a.off == "ext") {
		return true
	}
	x, e1 := strconv.Atoi(a.off)
	y, e2 := strconv.Atoi(b.off)
	return e1 == nil && e2 == nil && y == x+a.ln
}

func runX[T comparable](c codec[T], f []string) string {
	op := f[1]
	pre, extra, n := atoi(f[4]), atoi(f[5]), atoi(f[6])
	if n < 0 || n > 1<<20 || pre < 0 || extra < 0 || pre > 1<<20 || extra > 1<<20 {
		return "?"
	}
	if op == "S" {
		i := atoi(f[8])
		ls := make([][]T, n)
		var all []int
		for j := range ls {
			l := xListLen(f[7], j)
			ls[j] = make([]T, l)
			for p := range ls[j] {
				ls[j][p] = c.enc((31*j + p) % 1000003)
				all = append(all, (31*j+p)%1000003)
			}
		}
		return guard(func() string {
			r := slice.Stripe(ls, i)
			out := seq(codes(c, r))
			for j := range r { // poison the result: the inputs must not change
				r[j] = c.enc(xSentinel)
			}
			k := 0
			for j := range ls {
				for p := range ls[j] {
					if c.dec(ls[j][p]) != all[k] {
						return out + " ALIAS"
					}
					k++
				}
			}
			return out
		})
	}
	vals := xVals(f[7], n)
	base := make([]T, pre+n+extra)
	orig := make([]int, len(base))
	for j := range base {
		orig[j] = xOutside + j
		if j >= pre && j < pre+n {
			orig[j] = vals[j-pre]
		}
		base[j] = c.enc(orig[j])
	}
	vs := base[pre : pre+n : pre+n+extra]
	baseSeq := func() string { return seq(codes(c, base)) }
	switch op {
	case "P":
		kp := xKeep(f[8], n)
		return guard(func() string {
			r := slice.Partition(vs, func(v T) bool { return kp(c.dec(v)) })
			elems := seq(codes(c, r)) // before the append test
			v := viewT(c, base, pre, n, r, true)
			after := codes(c, base)
			win := slices.Clone(after[pre : pre+n])
			sort.Ints(win)
			outside := append(slices.Clone(after[:pre]), after[pre+n:]...)
			return v.String() + " " + elems + " " + seq(after) + " " + seq(win) + " " + seq(outside)
		})
	case "R":
		k := atoi(f[8])
		return guard(func() string { slice.Rotate(vs, k); return baseSeq() })
	case "C", "B":
		a := atoi(f[8])
		return guard(func() string {
			var rs [][]T
			if op == "C" {
				rs = slice.Chunks(vs, a)
			} else {
				rs = slice.Batches(vs, a)
			}
			before := slices.Clone(base)
			xs := make([]xview, len(rs))
			for j, r := range rs {
				xs[j] = viewT(c, base, pre, n, r, len(rs) <= 32)
			}
			if !slices.Equal(before, base) { // the append tests restore what they touch
				return "harness-error:base-not-restored"
			}
			return rle(xs) + " " + baseSeq()
		})
	case "H", "T":
		a := atoi(f[8])
		return guard(func() string {
			var r []T
			if op == "H" {
				r = slice.Head(vs, a)
			} else {
				r = slice.Tail(vs, a)
			}
			return viewT(c, base, pre, n, r, true).String() + " " + baseSeq()
		})
	case "A":
		a := atoi(f[8])
		return guard(func() string { return strconv.Itoa(c.dec(slice.At(vs, a))) })
	case "Q":
		a := atoi(f[8])
		return guard(func() string {
			p := slice.PtrAt(vs, a)
			if p == nil {
				return "nil"
			}
			return offT(base, p) + ":" + strconv.Itoa(c.dec(*p))
		})
	}
	return "?"
}

func execX(f []string) string {
	if len(f) != 9 {
		return "?"
	}
	switch f[2] {
	case "i":
		return runX(codec[int]{func(c int) int { return c }, func(v int) int { return v }}, f)
	case "x":
		return runX(codec[int]{encX, decX}, f)
	case "s":
		return runX(codec[string]{encS, decS}, f)
	case "t":
		return runX(codec[rec]{encT, decT}, f)
	case "p":
		return runX(codec[*int]{encP, decP}, f)
	}
	return "?"
}

// ---- the generator

func isqrt(n int) int {
	r := int(math.Sqrt(float64(n)))
	for r*r > n {
		r--
	}
	for (r+1)*(r+1) <= n {
		r++
	}
	return r
}

func smallestFactor(n int) int {
	for p := 2; p*p <= n; p++ {
		if n%p == 0 {
			return p
		}
	}
	return n
}

func uniq(xs []int) []int {
	var out []int
	seen := map[int]bool{}
	for _, x := range xs {
		if !seen[x] {
			seen[x] = true
			out = append(out, x)
		}
	}
	return out
}

func shuffle[E any](g *tr.G, xs []E) {
	for i := len(xs) - 1; i > 0; i-- {
		j := g.R.Intn(i + 1)
		xs[i], xs[j] = xs[j], xs[i]
	}
}

var xLayouts = []layout{{0, 0}, {2, 3}, {0, 4}, {7, 0}, {64, 64}, {1, 1}, {3, 1}}
var xTypes = []string{"i", "x", "s", "t", "p"}

// loopLimit: up to this length every Rotate/Partition line is replayed on the loop model.
const loopLimit = 300

func genScale(g *tr.G) {
	var sizes []int
	for k := 0; k <= 13; k++ {
		sizes = append(sizes, 1<<k-1, 1<<k, 1<<k+1)
	}
	for i := 0; i < g.Scale(2, 8); i++ {
		sizes = append(sizes, g.R.Range(1100, 8000))
	}
	sizes = uniq(sizes)
	cnt := g.R.Intn(1000)
	next := func() (string, layout) { // type and layout go round, so every op meets every one
		cnt++
		return xTypes[cnt%len(xTypes)], xLayouts[(cnt/len(xTypes)+cnt)%len(xLayouts)]
	}
	emitX := func(op, ty, rep string, l layout, n int, vgen, arg string, tags ...string) {
		in := fmt.Sprintf("X %s %s %s %d %d %d %s %s", op, ty, rep, l.pre, l.extra, n, vgen, arg)
		t := []string{"scale", "scale:type-" + ty}
		switch {
		case n >= 4095:
			t = append(t, "scale:n>=4095")
		case n >= 255:
			t = append(t, "scale:n>=255")
		case n >= 31:
			t = append(t, "scale:n>=31")
		}
		g.Emit(in, n >= 2, append(t, tags...)...)
	}
	// every type on the small sizes, one type per case beyond
	typesFor := func(n int) []string {
		if n <= 9 {
			return xTypes
		}
		ty, _ := next()
		return []string{ty}
	}
	for _, n := range sizes {
		big := n > loopLimit
		// beyond loopLimit Rotate and Partition lines are replayed on the proved-equal one-pass
		// functions (rep = f), but for a few per size that still go through the loop models
		loopBudget := map[string]int{"R": 0, "P": 0}
		switch {
		case n <= 1100:
			loopBudget = map[string]int{"R": 3, "P": 4}
		case n <= 2100:
			loopBudget = map[string]int{"R": 1, "P": 2}
		}
		if g.Thorough() && big {
			loopBudget["R"] += 2
			loopBudget["P"] += 3
		}
		// (quick tier: beyond 2100 elements no loop-model replay -- 4.3 s per Rotate of 8192)
		// ---- Rotate: every interesting k
		ks := []int{0, 1, -1, n / 2, -(n / 2), n/2 + 1, n - 1, -(n - 1), n, -n, n + 1, -(n + 1), math.MaxInt, math.MinInt, math.MinInt + n}
		for _, b := range []int{31, 32, 33, 63, 64, 65, 255, 256, 257, 4095, 4096, 4097} {
			if b < n {
				ks = append(ks, b, -b, n-b, b-n)
			}
		}
		if p := smallestFactor(n); n > 3 && p < n { // k with gcd(k, n) > 1: few long cycles, many short ones
			ks = append(ks, p, -p, n/p, -(n / p), 2*p, n-p)
		}
		if n > 8 {
			ks = append(ks, g.R.Range(2, n-2), -g.R.Range(2, n-2))
		}
		ks = uniq(ks)
		shuffle(g, ks)
		for _, k := range ks {
			for _, ty := range typesFor(n) {
				_, l := next()
				rep := "l"
				if big {
					rep = "f"
					if loopBudget["R"] > 0 && k >= -n && k <= n && k != 0 && k != n && k != -n {
						loopBudget["R"]--
						rep = "l"
					}
				}
				var tags []string
				if n > 0 && k > -n && k < n && k != 0 && gcd(max(k, -k), n) > 1 {
					tags = append(tags, "state:rotate-several-cycles")
				}
				if k < -n || k > n {
					tags = append(tags, "state:rotate-k-out-of-range")
				}
				if n > 0 && (k == n || k == -n) {
					tags = append(tags, "state:rotate-k-is-plus-minus-n")
				}
				emitX("R", ty, rep, l, n, "i", strconv.Itoa(k), tags...)
			}
		}
		// ---- Chunks / Batches: n around 1, sqrt(len), len/2, len-1, len, len+1
		s := isqrt(n)
		as := []int{-1, 0, 1, 2, 3, s - 1, s, s + 1, n / 2, n/2 + 1, n - 2, n - 1, n, n + 1, 2*n + 1, math.MaxInt, math.MinInt}
		for _, b := range []int{31, 32, 33, 255, 256, 257, 4096} {
			if b < n {
				as = append(as, b, n-b, n/b, n/b+1)
			}
		}
		as = uniq(as)
		shuffle(g, as)
		// the models append to the end of a list: quadratic in the number of subslices.  On the long
		// slices only two arguments per function that give more than len/4 subslices (quick tier).
		manyLeft := map[string]int{"C": 2, "B": 2}
		if n > 4200 {
			manyLeft = map[string]int{"C": 1, "B": 1}
		}
		for _, a := range as {
			if a >= -1 || a == math.MinInt {
				for _, op := range []string{"C", "B"} {
					count := 1
					if op == "C" && a > 0 && a < n {
						count = (n + a - 1) / a
					} else if op == "B" && a > 0 {
						count = min(a, n)
					}
					if n > 1100 && count > n/4 && !g.Thorough() {
						if manyLeft[op] == 0 {
							continue
						}
						manyLeft[op]--
					}
					for _, ty := range typesFor(n) {
						_, l := next()
						var tags []string
						spare := l.extra > 0
						if op == "C" {
							if a >= 0 && (a == 0 || a >= n) && spare {
								tags = append(tags, "state:chunks-early-return-spare-capacity")
							}
							if a > 0 && a < n && n%a != 0 {
								tags = append(tags, "state:chunks-short-last-chunk")
							}
							if a > 0 && a < n && spare {
								tags = append(tags, "state:chunks-loop-spare-capacity")
							}
						} else {
							if a > n {
								tags = append(tags, "state:batches-n-above-len")
							}
							if a > 0 && a <= n && n%a != 0 {
								tags = append(tags, "state:batches-uneven")
							}
							if a > 0 && n == 0 {
								tags = append(tags, "state:batches-empty-slice-F3")
							}
							if a > 0 && n > 0 && spare {
								tags = append(tags, "state:batches-spare-capacity")
							}
						}
						if a < 0 {
							tags = append(tags, "state:negative-count")
						}
						emitX(op, ty, "l", l, n, "i", strconv.Itoa(a), tags...)
					}
				}
			}
		}
		// ---- Partition: every class of keep pattern
		pats := []string{"all", "none", "alt0", "alt1", "ends", "first", "last", "notends",
			"runs" + strconv.Itoa(max(s, 1)), "runs32", "runs33", "runs2",
			"lo" + strconv.Itoa(n/2), "hi" + strconv.Itoa(n/2), "lo1", "hi" + strconv.Itoa(max(n-1, 0)), "m3r1", "m3r2", "m64r63"}
		shuffle(g, pats)
		for pi, pat := range pats {
			rep := "l"
			if big {
				rep = "f"
				if loopBudget["P"] > 0 && pat != "all" && pat != "none" {
					loopBudget["P"]--
					rep = "l"
				}
			}
			for _, ty := range typesFor(n) {
				_, l := next()
				vgen := "i"
				if pi%4 == 3 && n > 4 { // duplicates: the pattern then selects among 2*isqrt(n) values
					vgen = "d" + strconv.Itoa(2*s+1)
				}
				kp := xKeep(pat, n)
				kept := 0
				for _, v := range xVals(vgen, n) {
					if kp(v) {
						kept++
					}
				}
				var tags []string
				spare := l.extra > 0
				switch {
				case n > 0 && kept == n && spare:
					tags = append(tags, "state:partition-all-kept-spare-capacity")
				case n > 0 && kept == 0 && spare:
					tags = append(tags, "state:partition-none-kept-spare-capacity")
				case n == 0 && spare:
					tags = append(tags, "state:partition-empty-spare-capacity")
				case kept > 0 && kept < n && spare:
					tags = append(tags, "state:partition-mixed-spare-capacity")
				}
				emitX("P", ty, rep, l, n, vgen, pat, tags...)
			}
		}
		// ---- Head / Tail / At / PtrAt: the boundaries and the ends of int
		for _, ty := range typesFor(n) {
			_, l := next()
			hs := uniq([]int{-1, 0, 1, n / 2, n - 1, n, n + 1, n + l.extra, n + l.extra + 1, math.MaxInt, math.MaxInt - 1, math.MinInt, math.MinInt + 1, math.MinInt + n, math.MaxInt - n})
			for _, a := range hs {
				var tags []string
				if a > n {
					tags = append(tags, "state:head-tail-n-above-len")
				}
				if a < 0 {
					tags = append(tags, "state:negative-count")
				}
				emitX("H", ty, "l", l, n, "i", strconv.Itoa(a), tags...)
				emitX("T", ty, "l", l, n, "i", strconv.Itoa(a), tags...)
			}
			is := uniq([]int{0, 1, -1, n / 2, -(n / 2), n - 2, n - 1, n, n + 1, -(n - 1), -n, -n - 1, -n - 2,
				math.MaxInt, math.MaxInt - n, math.MinInt, math.MinInt + n, math.MinInt + n - 1, math.MinInt + 1})
			for _, a := range is {
				var tags []string
				if a < 0 && a >= -n {
					tags = append(tags, "state:at-negative-index")
				}
				if a == n || a == -n-1 {
					tags = append(tags, "state:at-just-out-of-range")
				}
				emitX("A", ty, "l", l, n, "i", strconv.Itoa(a), tags...)
				emitX("Q", ty, "l", l, n, "i", strconv.Itoa(a), tags...)
			}
		}
	}
	// ---- Stripe: many short lists, a few long ones; i at the boundaries of the lengths
	type sc struct {
		m    int
		lgen string
		l    int
	}
	var scs []sc
	for _, m := range []int{31, 32, 33, 255, 256, 257, 1023, 1024, 1025, 4096, 8193} {
		for _, lg := range []string{"c", "v", "o"} {
			scs = append(scs, sc{m, lg + "3", 3})
		}
	}
	for _, l := range []int{255, 256, 257, 4095, 4096, 4097, 8193} {
		scs = append(scs, sc{3, "c" + strconv.Itoa(l), l}, sc{4, "o" + strconv.Itoa(l), l}, sc{5, "v" + strconv.Itoa(l), l})
	}
	for _, c := range scs {
		if c.m > 2000 && !g.Thorough() && !g.R.Chance(1, 2) { // the model appends to the end of the result
			continue
		}
		is := []int{-1, 0, 1, c.l / 2, c.l - 1, c.l, c.l + 1, math.MaxInt, math.MinInt}
		if c.m > 2000 && !g.Thorough() {
			is = []int{0, c.l - 1, c.l}
		}
		for _, i := range uniq(is) {
			ty, _ := next()
			emitX("S", ty, "l", layout{0, 0}, c.m, c.lgen, strconv.Itoa(i))
		}
	}
}
