// Round 5: the parts of the public API of package cache that no generator used before.
//
// W lines - the cache on a Store that is NOT cache.LRU(): the harness's listStore (liststore.go; the same file as
// in harness/cmd/cacheconc, where staged interleavings stop calls inside its methods) handed over through
// cache.Config.WithStore.
//
//	W <limit> <mode> <cfg> <op>;<op>;...   |  <obs>;<obs>;...
//
// mode and ops as on H lines.  cfg says how the Config is put together:
//
//	a  Config{}.WithStore(s).OnEvict(f).WithSize(g)            b  LRU().WithSize(g).OnEvict(f).WithStore(s)  (replaces LRU's store)
//	c  Config{}.OnEvict(f).WithStore(s).WithSize(g)            d  Config{}.WithStore(decoy).WithSize(g).WithStore(s).OnEvict(f)
//	n  Config{}.WithSize(g).OnEvict(f) - no store: New must panic    z  ...WithStore(s).WithStore(nil) - likewise
//	A B C D  the same without OnEvict (the default callback): the log is then what the harness sees LEAVE the store
//	         (every Evict, every Remove of a present key), which is also compared with the callback log in a..d
//
// obs: <result>/<callback log>/<Len>/<Size>/<the store's entries key:val,... least recently used first>
// (more than 40 entries: #<count>.<digest>).  "!store=" in the log field: the callback log and the entries that
// left the store differ; "!decoy" after the result: the replaced store was called.
//
// L lines - other instantiations of Cache[Key, Value], with cache.Length as the size function:
//
//	L <limit> <key kind><value kind> <k> <op>;...   |  <obs>;...        (store: cache.LRU())
//
// key kinds (an op's key code c stands for): i int c, s string ("" for 0, else "k<c>"), t struct{int; string}, f float64 c/2,
// a [2]int32{c, -c}, p *int (one pointer per code).  value kinds: s string, b []byte (with spare capacity), n a named
// string type, m a named []byte type; the value for code v has v mod k bytes (so sizes are those of mode m<k>), taken
// from a text with 1-, 2-, 3- and 4-byte runes starting at offset v - its length in runes, its capacity and its
// length in bytes all differ.  obs as on H lines, values in hex, keys as their codes.
package main

import (
	"fmt"
	"sort"
	"strconv"
	"strings"
	"time"

	"github.com/creachadair/mds/cache"
	"verif/harness/internal/tr"
)

// ---------------------------------------------------------------- W lines

func pairsString(ps [][2]int) string {
	if len(ps) == 0 {
		return "."
	}
	ss := make([]string, len(ps))
	for i, e := range ps {
		ss[i] = fmt.Sprintf("%d:%d", e[0], e[1])
	}
	return strings.Join(ss, ",")
}

func samePairs(a, b [][2]int) bool {
	if len(a) != len(b) {
		return false
	}
	for i := range a {
		if a[i] != b[i] {
			return false
		}
	}
	return true
}

func entsString(s *listStore[int, int]) string {
	if len(s.ents) > 40 {
		var h hash
		for _, e := range s.ents {
			h.feed(int64(e.key))
			h.feed(int64(e.val))
		}
		return fmt.Sprintf("#%d.%s", len(s.ents), h.String())
	}
	ps := make([][2]int, len(s.ents))
	for i, e := range s.ents {
		ps[i] = [2]int{e.key, e.val}
	}
	return pairsString(ps)
}

// storeStats is what the generator learns from a W run (labels only).
type storeStats struct {
	evicted, replaced, refused, getHit, checkInGet bool
	maxEnts                                        int
}

func runStoreHistory(limit int64, mode, cfgc string, ops []op, st *storeStats) (obs []string) {
	if len(cfgc) != 1 || !strings.Contains("abcdnzABCDNZ", cfgc) {
		return []string{"?"}
	}
	var c *cache.Cache[int, int]
	var log, dep [][2]int
	var calls []byte
	decoyCalls := 0
	s := &listStore[int, int]{}
	s.hook = func(kind byte, key int) {
		calls = append(calls, kind)
		switch kind {
		case 'm': // Remove: the entry leaves the store if it is there
			if i := s.find(key); i >= 0 {
				dep = append(dep, [2]int{key, s.ents[i].val})
			}
		case 'e': // Evict: the first entry leaves
			if len(s.ents) > 0 {
				dep = append(dep, [2]int{s.ents[0].key, s.ents[0].val})
			}
		}
	}
	decoy := &listStore[int, int]{hook: func(byte, int) { decoyCalls++ }}
	cb := func(k, v int) { log = append(log, [2]int{k, v}) }
	withCB := cfgc[0] >= 'a'
	sf := sizeFunc(mode)
	if p := tr.Catch(func() {
		onEvict := func(x cache.Config[int, int]) cache.Config[int, int] {
			if withCB {
				return x.OnEvict(cb)
			}
			return x
		}
		withSize := func(x cache.Config[int, int]) cache.Config[int, int] {
			if sf != nil {
				return x.WithSize(sf)
			}
			return x
		}
		var cfg cache.Config[int, int]
		switch strings.ToLower(cfgc) {
		case "a":
			cfg = withSize(onEvict(cache.Config[int, int]{}.WithStore(s)))
		case "b":
			cfg = onEvict(withSize(cache.LRU[int, int]())).WithStore(s)
		case "c":
			cfg = withSize(onEvict(cache.Config[int, int]{}).WithStore(s))
		case "d":
			cfg = onEvict(withSize(cache.Config[int, int]{}.WithStore(decoy)).WithStore(s))
		case "n":
			cfg = onEvict(withSize(cache.Config[int, int]{}))
		case "z":
			cfg = onEvict(withSize(cache.Config[int, int]{}.WithStore(s))).WithStore(nil)
		}
		c = cache.New(limit, cfg)
	}); p != "" {
		return []string{"NEWPANIC"}
	}
	for _, o := range ops {
		log, dep, calls = nil, nil, calls[:0]
		var res string
		p := tr.Catch(func() {
			switch o.kind {
			case 'p':
				res = tr.B(c.Put(o.key, o.val))
			case 'g':
				v, ok := c.Get(o.key)
				res = tr.B(ok) + ":" + strconv.Itoa(v)
			case 'h':
				res = tr.B(c.Has(o.key))
			case 'r':
				res = tr.B(c.Remove(o.key))
			case 'c':
				c.Clear()
				res = "."
			case 'l':
				res = strconv.Itoa(c.Len())
			case 's':
				res = strconv.FormatInt(c.Size(), 10)
			default:
				res = "?"
			}
		})
		if p != "" {
			obs = append(obs, "PANIC:"+strings.TrimPrefix(p, "panic:"))
			return
		}
		if st != nil {
			switch o.kind {
			case 'p':
				if res == "0" {
					st.refused = true
				} else if len(dep) > 0 && dep[0][0] == o.key {
					st.replaced = true
					st.evicted = st.evicted || len(dep) > 1
				} else if len(dep) > 0 {
					st.evicted = true
				}
			case 'g':
				st.getHit = st.getHit || strings.HasPrefix(res, "1")
				st.checkInGet = st.checkInGet || strings.ContainsRune(string(calls), 'k')
			}
			if len(s.ents) > st.maxEnts {
				st.maxEnts = len(s.ents)
			}
		}
		ev := pairsString(dep)
		if withCB {
			ev = pairsString(log)
			if !samePairs(log, dep) {
				ev += "!store=" + pairsString(dep)
			}
		}
		if decoyCalls > 0 {
			res += "!decoy"
		}
		var ln int
		var sz int64
		if p := tr.Catch(func() { ln = c.Len(); sz = c.Size() }); p != "" {
			obs = append(obs, "PANIC:"+strings.TrimPrefix(p, "panic:"))
			return
		}
		obs = append(obs, fmt.Sprintf("%s/%s/%d/%d/%s", res, ev, ln, sz, entsString(s)))
	}
	return
}

func parseW(in string) (limit int64, mode, cfgc string, ops []op, ok bool) {
	f := strings.Fields(in)
	if len(f) < 4 || len(f) > 5 || f[0] != "W" {
		return
	}
	limit, err := strconv.ParseInt(f[1], 10, 64)
	if err != nil {
		return
	}
	if len(f) == 5 {
		ops = parseOps(f[4])
	}
	return limit, f[2], f[3], ops, true
}

func execStore(in string) string {
	limit, mode, cfgc, ops, ok := parseW(in)
	if !ok {
		return "?"
	}
	var out string
	if g := guard(5*time.Second, func() { out = strings.Join(runStoreHistory(limit, mode, cfgc, ops, nil), ";") }); g != "" {
		return g
	}
	return out
}

func emitStore(g *tr.G, limit int64, mode, cfgc string, ops []op) {
	in := fmt.Sprintf("W %d %s %s %s", limit, mode, cfgc, opsString(ops))
	var st storeStats
	var obs []string
	if hung := guard(5*time.Second, func() { obs = runStoreHistory(limit, mode, cfgc, ops, &st) }); hung != "" {
		memoIn, memoOut = in, hung
	} else {
		memoIn, memoOut = in, strings.Join(obs, ";")
	}
	tags := []string{"withstore"}
	if cfgc[0] < 'a' {
		tags = append(tags, "withstore-default-callback")
	}
	switch strings.ToLower(cfgc) {
	case "b":
		tags = append(tags, "withstore-replaces-the-store-of-LRU()")
	case "d":
		tags = append(tags, "withstore-twice")
	case "n", "z":
		tags = append(tags, "new-without-a-store")
	}
	if st.evicted {
		tags = append(tags, "withstore-put-evicts")
	}
	if st.replaced {
		tags = append(tags, "withstore-put-replaces")
	}
	if st.refused {
		tags = append(tags, "withstore-put-refused")
	}
	if st.maxEnts > 40 {
		tags = append(tags, "withstore-more-than-40-entries")
	}
	sort.Strings(tags)
	g.Emit(in, st.evicted, tags...)
}

var storeCfgs = []string{"a", "b", "c", "d", "A", "B", "C", "D"}

// genStore: the W lines of one run.  small = the sample that goes with property C09 (the sequential object
// of the concurrent runs on the same Store).
func genStore(g *tr.G, small bool) {
	alpha := []op{{kind: 'p', key: 0, val: 1}, {kind: 'p', key: 1, val: 2}, {kind: 'p', key: 0, val: 3}, {kind: 'g', key: 0}, {kind: 'g', key: 1},
		{kind: 'r', key: 0}, {kind: 'r', key: 1}, {kind: 'h', key: 1}, {kind: 'c'}}
	// every history of up to 3 (thorough 4) calls on two keys
	for n := 0; n <= g.Scale(3, 4); n++ {
		for _, lim := range []int64{1, 2} {
			allHistories(alpha, n, func(ops []op) { emitStore(g, lim, "u", "a", ops) })
		}
		if n <= 3 {
			allHistories(alpha, n, func(ops []op) { emitStore(g, 3, "m3", storeCfgs[n%len(storeCfgs)], ops) })
		}
	}
	// the constructor: no store, with every way to say so, and a bad limit with a store
	for _, cfgc := range []string{"n", "z", "N", "Z"} {
		emitStore(g, 2, "u", cfgc, []op{{kind: 'p', key: 0, val: 1}, {kind: 'l'}})
		emitStore(g, 0, "m3", cfgc, nil)
	}
	emitStore(g, 0, "u", "a", []op{{kind: 'l'}})
	emitStore(g, -1, "u", "b", nil)
	// random histories, shaped as on H lines
	count := g.Scale(1800, 60000)
	if small {
		count = g.Scale(700, 15000)
	}
	for i := 0; i < count; i++ {
		sh := shape{limit: int64(g.R.Range(1, 16)), nkeys: g.R.Range(2, 12), n: g.R.Range(5, 80)}
		switch x := g.R.Intn(10); {
		case x < 4:
			sh.mode, sh.maxval = "u", 99
		case x < 9:
			sh.mode, sh.maxval = "m"+strconv.Itoa(g.R.Range(1, int(sh.limit)+3)), 99
		default:
			k := g.R.Range(40, 55)
			sh.mode, sh.maxval = "b"+strconv.Itoa(k), 127
			sh.limit = int64(g.R.Range(1, 127))<<uint(k) + int64(g.R.Intn(3)) - 1
		}
		if g.R.Chance(1, 3) {
			sh.nkeys = int(sh.limit%1000) + g.R.Range(1, 4)
			if sh.nkeys > 20 {
				sh.nkeys = 20
			}
		}
		var ops []op
		if g.R.Chance(1, 4) && sh.limit >= 6 && sh.limit <= 16 {
			sh.nkeys = int(sh.limit) + g.R.Range(0, 3)
			ops = genDisturbed(g.R, sh)
		} else {
			ops = genHistory(g.R, sh)
		}
		emitStore(g, sh.limit, sh.mode, tr.Pick(g.R, storeCfgs), ops)
	}
	// the sizes the concurrent runs use (65..300 entries): fill past the limit, Gets all over, Removes, refill, Clear
	for i := 0; i < g.Scale(6, 60); i++ {
		n := 41 + g.R.Intn(260)
		if i%3 == 0 {
			n = 64*(1+g.R.Intn(4)) - 1 + g.R.Intn(3)
		}
		mode, limit := "u", int64(n)
		if g.R.Bool() {
			mode = "m" + strconv.Itoa(n+1) // a value of n fills the limit exactly
		}
		val := func() int {
			if mode == "u" {
				return g.R.Intn(100)
			}
			return (n+1)*g.R.Range(1, 50) + []int{1, 1, 1, 0, 2}[g.R.Intn(5)]
		}
		var ops []op
		for k := 0; k < n+g.R.Intn(8); k++ {
			ops = append(ops, op{kind: 'p', key: k, val: val()})
		}
		for j := g.R.Range(5, 40); j > 0; j-- {
			k := g.R.Intn(n + 8)
			switch g.R.Intn(5) {
			case 0:
				ops = append(ops, op{kind: 'r', key: k})
			case 1:
				ops = append(ops, op{kind: 'p', key: k, val: val()})
			case 2:
				ops = append(ops, op{kind: 'h', key: k})
			default:
				ops = append(ops, op{kind: 'g', key: k})
			}
		}
		for j := g.R.Range(3, 30); j > 0; j-- {
			ops = append(ops, op{kind: 'p', key: n + 10 + j, val: val()})
		}
		ops = append(ops, op{kind: 'l'}, op{kind: 's'})
		if mode != "u" {
			ops = append(ops, op{kind: 'p', key: n + 100, val: (n+1)*77 + n}) // fills the limit exactly: everything with a size goes
		}
		ops = append(ops, op{kind: 'c'}, op{kind: 'l'}, op{kind: 'p', key: 1, val: val()}, op{kind: 'g', key: 1})
		emitStore(g, limit, mode, tr.Pick(g.R, storeCfgs), ops)
	}
}

// ---------------------------------------------------------------- L lines

// lengthAlphabet: 'a', U+00E9, U+2603, U+1F600, 'b' - 11 bytes, 5 runes.
const lengthAlphabet = "aé☃\U0001F600b"

// lengthBytes is the value for code v: v mod k bytes of the alphabet, read cyclically from offset v; nil for v < 0.
// The slice has spare capacity (what cap would report is not the length).
func lengthBytes(v, k int) []byte {
	if v < 0 || k < 1 {
		return nil
	}
	n := v % k
	out := make([]byte, n, n+3)
	for i := range out {
		out[i] = lengthAlphabet[(v+i)%len(lengthAlphabet)]
	}
	return out
}

type text string
type blob []byte
type pairKey struct {
	n int
	s string
}

func hexOf(b []byte) string { return fmt.Sprintf("%x", b) }

// runTyped runs one history on a Cache[K, V] built from LRU() with sizeOf as its size function; keys are named by
// codes (keyOf must be injective on the codes used and return the SAME key for the same code every time).
func runTyped[K comparable, V any](limit int64, keyOf func(int) K, valOf func(int) V, bytesOf func(V) []byte, sizeOf func(V) int64, ops []op) (obs []string) {
	codeOf := map[K]int{}
	key := func(c int) K {
		k := keyOf(c)
		codeOf[k] = c
		return k
	}
	code := func(k K) int {
		if c, ok := codeOf[k]; ok {
			return c
		}
		return -1
	}
	var c *cache.Cache[K, V]
	var log []string
	if p := tr.Catch(func() {
		c = cache.New(limit, cache.LRU[K, V]().WithSize(sizeOf).OnEvict(func(k K, v V) { log = append(log, fmt.Sprintf("%d:%s", code(k), hexOf(bytesOf(v)))) }))
	}); p != "" {
		return []string{"NEWPANIC"}
	}
	for _, o := range ops {
		log = nil
		var res string
		p := tr.Catch(func() {
			switch o.kind {
			case 'p':
				res = tr.B(c.Put(key(o.key), valOf(o.val)))
			case 'g':
				v, ok := c.Get(key(o.key))
				res = tr.B(ok) + ":" + hexOf(bytesOf(v))
			case 'h':
				res = tr.B(c.Has(key(o.key)))
			case 'r':
				res = tr.B(c.Remove(key(o.key)))
			case 'c':
				c.Clear()
				res = "."
			case 'l':
				res = strconv.Itoa(c.Len())
			case 's':
				res = strconv.FormatInt(c.Size(), 10)
			default:
				res = "?"
			}
		})
		if p != "" {
			obs = append(obs, "PANIC:"+strings.TrimPrefix(p, "panic:"))
			return
		}
		ev := "."
		if len(log) > 0 {
			ev = strings.Join(log, ",")
		}
		var d string
		var ln int
		var sz int64
		if p := tr.Catch(func() {
			ln, sz = c.Len(), c.Size()
			heap, present, clock, _ := cache.VerifLRUDump(c)
			hs := make([]string, len(heap))
			for i, e := range heap {
				hs[i] = fmt.Sprintf("%d:%d", e.LastAccess, code(e.Key))
			}
			var ps [][2]int
			for k, pos := range present {
				ps = append(ps, [2]int{code(k), pos})
			}
			sort.Slice(ps, func(i, j int) bool { return ps[i][0] < ps[j][0] })
			h := "."
			if len(hs) > 0 {
				h = strings.Join(hs, ",")
			}
			d = h + "/" + pairsString(ps) + "/" + strconv.FormatInt(clock, 10)
		}); p != "" {
			obs = append(obs, "PANIC:"+strings.TrimPrefix(p, "panic:"))
			return
		}
		obs = append(obs, fmt.Sprintf("%s/%s/%d/%d/%s", res, ev, ln, sz, d))
	}
	return
}

func runWithKeys[V any](limit int64, kk byte, valOf func(int) V, bytesOf func(V) []byte, sizeOf func(V) int64, ops []op) []string {
	switch kk {
	case 'i':
		return runTyped(limit, func(c int) int { return c }, valOf, bytesOf, sizeOf, ops)
	case 's':
		return runTyped(limit, func(c int) string {
			if c == 0 {
				return ""
			}
			return "k" + strconv.Itoa(c)
		}, valOf, bytesOf, sizeOf, ops)
	case 't':
		return runTyped(limit, func(c int) pairKey { return pairKey{c / 2, strconv.Itoa(c % 2)} }, valOf, bytesOf, sizeOf, ops)
	case 'f':
		return runTyped(limit, func(c int) float64 { return float64(c) / 2 }, valOf, bytesOf, sizeOf, ops)
	case 'a':
		return runTyped(limit, func(c int) [2]int32 { return [2]int32{int32(c), int32(-c)} }, valOf, bytesOf, sizeOf, ops)
	case 'p':
		ptrs := map[int]*int{}
		return runTyped(limit, func(c int) *int {
			if ptrs[c] == nil {
				ptrs[c] = new(int)
			}
			return ptrs[c]
		}, valOf, bytesOf, sizeOf, ops)
	}
	return []string{"?"}
}

func runLength(limit int64, kinds string, k int, ops []op) []string {
	if len(kinds) != 2 || k < 1 {
		return []string{"?"}
	}
	for _, o := range ops {
		if o.val < 0 {
			return []string{"?"}
		}
	}
	switch kinds[1] {
	case 's':
		return runWithKeys(limit, kinds[0], func(v int) string { return string(lengthBytes(v, k)) }, func(s string) []byte { return []byte(s) }, cache.Length[string], ops)
	case 'b':
		return runWithKeys(limit, kinds[0], func(v int) []byte { return lengthBytes(v, k) }, func(b []byte) []byte { return b }, cache.Length[[]byte], ops)
	case 'n':
		return runWithKeys(limit, kinds[0], func(v int) text { return text(lengthBytes(v, k)) }, func(s text) []byte { return []byte(s) }, cache.Length[text], ops)
	case 'm':
		return runWithKeys(limit, kinds[0], func(v int) blob { return blob(lengthBytes(v, k)) }, func(b blob) []byte { return b }, cache.Length[blob], ops)
	}
	return []string{"?"}
}

func execLength(in string) string {
	f := strings.Fields(in)
	if len(f) < 4 || len(f) > 5 || f[0] != "L" {
		return "?"
	}
	limit, err := strconv.ParseInt(f[1], 10, 64)
	k, err2 := strconv.Atoi(f[3])
	if err != nil || err2 != nil {
		return "?"
	}
	var ops []op
	if len(f) == 5 {
		ops = parseOps(f[4])
	}
	var out string
	if g := guard(5*time.Second, func() { out = strings.Join(runLength(limit, f[2], k, ops), ";") }); g != "" {
		return g
	}
	return out
}

const keyKinds, valKinds = "istfap", "sbnm"

func genLength(g *tr.G) {
	emitL := func(limit int64, kinds string, k int, ops []op) {
		in := fmt.Sprintf("L %d %s %d %s", limit, kinds, k, opsString(ops))
		evicts := false
		ref := &refLRU{limit: limit, size: func(v int) int64 { return int64(v % k) }}
		if limit > 0 {
			for _, o := range ops {
				present := ref.find(o.key) >= 0
				ev, _ := ref.step(o)
				if o.kind == 'p' && (len(ev) > 1 || (len(ev) == 1 && !present)) {
					evicts = true
				}
			}
		}
		tags := []string{"length-size-function", "instantiation-key-" + kinds[:1], "instantiation-value-" + kinds[1:]}
		if evicts {
			tags = append(tags, "length-put-evicts")
		}
		g.Emit(in, evicts, tags...)
	}
	// every history of up to two calls for every instantiation (values of 0, 1, 2 and 4 bytes against limit 3)
	alpha := []op{{kind: 'p', key: 0, val: 6}, {kind: 'p', key: 1, val: 7}, {kind: 'p', key: 0, val: 9}, {kind: 'p', key: 1, val: 5}, {kind: 'g', key: 0}, {kind: 'g', key: 1},
		{kind: 'r', key: 0}, {kind: 'h', key: 1}, {kind: 'c'}, {kind: 's'}}
	for _, kk := range keyKinds {
		for _, vk := range valKinds {
			for n := 0; n <= 2; n++ {
				allHistories(alpha, n, func(ops []op) { emitL(3, string(kk)+string(vk), 5, ops) })
			}
		}
	}
	emitL(0, "is", 2, []op{{kind: 'l'}})
	// random histories on at most five keys (with five entries at most the victims are exactly the reference's:
	// C08_lru_settled_partial)
	for i := 0; i < g.Scale(1200, 30000); i++ {
		limit := int64(g.R.Range(1, 12))
		k := g.R.Range(1, int(limit)+2)
		sh := shape{limit: limit, nkeys: g.R.Range(2, 5), n: g.R.Range(5, 40), maxval: 99}
		kinds := string(keyKinds[g.R.Intn(len(keyKinds))]) + string(valKinds[g.R.Intn(len(valKinds))])
		emitL(limit, kinds, k, genHistory(g.R, sh))
	}
}
