// Big caches (round 3).  One case per line:
//
//	B <limit> <mode> <macro>;<macro>;...  |  <obs>;<obs>;...
//
// A macro stands for many calls; its keys are an arithmetic key sequence and its values an arithmetic
// value sequence (the OCaml driver expands both the same way), so the line stays short however many
// entries the cache holds.  mode is the size function of the H lines (u, m<k>, b<k>; see main.go).
//
// key sequence <ks>:
//
//	<pat>,<lo>,<step>,<n>,<take>,<seed>   the first <take> of the indices 0..n-1 in the order <pat>
//	        (a ascending, d descending, r a permutation drawn from an LCG with <seed>); index j stands
//	        for key lo+step*j
//	e,<k>,<k>,...                         the keys as listed
//
// value sequence <vs> = <vlo>,<vstep>,<vmod>: the j-th call of the macro uses vlo + (vstep*j) mod vmod.
//
// macros:
//
//	p<ks>:<vs>  Put of every key      g<ks> Get      h<ks> Has      r<ks> Remove
//	c Clear     l Len     s Size
//	i<m>+<m>+...  the calls of the listed macros interleaved round-robin (one call of each in turn
//	              until all are used up)
//
// One observation per macro:
//
//	<trues>,<res>,<nev>,<ev>,<sp>/<Len>/<Size>/<heap>,<pres>,<clock>
//
//	trues  calls of the macro that returned true / ok
//	res    digest of, for EVERY call in order: its result (Put, Has, Remove 0|1; Get ok then value;
//	       Clear 2; Len, Size the number), the number of OnEvict calls made during it, and Len() and
//	       Size() read right after it
//	nev    OnEvict calls made during the macro;  ev: digest of their (key, value) in firing order
//	sp     the same digest except that the calls made during one Clear enter as a multiset (the
//	       property fixes no order for Clear; the driver's spec compares sp, the model ev as well)
//	Len, Size    after the macro
//	heap   digest of the heap array (lastAccess, key) in array order; pres: digest of the key->offset
//	       map sorted by key; clock   (through the verif hook, as in the H lines)
//
// A panic ends the line with the observation PANIC:<kind>@<index of the call in its macro>.
package main

import (
	"fmt"
	"math"
	"math/bits"
	"sort"
	"strconv"
	"strings"
	"time"

	"github.com/creachadair/mds/cache"
	"verif/harness/internal/tr"
)

// ---------------------------------------------------------------- sequences (mirrored in ocaml/cache_driver.ml)

type lcg struct{ x int64 }

func (l *lcg) next() int {
	l.x = (l.x*1103515245 + 12345) % 2147483648
	return int(l.x >> 8)
}

func permOf(n, seed int) []int {
	p := make([]int, n)
	for i := range p {
		p[i] = i
	}
	l := &lcg{x: int64(((seed % 2147483648) + 2147483648) % 2147483648)}
	for i := n - 1; i > 0; i-- {
		j := l.next() % (i + 1)
		p[i], p[j] = p[j], p[i]
	}
	return p
}

const maxSeq = 1 << 16

type kseq struct {
	pat                     byte
	lo, step, n, take, seed int
	list                    []int // pat == 'e'
}

func (k kseq) String() string {
	if k.pat == 'e' {
		s := "e"
		for _, x := range k.list {
			s += "," + strconv.Itoa(x)
		}
		return s
	}
	return fmt.Sprintf("%c,%d,%d,%d,%d,%d", k.pat, k.lo, k.step, k.n, k.take, k.seed)
}

func (k kseq) keys() []int {
	if k.pat == 'e' {
		return k.list
	}
	out := make([]int, 0, k.take)
	switch k.pat {
	case 'a':
		for j := 0; j < k.take; j++ {
			out = append(out, k.lo+k.step*j)
		}
	case 'd':
		for j := 0; j < k.take; j++ {
			out = append(out, k.lo+k.step*(k.n-1-j))
		}
	case 'r':
		for _, j := range permOf(k.n, k.seed)[:k.take] {
			out = append(out, k.lo+k.step*j)
		}
	}
	return out
}

func parseKseq(s string) (kseq, bool) {
	f := strings.Split(s, ",")
	if len(f) == 0 || len(f[0]) != 1 || len(f) > maxSeq {
		return kseq{}, false
	}
	if f[0] == "e" {
		k := kseq{pat: 'e'}
		for _, x := range f[1:] {
			v, err := strconv.Atoi(x)
			if err != nil {
				return kseq{}, false
			}
			k.list = append(k.list, v)
		}
		return k, true
	}
	if len(f) != 6 || !strings.Contains("adr", f[0]) {
		return kseq{}, false
	}
	var v [5]int
	for i := range v {
		x, err := strconv.Atoi(f[i+1])
		if err != nil {
			return kseq{}, false
		}
		v[i] = x
	}
	k := kseq{pat: f[0][0], lo: v[0], step: v[1], n: v[2], take: v[3], seed: v[4]}
	if k.n < 0 || k.n > maxSeq || k.take < 0 || k.take > k.n {
		return kseq{}, false
	}
	return k, true
}

type vseq struct{ lo, step, mod int }

func (v vseq) String() string { return fmt.Sprintf("%d,%d,%d", v.lo, v.step, v.mod) }
func (v vseq) at(j int) int {
	m := v.mod
	if m < 1 {
		m = 1
	}
	return v.lo + (v.step*j)%m
}

type macro struct {
	kind  byte // p g h r c l s i
	ks    kseq
	vs    vseq
	parts []macro // kind == 'i'
}

func (m macro) String() string {
	switch m.kind {
	case 'p':
		return "p" + m.ks.String() + ":" + m.vs.String()
	case 'g', 'h', 'r':
		return string(m.kind) + m.ks.String()
	case 'i':
		ss := make([]string, len(m.parts))
		for i, p := range m.parts {
			ss[i] = p.String()
		}
		return "i" + strings.Join(ss, "+")
	}
	return string(m.kind)
}

func parseMacro(s string) (macro, bool) {
	if s == "" {
		return macro{}, false
	}
	m := macro{kind: s[0]}
	rest := s[1:]
	switch m.kind {
	case 'c', 'l', 's':
		return m, rest == ""
	case 'g', 'h', 'r':
		ks, ok := parseKseq(rest)
		m.ks = ks
		return m, ok
	case 'p':
		kv := strings.SplitN(rest, ":", 2)
		if len(kv) != 2 {
			return m, false
		}
		ks, ok := parseKseq(kv[0])
		if !ok {
			return m, false
		}
		m.ks = ks
		f := strings.Split(kv[1], ",")
		if len(f) != 3 {
			return m, false
		}
		var v [3]int
		for i := range v {
			x, err := strconv.Atoi(f[i])
			if err != nil {
				return m, false
			}
			v[i] = x
		}
		m.vs = vseq{v[0], v[1], v[2]}
		return m, true
	case 'i':
		for _, p := range strings.Split(rest, "+") {
			q, ok := parseMacro(p)
			if !ok || q.kind == 'i' {
				return m, false
			}
			m.parts = append(m.parts, q)
		}
		return m, len(m.parts) > 0
	}
	return m, false
}

func (m macro) expand() []op {
	switch m.kind {
	case 'c', 'l', 's':
		return []op{{kind: m.kind}}
	case 'g', 'h', 'r':
		ks := m.ks.keys()
		out := make([]op, len(ks))
		for i, k := range ks {
			out[i] = op{kind: m.kind, key: k}
		}
		return out
	case 'p':
		ks := m.ks.keys()
		out := make([]op, len(ks))
		for i, k := range ks {
			out[i] = op{kind: 'p', key: k, val: m.vs.at(i)}
		}
		return out
	case 'i':
		parts := make([][]op, len(m.parts))
		total := 0
		for i, p := range m.parts {
			parts[i] = p.expand()
			total += len(parts[i])
		}
		out := make([]op, 0, total)
		for j := 0; len(out) < total; j++ {
			for _, p := range parts {
				if j < len(p) {
					out = append(out, p[j])
				}
			}
		}
		return out
	}
	return nil
}

func macrosString(ms []macro) string {
	ss := make([]string, len(ms))
	for i, m := range ms {
		ss[i] = m.String()
	}
	return strings.Join(ss, ";")
}

// ---------------------------------------------------------------- digests (the driver computes the same ones)

type hash struct{ a, b int64 }

func (h *hash) feed(v int64) {
	x := v
	if x < 0 {
		x = -x + 1<<20
	}
	x %= 1 << 30
	h.a = (h.a*31337 + x + 7) % 2147483647
	h.b = (h.b*65599 + x + 13) % 2147483629
}

// feedBig takes any int64: sign, then three limbs of 30, 30 and 4 bits of the magnitude.
func (h *hash) feedBig(v int64) {
	var u uint64
	if v < 0 {
		h.feed(1)
		u = uint64(-(v + 1)) + 1
	} else {
		h.feed(0)
		u = uint64(v)
	}
	h.feed(int64(u & (1<<30 - 1)))
	h.feed(int64((u >> 30) & (1<<30 - 1)))
	h.feed(int64(u >> 60))
}
func (h *hash) String() string { return fmt.Sprintf("%x.%x", h.a, h.b) }

// the two commutative sums a Clear's callbacks enter the sp digest with
func clearSums(log [][2]int) (int64, int64) {
	var s1, s2 int64
	for _, e := range log {
		k, v := int64(e[0])%(1<<30), int64(e[1])%(1<<30)
		s1 = (s1 + (k*1000003+v*7+1)%2147483647) % 2147483647
		s2 = (s2 + ((k+1)*(v+3))%2147483629) % 2147483629
	}
	return s1, s2
}

func dumpDigest(c *cache.Cache[int, int]) string {
	heap, present, clock, _ := cache.VerifLRUDump(c)
	var hh, ph hash
	for _, e := range heap {
		hh.feed(e.LastAccess)
		hh.feed(int64(e.Key))
	}
	keys := make([]int, 0, len(present))
	for k := range present {
		keys = append(keys, k)
	}
	sort.Ints(keys)
	for _, k := range keys {
		ph.feed(int64(k))
		ph.feed(int64(present[k]))
	}
	return hh.String() + "," + ph.String() + "," + strconv.FormatInt(clock, 10)
}

// ---------------------------------------------------------------- running a B line

// bigStats is what the generator learns from a run (labels only).
type bigStats struct {
	maxLen      int
	trigger     bool // the F2 trigger fired (hook)
	broken      bool // some heap element older than its parent after some macro
	interiorHit int
}

func runBig(limit int64, mode string, ms []macro, st *bigStats) []string {
	var c *cache.Cache[int, int]
	var log [][2]int
	if p := tr.Catch(func() {
		cfg := cache.LRU[int, int]().OnEvict(func(k, v int) { log = append(log, [2]int{k, v}) })
		if sf := sizeFunc(mode); sf != nil {
			cfg = cfg.WithSize(sf)
		}
		c = cache.New(limit, cfg)
	}); p != "" {
		return []string{"NEWPANIC"}
	}
	sf := sizeFunc(mode)
	var obs []string
	for _, m := range ms {
		var res, ev, sp hash
		trues, nev := 0, 0
		for i, o := range m.expand() {
			log = log[:0]
			if st != nil && len(ms) > 0 {
				// labels: sampled, the dump is linear in the number of entries
				if c.Len() <= 64 || i%16 == 0 {
					var fl stepFlags
					tr.Catch(func() { fl = flagsBefore(c, o, limit, sf) })
					if fl.interior {
						st.interiorHit++
					}
					if fl.trigger {
						st.trigger = true
					}
				}
			}
			p := tr.Catch(func() {
				switch o.kind {
				case 'p':
					if c.Put(o.key, o.val) {
						trues++
						res.feed(1)
					} else {
						res.feed(0)
					}
				case 'g':
					v, ok := c.Get(o.key)
					if ok {
						trues++
						res.feed(1)
					} else {
						res.feed(0)
					}
					res.feed(int64(v))
				case 'h':
					if c.Has(o.key) {
						trues++
						res.feed(1)
					} else {
						res.feed(0)
					}
				case 'r':
					if c.Remove(o.key) {
						trues++
						res.feed(1)
					} else {
						res.feed(0)
					}
				case 'c':
					c.Clear()
					res.feed(2)
				case 'l':
					res.feedBig(int64(c.Len()))
				case 's':
					res.feedBig(c.Size())
				}
				res.feed(int64(len(log)))
				ln := c.Len()
				res.feedBig(int64(ln))
				res.feedBig(c.Size())
				if st != nil && ln > st.maxLen {
					st.maxLen = ln
				}
			})
			if p != "" {
				return append(obs, fmt.Sprintf("PANIC:%s@%d", strings.TrimPrefix(p, "panic:"), i))
			}
			nev += len(log)
			for _, e := range log {
				ev.feed(int64(e[0]))
				ev.feed(int64(e[1]))
			}
			if o.kind == 'c' {
				s1, s2 := clearSums(log)
				sp.feed(s1)
				sp.feed(s2)
			} else {
				for _, e := range log {
					sp.feed(int64(e[0]))
					sp.feed(int64(e[1]))
				}
			}
		}
		var tail string
		if p := tr.Catch(func() {
			tail = fmt.Sprintf("%d/%d/%s", c.Len(), c.Size(), dumpDigest(c))
			if st != nil {
				if heap, _, _, ok := cache.VerifLRUDump(c); ok && heapBroken(heap) {
					st.broken = true
				}
			}
		}); p != "" {
			return append(obs, "PANIC:"+strings.TrimPrefix(p, "panic:")+"@-1")
		}
		obs = append(obs, fmt.Sprintf("%d,%s,%d,%s,%s/%s", trues, res.String(), nev, ev.String(), sp.String(), tail))
	}
	return obs
}

func parseBig(in string) (limit int64, mode string, ms []macro, ok bool) {
	f := strings.Fields(in)
	if len(f) < 3 || f[0] != "B" {
		return
	}
	limit, err := strconv.ParseInt(f[1], 10, 64)
	if err != nil {
		return
	}
	mode = f[2]
	if len(f) > 3 && f[3] != "." {
		for _, s := range strings.Split(f[3], ";") {
			m, good := parseMacro(s)
			if !good {
				return
			}
			ms = append(ms, m)
		}
	}
	return limit, mode, ms, true
}

func execBig(in string) string {
	limit, mode, ms, ok := parseBig(in)
	if !ok {
		return "?"
	}
	var out string
	if g := guard(30*time.Second, func() { out = strings.Join(runBig(limit, mode, ms, nil), ";") }); g != "" {
		return g
	}
	return out
}

// ---------------------------------------------------------------- generator

// builder composes one B line; next to the macros it keeps a plain reference LRU (labels, and the
// choice of keys by recency rank: "the oldest", "a middle one", "the newest").
type builder struct {
	r     *tr.Rand
	limit int64
	mode  string
	size  func(int) int64
	ms    []macro
	ref   *refLRU
	total int64 // sum of sizes in ref
	fresh int   // next unused key
	tags  map[string]bool
	work  int64 // what the line may still spend on calls that reorganise a big heap (see heavyFrom)
}

func newBuilder(r *tr.Rand, limit int64, mode string) *builder {
	sf := sizeFunc(mode)
	if sf == nil {
		sf = func(int) int64 { return 1 }
	}
	return &builder{r: r, limit: limit, mode: mode, size: sf, ref: &refLRU{limit: limit, size: sf}, tags: map[string]bool{}, fresh: 0, work: 1 << 40}
}

// apply runs the macro on the reference (incremental total: refLRU.total would make a big eviction quadratic).
func (b *builder) add(m macro) {
	b.ms = append(b.ms, m)
	for _, o := range m.expand() {
		switch o.kind {
		case 'p':
			vs := b.size(o.val)
			if vs > b.limit {
				if b.ref.find(o.key) >= 0 {
					b.tags["scale-refused-put-of-present-key"] = true
				} else {
					b.tags["scale-refused-put-of-absent-key"] = true
				}
				continue
			}
			if i := b.ref.find(o.key); i >= 0 {
				old := b.size(b.ref.ents[i][1])
				b.total -= old
				b.ref.ents = append(b.ref.ents[:i:i], b.ref.ents[i+1:]...)
				switch {
				case vs > old:
					b.tags["scale-replace-with-larger"] = true
				case vs < old:
					b.tags["scale-replace-with-smaller"] = true
				}
				if i == 0 && b.total > b.limit-vs {
					b.tags["scale-replace-lru-entry-and-evict"] = true
				}
			}
			n := 0
			for n < len(b.ref.ents) && b.total > b.limit-vs {
				b.total -= b.size(b.ref.ents[n][1])
				n++
			}
			if n > 0 {
				b.tags["scale-put-evicts"] = true
				if n > 1 {
					b.tags["scale-put-evicts-several"] = true
				}
				if n >= 256 {
					b.tags["scale-one-put-evicts-256+"] = true
				}
			}
			b.ref.ents = append(b.ref.ents[n:len(b.ref.ents):len(b.ref.ents)], [2]int{o.key, o.val})
			b.total += vs
		case 'g':
			if i := b.ref.find(o.key); i >= 0 {
				e := b.ref.ents[i]
				b.ref.ents = append(append(b.ref.ents[:i:i], b.ref.ents[i+1:]...), e)
			}
		case 'r':
			if i := b.ref.find(o.key); i >= 0 {
				b.total -= b.size(b.ref.ents[i][1])
				b.ref.ents = append(b.ref.ents[:i:i], b.ref.ents[i+1:]...)
				if i > 0 && i < len(b.ref.ents) {
					b.tags["scale-remove-interior"] = true
				}
			}
		case 'c':
			if len(b.ref.ents) > 0 && b.total == 0 {
				b.tags["scale-clear-with-only-zero-size-entries"] = true
			}
			for _, e := range b.ref.ents {
				if b.size(e[1]) == 0 {
					b.tags["scale-clear-with-zero-size-entries"] = true
					break
				}
			}
			b.ref.ents = nil
			b.total = 0
		}
	}
}

func (b *builder) n() int { return len(b.ref.ents) }

// budget sets the replay budget of a line that is going to hold n entries (see heavyFrom).
func (b *builder) budget(g *tr.G, n int) *builder {
	switch {
	case g.Thorough():
		b.work = 9000000
	case n < 3000:
		b.work = 4500000 // around 2^11: one complete drain by Puts
	default:
		b.work = 600000 // around 2^12: the fill, some 150 reorganising calls, the first victims
	}
	return b
}

// freshKeys reserves n unused keys lo, lo+1, ...
func (b *builder) freshKeys(n int) int {
	lo := b.fresh
	b.fresh += n
	return lo
}

func (b *builder) seq(pat byte, lo, n, take int) kseq {
	if take > n {
		take = n
	}
	if take < 0 {
		take = 0
	}
	k := kseq{pat: pat, lo: lo, step: 1, n: n, take: take}
	if pat == 'r' {
		k.seed = b.r.Intn(1 << 20)
	}
	return k
}

// ranks returns present keys by recency rank: the oldest three, three around the middle, the newest
// three, and the keys whose rank is next to a power of two (after an undisturbed fill rank = heap offset,
// so these sit at both ends of every heap level).
func (b *builder) ranks() []int {
	n := b.n()
	seen := map[int]bool{}
	var out []int
	add := func(i int) {
		if i >= 0 && i < n && !seen[i] {
			seen[i] = true
			out = append(out, b.ref.ents[i][0])
		}
	}
	for _, i := range []int{0, 1, 2, n/2 - 1, n / 2, n/2 + 1, n - 3, n - 2, n - 1} {
		add(i)
	}
	for p := 2; p <= n+1; p *= 2 {
		add(p - 2)
		add(p - 1)
		add(p)
	}
	shuffle(b.r, out)
	return out
}

// some picks m present keys at random recency ranks (explicit list; m stays small).
func (b *builder) some(m int) []int {
	n := b.n()
	var out []int
	seen := map[int]bool{}
	for len(out) < m && len(seen) < n {
		i := b.r.Intn(n)
		if !seen[i] {
			seen[i] = true
			out = append(out, b.ref.ents[i][0])
		}
	}
	return out
}

func shuffle(r *tr.Rand, xs []int) {
	for i := len(xs) - 1; i > 0; i-- {
		j := r.Intn(i + 1)
		xs[i], xs[j] = xs[j], xs[i]
	}
}

func elist(ks []int) kseq { return kseq{pat: 'e', list: ks} }

// heavyFrom: from this many entries on, the replay on the extracted model is what limits a line: a call
// that reorganises the heap (an eviction, a Remove, a successful Get, a replacing Put) costs about
// 2.5 microseconds per entry present (the key->offset map is an association list), so emptying a cache
// of n entries costs n^2/2 of these units: 5 s at n = 2048, 21 s at n = 4096.  A line with that many
// entries gets a budget of such units (quick: 4.5M around 2^11, 0.6M around 2^12; thorough 9M); its phases spend it and shorten
// themselves when it runs out (a drain then shows the first victims only; what is left of the order is
// compared with the model through the state digest, not with the reference).
const heavyFrom = 1500

func (b *builder) heavy() bool { return b.n() >= heavyFrom }

// afford says how many heap-reorganising calls at the present size the budget still pays for (at most want), and spends them.
func (b *builder) afford(want int) int {
	n := int64(b.n())
	if n < heavyFrom || want <= 0 {
		return want
	}
	can := b.work / n
	if can > int64(want) {
		can = int64(want)
	}
	b.work -= can * n
	return int(can)
}

// affordDrain: may everything present be evicted (by Clear or by one big Put)?
func (b *builder) affordDrain() bool {
	n := int64(b.n())
	if n < heavyFrom {
		return true
	}
	if b.work < n*n/2 {
		return false
	}
	b.work -= n * n / 2
	return true
}

// phases shared by the scenarios

// touch: Len, Size, Get of the keys at the named recency ranks (both ends of every heap level after an
// undisturbed fill), Get and Has of keys that are not there, Has of present keys.
func (b *builder) touch() {
	b.add(macro{kind: 'l'})
	b.add(macro{kind: 's'})
	if ks := b.ranks(); len(ks) > 0 {
		b.add(macro{kind: 'g', ks: elist(ks)})
		b.tags["scale-get-at-every-heap-level"] = true
	}
	b.add(macro{kind: 'g', ks: elist([]int{b.fresh + 5, b.fresh + 1000000})})
	if ks := b.some(6); len(ks) > 0 {
		b.add(macro{kind: 'h', ks: elist(append(ks, b.fresh+7))})
	}
}

// drainByPuts evicts every entry present now, one Put (of a fresh key, value sequence vs) at a time
// (unit sizes: first the Puts that only fill the room earlier Removes left).
func (b *builder) drainByPuts(vs vseq) {
	n := b.n()
	if n == 0 {
		return
	}
	if room := b.limit - b.total; b.mode == "u" && room < int64(n) {
		n += int(room)
	}
	if m := b.afford(n); m < n {
		n = m
		b.tags["scale-drain-cut-short-by-the-replay-budget"] = true
	}
	if n == 0 {
		return
	}
	lo := b.freshKeys(n)
	b.add(macro{kind: 'p', ks: b.seq('a', lo, n, n), vs: vs})
	b.tags["scale-drain-by-puts"] = true
}

func (b *builder) clear() {
	if !b.affordDrain() {
		b.tags["scale-no-final-clear-replay-budget"] = true
		b.add(macro{kind: 'l'})
		b.add(macro{kind: 's'})
		return
	}
	if b.n() > 0 {
		b.tags["scale-clear-nonempty"] = true
	}
	b.add(macro{kind: 'c'})
	b.add(macro{kind: 'l'})
	b.add(macro{kind: 's'})
}

// shrinkRegrow: drain to between n/8 and n/2 by Remove (one key at a time, the slowest path), use every
// observer on what is left, regrow with fresh keys (to the old size; a quarter of it on a heavy line).
func (b *builder) shrinkRegrow(lo, n int, vs vseq) {
	if n < 4 {
		return
	}
	heavy := b.heavy()
	keep := b.r.Range(n/8, n/2)
	pat := tr.Pick(b.r, []byte{'a', 'd', 'r'})
	b.add(macro{kind: 'r', ks: b.seq(pat, lo, n, b.afford(n-keep))})
	b.add(macro{kind: 'l'})
	b.add(macro{kind: 's'})
	b.add(macro{kind: 'h', ks: b.seq('a', lo, n, n)})
	if heavy {
		b.add(macro{kind: 'g', ks: b.seq('r', lo, n, b.afford(n/4))})
	} else {
		b.add(macro{kind: 'g', ks: b.seq('d', lo, n, n)})
	}
	m := n - keep
	if heavy {
		m /= 4
	}
	b.add(macro{kind: 'p', ks: b.seq('a', b.freshKeys(m), m, m), vs: vs})
	b.tags["scale-grow-drain-regrow"] = true
}

// middle: one of the disturbances between fill and drain.
func (b *builder) middle(lo, n int, vs vseq, which int) {
	m := n / 8
	if b.heavy() && m > 40 {
		m = 40
	}
	if m < 1 {
		m = 1
	}
	if m > n {
		m = n
	}
	switch which {
	case 0:
	case 1: // a run of Removes of interior entries (known finding F2 may fire from 6 entries on)
		b.add(macro{kind: 'r', ks: b.seq('r', lo, n, m)})
		b.tags["scale-remove-run"] = true
	case 2: // the same Removes, each followed by a Put of a fresh key (settled: F2 cannot fire)
		b.add(macro{kind: 'i', parts: []macro{{kind: 'r', ks: b.seq('r', lo, n, m)},
			{kind: 'p', ks: b.seq('a', b.freshKeys(m), m, m), vs: vs}}})
		b.tags["scale-remove-then-put"] = true
	case 3: // Gets all over the heap
		b.add(macro{kind: 'g', ks: b.seq('r', lo, n, 2*m)})
		b.tags["scale-get-run"] = true
	case 4: // replacing Puts all over the heap
		b.add(macro{kind: 'p', ks: b.seq('r', lo, n, m), vs: vs})
		b.tags["scale-replace-run"] = true
	case 5: // Remove, Get and replacing Put interleaved
		b.add(macro{kind: 'i', parts: []macro{{kind: 'r', ks: b.seq('r', lo, n, m)},
			{kind: 'g', ks: b.seq('r', lo, n, m)}, {kind: 'p', ks: b.seq('r', lo, n, m), vs: vs}}})
		b.tags["scale-remove-get-replace-mix"] = true
	}
}

func (b *builder) emit(g *tr.G, label string) {
	in := fmt.Sprintf("B %d %s %s", b.limit, b.mode, macrosString(b.ms))
	var st bigStats
	if hung := guard(30*time.Second, func() { memoOut = strings.Join(runBig(b.limit, b.mode, b.ms, &st), ";") }); hung != "" {
		memoOut = hung
	}
	memoIn = in
	tags := []string{"scale", "scale-" + label}
	for t := range b.tags {
		tags = append(tags, t)
	}
	if st.trigger {
		tags = append(tags, "scale-f2-trigger-fired")
	}
	if st.broken {
		tags = append(tags, "scale-heap-order-broken")
	}
	if st.interiorHit > 0 {
		tags = append(tags, "scale-hit-at-interior-heap-offset")
	}
	if st.maxLen > 0 {
		tags = append(tags, fmt.Sprintf("scale-entries-2^%d", bits.Len(uint(st.maxLen-1))))
		for _, t := range []int{256, 512, 1024, 2048, 4096} {
			if st.maxLen >= t {
				tags = append(tags, fmt.Sprintf("scale-entries>=%d", t))
			}
		}
	}
	sort.Strings(tags)
	g.Emit(in, true, tags...)
}

// scaleUnit: every entry has size 1, the limit is the number of entries.
func scaleUnit(g *tr.G, n int, which int) {
	limit := int64(n)
	b := newBuilder(g.R, limit, "u").budget(g, n)
	vs := vseq{1000, 1, 100000}
	lo := b.freshKeys(n)
	b.add(macro{kind: 'p', ks: b.seq(tr.Pick(g.R, []byte{'a', 'a', 'd', 'r'}), lo, n, n), vs: vs})
	b.touch()
	b.middle(lo, n, vs, which)
	b.touch()
	if b.heavy() {
		// the budget pays for about one drain
		if g.R.Intn(3) == 0 {
			b.shrinkRegrow(lo, n, vs)
			b.touch()
		}
		b.drainByPuts(vseq{7, 3, 1000})
	} else {
		b.drainByPuts(vseq{7, 3, 1000})
		if g.R.Bool() {
			b.shrinkRegrow(b.fresh-b.n(), b.n(), vs)
			b.touch()
		}
	}
	b.clear()
	b.emit(g, "unit")
}

// scaleHuge: unit sizes under a limit at or next to MaxInt64 (nothing is ever evicted; Clear shows the order).
func scaleHuge(g *tr.G, n int, which int) {
	limit := int64(math.MaxInt64) - int64(g.R.Intn(3))
	b := newBuilder(g.R, limit, "u").budget(g, n)
	vs := vseq{1, 1, 1000}
	lo := b.freshKeys(n)
	b.add(macro{kind: 'p', ks: b.seq(tr.Pick(g.R, []byte{'a', 'd', 'r'}), lo, n, n), vs: vs})
	b.touch()
	b.middle(lo, n, vs, which)
	if !b.heavy() || g.R.Bool() {
		b.shrinkRegrow(lo, n, vs)
		b.touch()
	}
	b.clear()
	b.emit(g, "unit-huge-limit")
}

// scaleSized: value-dependent sizes.  Values 1..3 in turn fill the cache to the limit with exactly n
// entries.  Up to ~330 entries sizeOf(v) = v mod (limit+3) (mode m): values limit+1, limit+2 are refused,
// 0 and limit+3 have size zero; above, sizeOf(v) = 2v (mode b1): values > limit/2 are refused, 0 has size zero.
func scaleSized(g *tr.G, n int, which int) {
	sum := 0
	for j := 0; j < n; j++ {
		sum += 1 + j%3
	}
	var b *builder
	zero := vseq{0, 0, 1}
	if sum+3 < 1000 {
		b = newBuilder(g.R, int64(sum), "m"+strconv.Itoa(sum+3)).budget(g, n)
		zero = vseq{0, sum + 3, 2 * (sum + 3)}
	} else {
		b = newBuilder(g.R, int64(2*sum+g.R.Intn(2)), "b1").budget(g, n)
	}
	vs := vseq{1, 1, 3}
	lo := b.freshKeys(n)
	b.add(macro{kind: 'p', ks: b.seq(tr.Pick(g.R, []byte{'a', 'a', 'r'}), lo, n, n), vs: vs})
	b.touch()
	// refused Puts: present keys of every recency (oldest, middle, newest, level boundaries) and absent
	// ones; nothing may change, recency included (the drain below shows the order)
	rk := b.ranks()
	if len(rk) > 12 {
		rk = rk[:12]
	}
	b.add(macro{kind: 'p', ks: elist(append(rk, b.fresh+3, b.fresh+4)), vs: vseq{sum + 1, 1, 2}})
	b.add(macro{kind: 'l'})
	b.add(macro{kind: 's'})
	// zero-size entries into the full cache (no eviction)
	z := b.r.Range(1, 5)
	b.add(macro{kind: 'p', ks: b.seq('a', b.freshKeys(z), z, z), vs: zero})
	b.middle(lo, n, vs, which)
	// replacing Puts with larger and smaller values on the oldest, a middle and the newest entry
	pick := func() []int {
		es := b.ref.ents
		return []int{es[0][0], es[len(es)/2][0], es[len(es)-1][0]}
	}
	if b.n() > 0 {
		b.add(macro{kind: 'p', ks: elist(pick()), vs: vseq{3, 0, 1}})
	}
	if b.n() > 0 {
		b.add(macro{kind: 'p', ks: elist(pick()), vs: vseq{1, 0, 1}})
	}
	// replacements that have to evict many (about n/20 entries of average size 2): the oldest entry, a middle one
	if b.n() > 0 && sum >= 20 {
		b.add(macro{kind: 'p', ks: elist([]int{b.ref.ents[0][0]}), vs: vseq{2*b.afford(n/20) + 3, 0, 1}})
	}
	if b.n() > 2 && sum >= 20 {
		b.add(macro{kind: 'p', ks: elist([]int{b.ref.ents[b.n()/2][0]}), vs: vseq{2*b.afford(n/24) + 3, 0, 1}})
	}
	// a refused Put on what is now the oldest and the newest entry
	if b.n() > 0 {
		b.add(macro{kind: 'p', ks: elist([]int{b.ref.ents[0][0], b.ref.ents[b.n()-1][0]}), vs: vseq{sum + 2, 0, 1}})
	}
	b.touch()
	switch g.R.Intn(3) {
	case 0:
		// one Put of (all but one unit of) the limit evicts everything, in order, in one call
		if b.affordDrain() {
			b.add(macro{kind: 'p', ks: elist([]int{b.freshKeys(1)}), vs: vseq{sum, 0, 1}})
		} else {
			b.drainByPuts(vseq{1, 1, 3})
		}
		b.clear()
	case 1:
		b.drainByPuts(vseq{1, 1, 3})
		b.clear()
	default:
		b.drainByPuts(vseq{2, 1, 2})
		b.clear()
	}
	b.emit(g, "sized")
}

// scaleZero: every entry has size 0 (mode m1): nothing is ever evicted, Size() stays 0 whatever Len() is.
func scaleZero(g *tr.G, n int, which int) {
	limit := tr.Pick(g.R, []int64{1, 1, 7, math.MaxInt64})
	b := newBuilder(g.R, limit, "m1").budget(g, n)
	vs := vseq{5, 1, 1000}
	lo := b.freshKeys(n)
	b.add(macro{kind: 'p', ks: b.seq(tr.Pick(g.R, []byte{'a', 'd', 'r'}), lo, n, n), vs: vs})
	b.touch()
	b.middle(lo, n, vs, which)
	b.touch()
	if b.heavy() && g.R.Bool() {
		b.shrinkRegrow(lo, n, vs)
		b.clear()
	} else {
		b.clear()
		m := n/2 + 1
		if m >= heavyFrom {
			m = n / 8
		}
		lo = b.freshKeys(m)
		b.add(macro{kind: 'p', ks: b.seq('a', lo, m, m), vs: vs})
		b.shrinkRegrow(lo, m, vs)
		b.clear()
	}
	b.emit(g, "all-zero")
}

// scaleSomeZero: limit 1 or 2 and sizeOf(v) = v mod 2 or 3: many zero-size entries around a few that count;
// a Put of a sized value evicts every older entry up to the sized one that has to go.
func scaleSomeZero(g *tr.G, n int, which int) {
	md := g.R.Range(2, 3)
	limit := int64(g.R.Range(1, md-1))
	b := newBuilder(g.R, limit, "m"+strconv.Itoa(md)).budget(g, n)
	zero := vseq{0, md, 50 * md} // multiples of md: size 0
	lo := b.freshKeys(n)
	h := n / 2
	b.add(macro{kind: 'p', ks: b.seq('a', lo, n, h), vs: zero})
	b.add(macro{kind: 'p', ks: elist([]int{b.freshKeys(1)}), vs: vseq{1, 0, 1}}) // the entry that counts
	sized := b.fresh - 1
	b.add(macro{kind: 'p', ks: kseq{pat: 'a', lo: lo + h, step: 1, n: n - h, take: n - h}, vs: zero})
	b.touch()
	b.middle(lo, n, zero, which)
	switch g.R.Intn(3) {
	case 0:
		// the sized entry leaves: only zero-size entries remain (Size() = 0, Len() > 0), then Clear
		b.add(macro{kind: 'r', ks: elist([]int{sized})})
		b.add(macro{kind: 's'})
	case 1:
		// a Put that fills the limit evicts everything older than, and including, the sized entry
		b.add(macro{kind: 'p', ks: elist([]int{b.freshKeys(1)}), vs: vseq{int(limit), 0, 1}})
		b.add(macro{kind: 'p', ks: elist([]int{b.freshKeys(1)}), vs: vseq{int(limit), 0, 1}})
	default:
		// a Get makes the sized entry the newest; the next sized Put evicts the whole cache
		b.add(macro{kind: 'g', ks: elist([]int{sized})})
		b.add(macro{kind: 'p', ks: elist([]int{b.freshKeys(1)}), vs: vseq{int(limit), 0, 1}})
	}
	b.touch()
	b.clear()
	b.emit(g, "some-zero")
}

// scaleBig: sizes v << k with the limit at or just below MaxInt64: n-1 entries of 1<<k and one that takes the rest.
func scaleBig(g *tr.G, n int, which int) {
	k := 62 - bits.Len(uint(n)) // n << k < 2^62
	if k > 55 {
		k = 55
	}
	units := int(math.MaxInt64 >> uint(k)) // sizes are counted in units of 1<<k
	slack := g.R.Intn(3)                   // 0: the limit is MaxInt64 itself
	var limit int64
	if slack == 0 {
		limit = math.MaxInt64
	} else {
		limit = int64(units-slack)<<uint(k) + int64(g.R.Intn(1000))
	}
	fit := units - slack // units that fit under the limit
	b := newBuilder(g.R, limit, "b"+strconv.Itoa(k)).budget(g, n)
	one := vseq{1, 0, 1}
	lo := b.freshKeys(n)
	if n > 1 {
		b.add(macro{kind: 'p', ks: kseq{pat: 'a', lo: lo, step: 1, n: n - 1, take: n - 1}, vs: one})
	}
	b.add(macro{kind: 'p', ks: elist([]int{lo + n - 1}), vs: vseq{fit - (n - 1), 0, 1}}) // fills to the last unit
	b.touch()
	if slack > 0 {
		// refused: a value of more units than fit (still below 2^63), on present and absent keys
		rk := b.ranks()
		if len(rk) > 8 {
			rk = rk[:8]
		}
		b.add(macro{kind: 'p', ks: elist(append(rk, b.fresh+2)), vs: vseq{fit + 1, 1, slack}})
	}
	b.middle(lo, n, one, which)
	b.touch()
	if g.R.Bool() {
		b.drainByPuts(one)
		b.clear()
	} else if b.affordDrain() {
		// one value of all the units that fit: evicts everything
		b.add(macro{kind: 'p', ks: elist([]int{b.freshKeys(1)}), vs: vseq{fit, 0, 1}})
		b.clear()
	} else {
		b.drainByPuts(one)
	}
	b.emit(g, "big-sizes")
}

// scaleLong: a cache of a few hundred entries with a long history: the number of uses (the store's
// logical clock) passes 2^12 (thorough: 2^13) while the complete eviction order is observed again and
// again by drains with Puts, Gets in between.
func scaleLong(g *tr.G, n int, which int) {
	b := newBuilder(g.R, int64(n), "u")
	vs := vseq{1000, 1, 100000}
	lo := b.freshKeys(n)
	b.add(macro{kind: 'p', ks: b.seq('a', lo, n, n), vs: vs})
	uses := n
	for uses < g.Scale(1<<12, 1<<13)+n {
		lo = b.fresh - n
		switch g.R.Intn(3) {
		case 0:
			b.add(macro{kind: 'g', ks: b.seq('r', lo, n, n/4)})
			uses += n / 4
		case 1:
			b.middle(lo, n, vs, 2)
		}
		b.drainByPuts(vseq{7, 3, 1000})
		uses += n
	}
	b.touch()
	b.clear()
	// used again after the long history has ended in an empty cache: a few entries, Gets of the older ones, an ordered drain
	m := g.R.Range(4, 12)
	lo = b.freshKeys(m)
	b.add(macro{kind: 'p', ks: b.seq('a', lo, m, m), vs: vs})
	b.add(macro{kind: 'g', ks: elist([]int{lo, lo + m/2, lo})})
	b.add(macro{kind: 'r', ks: elist([]int{lo + 1})})
	b.drainByPuts(vseq{7, 3, 1000})
	b.clear()
	b.tags["scale-long-history"] = true
	b.emit(g, "long")
}

// scaleHistory: what a cache has been through, not what it holds (round 4).  The cache holds n entries
// once, is drained to exactly `left` (0, sometimes 1 or 2) entries - by Clear, by Removes least recently used first /
// most recently used first / in a permuted order, or by eviction (one Put whose value fills the limit exactly: for a moment the
// store is empty) - and is then used as a small cache: a few entries, Gets of entries that are not the newest
// (the heap moves elements), a Remove in the middle, a replacing Put on the oldest, Has of everything, an
// ordered drain; Clear; the same once more.  Sizes: 1 with the limit n, or 2v (mode b1) with the limit 2n (+1),
// where a value of n fills the limit and a Put of n-1 evicts all but one entry of the small cache in order.
func scaleHistory(g *tr.G, n int, drain int, left int) {
	unit := drain < 4 && g.R.Intn(3) == 0
	var b *builder
	if unit {
		b = newBuilder(g.R, int64(n), "u").budget(g, n)
	} else {
		b = newBuilder(g.R, int64(2*n+g.R.Intn(2)), "b1").budget(g, n)
	}
	one := vseq{1, 0, 1}
	lo := b.freshKeys(n)
	fill := b.seq(tr.Pick(g.R, []byte{'a', 'a', 'd', 'r'}), lo, n, n)
	b.add(macro{kind: 'p', ks: fill, vs: one})
	b.add(macro{kind: 'l'})
	b.add(macro{kind: 's'})
	if left > n || drain == 0 {
		left = 0
	}
	if drain >= 4 && left > 1 {
		left = 1
	}
	if !b.affordDrain() {
		b.tags["scale-history-cut-short-by-the-replay-budget"] = true
		b.clear()
		b.emit(g, "history")
		return
	}
	switch drain {
	case 0:
		b.add(macro{kind: 'c'})
		b.tags["scale-history-drained-by-clear"] = true
	case 1: // least recently used first: in the order of the fill
		ks := fill
		ks.take = n - left
		b.add(macro{kind: 'r', ks: ks})
		b.tags["scale-history-drained-by-remove"] = true
	case 2: // most recently used first (an ascending or descending fill backwards; a permuted one from the top key down)
		pat := byte('d')
		if fill.pat == 'd' {
			pat = 'a'
		}
		b.add(macro{kind: 'r', ks: b.seq(pat, lo, n, n-left)})
		b.tags["scale-history-drained-by-remove"] = true
	case 3:
		b.add(macro{kind: 'r', ks: b.seq('r', lo, n, n-left)})
		b.tags["scale-history-drained-by-remove"] = true
	default:
		// by eviction: everything goes in one Put; the new entry is removed again (or stays: one entry left)
		k := b.freshKeys(1)
		b.add(macro{kind: 'p', ks: elist([]int{k}), vs: vseq{n, 0, 1}})
		if left == 0 {
			b.add(macro{kind: 'r', ks: elist([]int{k})})
		}
		b.tags["scale-history-drained-by-eviction"] = true
	}
	if b.n() == 0 {
		b.tags["scale-history-drained-to-zero"] = true
	}
	for round := 0; round < 2; round++ {
		b.add(macro{kind: 'l'})
		b.add(macro{kind: 's'})
		b.add(macro{kind: 'h', ks: elist([]int{lo, lo + n/2, lo + n - 1, b.fresh + 3})})
		b.add(macro{kind: 'g', ks: elist([]int{lo + n/3, b.fresh + 4})})
		m := g.R.Range(3, 40)
		if m > n {
			m = n
		}
		lo2 := b.freshKeys(m)
		b.add(macro{kind: 'p', ks: b.seq('a', lo2, m, m), vs: one})
		// Gets of entries that are not the newest: the oldest of the new ones, a middle one, the oldest again;
		// then all over the heap.  What the drain left behind is not touched (a use would make it an ordinary
		// entry again): it has to leave first when room is needed.
		es := b.ref.ents[b.n()-m:]
		b.add(macro{kind: 'g', ks: elist([]int{es[0][0], es[len(es)/2][0], es[0][0]})})
		if b.n() == m {
			b.touch()
		} else {
			b.add(macro{kind: 'l'})
			b.add(macro{kind: 's'})
			b.add(macro{kind: 'g', ks: b.seq('r', lo2, m, m/2+1)})
			b.add(macro{kind: 'h', ks: elist([]int{b.ref.ents[0][0], b.fresh + 7})})
		}
		es = b.ref.ents[b.n()-m:]
		b.add(macro{kind: 'r', ks: elist([]int{es[len(es)/2][0]})})
		es = b.ref.ents[b.n()-m+1:]
		if len(es) > 0 {
			b.add(macro{kind: 'p', ks: elist([]int{es[0][0]}), vs: one})
		}
		b.add(macro{kind: 'h', ks: b.seq('a', lo2, m, m)})
		b.add(macro{kind: 'g', ks: b.seq('r', lo2, m, m/2)})
		if !unit && b.n() > 1 {
			// a value of n-1 leaves room for one entry: everything else goes, least recently used first; the
			// next Put has to evict the entry that stayed, not the one that has just arrived; then that one
			b.add(macro{kind: 'p', ks: elist([]int{b.freshKeys(1)}), vs: vseq{n - 1, 0, 1}})
			b.add(macro{kind: 'l'})
			b.add(macro{kind: 'p', ks: b.seq('a', b.freshKeys(2), 2, 2), vs: one})
		} else if unit && left > 0 && round == 0 && n <= 600 {
			// what the drain left behind is older than everything put since: filling up evicts it first
			room := int(b.limit) - b.n()
			if m := b.afford(room + left); m > 0 {
				b.add(macro{kind: 'p', ks: b.seq('a', b.freshKeys(m), m, m), vs: one})
			}
		}
		b.add(macro{kind: 'c'})
		b.tags["scale-history-reuse-after-drain"] = true
	}
	b.add(macro{kind: 'l'})
	b.add(macro{kind: 's'})
	for _, t := range []int{64, 256, 1024, 1500, 2048} {
		if n >= t {
			b.tags[fmt.Sprintf("scale-history-peak>=%d", t)] = true
		}
	}
	b.emit(g, "history")
}

// scaleSweep: every count in lo..hi, one after the other in one line (sizes 2v, the limit twice the largest
// count): n entries; one Put whose value fills the limit exactly and so has exactly n victims; Remove of it; n
// entries again, a Get of the oldest, Clear of exactly n+0 entries; Len and Size in between.  A path taken at
// one count only (a batch of 64, a table of 100 or 128 entries) is walked through here.
func scaleSweep(g *tr.G, lo, hi int) {
	b := newBuilder(g.R, int64(2*hi+2), "b1")
	one := vseq{1, 0, 1}
	for n := lo; n <= hi; n++ {
		k := b.freshKeys(n + 1)
		if n > 0 {
			b.add(macro{kind: 'p', ks: b.seq('a', k, n, n), vs: one})
		}
		b.add(macro{kind: 'p', ks: elist([]int{k + n}), vs: vseq{hi + 1, 0, 1}}) // n victims in one call
		b.add(macro{kind: 'r', ks: elist([]int{k + n})})
		b.add(macro{kind: 'l'})
		if n > 0 {
			k = b.freshKeys(n)
			b.add(macro{kind: 'p', ks: b.seq('a', k, n, n), vs: one})
			b.add(macro{kind: 'g', ks: elist([]int{k})})
		}
		b.add(macro{kind: 'c'})
		b.add(macro{kind: 's'})
	}
	b.tags["scale-sweep-every-count"] = true
	b.emit(g, "sweep")
}

// genHistoryLines: the capacity-history class at 1024 entries (all five ways to drain), at 1500 (by Remove and
// by Clear or eviction), at 1024-1 and 1024+1 (one way each, which one turns with the seed; the thorough tier
// takes every pair, and 2048-1..2048+1), and at a handful of smaller peaks anywhere in 2..600.
func genHistoryLines(g *tr.G) {
	r := g.R
	sizes := []int{1023, 1024, 1025, 1500}
	if g.Thorough() {
		for _, n := range append(sizes, 2047, 2048, 2049) {
			for d := 0; d < 5; d++ {
				scaleHistory(g, n, d, (d+n)%3)
			}
		}
	} else {
		off := r.Intn(5)
		// 1024: every way to drain; least-recently-used-first Removes leave the most recently used entry (the
		// largest stamp), most-recently-used-first Removes nothing, permuted Removes 0..2
		for d := 0; d < 5; d++ {
			scaleHistory(g, 1024, d, []int{0, 1, 0, (off + 2) % 3, off % 2}[d])
		}
		// 1500: by Remove to exactly zero, and by Clear or by eviction; 1024-1, 1024+1: one way each
		scaleHistory(g, 1500, 1+off%3, 0)
		scaleHistory(g, 1500, []int{0, 4}[off%2], 0)
		scaleHistory(g, 1023, off, tr.Pick(r, []int{0, 0, 1}))
		scaleHistory(g, 1025, (off+2)%5, tr.Pick(r, []int{0, 0, 1}))
	}
	for i := 0; i < g.Scale(8, 120); i++ {
		scaleHistory(g, r.Range(2, 600), r.Intn(5), tr.Pick(r, []int{0, 0, 0, 1, 2}))
	}
	// every count 0..130 (thorough: 0..600), and a few counts anywhere up to 600
	for lo := 0; lo <= g.Scale(130, 600); lo += 10 {
		scaleSweep(g, lo, lo+9)
	}
	for i := 0; i < g.Scale(5, 0); i++ {
		n := r.Range(131, 600)
		scaleSweep(g, n, n)
	}
}

var scaleScenarios = []func(*tr.G, int, int){scaleUnit, scaleHuge, scaleSized, scaleZero, scaleSomeZero, scaleBig}

// genScale: caches of 2^k-1, 2^k, 2^k+1 entries.  Up to 2^8+1 every size runs every scenario.  Above, the
// replay on the extracted model is quadratic in the number of entries (lists), so the count of big lines
// is limited, not their size: the quick tier takes every size around 2^9 with two scenarios, around 2^10
// with one, and ONE size each around 2^11 and 2^12 with one scenario (which ones depends on the seed);
// the thorough tier takes every size with every scenario up to 2^10+1, with two around 2^11, one around 2^12.
func genScale(g *tr.G) {
	r := g.R
	for k := 1; k <= 8; k++ {
		for _, n := range []int{1<<k - 1, 1 << k, 1<<k + 1} {
			for _, sc := range scaleScenarios {
				sc(g, n, r.Intn(6))
			}
		}
	}
	for k := 9; k <= 12; k++ {
		sizes := []int{1<<k - 1, 1 << k, 1<<k + 1}
		per := 0
		switch {
		case g.Thorough() && k <= 10:
			per = len(scaleScenarios)
		case g.Thorough() && k == 11, k == 9:
			per = 2
		case g.Thorough(), k == 10:
			per = 1
		}
		if per == 0 {
			tr.Pick(r, scaleScenarios)(g, tr.Pick(r, sizes), r.Intn(6))
			continue
		}
		for _, n := range sizes {
			first := r.Intn(len(scaleScenarios))
			for i := 0; i < per; i++ {
				scaleScenarios[(first+i)%len(scaleScenarios)](g, n, r.Intn(6))
			}
		}
	}
	// long histories on caches of 100..400 entries
	for i := 0; i < g.Scale(1, 6); i++ {
		scaleLong(g, r.Range(100, g.Scale(300, 400)), 0)
	}
	// what the cache has been through: big once, drained to nothing, used again
	genHistoryLines(g)
	// a few sizes that are not next to a power of two
	for i := 0; i < g.Scale(2, 12); i++ {
		tr.Pick(r, scaleScenarios)(g, r.Range(300, g.Scale(700, 3000)), r.Intn(6))
	}
}
