// listStore: the harness's own implementation of the public cache.Store interface, handed to the cache
// through cache.Config.WithStore.  THIS FILE EXISTS TWICE, byte for byte: harness/cmd/cacheconc/liststore.go
// and harness/cmd/cachetrace/liststore.go (two Go modules; harness/cmd/cacheconc/run refuses to run when they
// differ).  cachetrace checks this very code sequentially against the reference LRU and against the model
// (W lines), so that a defect of the store itself cannot pass for, or hide, a defect of the cache.
//
// It is a plain LRU store and is meant to be obviously so: the entries in ONE slice, least recently used
// first, most recently used last; every lookup is a scan.
//
//	Check(k)     the value of k, no change
//	Access(k)    the value of k; the entry moves to the end (most recently used)
//	Store(k, v)  appends the entry (most recently used); panics if k is present (the interface says so)
//	Remove(k)    deletes the entry of k if there is one
//	Evict()      deletes and returns the first entry (least recently used); panics if there is none
//
// Like every Store it relies on the cache to serialise the calls.  hook, if set, is called at the start of
// every method (lower-case letter) and again just before it returns (upper-case letter):
//
//	k K Check    a A Access    t T Store    m M Remove    e E Evict
//
// with the method's key (Evict: the zero key at the start, the victim's key at the end).  The harness puts
// yields and the gates of the staged interleavings there: these are the only places INSIDE Get and Has at
// which the harness's code runs.
package main

import "fmt"

type lsEntry[K comparable, V any] struct {
	key K
	val V
}

type listStore[K comparable, V any] struct {
	ents []lsEntry[K, V] // least recently used first
	hook func(kind byte, key K)
}

func (s *listStore[K, V]) at(kind byte, key K) {
	if s.hook != nil {
		s.hook(kind, key)
	}
}

// find returns the position of key, -1 if it is absent.
func (s *listStore[K, V]) find(key K) int {
	for i := range s.ents {
		if s.ents[i].key == key {
			return i
		}
	}
	return -1
}

// cut removes the entry at position i, keeping the order of the others.
func (s *listStore[K, V]) cut(i int) lsEntry[K, V] {
	e := s.ents[i]
	copy(s.ents[i:], s.ents[i+1:])
	var zero lsEntry[K, V]
	s.ents[len(s.ents)-1] = zero
	s.ents = s.ents[:len(s.ents)-1]
	return e
}

func (s *listStore[K, V]) Check(key K) (val V, ok bool) {
	s.at('k', key)
	if i := s.find(key); i >= 0 {
		val, ok = s.ents[i].val, true
	}
	s.at('K', key)
	return val, ok
}

func (s *listStore[K, V]) Access(key K) (val V, ok bool) {
	s.at('a', key)
	if i := s.find(key); i >= 0 {
		e := s.cut(i)
		s.ents = append(s.ents, e)
		val, ok = e.val, true
	}
	s.at('A', key)
	return val, ok
}

func (s *listStore[K, V]) Store(key K, val V) {
	s.at('t', key)
	if s.find(key) >= 0 {
		panic(fmt.Sprintf("list store: unexpected key %v", key))
	}
	s.ents = append(s.ents, lsEntry[K, V]{key, val})
	s.at('T', key)
}

func (s *listStore[K, V]) Remove(key K) {
	s.at('m', key)
	if i := s.find(key); i >= 0 {
		s.cut(i)
	}
	s.at('M', key)
}

func (s *listStore[K, V]) Evict() (K, V) {
	var zero K
	s.at('e', zero)
	if len(s.ents) == 0 {
		panic("list store evict: no entries left")
	}
	e := s.cut(0)
	s.at('E', e.key)
	return e.key, e.val
}
