// Command cachetrace drives cache.Cache with the LRU store of the working tree through sequential
// histories and records, after every call, everything the public API shows plus (through the
// verif hook) the internals of the LRU store.  One history per line:
//
//	H <limit> <mode> <op>;<op>;…   |  <obs>;<obs>;…
//
// mode: u = default size function (every entry has size 1), m<k> = sizeOf(v) = v mod k (k>=1, so
// zero-size values occur), n<k> = sizeOf(v) = v mod k - 1 (negative sizes: Size <= limit is not
// demanded there, everything else is), b<k> = sizeOf(v) = v << k (sizes and limits up to 2^62-1:
// the int64 sums c.size + valSize come within 2 of MaxInt64 without wrapping).
// op:   p<key>:<val> Put, g<key> Get, h<key> Has, r<key> Remove, c Clear, l Len, s Size.
// obs:  <result>/<callback log>/<Len>/<Size>/<heap>/<present>/<clock>
//
//	result: Put,Has,Remove 0|1; Get <ok>:<val>; Clear .; Len,Size the number
//	callback log: key:val,… in firing order (. = none) — the OnEvict calls made during this op
//	heap: lastAccess:key,… in array order; present: key:offset,… sorted by key; clock
//
// A panic ends the history with the observation PANIC:<kind>; New's own panic (limit <= 0) gives
// the single observation NEWPANIC; a history that does not finish within the watchdog gives hang.
package main

import (
	"fmt"
	"sort"
	"strconv"
	"strings"
	"time"

	"github.com/creachadair/mds/cache"
	"verif/harness/internal/tr"
)

type op struct {
	kind byte
	key  int
	val  int
}

func parseOps(s string) []op {
	var out []op
	if s == "" || s == "." {
		return nil
	}
	for _, f := range strings.Split(s, ";") {
		if f == "" {
			continue
		}
		o := op{kind: f[0]}
		rest := f[1:]
		switch o.kind {
		case 'p':
			kv := strings.SplitN(rest, ":", 2)
			o.key, _ = strconv.Atoi(kv[0])
			if len(kv) > 1 {
				o.val, _ = strconv.Atoi(kv[1])
			}
		case 'g', 'h', 'r':
			o.key, _ = strconv.Atoi(rest)
		}
		out = append(out, o)
	}
	return out
}

func (o op) String() string {
	switch o.kind {
	case 'p':
		return fmt.Sprintf("p%d:%d", o.key, o.val)
	case 'g', 'h', 'r':
		return fmt.Sprintf("%c%d", o.kind, o.key)
	}
	return string(o.kind)
}

func opsString(ops []op) string {
	if len(ops) == 0 {
		return "."
	}
	ss := make([]string, len(ops))
	for i, o := range ops {
		ss[i] = o.String()
	}
	return strings.Join(ss, ";")
}

func sizeFunc(mode string) func(int) int64 {
	if mode == "u" || len(mode) < 2 {
		return nil
	}
	k, _ := strconv.Atoi(mode[1:])
	if k < 1 {
		k = 1
	}
	switch mode[0] {
	case 'm':
		return func(v int) int64 { return int64(v % k) }
	case 'n':
		return func(v int) int64 { return int64(v%k) - 1 }
	case 'b':
		return func(v int) int64 { return int64(v) << uint(k) }
	}
	return nil
}

func dump(c *cache.Cache[int, int]) string {
	heap, present, clock, _ := cache.VerifLRUDump(c)
	hs := make([]string, len(heap))
	for i, e := range heap {
		hs[i] = fmt.Sprintf("%d:%d", e.LastAccess, e.Key)
	}
	keys := make([]int, 0, len(present))
	for k := range present {
		keys = append(keys, k)
	}
	sort.Ints(keys)
	ps := make([]string, len(keys))
	for i, k := range keys {
		ps[i] = fmt.Sprintf("%d:%d", k, present[k])
	}
	h, p := ".", "."
	if len(hs) > 0 {
		h = strings.Join(hs, ",")
	}
	if len(ps) > 0 {
		p = strings.Join(ps, ",")
	}
	return h + "/" + p + "/" + strconv.FormatInt(clock, 10)
}

// stepFlags says, for one call, what the LRU store's heap looked like when the call started
// (generator statistics only; from the hook dump).
type stepFlags struct {
	hit      bool // the call finds its key present and makes the store call heapq.Remove(pos)
	interior bool // ... at an offset that is neither the root nor the last slot
	trigger  bool // ... where the element of the last slot is older than the parent of pos: the F2 trigger
	broken   bool // after the call some heap element is older than its parent
}

func heapBroken(heap []cache.VerifLRUEntry[int]) bool {
	for i := 1; i < len(heap); i++ {
		if heap[i].LastAccess < heap[(i-1)/2].LastAccess {
			return true
		}
	}
	return false
}

func flagsBefore(c *cache.Cache[int, int], o op, limit int64, sf func(int) int64) (f stepFlags) {
	switch o.kind {
	case 'g', 'r':
	case 'p':
		sz := int64(1)
		if sf != nil {
			sz = sf(o.val)
		}
		if sz > limit {
			return
		}
	default:
		return
	}
	heap, present, _, ok := cache.VerifLRUDump(c)
	if !ok {
		return
	}
	pos, in := present[o.key]
	if !in || pos < 0 || pos >= len(heap) {
		return
	}
	f.hit = true
	n := len(heap) - 1
	if pos == 0 || pos == n {
		return
	}
	f.interior = true
	f.trigger = heap[n].LastAccess < heap[(pos-1)/2].LastAccess
	return
}

// runHistory returns the observations and, for the generator's statistics, the eviction log of
// every op and the heap flags of every op.
func runHistory(limit int64, mode string, ops []op) (obs []string, evs [][][2]int, flags []stepFlags) {
	var c *cache.Cache[int, int]
	var log [][2]int
	if p := tr.Catch(func() {
		cfg := cache.LRU[int, int]().OnEvict(func(k, v int) { log = append(log, [2]int{k, v}) })
		if sf := sizeFunc(mode); sf != nil {
			cfg = cfg.WithSize(sf)
		}
		c = cache.New(limit, cfg)
	}); p != "" {
		return []string{"NEWPANIC"}, nil, nil
	}
	sf := sizeFunc(mode)
	for _, o := range ops {
		log = nil
		var res string
		var fl stepFlags
		tr.Catch(func() { fl = flagsBefore(c, o, limit, sf) })
		p := tr.Catch(func() {
			switch o.kind {
			case 'p':
				res = tr.B(c.Put(o.key, o.val))
			case 'g':
				v, ok := c.Get(o.key)
				res = tr.B(ok) + ":" + strconv.Itoa(v)
			case 'h':
				res = tr.B(c.Has(o.key))
			case 'r':
				res = tr.B(c.Remove(o.key))
			case 'c':
				c.Clear()
				res = "."
			case 'l':
				res = strconv.Itoa(c.Len())
			case 's':
				res = strconv.FormatInt(c.Size(), 10)
			default:
				res = "?"
			}
		})
		if p != "" {
			obs = append(obs, "PANIC:"+strings.TrimPrefix(p, "panic:"))
			evs = append(evs, log)
			return
		}
		ev := "."
		if len(log) > 0 {
			es := make([]string, len(log))
			for i, e := range log {
				es[i] = fmt.Sprintf("%d:%d", e[0], e[1])
			}
			ev = strings.Join(es, ",")
		}
		var ln int
		var sz int64
		var d string
		if p := tr.Catch(func() { ln = c.Len(); sz = c.Size(); d = dump(c) }); p != "" {
			obs = append(obs, "PANIC:"+strings.TrimPrefix(p, "panic:"))
			return
		}
		obs = append(obs, fmt.Sprintf("%s/%s/%d/%d/%s", res, ev, ln, sz, d))
		evs = append(evs, log)
		tr.Catch(func() {
			if heap, _, _, ok := cache.VerifLRUDump(c); ok {
				fl.broken = heapBroken(heap)
			}
		})
		flags = append(flags, fl)
	}
	return
}

// guard is tr.Guard with a second look: when the watchdog fires, the call gets three more periods before
// it is called a hang.  On a loaded machine the whole process can be stalled for seconds; when it wakes
// up the timer has fired and the call finishes a microsecond later - one select between the two would
// pick at random (seen once in round 3: "hang" on a 42-call history while 30 other checks were running).
func guard(d time.Duration, f func()) string {
	done := make(chan string, 1)
	go func() {
		defer func() {
			if r := recover(); r != nil {
				done <- "panic:" + tr.PanicKind(r)
			}
		}()
		f()
		done <- ""
	}()
	select {
	case s := <-done:
		return s
	case <-time.After(d):
	}
	select {
	case s := <-done:
		return s
	case <-time.After(3 * d):
		return "hang"
	}
}

// The generator runs every case once for its labels; exec reuses that run's output instead of running
// the case a second time (replays and corpus lines come through exec alone).
var memoIn, memoOut string

func exec(in string) string {
	if in == memoIn && in != "" {
		return memoOut
	}
	f := strings.Fields(in)
	if len(f) >= 3 && f[0] == "B" {
		return execBig(in)
	}
	if len(f) >= 1 && f[0] == "W" {
		return execStore(in) // the cache on the harness's own Store (round5.go)
	}
	if len(f) >= 1 && f[0] == "L" {
		return execLength(in) // other instantiations, cache.Length as the size function (round5.go)
	}
	if len(f) < 3 || f[0] != "H" {
		return "?"
	}
	limit, _ := strconv.ParseInt(f[1], 10, 64)
	ops := []op(nil)
	if len(f) > 3 {
		ops = parseOps(f[3])
	}
	var out string
	if g := guard(5*time.Second, func() {
		obs, _, _ := runHistory(limit, f[2], ops)
		out = strings.Join(obs, ";")
	}); g != "" {
		return g
	}
	return out
}

// ---- a plain reference LRU, used only to label generated cases (which states were reached)

type refLRU struct {
	limit int64
	size  func(int) int64
	ents  [][2]int // least recently used first
}

func (r *refLRU) find(k int) int {
	for i, e := range r.ents {
		if e[0] == k {
			return i
		}
	}
	return -1
}
func (r *refLRU) total() (t int64) {
	for _, e := range r.ents {
		t += r.size(e[1])
	}
	return
}

// step returns the expected callback log.
func (r *refLRU) step(o op) (ev [][2]int, refused bool) {
	switch o.kind {
	case 'p':
		vs := r.size(o.val)
		if vs > r.limit {
			return nil, true
		}
		if i := r.find(o.key); i >= 0 {
			ev = append(ev, r.ents[i])
			r.ents = append(r.ents[:i:i], r.ents[i+1:]...)
		}
		for len(r.ents) > 0 && r.total()+vs > r.limit {
			ev = append(ev, r.ents[0])
			r.ents = r.ents[1:]
		}
		r.ents = append(r.ents, [2]int{o.key, o.val})
	case 'g':
		if i := r.find(o.key); i >= 0 {
			e := r.ents[i]
			r.ents = append(append(r.ents[:i:i], r.ents[i+1:]...), e)
		}
	case 'r':
		if i := r.find(o.key); i >= 0 {
			ev = append(ev, r.ents[i])
			r.ents = append(r.ents[:i:i], r.ents[i+1:]...)
		}
	case 'c':
		ev = append(ev, r.ents...)
		r.ents = nil
	}
	return
}

// ---- generator

type shape struct {
	limit  int64
	mode   string
	nkeys  int
	maxval int
	n      int
}

func genHistory(r *tr.Rand, sh shape) []op {
	ops := make([]op, 0, sh.n)
	key := func() int { return r.Intn(sh.nkeys) }
	lastRemoved := -1
	for len(ops) < sh.n {
		x := r.Intn(100)
		switch {
		case lastRemoved >= 0 && x < 25:
			// after a Remove: Get / Remove / Put, of the same or another key
			k := key()
			if r.Chance(1, 4) {
				k = lastRemoved
			}
			switch r.Intn(3) {
			case 0:
				ops = append(ops, op{kind: 'g', key: k})
			case 1:
				ops = append(ops, op{kind: 'r', key: k})
				lastRemoved = k
			default:
				ops = append(ops, op{kind: 'p', key: k, val: r.Intn(sh.maxval + 1)})
			}
		case x < 45:
			ops = append(ops, op{kind: 'p', key: key(), val: r.Intn(sh.maxval + 1)})
		case x < 65:
			ops = append(ops, op{kind: 'g', key: key()})
		case x < 80:
			k := key()
			ops = append(ops, op{kind: 'r', key: k})
			lastRemoved = k
		case x < 87:
			ops = append(ops, op{kind: 'h', key: key()})
		case x < 92:
			ops = append(ops, op{kind: 'l'})
		case x < 97:
			ops = append(ops, op{kind: 's'})
		default:
			ops = append(ops, op{kind: 'c'})
			lastRemoved = -1
		}
	}
	return ops
}

func emit(g *tr.G, limit int64, mode string, ops []op) {
	in := fmt.Sprintf("H %d %s %s", limit, mode, opsString(ops))
	// labels from a plain reference LRU run next to the real cache
	sf := sizeFunc(mode)
	if sf == nil {
		sf = func(int) int64 { return 1 }
	}
	tags := map[string]bool{}
	if limit <= 0 {
		tags["bad-limit"] = true
	} else {
		switch mode[0] {
		case 'n':
			tags["negative-sizes"] = true
		case 'b':
			tags["big-sizes-near-int64"] = true
		}
		ref := &refLRU{limit: limit, size: sf}
		var obs []string
		var evs [][][2]int
		var flags []stepFlags
		if hung := guard(5*time.Second, func() { obs, evs, flags = runHistory(limit, mode, ops) }); hung != "" {
			memoIn, memoOut = in, hung
			evs, flags = nil, nil
		} else {
			memoIn, memoOut = in, strings.Join(obs, ";")
		}
		removed := false
		for i, o := range ops {
			present := ref.find(o.key) >= 0
			isLRU := len(ref.ents) > 0 && ref.ents[0][0] == o.key
			before := ref.total()
			want, refused := ref.step(o)
			switch o.kind {
			case 'p':
				if refused {
					tags["put-refused"] = true
				} else {
					evicted := len(want)
					if present {
						evicted--
					}
					if sf(o.val) == 0 {
						tags["zero-size-put"] = true
						if before == limit {
							tags["zero-size-put-into-full-cache"] = true
						}
					}
					if sf(o.val) == limit {
						tags["put-size-equals-limit"] = true
					}
					if present {
						tags["put-replaces"] = true
						if evicted > 0 {
							tags["put-replaces-and-evicts"] = true
						}
						if isLRU {
							tags["put-replaces-the-lru-entry"] = true
							if evicted > 0 {
								tags["put-replaces-the-lru-entry-and-evicts"] = true
							}
						}
					}
					if evicted > 0 {
						tags["put-evicts"] = true
					}
					if evicted > 1 {
						tags["put-evicts-several"] = true
					}
					if evicted > 0 && len(ref.ents) == 1 {
						tags["put-evicts-everything"] = true
					}
					if ref.total() == limit {
						tags["put-fills-to-the-limit"] = true
					}
					if removed {
						tags["put-after-remove"] = true
					}
				}
			case 'g':
				if present && removed {
					tags["get-after-remove"] = true
				}
			case 'r':
				if present {
					if removed {
						tags["remove-after-remove"] = true
					}
					removed = true
				}
			case 'c':
				if len(want) > 0 {
					tags["clear-nonempty"] = true
				}
				removed = false
			}
			if i < len(flags) {
				if flags[i].interior {
					tags["hit-at-interior-heap-offset"] = true
				}
				if flags[i].trigger {
					tags["f2-trigger-fired"] = true
				}
				if flags[i].broken {
					tags["heap-order-broken"] = true
				}
			}
			if i < len(evs) && fmt.Sprint(evs[i]) != fmt.Sprint(want) && (len(evs[i]) > 0 || len(want) > 0) {
				if o.kind == 'c' {
					tags["clear-order-differs-from-lru"] = true
				} else {
					tags["victim-differs-from-lru"] = true
				}
			}
		}
	}
	var tl []string
	for t := range tags {
		tl = append(tl, t)
	}
	sort.Strings(tl)
	g.Emit(in, tags["put-after-remove"] || tags["get-after-remove"] || tags["remove-after-remove"] || tags["put-evicts"], tl...)
}

// genDisturbed aims at the states known finding F2 lives in (and any other defect of the victim
// order after the heap has been disturbed): at least six entries, then bursts of Remove/Get/
// replacing Put of keys that are probably present, alternating with bursts of Puts of fresh keys
// (each of which evicts): a wrong victim needs a removal that leaves an old entry below a younger
// parent and then enough evictions, without that entry being used, for it to become the oldest.
func genDisturbed(r *tr.Rand, sh shape) []op {
	ops := make([]op, 0, sh.n)
	next := sh.nkeys
	if int64(next) > sh.limit {
		next = int(sh.limit)
	}
	for k := 0; k < next && len(ops) < sh.n; k++ {
		ops = append(ops, op{kind: 'p', key: k, val: r.Intn(sh.maxval + 1)})
	}
	for len(ops) < sh.n {
		for d := r.Range(1, 8); d > 0 && len(ops) < sh.n; d-- {
			lo := next - int(sh.limit) - 1
			if lo < 0 {
				lo = 0
			}
			k := r.Range(lo, next-1)
			switch x := r.Intn(100); {
			case x < 40:
				ops = append(ops, op{kind: 'r', key: k})
			case x < 72:
				ops = append(ops, op{kind: 'g', key: k})
			case x < 92:
				ops = append(ops, op{kind: 'p', key: k, val: r.Intn(sh.maxval + 1)})
			case x < 96:
				ops = append(ops, op{kind: 'h', key: k})
			case x < 98:
				ops = append(ops, op{kind: 's'})
			default:
				ops = append(ops, op{kind: 'l'})
			}
		}
		for e := r.Range(1, 6); e > 0 && len(ops) < sh.n; e-- {
			ops = append(ops, op{kind: 'p', key: next, val: r.Intn(sh.maxval + 1)})
			next++
		}
	}
	return ops
}

// allHistories enumerates every history of exactly n ops over the given alphabet.
func allHistories(alpha []op, n int, f func([]op)) {
	cur := make([]op, n)
	var rec func(i int)
	rec = func(i int) {
		if i == n {
			f(append([]op(nil), cur...))
			return
		}
		for _, a := range alpha {
			cur[i] = a
			rec(i + 1)
		}
	}
	rec(0)
}

func main() {
	tr.Main("C08: random histories of Put/Get/Has/Remove/Clear/Len/Size on cache.New(limit, LRU()) with limits 1..16, key spaces 2..12, "+
		"unit sizes and sizeOf(v)=v mod k (zero-size values, values of exactly the limit, values over the limit), a quarter of the steps after a Remove "+
		"being a Get/Remove/Put (the states in which the heap has been disturbed), lengths 5..80; every history of length <= 5 (quick) / 6 (thorough) "+
		"over 2 keys at limit 1 and 2; a few histories with negative sizes and limit <= 0 (outside the property, compared with the model only). "+
		"After every call: result, callback log, Len, Size, and through the hook the heap array, the key->offset map and the clock. "+
		"Scale stream (B lines, macro operations, digests): caches of 2^k-1, 2^k, 2^k+1 entries for k = 1..12 (every size and every scenario up to 2^8+1; above, fewer lines as the "+
		"model's replay is quadratic) under unit sizes with the limit equal to the number of entries or next to MaxInt64, value-dependent sizes (refused Puts on present and absent keys, "+
		"zero-size entries, replacing Puts with larger and smaller values that evict), all-zero sizes, limit 1..2 with mostly zero-size entries, sizes v<<k filling a limit at or next to MaxInt64; "+
		"each line: fill, Gets at both ends of every heap level, one disturbance (Remove run, Remove+Put, Get run, replacing run, mix), drain by Puts / one Put / Clear / Remove-to-an-eighth and regrow; "+
		"one long history (more than 2^12 uses) on a cache of a few hundred entries. "+
		"Capacity history (round 4): a cache that held 1023, 1024, 1025 or 1500 entries (and a few smaller peaks), drained to exactly 0, 1 or 2 entries by Clear / by Removes in three orders / by one Put whose size equals the limit, "+
		"then used again as a small cache (Gets of entries that are not the newest, Remove, replacing Put, ordered drain; what the drain left is the first victim); every count 0..130 in turn (n entries, one Put with exactly n victims, n entries, Clear). "+
		"Round 5: W lines - the same kinds of histories (every history of up to 3 calls on two keys, random ones, a few on 41..300 entries) on cache.New(limit, Config.WithStore(s)) with s the harness's own list-based LRU Store "+
		"(the Config put together in four orders, on top of LRU(), with a replaced decoy store, with and without OnEvict; New without a store must panic), observing the store's entries in recency order and what leaves it; "+
		"L lines - Cache[K, V] for K in int, string, struct, float64, [2]int32, *int and V in string, []byte and named types of both, sized by cache.Length, values of v mod k bytes cut from multi-byte text. "+
		"A case is non-trivial when it evicts or performs a Put/Get/Remove after a Remove; distinct = distinct input lines.",
		exec, func(g *tr.G) {
			if g.Prop == "C09" {
				// the sequential object of the linearizability claim: a smaller random sample
				for i := 0; i < g.Scale(2000, 40000); i++ {
					sh := shape{limit: int64(g.R.Range(1, 8)), nkeys: g.R.Range(2, 6), n: g.R.Range(5, 40), mode: "u", maxval: 99}
					if g.R.Bool() {
						sh.mode = "m" + strconv.Itoa(g.R.Range(1, int(sh.limit)+2))
					}
					emit(g, sh.limit, sh.mode, genHistory(g.R, sh))
				}
				// the Store the concurrent runs hand to the cache through Config.WithStore, sequentially (W lines)
				genStore(g, true)
				return
			}
			// exhaustive small scope
			alpha := []op{{kind: 'p', key: 0, val: 1}, {kind: 'p', key: 1, val: 2}, {kind: 'p', key: 0, val: 3}, {kind: 'g', key: 0}, {kind: 'g', key: 1},
				{kind: 'r', key: 0}, {kind: 'r', key: 1}, {kind: 'h', key: 1}, {kind: 'c'}}
			for n := 0; n <= g.Scale(4, 5); n++ {
				for _, lim := range []int64{1, 2} {
					allHistories(alpha, n, func(ops []op) { emit(g, lim, "u", ops) })
				}
				if n <= g.Scale(3, 4) {
					allHistories(alpha, n, func(ops []op) { emit(g, 3, "m3", ops) })
				}
			}
			// the constructor's own check
			emit(g, 0, "u", []op{{kind: 'l'}})
			emit(g, -3, "u", nil)
			// random histories
			for i := 0; i < g.Scale(6000, 200000); i++ {
				sh := shape{limit: int64(g.R.Range(1, 16)), nkeys: g.R.Range(2, 12), n: g.R.Range(5, 80)}
				switch x := g.R.Intn(10); {
				case x < 4:
					sh.mode, sh.maxval = "u", 99
				case x < 9:
					k := g.R.Range(1, int(sh.limit)+3)
					sh.mode, sh.maxval = "m"+strconv.Itoa(k), 99
				default:
					sh.mode, sh.maxval = "n"+strconv.Itoa(g.R.Range(1, 5)), 40
				}
				if g.R.Chance(1, 3) {
					// many keys relative to the limit: constant eviction pressure
					sh.nkeys = int(sh.limit) + g.R.Range(1, 4)
				}
				emit(g, sh.limit, sh.mode, genHistory(g.R, sh))
			}
			// the disturbed-heap states: 6..16 entries, Remove/Get/replacing Put of present keys
			for i := 0; i < g.Scale(3000, 100000); i++ {
				sh := shape{limit: int64(g.R.Range(6, 16)), n: g.R.Range(12, 70), mode: "u", maxval: 99}
				sh.nkeys = int(sh.limit) + g.R.Range(0, 3)
				if g.R.Chance(1, 4) {
					// variable sizes 0..2 against a doubled limit: still many entries
					sh.mode = "m3"
					sh.limit *= 2
				}
				emit(g, sh.limit, sh.mode, genDisturbed(g.R, sh))
			}
			// sizes and limits next to the int64 range: limit <= 2^62-1, so c.size + valSize <= 2^63-2
			const maxLim = int64(1)<<62 - 1
			for i := 0; i < g.Scale(400, 8000); i++ {
				k := g.R.Range(40, 55)
				sh := shape{nkeys: g.R.Range(2, 8), n: g.R.Range(5, 40), mode: "b" + strconv.Itoa(k), maxval: 127}
				switch g.R.Intn(3) {
				case 0:
					sh.limit = maxLim
				case 1:
					sh.limit = maxLim - int64(g.R.Intn(3))
				default:
					sh.limit = int64(g.R.Range(1, 127))<<uint(k) + int64(g.R.Intn(3)) - 1
				}
				if sh.limit > maxLim {
					sh.limit = maxLim
				}
				emit(g, sh.limit, sh.mode, genHistory(g.R, sh))
			}
			// the boundary itself: two values of size 2^62-1... (63<<56 = 2^62 - 2^56; 127<<55 likewise)
			emit(g, maxLim, "b55", []op{{kind: 'p', key: 0, val: 127}, {kind: 'p', key: 1, val: 127}, {kind: 's'}, {kind: 'p', key: 2, val: 1}, {kind: 's'}, {kind: 'l'}})
			emit(g, maxLim, "b56", []op{{kind: 'p', key: 0, val: 63}, {kind: 'p', key: 1, val: 63}, {kind: 'p', key: 2, val: 63}, {kind: 's'}, {kind: 'g', key: 1}, {kind: 'p', key: 3, val: 62}, {kind: 's'}})
			// round 5: Config.WithStore with the harness's own Store (W lines); other instantiations of Cache[Key, Value]
			// with cache.Length as the size function (L lines)
			genStore(g, false)
			genLength(g)
			// big caches: 2^k-1, 2^k, 2^k+1 entries (B lines, scale.go)
			genScale(g)
		})
}
