// Round 4: state carried across calls (preludes), equalities (length sweeps with one thin side),
// conditions on values (strings with equal hashes, long strings that differ in one byte, ints
// above 2^53).
//
//	P <prelude>[/<postlude>] <any other line>
//	    Calls made BEFORE the case, in the same goroutine, their results thrown away and their
//	    panics recovered; the case that follows must behave as if they had never happened (the
//	    model ignores the prelude: its functions have no state).  The calls of <postlude> are made
//	    right AFTER the call of the case and before its result is looked at: the result must not
//	    live in storage a later call reuses.  <prelude>, <postlude>: "-" or a '+'-joined list of
//	    <fn><n>.<m>.<k>.<s>:  fn e = editScriptFunc on []int (through the hook), a = the public
//	    EditScript on []any, l = LCSFunc on []int -- all on their own data, never the case's;
//	    n, m = lengths of the two inputs;  k = the test eq panics when it is called for the k-th time
//	    (0: never, the call runs to its end; for a: the elements that make == panic -- equal dynamic
//	    types that are not comparable -- sit at positions (k-1) mod n and (k-1)/n mod m);  s = data
//	    recipe (0 all equal, 1 alternating, 2 pseudo-random over three values).
//
//	L 0 h E ... / L 0 h A ...
//	    ty h: []string through the public EditScript (==).  Code c < len(collTable) is the c-th
//	    string (byte order) of the table of pairs of DIFFERENT strings with equal 32-bit hashes
//	    (corpus/common/hash-collisions.tsv and builtinPairs below); codes 1000+2n+b (n = 1..600,
//	    b = 0,1) are strings of n bytes that differ in their LAST byte only, codes 3000+2n+b strings
//	    of n bytes that differ in their FIRST byte only; every other code c is "p<c>".  Distinct
//	    codes are distinct strings, so on codes the relation is identity (mode 0).
package main

import (
	"fmt"
	"os"
	"path/filepath"
	"runtime"
	"slices"
	"sort"
	"strconv"
	"strings"

	"github.com/creachadair/mds/slice"
	"verif/harness/internal/tr"
)

// ---------------------------------------------------------------- preludes

func preData(n, s, salt int) []int {
	out := make([]int, n)
	x := uint64(s*7919+salt)*2862933555777941757 + 3037000493
	for i := range out {
		switch s % 3 {
		case 0:
			out[i] = 7
		case 1:
			out[i] = (i + salt) % 2
		case 2:
			x = x*6364136223846793005 + 1442695040888963407
			out[i] = int((x >> 33) % 3)
		}
	}
	return out
}

type uncomparable struct{ v []int }

// postlude: calls to make right AFTER the call under test and before its result is read
// ("P <before>/<after> <line>"): a result must not live in storage that a later call reuses.
var postlude string

func afterCall() {
	if postlude != "" {
		p := postlude
		postlude = ""
		runPrelude(p)
	}
}

// setPrelude takes the field of a P line apart, makes the calls that come before the case and arms
// those that come after its call.
func setPrelude(field string) {
	before, after, _ := strings.Cut(field, "/")
	isolate()
	runPrelude(before)
	postlude = after
}

func runPrelude(spec string) {
	if spec == "" || spec == "-" {
		return
	}
	for _, one := range strings.Split(spec, "+") {
		if len(one) < 2 {
			continue
		}
		if one[0] == '@' { // armed: run from inside the case's own eq (round5.go)
			arm(one)
			continue
		}
		p := strings.Split(one[1:], ".")
		num := func(i int) int {
			if i < len(p) {
				v, _ := strconv.Atoi(p[i])
				return v
			}
			return 0
		}
		n, m, k, s := num(0), num(1), num(2), num(3)
		if n < 0 || n > 2000 || m < 0 || m > 2000 || s < 0 {
			continue
		}
		calls := 0
		eq := func(x, y int) bool {
			calls++
			if calls == k {
				panic("prelude: eq gives up")
			}
			return x == y
		}
		tr.Catch(func() {
			switch one[0] {
			case 'e':
				slice.VerifEditScriptFunc(eq, preData(n, s, 0), preData(m, s, 1))
			case 'l':
				slice.LCSFunc(preData(n, s, 0), preData(m, s, 1), eq)
			case 'a':
				as, bs := make([]any, n), make([]any, m)
				for i, v := range preData(n, s, 0) {
					as[i] = v
				}
				for i, v := range preData(m, s, 1) {
					bs[i] = v
				}
				if k > 0 && n > 0 && m > 0 {
					as[(k-1)%n] = uncomparable{[]int{1}}
					bs[(k-1)/n%m] = uncomparable{[]int{1}}
				}
				slice.EditScript(as, bs)
			}
		})
	}
}

// pickPrelude: one or two prelude calls sized against the case (la, lb = lengths of its inputs):
// as long as the case, one longer, twice as long, around 32/64, now and then much larger; eq gives up
// at the first call, in the middle, in the last row, at the very last call of the table, or never
// (a larger call that runs to its end).
func pickPrelude(r *tr.Rand, la, lb int) (string, []string) {
	base := max(la, lb, 1)
	var parts []string
	tags := []string{"prelude"}
	nBefore := r.Range(1, 2)
	nAfter := 0
	switch r.Intn(6) {
	case 0:
		nAfter = 1
	case 1:
		nBefore, nAfter = 0, r.Range(1, 2)
	}
	for c := nBefore + nAfter; c > 0; c-- {
		size := func() int {
			switch r.Intn(8) {
			case 0:
				return base
			case 1:
				return base + 1
			case 2:
				return 2*base + 1
			case 3:
				return tr.Pick(r, []int{31, 32, 33, 63, 64, 65})
			case 4:
				return min(la, lb) + 1
			case 5:
				return r.Range(1, base+3)
			case 6:
				if r.Chance(1, 6) {
					return tr.Pick(r, []int{127, 128, 129, 200, 257, 300})
				}
				return base + 2
			}
			return base + r.Intn(4)
		}
		n, m := size(), size()
		fn := "eeella"[r.Intn(6)]
		total := n * m // calls of eq while the table is filled
		k := 0
		switch r.Intn(7) {
		case 0: // never: a call that runs to its end
		case 1:
			k = 1
		case 2:
			k = total/2 + 1
		case 3:
			k = max(total-min(n, m), 1)
		case 4:
			k = max(total-1, 1)
		case 5:
			k = total + 1 // in the re-matching loops of editScriptFunc, after the table
		default:
			k = total
		}
		if k == 0 {
			tags = append(tags, "prelude-runs-to-end")
		} else {
			tags = append(tags, "prelude-eq-panics")
		}
		if max(n, m) >= 4*base && max(n, m) >= 100 {
			tags = append(tags, "prelude-much-larger")
		}
		parts = append(parts, string(fn)+strconv.Itoa(n)+"."+strconv.Itoa(m)+"."+strconv.Itoa(k)+"."+strconv.Itoa(r.Intn(3)))
	}
	before, after := "-", ""
	if nBefore > 0 {
		before = strings.Join(parts[:nBefore], "+")
	}
	if nAfter > 0 {
		after = "/" + strings.Join(parts[nBefore:], "+")
		tags = append(tags, "postlude")
	}
	return before + after, tags
}

// isolate empties every sync.Pool (two collections: the second drops the victim caches), so that
// a P line starts from the state a fresh process has, whatever the P lines before it left behind,
// and fails when replayed alone if it fails here.
func isolate() {
	runtime.GC()
	runtime.GC()
}

// One processor: a forced collection then costs a few hundred microseconds whatever else the
// machine is doing (with many, its workers wait for each other: milliseconds under load).  The
// generators are sequential anyway.
func init() { runtime.GOMAXPROCS(1) }

// genPreludes: cases of every line form behind preludes.  They come FIRST in the trace: first
// every case alone in order of size (nothing irregular has been called yet, and no call follows a
// larger one), then every case behind its prelude.  A change that does not depend on earlier
// calls fails in the first block; one that does fails in the line whose prelude causes it, not
// in some later line without a prelude (whose failing input would not fail when replayed alone).
// Early also because the heap is small then: every P line starts with two garbage collections
// (their cost grows with the heap: the thorough tier has 4 times the P lines of the quick tier,
// not 20 times).
type heldLine struct {
	prelude, line string
	ptags, tags   []string
	size, small   int // of the longer and of the shorter input
}

var held []heldLine

func flushPreludes(g *tr.G) {
	// the cases alone, in order of size: no call is preceded by a larger one ...
	// (LCSFunc sizes its rows by the SHORTER input: that one first)
	sort.SliceStable(held, func(i, j int) bool {
		if held[i].small != held[j].small {
			return held[i].small < held[j].small
		}
		return held[i].size < held[j].size
	})
	for _, h := range held {
		g.Emit(h.line, true, append([]string{"prelude-twin"}, h.tags...)...)
	}
	// ... then the largest cases behind a much larger call that runs to its end (no call so far was
	// larger than these cases: if they fail, their own prelude is the reason) ...
	var anchors []heldLine
	for k := len(held) - 1; k >= 0 && len(anchors) < 4; k-- {
		anchors = append(anchors, held[k])
	}
	for _, h := range anchors {
		n := min(4*max(h.size, 8), 300)
		h.prelude = fmt.Sprintf("l%d.%d.0.2", n, n)
		g.Emit("P "+h.prelude+" "+h.line, true, append([]string{"prelude", "prelude-runs-to-end", "prelude-much-larger", "prelude-anchor"}, h.tags...)...)
	}
	// ... then every case behind its own prelude.
	for _, h := range held {
		g.Emit("P "+h.prelude+" "+h.line, true, append(h.ptags, h.tags...)...)
	}
	held = nil
	isolate() // what the last prelude left in a pool does not reach the lines that follow
}

func genPreludes(g *tr.G) {
	emit := func(line string, la, lb int, tags ...string) {
		p, pt := pickPrelude(g.R, la, lb)
		held = append(held, heldLine{p, line, pt, tags, max(la, lb), min(la, lb)})
	}
	caps := func(i int) string {
		switch i % 3 {
		case 0:
			return " . ."
		case 1:
			return " 777,777,777 888,888,888"
		}
		return " 1 0,0"
	}
	rnd := func(n, nsym int) []int {
		out := make([]int, n)
		for i := range out {
			if i > 0 && g.R.Chance(1, 3) {
				out[i] = out[i-1]
			} else {
				out[i] = g.R.Intn(nsym)
			}
		}
		return out
	}
	derive := func(base []int, nsym int) []int {
		var out []int
		for i := 0; i < len(base); {
			switch {
			case g.R.Chance(1, 10):
				i += 1 + g.R.Intn(3)
			case g.R.Chance(1, 10):
				for k := 1 + g.R.Intn(3); k > 0; k-- {
					out = append(out, g.R.Intn(nsym))
				}
			default:
				for k := 1 + g.R.Intn(8); k > 0 && i < len(base); k-- {
					out = append(out, base[i])
					i++
				}
			}
		}
		return out
	}
	// every pair of sequences over 2 symbols to length 3 under ==
	var small [][]int
	small = append(small, nil)
	for l := 1; l <= 3; l++ {
		for v := 0; v < 1<<l; v++ {
			q := make([]int, l)
			for i := range q {
				q[i] = v >> i & 1
			}
			small = append(small, q)
		}
	}
	n := 0
	for _, l := range small {
		for _, r := range small {
			n++
			emit("E 0 "+tr.Ints(l)+" "+tr.Ints(r)+caps(n), len(l), len(r), "prelude-small")
		}
	}
	// random pairs from a common base under ==, key equivalences and the partial equivalence
	for i := 0; i < g.Scale(1400, 5000); i++ {
		mode := tr.Pick(g.R, []int{0, 0, 0, 2, 3, 102, 103, -4})
		nsym := 3
		if mode > 0 {
			nsym = 6
		}
		base := rnd(g.R.Range(0, 40), nsym)
		l, r := derive(base, nsym), derive(base, nsym)
		emit("E "+strconv.Itoa(mode)+" "+tr.Ints(l)+" "+tr.Ints(r)+caps(i), len(l), len(r), "prelude-random")
	}
	// both arguments views of one array
	for i := 0; i < g.Scale(400, 1200); i++ {
		n := g.R.Range(1, 30)
		arr := rnd(n, 3)
		a := g.R.Intn(n + 1)
		b := g.R.Range(a, n)
		c := a
		if g.R.Bool() {
			c = g.R.Intn(n + 1)
		}
		d := g.R.Range(c, n)
		emit(fmt.Sprintf("A 0 %s %d %d %d %d %d", tr.Ints(arr), a, b, c, d, i%2), b-a, d-c, "prelude-aliased")
	}
	// typed lines (the script is re-read after the arrays were overwritten)
	type tm struct {
		mode int
		ty   string
		nsym int
	}
	typed := []tm{{-5, "f", 5}, {102, "s", 6}, {2, "t", 6}, {0, "i", 3}, {0, "h", 6}, {103, "t", 6}}
	for i := 0; i < g.Scale(600, 2000); i++ {
		m := typed[i%len(typed)]
		base := rnd(g.R.Range(0, 30), m.nsym)
		l, r := derive(base, m.nsym), derive(base, m.nsym)
		emit(fmt.Sprintf("L %d %s E %s %s%s", m.mode, m.ty, tr.Ints(l), tr.Ints(r), caps(i)), len(l), len(r), "prelude-typed")
	}
	flushPreludes(g)
}

// ---------------------------------------------------------------- strings with equal hashes

// builtinPairs: a copy of corpus/common/hash-collisions.tsv (so that the codes are the same
// wherever the harness runs) plus pairs for hashes that table does not have (64-bit FNV-1a cut or
// folded to 32 bits, h*33+c, h*33^c, sdbm, CRC-32 IEEE on letters, CRC-32C, Adler-32) and strings a
// lax comparison takes for equal ("" and NUL, composed / decomposed e-acute, K / Kelvin sign, a
// trailing blank, a common 40-byte prefix).
var builtinPairs = [][2]string{
	// corpus/common/hash-collisions.tsv
	{"line 0335786", "line 1074240"}, {"line 0335787", "line 1074241"},
	{"line 0112789", "line 0349192"}, {"line 0112788", "line 0349193"},
	{"--tag=2daa2057", "--tag=3b323a2d"}, {"--tag=bf22885e", "--tag=bc7ff02d"},
	{"--tag=ed88ee72", "--tag=0b90e457"}, {"--tag=4a9d0d2c", "--tag=067899bd"},
	{"--tag=8755d764", "--tag=4170cb18"}, {"--tag=b4538002", "--tag=ac67906e"},
	{"--tag=0cb1f505", "--tag=912208a7"}, {"--tag=0ed8f52b", "--tag=934908cd"},
	{"--tag=57c7e8dd", "--tag=ae345e04"}, {"--tag=68fea7eb", "--tag=bf6b1d12"},
	{"k0695b", "k418c8"}, {"k0695c", "k418c9"}, {"k278eb", "k64938"}, {"k278ec", "k64939"},
	{"aca", "bab"}, {"bca", "cab"}, {"cca", "dab"},
	{"liquid", "costarring"}, {"declinate", "macallums"}, {"altarage", "zinke"},
	{"\tx[462789] = y", "\tx[679192] = y"},
	{"Aa", "BB"}, {"AaAa", "BBBB"}, {"AaBB", "BBAa"},
	// own additions
	{"line 0150729", "line 1396742"}, {"line 0031719", "line 0066101"},
	{"kzvdiaib", "edsgrvyp"}, {"ab", "bA"}, {"line 1785094", "line 2805900"},
	{"qknflzog", "ubgsxddw"}, {"onaqttns", "vqiclser"}, {"line 1371838", "line 2000402"}, {"bdb", "cbc"},
	{"", "\x00"}, {"\u00e9", "e\u0301"}, {"K", "\u212a"}, {"x", "x "},
	{"0123456789012345678901234567890123456789a", "0123456789012345678901234567890123456789b"},
}

// sharedPairs reads corpus/common/hash-collisions.tsv (hash, string a, string b; Go-quoted) next
// to the executable's work/bin, under $VERIF_ROOT, or above the working directory; nil when it is
// not found.
func sharedPairs() [][2]string {
	const rel = "corpus/common/hash-collisions.tsv"
	var roots []string
	if v := os.Getenv("VERIF_ROOT"); v != "" {
		roots = append(roots, v)
	}
	if exe, err := os.Executable(); err == nil {
		roots = append(roots, filepath.Dir(filepath.Dir(filepath.Dir(exe))))
	}
	if wd, err := os.Getwd(); err == nil {
		for d := wd; ; d = filepath.Dir(d) {
			roots = append(roots, d)
			if d == filepath.Dir(d) {
				break
			}
		}
	}
	for _, root := range roots {
		data, err := os.ReadFile(filepath.Join(root, rel))
		if err != nil {
			continue
		}
		var out [][2]string
		for _, l := range strings.Split(string(data), "\n") {
			f := strings.Split(strings.TrimRight(l, "\r"), "\t")
			if len(f) != 3 || strings.HasPrefix(l, "#") {
				continue
			}
			a, e1 := strconv.Unquote(f[1])
			b, e2 := strconv.Unquote(f[2])
			if e1 == nil && e2 == nil && a != b {
				out = append(out, [2]string{a, b})
			}
		}
		return out
	}
	return nil
}

var collTable []string
var collMate []int
var collCode = map[string]int{}

func init() {
	seen := map[string]bool{}
	var pairs [][2]string
	for _, p := range append(slices.Clone(builtinPairs), sharedPairs()...) {
		if seen[p[0]] || seen[p[1]] {
			continue
		}
		seen[p[0]], seen[p[1]] = true, true
		pairs = append(pairs, p)
		collTable = append(collTable, p[0], p[1])
	}
	sort.Strings(collTable)
	for i, s := range collTable {
		collCode[s] = i
	}
	collMate = make([]int, len(collTable))
	for _, p := range pairs {
		collMate[collCode[p[0]]], collMate[collCode[p[1]]] = collCode[p[1]], collCode[p[0]]
	}
}

const (
	famLast  = 1000 // 1000+2n+b: n-1 times 'a', then 'u' or 'v'
	famFirst = 3000 // 3000+2n+b: 's' or 't', then n-1 times 'b'
	famMax   = 600
)

func hEnc(c int) string {
	switch {
	case c >= 0 && c < len(collTable):
		return strings.Clone(collTable[c])
	case c >= famLast+2 && c < famLast+2*famMax+2:
		n := (c - famLast) / 2
		return strings.Repeat("a", n-1) + string("uv"[(c-famLast)%2])
	case c >= famFirst+2 && c < famFirst+2*famMax+2:
		n := (c - famFirst) / 2
		return string("st"[(c-famFirst)%2]) + strings.Repeat("b", n-1)
	}
	return "p" + strconv.Itoa(c)
}

func hDec(s string) int {
	if c, ok := collCode[s]; ok {
		return c
	}
	n := len(s)
	if n >= 1 && n <= famMax {
		if b := strings.IndexByte("uv", s[n-1]); b >= 0 && s[:n-1] == strings.Repeat("a", n-1) {
			return famLast + 2*n + b
		}
		if b := strings.IndexByte("st", s[0]); b >= 0 && s[1:] == strings.Repeat("b", n-1) {
			return famFirst + 2*n + b
		}
	}
	if n > 1 && s[0] == 'p' {
		if c, err := strconv.Atoi(s[1:]); err == nil && hEnc(c) == s {
			return c
		}
	}
	return -888888
}

// ---------------------------------------------------------------- generators

func genRound4(g *tr.G, allSeqs func([]int, int) [][]int) {
	nE := 0
	emitL := func(mode int, ty string, l, r []int, tags ...string) {
		nE++
		var lx, rx []int
		switch nE % 3 {
		case 1:
			lx, rx = []int{777, 777, 777}, []int{888}
		case 2:
			if len(r) > 0 {
				lx = []int{r[len(r)-1]}
			}
			if len(l) > 0 {
				rx = []int{l[len(l)-1], l[0]}
			}
		}
		t := append([]string{"typed:" + ty}, tags...)
		if len(l) >= 100 || len(r) >= 100 {
			t = append(t, "long:len>=100")
		}
		in := fmt.Sprintf("L %d %s E %s %s %s %s", mode, ty, tr.Ints(l), tr.Ints(r), tr.Ints(lx), tr.Ints(rx))
		g.Emit(in, true, t...)
	}
	// ---- strings with equal hashes: every pair aligned and next to each other, alone and between
	// two other strings; every sequence over {a, mate(a), z} to length 2 (3 for a few pairs)
	nc := len(collTable)
	for c := 0; c < nc; c++ {
		d := collMate[c]
		z := (c + 7) % nc
		if z == d {
			z = (z + 1) % nc
		}
		emitL(0, "h", []int{c}, []int{d}, "colliding-pair-aligned")
		emitL(0, "h", []int{z, c, z}, []int{z, d, z}, "colliding-pair-aligned")
		emitL(0, "h", []int{c, d}, []int{d, c}, "colliding-pair-aligned")
		emitL(0, "h", []int{c, d}, []int{c}, "colliding-pair-adjacent")
		emitL(0, "h", []int{d}, []int{d, c}, "colliding-pair-adjacent")
		if c < d {
			depth := 2
			if (c/2+int(g.Seed))%8 == 0 || g.Thorough() {
				depth = 3
			}
			seqs := allSeqs([]int{c, d, z}, depth)
			for _, l := range seqs {
				for _, r := range seqs {
					emitL(0, "h", l, r, "colliding-exhaustive")
				}
			}
		}
	}
	for i := 0; i < g.Scale(1500, 30000); i++ {
		few := g.R.Range(1, 3)
		pool := make([]int, few)
		for j := range pool {
			pool[j] = g.R.Intn(nc)
		}
		n := g.R.Range(1, 30)
		l := make([]int, n)
		for j := range l {
			l[j] = pool[g.R.Intn(few)]
			if g.R.Bool() {
				l[j] = collMate[l[j]]
			}
			if j > 0 && g.R.Chance(1, 4) {
				l[j] = l[j-1]
			}
		}
		var r []int
		for _, c := range l {
			switch {
			case g.R.Chance(1, 10): // dropped
			case g.R.Chance(1, 4):
				r = append(r, collMate[c]) // the mate in the same place
			case g.R.Chance(1, 12):
				r = append(r, c, collMate[c])
			default:
				r = append(r, c)
			}
		}
		emitL(0, "h", l, r, "colliding-random")
		if i%6 == 0 { // both arguments views of one array of such strings
			a := g.R.Intn(n + 1)
			b := g.R.Range(a, n)
			c := g.R.Range(max(0, a-2), min(n, a+2))
			d := g.R.Range(c, n)
			in := fmt.Sprintf("L 0 h A %s %d %d %d %d %d", tr.Ints(l), a, b, c, d, g.R.Intn(2))
			g.Emit(in, true, "typed:h", "aliased", "colliding-random")
		}
	}
	// ---- strings of every length 1..600 that differ in their last resp. first byte only
	for n := 1; n <= famMax; n++ {
		for _, fam := range []int{famLast, famFirst} {
			c := fam + 2*n
			switch n % 3 {
			case 0:
				emitL(0, "h", []int{c}, []int{c + 1}, "long-strings-one-byte-apart")
			case 1:
				emitL(0, "h", []int{c, c + 1}, []int{c + 1, c}, "long-strings-one-byte-apart")
			default:
				emitL(0, "h", []int{c + 1, c, c}, []int{c, c + 1}, "long-strings-one-byte-apart")
			}
		}
	}
	// ---- every length 0..600 of one side against a thin other side (the table of the model is
	// len x len: only one side can be long).  Runs of one element, distinct elements, period 2.
	rep := func(v, n int) []int {
		out := make([]int, n)
		for i := range out {
			out[i] = v
		}
		return out
	}
	// Replaying a line costs about n^2 * 35 ns (the model indexes lists): 13 ms at 600.  Quick tier:
	// every form at every length to 256, at 2^k-1, 2^k, 2^k+1 and at the multiples of 64 and 100;
	// above 256 the forms take turns (each at every second or fourth length, the phase rotating with
	// the seed).  Thorough tier: every form at every length.
	seed := int(g.Seed)
	for n := 0; n <= 600; n++ {
		asc := make([]int, n)
		per := make([]int, n)
		for i := range asc {
			asc[i] = i + 2
			per[i] = i % 2
		}
		all := g.Thorough() || n <= 256 || n&(n-1) == 0 || (n+1)&n == 0 || (n-1)&(n-2) == 0 || n%64 == 0 || n%100 == 0
		turn := (n + seed) % 4
		emitL(0, "i", rep(1, n), nil, "thin-sweep")
		emitL(0, "i", nil, rep(1, n), "thin-sweep")
		if all || turn == 0 {
			emitL(0, "i", rep(1, n), []int{1}, "thin-sweep")
		}
		if all || turn == 2 {
			emitL(0, "i", []int{1}, rep(1, n), "thin-sweep")
		}
		if n > 0 && (all || turn == 1) { // one element kept: the last of n distinct ones
			emitL(0, "i", asc, []int{n + 1}, "thin-sweep")
		}
		if n > 0 && (all || turn == 3) { // ... the first
			emitL(0, "i", []int{2}, asc, "thin-sweep")
		}
		if !all && turn != (n/4)%4 {
			continue
		}
		switch (n + seed) % 4 {
		case 0:
			emitL(0, "i", asc, []int{n/2 + 2, n + 1}, "thin-sweep")
		case 1:
			emitL(0, "i", []int{0, 1, 0}, per, "thin-sweep")
		case 2:
			emitL(0, "i", []int{2, n + 1}, asc, "thin-sweep")
		default:
			emitL(102, "s", per, []int{1, 0}, "thin-sweep")
		}
	}
	// ---- ints above 2^53 that differ in the last digits only (a float64 rounds them together)
	big := []int{1 << 53, 1<<53 + 1, 1<<53 + 2, 1<<60 + 1, 1 << 60, 1<<62 - 1, 1<<62 - 2}
	for i := 0; i < g.Scale(600, 12000); i++ {
		pick := func(n int) []int {
			out := make([]int, n)
			for j := range out {
				out[j] = big[g.R.Intn(len(big))]
			}
			return out
		}
		l := pick(g.R.Range(1, 8))
		r := slices.Clone(l)
		for j := range r {
			if g.R.Chance(1, 3) {
				r[j] ^= 1 // the neighbour
			}
		}
		if g.R.Chance(1, 3) {
			r = pick(g.R.Range(1, 8))
		}
		in := "E 0 " + tr.Ints(l) + " " + tr.Ints(r) + " . ."
		g.Emit(in, true, "big-ints")
	}
}
