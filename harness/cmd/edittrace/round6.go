// Round 6: constructed LARGE cases (class 6 of ROUND6_GUIDE.md): two-sided inputs above 2^20 and
// 2^24 table cells (1100 x 2200, 4100 x 4100 elements), where a divide-and-conquer LCS, a
// prefix / suffix stripping shortcut or a row buffer of another width would take over.
//
// Such inputs are affordable only when almost all elements are different (the real code allocates
// one path node per pair of EQUAL elements: 17 million cells of different elements cost 0.1 s,
// of equal elements minutes), and random inputs of that kind have a short LCS that says little.
// The inputs are therefore CONSTRUCTED from blocks so that the LCS is known from the construction:
//
//	A          n different elements (10001, 10002, ...)
//	J, J'      blocks of different elements that occur nowhere else ("junk": 200001.., 400001..)
//
//	front      A against A ++ J                the whole shorter input matched in the FIRST half of the longer
//	back       A against J ++ A                ... in the second half
//	middle     A against A[:n/2] ++ J ++ A[n/2:]      a block inserted in / removed from the middle
//	centre     A against J ++ A ++ J'          the shorter input straddles the middle of the longer
//	split-k    A against A[:k] ++ J ++ J' ++ A[k:]    the first k elements at the very start, the others at the
//	           very end (k = 1, n/2, n-1): the best cut of a divided problem lies at k
//	alternate  A against a1 j1 a2 j2 ...       every second element of the longer input
//	tails      A ++ J against A ++ J'          a long common prefix, one Replace at the end;  heads: the mirror image
//	run        A1 ++ r*k ++ A2 against A1 ++ r*(k+1) ++ A2     a pure insertion / deletion INSIDE a run of identical
//	           elements: the common prefix and the common suffix of the two inputs, each computed on the whole
//	           inputs, OVERLAP (k = 1, 2, 5)
//	abab       A1 ++ x y x y ++ A2 against A1 ++ x y ++ A2       the same with a period of two
//	dup        A against A with one element doubled in place
//
// each in both argument orders.  They are S lines (round5.go): the record is the L line's, the line
// is judged by the property alone.  The driver decides minimality WITHOUT the quadratic table when
// the construction allows it: the script (checked to be valid) keeps k elements, so an LCS has at
// least k; and no common subsequence is longer than the number of elements the two inputs share as
// multisets (sum over the values of the smaller of the two counts).  When k reaches that bound the
// script is minimal; otherwise the table on arrays decides (it does on every line where a change to
// the package made the script longer than necessary).  Element types: ints through the public
// EditScript and strings "p<code>" (ty h) in turn.
//
// Quick tier: every shape once at 1100 x 2200 (or 1100 x 1101 where the shape fixes the difference),
// the overlapping shapes and one each of front / back / tails at 4100 x 4101 (4100 x 4100).  Thorough:
// all shapes at lengths around the square roots of 2^20, 2^21, 2^22, 2^23 and 2^24 against an input
// of the same length, one more, and twice the length, and thin-against-long pairs whose product is
// just above 2^20 and 2^24.
package main

import (
	"fmt"
	"strconv"
	"strings"

	"verif/harness/internal/tr"
)

type seg6 struct {
	lo, n int
	rep   bool
}

func rng6(lo, n int) seg6 { return seg6{lo, n, false} }
func rep6(v, n int) seg6  { return seg6{v, n, true} }

func spell6(ss []seg6) string {
	var out []string
	for _, s := range ss {
		switch {
		case s.n <= 0:
		case s.n == 1:
			out = append(out, strconv.Itoa(s.lo))
		case s.rep:
			out = append(out, strconv.Itoa(s.lo)+"*"+strconv.Itoa(s.n))
		default:
			out = append(out, strconv.Itoa(s.lo)+"~"+strconv.Itoa(s.lo+s.n-1))
		}
	}
	if len(out) == 0 {
		return "."
	}
	return strings.Join(out, ",")
}

func len6(ss []seg6) int {
	n := 0
	for _, s := range ss {
		n += max(s.n, 0)
	}
	return n
}

const (
	baseA6 = 10001
	baseJ6 = 200001
	baseK6 = 400001
)

// constructed6: the two inputs of a shape; n = the length of the block A, m = the length asked of
// the longer input (where the shape leaves it open).  ok = false when the shape does not fit.
func constructed6(shape string, n, m int) (l, r []seg6, ok bool) {
	A := func(from, to int) seg6 { return rng6(baseA6+from, to-from) } // A[from:to]
	J := func(k int) seg6 { return rng6(baseJ6, k) }
	K := func(k int) seg6 { return rng6(baseK6, k) }
	if n < 4 || m < n {
		return nil, nil, false
	}
	all := []seg6{A(0, n)}
	switch {
	case shape == "front":
		return all, []seg6{A(0, n), J(m - n)}, m > n
	case shape == "back":
		return all, []seg6{J(m - n), A(0, n)}, m > n
	case shape == "middle":
		return all, []seg6{A(0, n/2), J(m - n), A(n/2, n)}, m > n
	case shape == "centre":
		return all, []seg6{J((m - n) / 2), A(0, n), K(m - n - (m-n)/2)}, m > n+1
	case strings.HasPrefix(shape, "split-"):
		k := map[string]int{"split-1": 1, "split-half": n / 2, "split-last": n - 1}[shape]
		top, bot := m/2-k, m-m/2-(n-k)
		return all, []seg6{A(0, k), J(top), K(bot), A(k, n)}, k > 0 && top > 0 && bot > 0
	case shape == "alternate":
		for i := 0; i < n; i++ {
			r = append(r, A(i, i+1), rng6(baseJ6+i, 1))
		}
		return all, r, true
	case shape == "tails":
		k := max(m-n, 3)
		return []seg6{A(0, n-3), J(3)}, []seg6{A(0, n-3), K(k)}, true
	case shape == "heads":
		k := max(m-n, 3)
		return []seg6{J(3), A(0, n-3)}, []seg6{K(k), A(0, n-3)}, true
	case strings.HasPrefix(shape, "run-"):
		k := map[string]int{"run-1": 1, "run-2": 2, "run-5": 5}[shape]
		h := (n - k) / 2
		return []seg6{A(0, h), rep6(7, k), A(h, n-k)}, []seg6{A(0, h), rep6(7, k+1), A(h, n-k)}, k > 0
	case shape == "abab":
		h := (n - 4) / 2
		xy := []seg6{rng6(7, 2)}
		l = append(append([]seg6{A(0, h)}, xy[0], xy[0]), A(h, n-4))
		r = append([]seg6{A(0, h)}, xy[0], A(h, n-4))
		return l, r, true
	case shape == "dup":
		p := n / 3
		return all, []seg6{A(0, p), A(p-1, n)}, true
	}
	return nil, nil, false
}

var shapes6 = []string{"front", "back", "middle", "centre", "split-1", "split-half", "split-last", "alternate",
	"tails", "heads", "run-1", "run-2", "run-5", "abab", "dup"}

// fixedDiff6: shapes whose second input is as long as the first, give or take a few elements
func fixedDiff6(shape string) bool {
	return strings.HasPrefix(shape, "run-") || shape == "abab" || shape == "dup"
}

var nC6 int

func emitConstructed6(g *tr.G, shape string, n, m int, swap bool) {
	l, r, ok := constructed6(shape, n, m)
	if !ok {
		return
	}
	if swap {
		l, r = r, l
	}
	nC6++
	ty := "i"
	if nC6%3 == 0 {
		ty = "h" // strings "p<code>" through the public EditScript
	}
	lx, rx := "777,777,777", "888"
	if nC6%2 == 0 {
		lx, rx = ".", "."
	}
	la, lb := len6(l), len6(r)
	tags := []string{"typed:" + ty, "spec-only", "constructed-large", "constructed:" + shape}
	switch cells := la * lb; {
	case cells > 1<<24:
		tags = append(tags, "constructed:cells>2^24")
	case cells >= 1<<20:
		tags = append(tags, "constructed:cells>=2^20")
	}
	if modelFits(la, lb) {
		return // S lines are for inputs beyond the model
	}
	g.Emit(fmt.Sprintf("S 0 %s E %s %s %s %s", ty, spell6(l), spell6(r), lx, rx), true, tags...)
}

func genConstructed(g *tr.G) {
	seed := int(g.Seed)
	if !g.Thorough() {
		for i, sh := range shapes6 {
			swap := (i+seed)%2 == 0
			emitConstructed6(g, sh, 1100, 2200, swap)
			if sh == "front" || sh == "back" {
				emitConstructed6(g, sh, 1100, 2200, !swap)
			}
		}
		// above 2^24 cells: the overlapping shapes in both orders, one each of the others
		for i, sh := range []string{"run-1", "run-2", "abab", "dup"} {
			emitConstructed6(g, sh, 4100, 4100, (i+seed)%2 == 0)
			emitConstructed6(g, sh, 4100, 4100, (i+seed)%2 == 1)
		}
		for i, sh := range []string{"front", "back", "tails", "middle"} {
			emitConstructed6(g, sh, 4099+(i+seed)%2, 4101, (i+seed)%2 == 1)
		}
		return
	}
	// thorough: lengths around the square roots of 2^20 .. 2^24
	for ni, n := range []int{724, 725, 1023, 1024, 1025, 1100, 1448, 1449, 2047, 2048, 2049, 2896, 2897, 4095, 4096, 4097, 4100} {
		for mi, m := range []int{n, n + 1, 2 * n} {
			if n*m > 17_500_000 {
				continue
			}
			for si, sh := range shapes6 {
				if fixedDiff6(sh) && mi != 0 {
					continue
				}
				if sh == "alternate" && mi != 2 {
					continue
				}
				if n > 2100 && (ni+mi+si+seed)%2 == 0 && !fixedDiff6(sh) { // 17 million cells take 0.1 - 0.2 s a line
					continue
				}
				emitConstructed6(g, sh, n, m, false)
				emitConstructed6(g, sh, n, m, true)
			}
		}
	}
	// a thin input against a long one, the product just above 2^20 and 2^24
	for i, p := range [][2]int{{16, 65537}, {64, 16385}, {256, 4097}, {512, 2049}, {256, 65537}, {1024, 16385}, {2048, 8193}} {
		for si, sh := range []string{"front", "back", "middle", "centre", "split-1", "split-half", "split-last"} {
			emitConstructed6(g, sh, p[0], p[1], (i+si+seed)%2 == 0)
		}
	}
}
