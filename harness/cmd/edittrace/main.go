// Command edittrace drives slice.EditScript (and, through the verif hook, editScriptFunc under
// other equivalences) of the working tree and records inputs and observables, one case per line:
//
//	E <mode> <lhs> <rhs> [<lx> <rx>] | <edits> / <lhs array after> / <rhs array after>
//
// lhs, rhs: comma-separated non-negative ints, "." when empty.
// lx, rx: what the spare capacity of the two inputs holds.  The harness builds each input as a
// window into a larger array  guard,guard ++ lhs ++ lx  with len = len(lhs) and
// cap = len(lhs)+len(lx) (a three-index slice), so cap-len is exactly len(lx), down to 0.  Go
// checks slice bounds against cap, so code that slices past len would expose lx (the model is
// given lx, rx and predicts that too).  Without the two fields (older corpus lines):
// lx = 777,777,777 and rx = 888,888,888.
// mode 0: the public EditScript on []int (==).
// mode 1..99 (k): editScriptFunc with eq(a,b) = (a%k == b%k): an element is a key (v%k) with a
// payload (v/k) the equivalence ignores, so which side's element ends up in X/Y is visible.
// mode 100+k: editScriptFunc with eq(a,b) = (a/k == b/k) (classes are intervals; payload v%k).
// mode -1: editScriptFunc with the reflexive, symmetric, NOT transitive eq(a,b) = |a-b| <= 1
// mode -2: the irreflexive eq(a,b) = a < b (the re-matching loops can run off the end, which
// exercises the model's panic results).
// mode -3: the reflexive, transitive, NOT symmetric eq(a,b) = a <= b.
// mode -4: the symmetric, transitive, NOT reflexive eq(a,b) = (a == b && a != 3): a partial
// equivalence in which 3 is related to nothing, not even itself -- what == is on floats with
// NaN.  The theorems cover it, so the property is evaluated on these outputs too.
// Modes -1..-3 are outside the property's precondition: correspondence only.
//
// edits: "." for an empty script, else ';'-joined  <op>:<xoff>:<X>:<yoff>:<Y>  where op is the
// Op byte (- = + !), X and Y are the element lists ("." when empty) and xoff/yoff say where the
// slice aliases the input and how far it may be re-extended: "<i>/<c>" with i the index such that
// &lhs[i] == &X[0] (resp. rhs, Y) and c = cap(X); "-" for an empty slice, "?" when it is not a
// sub-slice of the input at all.  A panic is "PANIC <kind>".
// After the call the two whole backing arrays (guards, input, spare capacity) are printed:
// EditScript must not modify them.
//
//	A <mode> <arr> <lo1> <hi1> <lo2> <hi2> <c> | <edits> / <arr after> / <arr after>
//
// Both arguments are views of ONE backing array (a private copy of arr): lhs = arr[lo1:hi1],
// rhs = arr[lo2:hi2] -- identical, nested, same start with different lengths (rhs := lhs[:k]),
// shifted, overlapping or disjoint.  c = 0: natural capacity (up to the end of arr); c = 1:
// cap = len (three-index slices).  The result must depend on the VALUES of the two arguments only;
// the model is given lhs, rhs and what follows each in arr as its spare capacity.
//
// L lines: typed elements (== -equal but distinguishable floats, strings, structs), long inputs with
// heavily repeated elements, the script re-read after the inputs were overwritten; see long.go.
//
// P <prelude> <line>: calls made before the case, in the same goroutine (a recovered panic inside
// eq, a larger call), which the case must not notice; see round4.go.
package main

import (
	"strconv"
	"strings"

	"github.com/creachadair/mds/slice"
	"verif/harness/internal/tr"
)

type namedInts []int

func eqFor(mode int) func(a, b int) bool {
	switch {
	case mode > 100:
		k := mode - 100
		return func(a, b int) bool { return a/k == b/k }
	case mode > 0:
		return func(a, b int) bool { return a%mode == b%mode }
	case mode == -1:
		return func(a, b int) bool { d := a - b; return d >= -1 && d <= 1 }
	case mode == -2:
		return func(a, b int) bool { return a < b }
	case mode == -3:
		return func(a, b int) bool { return a <= b }
	case mode == -4:
		return func(a, b int) bool { return a == b && a != 3 }
	}
	return func(a, b int) bool { return a == b }
}

func off(base, sub []int) string {
	if len(sub) == 0 {
		return "-"
	}
	for i := range base {
		if &base[i] == &sub[0] {
			return strconv.Itoa(i) + "/" + strconv.Itoa(cap(sub))
		}
	}
	return "?"
}

const guardL, guardR = 555, 666

// window builds  guard,guard ++ s ++ extra  and returns the whole array and the window onto s
// with capacity exactly len(s)+len(extra).
func window(s, extra []int, guard int) (arr, win []int) {
	arr = make([]int, 0, 2+len(s)+len(extra))
	arr = append(arr, guard, guard)
	arr = append(arr, s...)
	arr = append(arr, extra...)
	return arr, arr[2 : 2+len(s) : len(arr)]
}

func exec(in string) string {
	f := strings.Fields(strings.ReplaceAll(in, "_", " ")) // "_" for blanks: inputs reported by the extra steps
	// calls made before (and after) the case (round4.go)
	postlude = ""
	resetNested()
	if len(f) >= 3 && f[0] == "P" {
		setPrelude(f[1])
		f = f[2:]
	}
	if len(f) > 0 && (f[0] == "L" || f[0] == "S") { // S: the L line once more, judged by the property alone (round5.go)
		return execL(f)
	}
	var mode int
	var larr, lhs, rarr, rhs []int
	switch {
	case len(f) == 8 && f[0] == "A":
		mode, _ = strconv.Atoi(f[1])
		src := tr.UnInts(f[2])
		arr := make([]int, len(src)) // exact capacity (append may round up)
		copy(arr, src)
		var b [5]int
		for i := range b {
			b[i], _ = strconv.Atoi(f[3+i])
		}
		if !(0 <= b[0] && b[0] <= b[1] && b[1] <= len(arr) && 0 <= b[2] && b[2] <= b[3] && b[3] <= len(arr)) {
			return "?"
		}
		if b[4] == 1 {
			lhs, rhs = arr[b[0]:b[1]:b[1]], arr[b[2]:b[3]:b[3]]
		} else {
			lhs, rhs = arr[b[0]:b[1]], arr[b[2]:b[3]]
		}
		larr, rarr = arr, arr
	case (len(f) == 4 || len(f) == 6) && f[0] == "E":
		mode, _ = strconv.Atoi(f[1])
		lx, rx := []int{777, 777, 777}, []int{888, 888, 888}
		if len(f) == 6 {
			lx, rx = tr.UnInts(f[4]), tr.UnInts(f[5])
		}
		larr, lhs = window(tr.UnInts(f[2]), lx, guardL)
		rarr, rhs = window(tr.UnInts(f[3]), rx, guardR)
	default:
		return "?"
	}
	var es []slice.Edit[int]
	p := tr.Catch(func() {
		if mode == 0 && (len(lhs)+len(rhs))%2 == 1 {
			// every other line through a NAMED slice type (EditScript is generic in Slice ~[]T)
			es = slice.EditScript(namedInts(lhs), namedInts(rhs))
		} else if mode == 0 {
			es = slice.EditScript(lhs, rhs)
		} else {
			es = slice.VerifEditScriptFunc(hookEq(eqFor(mode)), lhs, rhs)
		}
	})
	if p != "" {
		return "PANIC " + strings.TrimPrefix(p, "panic:")
	}
	afterCall()
	var sb strings.Builder
	if len(es) == 0 {
		sb.WriteString(".")
	}
	for i, e := range es {
		if i > 0 {
			sb.WriteByte(';')
		}
		sb.WriteByte(byte(e.Op))
		sb.WriteString(":" + off(lhs, e.X) + ":" + tr.Ints(e.X) + ":" + off(rhs, e.Y) + ":" + tr.Ints(e.Y))
	}
	sb.WriteString(" / " + tr.Ints(larr) + " / " + tr.Ints(rarr))
	return sb.String()
}

// ---------------------------------------------------------------- generators

func allSeqs(alpha []int, maxLen int) [][]int {
	out := [][]int{nil}
	prev := [][]int{nil}
	for l := 1; l <= maxLen; l++ {
		var next [][]int
		for _, p := range prev {
			for _, a := range alpha {
				next = append(next, append(p[:len(p):len(p)], a))
			}
		}
		out = append(out, next...)
		prev = next
	}
	return out
}

// ambiguous reports whether the pair has repeated elements on a side (the alignments the
// property text is about) -- the generator's rule for "non-trivial".
func ambiguous(l, r []int, mode int) bool {
	key := func(v int) int {
		if mode > 100 {
			return v / (mode - 100)
		}
		if mode > 0 {
			return v % mode
		}
		return v
	}
	seen := map[int]bool{}
	for _, v := range l {
		if seen[key(v)] {
			return true
		}
		seen[key(v)] = true
	}
	seen = map[int]bool{}
	for _, v := range r {
		if seen[key(v)] {
			return true
		}
		seen[key(v)] = true
	}
	return false
}

func main() {
	tr.Main("C11: every pair of sequences over 2 symbols to length 6 (quick) / 8 (thorough), over 3 symbols to length 4 / 5, over 2 keys x 2 payloads under the two key equivalences (v%2, v/2) to length 3 / 4; random pairs derived from a common base by dropping, inserting and overwriting runs (long common runs), over 2-4 symbols (heavy repetition), lengths to 60 (a few to 200), under ==, under key equivalences mod 2..4 and div 2..3, and (correspondence only, outside the precondition) under a non-transitive, an irreflexive and a non-symmetric relation, where the real code can panic and the model must predict it; and under a partial equivalence (3 related to nothing, as NaN under ==), which the theorems cover. In the aliased family both arguments are windows of ONE array (identical, same start with different lengths, nested, shifted, overlapping, disjoint). Every other input is a window into a larger array with guards in front and a spare capacity of 0..3 elements behind (sentinels, or elements of the alphabet). L lines (long.go): the same through []float64 (+0 / -0 / NaN), []string (equal text in distinct storage) and []struct (key with ignored payload) with the script read again after every element of both arrays was overwritten; small scopes at every type, random medium pairs, and long inputs with more than 4096 equal position pairs per call (random binary sequences of 100-300 elements, all-equal and periodic sequences, long views of one array), their outputs bounded by digests. Round 4 (round4.go): cases of every line form once more behind preludes (P lines: a recovered panic inside eq at the first call, mid-way, in the last row, at the last call of the table or in the re-matching loops, on []int and through == on []any; a much larger call that runs to its end; postludes between the call and the reading of its script; pools emptied before each); []string of pairs with equal 32-bit hashes (FNV-1/1a, CRC-32, Adler-32, 31/33-polynomials, sdbm) aligned and adjacent, strings of every length 1..600 one byte apart; every length 0..600 of one side against a thin other side; ints above 2^53. Round 5 (round5.go): BOTH inputs long -- every L in 0..300 against L, L+1, L-1 and 2L (either order) in two of seven shapes per pair (all equal; the same distinct elements, every element twice on the longer side; exactly one common element; random; derived from a common base; one side reversed; periodic -- thorough: all seven) on ints, int16, floats with both zeros, strings with equal text, structs with ignored payload and a 40-byte comparable struct; a duplicate-free side of every length 1..100 (300) against the same sequence with ONE key twice (in place, a few places later, at either end), both argument orders, on ints, strings and pointers; two views of one array of every length 0..300 (s and s[:k] in both orders, two adjacent halves); lines above 65 x 130 elements (S) are judged by the property alone (every clause of C11 on the script as returned, the LCS table written on arrays) and are not replayed on the model; calls back into the package from inside the case's own eq (P @j:...), complete or panicking inside and recovered there; []byte, []int16, []float32, a 40-byte struct whose last byte alone tells elements apart, pointers to equal ints; one input of exactly 2^15 and 2^16-1, 2^16, 2^16+1 elements against a thin one; every other int line of the public EditScript through a named slice type. Round 6 (round6.go): constructed LARGE inputs above 2^20 and 2^24 table cells (1100 x 2200 and 4100 x 4101 elements; thorough: lengths around the square roots of 2^20 .. 2^24 against the same length, one more and twice the length, thin-against-long pairs) made of blocks of different elements so that the LCS is known from the construction -- lhs ++ junk, junk ++ lhs, a block inserted into / removed from the middle, the shorter input around the middle of the longer or split k : n-k between its two ends, every second element, long common prefix / suffix with a Replace, ONE element inserted into a run of 1, 2, 5 identical elements (common prefix and suffix overlap), x y x y against x y, one element doubled -- in both argument orders, on ints and strings; S lines: minimality decided by kept = (elements shared as multisets) where that bound is reached, by the table on arrays otherwise. Non-trivial = a side repeats an element (ambiguous alignment); distinct = distinct input lines.",
		exec, func(g *tr.G) {
			// round 4, first: cases behind preludes (round4.go; first, while the heap is small: every
			// one of them starts with two garbage collections)
			genPreludes(g)
			genNested(g) // round 5: calls made from inside the case's own eq (round5.go)
			n := 0
			// the spare capacity behind the two inputs: none at all, sentinels, or elements that
			// look like input (so that an over-long slice would not stand out by its values only)
			caps := func(l, r []int, nsym int) (lx, rx []int) {
				n++
				switch n % 4 {
				case 0:
					return nil, nil
				case 1:
					return []int{777, 777, 777}, []int{888, 888, 888}
				case 2:
					for k := g.R.Intn(4); k > 0; k-- {
						lx = append(lx, g.R.Intn(nsym))
					}
					for k := g.R.Intn(4); k > 0; k-- {
						rx = append(rx, g.R.Intn(nsym))
					}
					return lx, rx
				}
				// what the other side continues with
				if len(r) > 0 {
					lx = []int{r[len(r)-1]}
				}
				if len(l) > 0 {
					rx = []int{l[len(l)-1], l[0]}
				}
				return lx, rx
			}
			emit := func(mode int, l, r []int, nsym int, tags ...string) {
				lx, rx := caps(l, r, nsym)
				in := "E " + strconv.Itoa(mode) + " " + tr.Ints(l) + " " + tr.Ints(r) + " " + tr.Ints(lx) + " " + tr.Ints(rx)
				out := g.Emit(in, ambiguous(l, r, mode), tags...)
				if len(lx) == 0 && len(rx) == 0 {
					g.W.Count("cap=len", 1)
				}
				switch {
				case strings.HasPrefix(out, "PANIC"):
					g.W.Count("panicked", 1)
					return
				case strings.HasPrefix(out, ". /"):
					g.W.Count("empty-script", 1)
					return
				}
				eds := strings.Split(strings.SplitN(out, " / ", 2)[0], ";")
				for _, c := range []struct{ op, name string }{{"!:", "has-replace"}, {"-:", "has-drop"}, {"+:", "has-copy"}} {
					for _, e := range eds {
						if strings.HasPrefix(e, c.op) {
							g.W.Count(c.name, 1)
							break
						}
					}
				}
				longRun, emits := false, 0
				for _, e := range eds {
					if strings.HasPrefix(e, "=:") {
						emits++
						if f := strings.Split(e, ":"); len(f) > 2 && strings.Contains(f[2], ",") {
							longRun = true
						}
					}
				}
				if longRun {
					g.W.Count("emit-run>=2", 1)
				}
				if emits >= 3 {
					g.W.Count("emits>=3", 1)
				}
				if len(eds) >= 6 {
					g.W.Count("edits>=6", 1)
				}
				if !strings.HasPrefix(eds[0], "=:") {
					g.W.Count("starts-with-change", 1)
				}
				if !strings.HasPrefix(eds[len(eds)-1], "=:") {
					g.W.Count("ends-with-change", 1)
				}
			}
			// exhaustive small scopes
			s2 := allSeqs([]int{0, 1}, g.Scale(6, 8))
			for _, l := range s2 {
				for _, r := range s2 {
					emit(0, l, r, 2, "exh-2sym")
				}
			}
			s3 := allSeqs([]int{0, 1, 2}, g.Scale(4, 5))
			for _, l := range s3 {
				for _, r := range s3 {
					emit(0, l, r, 3, "exh-3sym")
				}
			}
			s4 := allSeqs([]int{0, 1, 2, 3}, g.Scale(3, 4))
			for _, l := range s4 {
				for _, r := range s4 {
					emit(2, l, r, 4, "exh-keyed-mod")
					emit(102, l, r, 4, "exh-keyed-div")
				}
			}
			// a partial equivalence (3 behaves like NaN), small exhaustive
			sp := allSeqs([]int{0, 1, 3}, g.Scale(4, 5))
			for _, l := range sp {
				for _, r := range sp {
					emit(-4, l, r, 4, "exh-partial-eq")
				}
			}
			// relations that are not equivalences, small exhaustive (correspondence only)
			sn := allSeqs([]int{0, 1, 2}, g.Scale(3, 4))
			for _, l := range sn {
				for _, r := range sn {
					emit(-1, l, r, 3, "exh-nontransitive")
					emit(-2, l, r, 3, "exh-irreflexive")
					emit(-3, l, r, 3, "exh-nonsymmetric")
				}
			}
			// both arguments views of ONE array: every pair of windows of every array over 2
			// symbols to length 4 (5), under == (the exported EditScript) and under a key
			// equivalence (editScriptFunc), natural capacity and cap = len
			kindOf := func(a, b, c, d int) string {
				switch {
				case a == c && b == d:
					return "alias-identical"
				case a == c:
					return "alias-same-start"
				case b <= c || d <= a:
					return "alias-disjoint"
				case (a <= c && d <= b) || (c <= a && b <= d):
					return "alias-nested"
				}
				return "alias-overlap"
			}
			emitA := func(mode int, arr []int, a, b, c, d, capLen int) {
				in := "A " + strconv.Itoa(mode) + " " + tr.Ints(arr) + " " + strconv.Itoa(a) + " " + strconv.Itoa(b) +
					" " + strconv.Itoa(c) + " " + strconv.Itoa(d) + " " + strconv.Itoa(capLen)
				out := g.Emit(in, ambiguous(arr[a:b], arr[c:d], mode), "aliased", kindOf(a, b, c, d))
				if strings.HasPrefix(out, ". /") {
					g.W.Count("alias-empty-script", 1)
				}
			}
			na := 0
			for _, arr := range allSeqs([]int{0, 1}, g.Scale(4, 5)) {
				for a := 0; a <= len(arr); a++ {
					for b := a; b <= len(arr); b++ {
						for c := 0; c <= len(arr); c++ {
							for d := c; d <= len(arr); d++ {
								na++
								emitA(0, arr, a, b, c, d, na%2)
							}
						}
					}
				}
			}
			for i := 0; i < g.Scale(3000, 60000); i++ {
				nsym := g.R.Range(2, 4)
				n := g.R.Range(1, 30)
				arr := make([]int, n)
				for j := range arr {
					if j > 0 && g.R.Chance(1, 3) {
						arr[j] = arr[j-1]
					} else {
						arr[j] = g.R.Intn(nsym)
					}
				}
				a := g.R.Intn(n + 1)
				b := g.R.Range(a, n)
				c, d := a, b
				switch g.R.Intn(5) {
				case 0: // same start, different length (rhs := lhs[:k] or the other way round)
					d = g.R.Range(c, n)
				case 1: // identical window
				case 2: // shifted by a little
					c = g.R.Range(max(0, a-3), min(n, a+3))
					d = g.R.Range(c, n)
				default: // anything
					c = g.R.Intn(n + 1)
					d = g.R.Range(c, n)
				}
				mode := 0
				if g.R.Chance(1, 3) {
					mode = g.R.Range(2, 3)
					for j := range arr {
						arr[j] += mode * g.R.Intn(2) // payloads
					}
				}
				emitA(mode, arr, a, b, c, d, g.R.Intn(2))
			}
			// random pairs from a common base
			derive := func(base []int, nsym int) []int {
				var out []int
				i := 0
				for i < len(base) {
					switch {
					case g.R.Chance(1, 10): // drop a run
						i += 1 + g.R.Intn(4)
					case g.R.Chance(1, 10): // insert a run
						for k := 1 + g.R.Intn(4); k > 0; k-- {
							out = append(out, g.R.Intn(nsym))
						}
					case g.R.Chance(1, 12): // overwrite a run (equal-length change in the middle)
						for k := 1 + g.R.Intn(3); k > 0 && i < len(base); k-- {
							out = append(out, g.R.Intn(nsym))
							i++
						}
					default: // keep a run
						for k := 1 + g.R.Intn(8); k > 0 && i < len(base); k-- {
							out = append(out, base[i])
							i++
						}
					}
				}
				return out
			}
			randPair := func(maxLen, nsym int) ([]int, []int) {
				n := g.R.Intn(maxLen + 1)
				base := make([]int, n)
				for i := range base {
					if i > 0 && g.R.Chance(1, 3) {
						base[i] = base[i-1] // runs of one symbol
					} else {
						base[i] = g.R.Intn(nsym)
					}
				}
				if g.R.Chance(1, 20) {
					return base, append([]int(nil), base...) // equal inputs
				}
				return derive(base, nsym), derive(base, nsym)
			}
			for i := 0; i < g.Scale(3000, 60000); i++ {
				nsym := g.R.Range(2, 4)
				l, r := randPair(g.R.Range(5, 60), nsym)
				emit(0, l, r, nsym, "random")
			}
			for i := 0; i < g.Scale(2000, 40000); i++ {
				k := g.R.Range(2, 4)
				l, r := randPair(g.R.Range(5, 50), k*3) // keys 0..k-1, payloads 0..2
				emit(k, l, r, k*3, "random-keyed-mod")
			}
			for i := 0; i < g.Scale(1000, 20000); i++ {
				k := g.R.Range(2, 3)
				l, r := randPair(g.R.Range(5, 50), k*3) // keys 0..2, payloads 0..k-1
				emit(100+k, l, r, k*3, "random-keyed-div")
			}
			for i := 0; i < g.Scale(1000, 20000); i++ {
				l, r := randPair(g.R.Range(5, 50), 4)
				emit(-4, l, r, 4, "random-partial-eq")
			}
			for i := 0; i < g.Scale(500, 10000); i++ {
				nsym := g.R.Range(3, 6)
				l, r := randPair(g.R.Range(3, 25), nsym)
				emit(-1, l, r, nsym, "random-nontransitive")
				emit(-2, l, r, nsym, "random-irreflexive")
				emit(-3, l, r, nsym, "random-nonsymmetric")
			}
			for i := 0; i < g.Scale(10, 300); i++ {
				nsym := g.R.Range(2, 5)
				l, r := randPair(200, nsym)
				emit(0, l, r, nsym, "random-long")
			}
			// typed, long and poisoned cases (long.go)
			genLong(g, allSeqs)
			// strings with equal hashes, length sweeps with one thin side, big ints (round4.go)
			genRound4(g, allSeqs)
			// round 5: two-sided sweeps, one repeated key, shared storage at every length, more element
			// types (round5.go)
			round5(g, allSeqs)
			// round 6: constructed large cases, above 2^20 and 2^24 table cells (round6.go)
			genConstructed(g)
		})
}
