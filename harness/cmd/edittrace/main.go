// Command edittrace drives slice.EditScript (and, through the verif hook, editScriptFunc under
// other equivalences) of the working tree and records inputs and observables, one case per line:
//
//	E <mode> <lhs> <rhs> | <edits> / <lhs after> / <rhs after>
//
// lhs, rhs: comma-separated non-negative ints, "." when empty.
// mode 0: the public EditScript on []int (==).
// mode k>0: editScriptFunc with eq(a,b) = (a%k == b%k): an element is a key (v%k) with a payload
// (v/k) the equivalence ignores, so which side's element ends up in X/Y is visible.
// mode -1: editScriptFunc with the reflexive, symmetric, NOT transitive eq(a,b) = |a-b| <= 1
// (outside the property's precondition: correspondence only).
// mode -2: editScriptFunc with the irreflexive eq(a,b) = a < b (outside the precondition:
// correspondence only; the re-matching loops can run off the end, which exercises the model's
// panic results).
//
// edits: "." for an empty script, else ';'-joined  <op>:<xoff>:<X>:<yoff>:<Y>  where op is the
// Op byte (- = + !), X and Y are the element lists ("." when empty) and xoff/yoff say where the
// slice aliases the input: the index i with &lhs[i] == &X[0] (resp. rhs, Y), "-" for an empty
// slice, "?" when it is not a sub-slice of the input at all.  A panic is "PANIC <kind>".
// The inputs are printed again after the call (EditScript must not modify them).
package main

import (
	"strconv"
	"strings"

	"github.com/creachadair/mds/slice"
	"verif/harness/internal/tr"
)

func eqFor(mode int) func(a, b int) bool {
	switch {
	case mode > 0:
		return func(a, b int) bool { return a%mode == b%mode }
	case mode == -1:
		return func(a, b int) bool { d := a - b; return d >= -1 && d <= 1 }
	case mode == -2:
		return func(a, b int) bool { return a < b }
	}
	return func(a, b int) bool { return a == b }
}

func off(base, sub []int) string {
	if len(sub) == 0 {
		return "-"
	}
	for i := range base {
		if &base[i] == &sub[0] {
			return strconv.Itoa(i)
		}
	}
	return "?"
}

func exec(in string) string {
	f := strings.Fields(in)
	if len(f) != 4 || f[0] != "E" {
		return "?"
	}
	mode, _ := strconv.Atoi(f[1])
	lhs, rhs := tr.UnInts(f[2]), tr.UnInts(f[3])
	// give the inputs spare capacity filled with a sentinel, so that a slice expression that
	// runs past len() shows up as a value instead of being masked
	lhs = append(make([]int, 0, len(lhs)+3), lhs...)
	rhs = append(make([]int, 0, len(rhs)+3), rhs...)
	for i := 0; i < 3; i++ {
		lhs[: cap(lhs)][len(lhs)+i] = 777
		rhs[: cap(rhs)][len(rhs)+i] = 888
	}
	var es []slice.Edit[int]
	p := tr.Catch(func() {
		if mode == 0 {
			es = slice.EditScript(lhs, rhs)
		} else {
			es = slice.VerifEditScriptFunc(eqFor(mode), lhs, rhs)
		}
	})
	if p != "" {
		return "PANIC " + strings.TrimPrefix(p, "panic:")
	}
	var sb strings.Builder
	if len(es) == 0 {
		sb.WriteString(".")
	}
	for i, e := range es {
		if i > 0 {
			sb.WriteByte(';')
		}
		sb.WriteByte(byte(e.Op))
		sb.WriteString(":" + off(lhs, e.X) + ":" + tr.Ints(e.X) + ":" + off(rhs, e.Y) + ":" + tr.Ints(e.Y))
	}
	sb.WriteString(" / " + tr.Ints(lhs) + " / " + tr.Ints(rhs))
	return sb.String()
}

// ---------------------------------------------------------------- generators

func allSeqs(alpha []int, maxLen int) [][]int {
	out := [][]int{nil}
	prev := [][]int{nil}
	for l := 1; l <= maxLen; l++ {
		var next [][]int
		for _, p := range prev {
			for _, a := range alpha {
				next = append(next, append(p[:len(p):len(p)], a))
			}
		}
		out = append(out, next...)
		prev = next
	}
	return out
}

// ambiguous reports whether the pair has repeated elements on a side (the alignments the
// property text is about) -- the generator's rule for "non-trivial".
func ambiguous(l, r []int, mode int) bool {
	key := func(v int) int {
		if mode > 0 {
			return v % mode
		}
		return v
	}
	seen := map[int]bool{}
	for _, v := range l {
		if seen[key(v)] {
			return true
		}
		seen[key(v)] = true
	}
	seen = map[int]bool{}
	for _, v := range r {
		if seen[key(v)] {
			return true
		}
		seen[key(v)] = true
	}
	return false
}

func main() {
	tr.Main("C11: every pair of sequences over 2 symbols to length 6 (quick) / 8 (thorough), over 3 symbols to length 4 / 5, over 2 keys x 2 payloads under key equivalence to length 3 / 4; random pairs derived from a common base by dropping, inserting and overwriting runs (long common runs), over 2-4 symbols (heavy repetition), lengths to 60 (a few to 200), under ==, under key equivalence mod 2..4, and (correspondence only, outside the precondition) under a non-transitive and an irreflexive relation, where the real code panics and the model must predict it. Non-trivial = a side repeats an element (ambiguous alignment); distinct = distinct input lines.",
		exec, func(g *tr.G) {
			emit := func(mode int, l, r []int, tags ...string) {
				in := "E " + strconv.Itoa(mode) + " " + tr.Ints(l) + " " + tr.Ints(r)
				out := g.Emit(in, ambiguous(l, r, mode), tags...)
				switch {
				case strings.HasPrefix(out, "PANIC"):
					g.W.Count("panicked", 1)
				case strings.HasPrefix(out, ". /"):
					g.W.Count("empty-script", 1)
				}
				if strings.Contains(out, "!:") {
					g.W.Count("has-replace", 1)
				}
			}
			// exhaustive small scopes
			s2 := allSeqs([]int{0, 1}, g.Scale(6, 8))
			for _, l := range s2 {
				for _, r := range s2 {
					emit(0, l, r, "exh-2sym")
				}
			}
			s3 := allSeqs([]int{0, 1, 2}, g.Scale(4, 5))
			for _, l := range s3 {
				for _, r := range s3 {
					emit(0, l, r, "exh-3sym")
				}
			}
			s4 := allSeqs([]int{0, 1, 2, 3}, g.Scale(3, 4))
			for _, l := range s4 {
				for _, r := range s4 {
					emit(2, l, r, "exh-keyed")
				}
			}
			// non-transitive relation, small exhaustive (correspondence only)
			sn := allSeqs([]int{0, 1, 2}, g.Scale(3, 4))
			for _, l := range sn {
				for _, r := range sn {
					emit(-1, l, r, "exh-nontransitive")
					emit(-2, l, r, "exh-irreflexive")
				}
			}
			// random pairs from a common base
			derive := func(base []int, nsym int) []int {
				var out []int
				i := 0
				for i < len(base) {
					switch {
					case g.R.Chance(1, 10): // drop a run
						i += 1 + g.R.Intn(4)
					case g.R.Chance(1, 10): // insert a run
						for k := 1 + g.R.Intn(4); k > 0; k-- {
							out = append(out, g.R.Intn(nsym))
						}
					case g.R.Chance(1, 12): // overwrite one
						out = append(out, g.R.Intn(nsym))
						i++
					default: // keep a run
						for k := 1 + g.R.Intn(8); k > 0 && i < len(base); k-- {
							out = append(out, base[i])
							i++
						}
					}
				}
				return out
			}
			randPair := func(maxLen, nsym int) ([]int, []int) {
				n := g.R.Intn(maxLen + 1)
				base := make([]int, n)
				for i := range base {
					if i > 0 && g.R.Chance(1, 3) {
						base[i] = base[i-1] // runs of one symbol
					} else {
						base[i] = g.R.Intn(nsym)
					}
				}
				if g.R.Chance(1, 20) {
					return base, append([]int(nil), base...) // equal inputs
				}
				return derive(base, nsym), derive(base, nsym)
			}
			for i := 0; i < g.Scale(3000, 60000); i++ {
				nsym := g.R.Range(2, 4)
				l, r := randPair(g.R.Range(5, 60), nsym)
				emit(0, l, r, "random")
			}
			for i := 0; i < g.Scale(2000, 40000); i++ {
				k := g.R.Range(2, 4)
				l, r := randPair(g.R.Range(5, 50), k*3) // keys 0..k-1, payloads 0..2
				emit(k, l, r, "random-keyed")
			}
			for i := 0; i < g.Scale(500, 10000); i++ {
				l, r := randPair(g.R.Range(3, 25), g.R.Range(3, 6))
				emit(-1, l, r, "random-nontransitive")
				emit(-2, l, r, "random-irreflexive")
			}
			for i := 0; i < g.Scale(10, 300); i++ {
				nsym := g.R.Range(2, 5)
				l, r := randPair(200, nsym)
				emit(0, l, r, "random-long")
			}
		})
}
