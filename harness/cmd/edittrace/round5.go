// Round 5: two-sided sweeps, one repeated key against a duplicate-free side, shared storage at every
// length, re-entrant callbacks, more element types.
//
//	S <mode> <ty> E <lhs> <rhs> <lx> <rx>
//	S <mode> <ty> A <arr> <lo1> <hi1> <lo2> <hi2> <c>
//	    The L line once more: same call, same record.  The letter tells the driver that the inputs
//	    are too long for the extracted model (lists indexed by position: a 300 x 600 table takes
//	    seconds): the line is judged by the property alone -- every clause of C11 on the script as
//	    returned, the spans re-read after the arrays were overwritten, the kept elements against an
//	    LCS table written on arrays -- and not replayed on the model.  The generators use L up to
//	    65 x 130 elements and S above.
//
//	P ...@<j>:<call>... <line>
//	    A prelude item that starts with "@<j>:" is not run before the case: it is armed, and run
//	    from INSIDE the case's own eq when that is called for the j-th time -- a nested call into the
//	    package while the outer call is running (its panics recovered inside).  The outer call must
//	    not notice (the model ignores it).  Only for lines that go through editScriptFunc with an
//	    eq of the harness (mode other than 0 on E / A / L i lines, ty t).
//
//	ty b   []byte    through the public EditScript; mode 0.  A code is the rank of the value in the
//	       table of all codes a line can hold (elements below 60, the guards, what the spare capacity
//	       holds, and all of these after the overwrite).
//	ty w   []int16   through the public EditScript; mode 0 (codes below 30000).
//	ty g   []float32 through the public EditScript; mode -5, codes as for ty f (+0, -0, NaN).
//	ty z   [] of a 40-byte comparable struct through the public EditScript (== on all fields); mode 0.
//	ty p   []*int    through the public EditScript (== is identity); mode 0: one pointer per code.
package main

import (
	"fmt"
	"math"
	"slices"
	"sort"
	"strconv"
	"strings"

	"github.com/creachadair/mds/slice"
	"verif/harness/internal/tr"
)

// ---------------------------------------------------------------- re-entrant callbacks

type armedCall struct {
	at   int
	item string
}

var armed []armedCall
var cbCalls int

func resetNested() { armed, cbCalls = nil, 0 }

func arm(one string) {
	j, call, ok := strings.Cut(one[1:], ":")
	at, err := strconv.Atoi(j)
	if !ok || err != nil || at < 1 {
		return
	}
	armed = append(armed, armedCall{at, call})
}

func nestedHook() {
	cbCalls++
	for _, a := range armed {
		if a.at == cbCalls {
			runPrelude(a.item)
		}
	}
}

func hookEq(eq func(a, b int) bool) func(a, b int) bool {
	if len(armed) == 0 {
		return eq
	}
	return func(a, b int) bool { nestedHook(); return eq(a, b) }
}

// ---------------------------------------------------------------- element types

// byteCodes: every code a ty b line can hold, in order; the byte is the rank.
var byteCodes = func() []int {
	var base []int
	for c := 0; c < 60; c++ {
		base = append(base, c)
	}
	base = append(base, guardL, guardR, 777, 888)
	all := slices.Clone(base)
	for _, c := range base {
		all = append(all, c+poisonL, c+poisonR)
	}
	sort.Ints(all)
	return slices.Compact(all)
}()

type wideRec struct {
	A, B, C, D int64
	E          [8]byte
}

func execL5(mode int, ty string, f []string) (string, bool) {
	switch ty {
	case "b":
		if mode != 0 || len(byteCodes) > 255 {
			return "?", true
		}
		c := lcodec[byte]{
			func(c int) byte {
				if i, ok := slices.BinarySearch(byteCodes, c); ok {
					return byte(i)
				}
				return 255
			},
			func(b byte) int {
				if int(b) < len(byteCodes) {
					return byteCodes[b]
				}
				return -888888
			}}
		return runL(c, func(l, r []byte) []slice.Edit[byte] { return slice.EditScript(l, r) }, f), true
	case "w":
		if mode != 0 {
			return "?", true
		}
		c := lcodec[int16]{func(c int) int16 { return int16(c) }, func(v int16) int { return int(v) }}
		return runL(c, func(l, r []int16) []slice.Edit[int16] { return slice.EditScript(l, r) }, f), true
	case "g":
		if mode != -5 {
			return "?", true
		}
		c := lcodec[float32]{
			func(c int) float32 {
				switch c {
				case 0:
					return 0
				case 1:
					return float32(math.Copysign(0, -1))
				case 3:
					return float32(math.NaN())
				}
				return float32(c)
			},
			func(v float32) int {
				switch {
				case v != v:
					return 3
				case v == 0 && math.Signbit(float64(v)):
					return 1
				}
				return int(v)
			}}
		return runL(c, func(l, r []float32) []slice.Edit[float32] { return slice.EditScript(l, r) }, f), true
	case "z":
		if mode != 0 {
			return "?", true
		}
		// the low byte of the code sits in the LAST byte of the 40 only
		c := lcodec[wideRec]{
			func(c int) wideRec {
				return wideRec{A: 7, B: int64(c) >> 8, C: -1, D: 0x55, E: [8]byte{1, 2, 3, 4, 5, 6, 7, byte(c)}}
			},
			func(r wideRec) int {
				c := int(r.B<<8) | int(r.E[7])
				if r.A != 7 || r.C != -1 || r.D != 0x55 || r.E != [8]byte{1, 2, 3, 4, 5, 6, 7, byte(c)} {
					return -888888
				}
				return c
			}}
		return runL(c, func(l, r []wideRec) []slice.Edit[wideRec] { return slice.EditScript(l, r) }, f), true
	case "p":
		if mode != 0 {
			return "?", true
		}
		// one pointer per code; codes 2q and 2q+1 point at equal ints (== on pointers is identity)
		reg, rev := map[int]*int{}, map[*int]int{}
		c := lcodec[*int]{
			func(c int) *int {
				if p, ok := reg[c]; ok {
					return p
				}
				v := c / 2
				reg[c], rev[&v] = &v, c
				return &v
			},
			func(p *int) int {
				if c, ok := rev[p]; ok && *p == c/2 {
					return c
				}
				return -888888
			}}
		return runL(c, func(l, r []*int) []slice.Edit[*int] { return slice.EditScript(l, r) }, f), true
	}
	return "", false
}


// unInts5: tr.UnInts with two abbreviations for long inputs: "v*n" (n times v) and "a~b" (a, a+1, .. b).
func unInts5(s string) []int {
	if !strings.ContainsAny(s, "*~") {
		return tr.UnInts(s)
	}
	var out []int
	for _, p := range strings.Split(s, ",") {
		if v, n, ok := strings.Cut(p, "*"); ok {
			x, e1 := strconv.Atoi(v)
			k, e2 := strconv.Atoi(n)
			if e1 != nil || e2 != nil || k < 0 || k > 1<<17 {
				panic("bad int " + p)
			}
			for ; k > 0; k-- {
				out = append(out, x)
			}
		} else if a, b, ok := strings.Cut(p, "~"); ok {
			x, e1 := strconv.Atoi(a)
			y, e2 := strconv.Atoi(b)
			if e1 != nil || e2 != nil || y-x > 1<<17 {
				panic("bad int " + p)
			}
			for ; x <= y; x++ {
				out = append(out, x)
			}
		} else {
			out = append(out, tr.UnInts(p)...)
		}
	}
	return out
}

// ---------------------------------------------------------------- generators

// modelFits: the sizes up to which a line is replayed on the extracted model (its cost grows with
// the cube of the length: about 10 ms at 64 x 64, 40 ms at 64 x 128).
func modelFits(la, lb int) bool { return min(la, lb) <= 65 && max(la, lb) <= 130 }

func seqFrom(lo, n int) []int {
	out := make([]int, n)
	for i := range out {
		out[i] = lo + i
	}
	return out
}

func repOf(v, n int) []int {
	out := make([]int, n)
	for i := range out {
		out[i] = v
	}
	return out
}

var nE5 int

func emit5(g *tr.G, mode int, ty string, l, r []int, tags ...string) {
	nE5++
	var lx, rx []int
	switch nE5 % 3 {
	case 1:
		lx, rx = []int{777, 777, 777}, []int{888}
	case 2: // what the other side continues with
		if len(r) > 0 {
			lx = []int{r[len(r)-1]}
		}
		if len(l) > 0 {
			rx = []int{l[len(l)-1], l[0]}
		}
	}
	kind := "S"
	if modelFits(len(l), len(r)) {
		kind = "L"
	}
	t := append([]string{"typed:" + ty}, tags...)
	if kind == "S" {
		t = append(t, "spec-only")
	}
	if len(l) >= 100 && len(r) >= 100 {
		t = append(t, "long:both-sides>=100")
	} else if len(l) >= 100 || len(r) >= 100 {
		t = append(t, "long:len>=100")
	}
	in := fmt.Sprintf("%s %d %s E %s %s %s %s", kind, mode, ty, tr.Ints(l), tr.Ints(r), tr.Ints(lx), tr.Ints(rx))
	g.Emit(in, true, t...)
}

// withClass: keys to codes of the class structure of a mode (mode k: c%k, mode 100+k: c/k, mode 0:
// the key itself), the representative chosen by side and place so that equal keys differ as codes.
func withClass(mode int, ks []int, side int) []int {
	out := make([]int, len(ks))
	for i, k := range ks {
		switch {
		case mode > 100:
			out[i] = k*(mode-100) + (i+side)%(mode-100)
		case mode > 0:
			out[i] = k + mode*((i+side)%3)
		default:
			out[i] = k
		}
	}
	return out
}

func twoSidedShape(g *tr.G, shape byte, la, lb, L, nsym int) (ka, kb []int) {
	fit := func(ks []int, n, nsym int) []int {
		for len(ks) < n {
			ks = append(ks, g.R.Intn(nsym))
		}
		return ks[:n]
	}
	mutate := func(base []int, nsym int) []int {
		var out []int
		for i := 0; i < len(base); {
			switch {
			case g.R.Chance(1, 12):
				i += 1 + g.R.Intn(3)
			case g.R.Chance(1, 12):
				for k := 1 + g.R.Intn(3); k > 0; k-- {
					out = append(out, g.R.Intn(nsym))
				}
			default:
				for k := 1 + g.R.Intn(8); k > 0 && i < len(base); k-- {
					out = append(out, base[i])
					i++
				}
			}
		}
		return out
	}
	switch shape {
	case 'q': // all equal
		return repOf(1, la), repOf(1, lb)
	case 'i': // the same distinct elements; the longer side every element twice when it is twice as long
		if lb == 2*la {
			ka = seqFrom(2, la)
			for _, k := range ka {
				kb = append(kb, k, k)
			}
			return ka, kb
		}
		if la == 2*lb {
			kb = seqFrom(2, lb)
			for _, k := range kb {
				ka = append(ka, k, k)
			}
			return ka, kb
		}
		return seqFrom(2, la), seqFrom(2, lb)
	case 'o': // distinct elements on both sides, exactly one in common
		ka, kb = seqFrom(2, la), seqFrom(1002, lb)
		if la > 0 && lb > 0 {
			pa := []int{0, la / 2, la - 1}[L%3]
			pb := []int{lb - 1, lb / 2, 0}[L/3%3]
			kb[pb] = ka[pa]
		}
		return ka, kb
	case 'b': // random over two symbols
		return fit(nil, la, 2), fit(nil, lb, 2)
	case 'd': // derived from a common base by edits
		base := fit(nil, max(la, lb), nsym)
		return fit(mutate(base, nsym), la, nsym), fit(mutate(base, nsym), lb, nsym)
	case 'v': // the same distinct elements, one side reversed
		ka, kb = seqFrom(2, la), seqFrom(2, lb)
		slices.Reverse(kb)
		return ka, kb
	}
	ka, kb = make([]int, la), make([]int, lb) // periods 2 and 3
	for i := range ka {
		ka[i] = i % 2
	}
	for i := range kb {
		kb[i] = i % 3
	}
	return ka, kb
}

// genTwoSided: BOTH inputs long.  Every L in 0..300 with the other side L, L+1, L-1 and 2L long
// (either order), in two shapes per pair (quick) or all seven (thorough), sharing elements.
func genTwoSided(g *tr.G) {
	const top = 300
	shapes := []byte{'q', 'i', 'o', 'b', 'd', 'v', 'z'}
	seed := int(g.Seed)
	for L := 0; L <= top; L++ {
		for ri, lb := range []int{L, L + 1, L - 1, 2 * L} {
			if lb < 0 || ri == 3 && L == 0 {
				continue
			}
			la := L
			if ri == 3 && (L+seed)%2 == 1 { // the longer side first
				la, lb = lb, la
			}
			rel := []string{"two-sided:L,L", "two-sided:L,L+1", "two-sided:L,L-1", "two-sided:L,2L"}[ri]
			for si, sh := range shapes {
				if !g.Thorough() && si != (L+ri+seed)%7 && si != (L+ri+seed+3)%7 {
					continue
				}
				ka, kb := twoSidedShape(g, sh, la, lb, L, 3)
				tags := []string{"two-sided", rel, "two-sided-shape-" + string(sh)}
				small := sh == 'q' || sh == 'b' || sh == 'd' || sh == 'z' // keys below 3
				switch q := (L + ri + si) % 8; {
				case q == 0: // a key equivalence with payloads (editScriptFunc): which side's element lands in X / Y
					emit5(g, 3, "i", withClass(3, mod3(ka), 0), withClass(3, mod3(kb), 1), tags...)
				case q == 1 && small:
					emit5(g, 102, "s", withClass(102, ka, 0), withClass(102, kb, 1), tags...)
				case q == 2 && small:
					emit5(g, -5, "f", floatKeys(ka), floatKeys(kb), tags...)
				case q == 3 && small:
					emit5(g, 103, "t", withClass(103, ka, 0), withClass(103, kb, 1), tags...)
				case q == 4 && max(la, lb) < 29000:
					emit5(g, 0, "w", ka, kb, tags...)
				case q == 5:
					emit5(g, 0, "z", ka, kb, tags...)
				default:
					emit5(g, 0, "i", ka, kb, tags...)
				}
			}
		}
	}
}

func mod3(ks []int) []int {
	out := make([]int, len(ks))
	for i, k := range ks {
		out[i] = k % 3
	}
	return out
}

// floatKeys: keys 0, 1, 2 as float codes: 0 -> +0 or -0 in turn (equal, distinguishable), 1 -> 2.0, 2 -> 4.0.
func floatKeys(ks []int) []int {
	out := make([]int, len(ks))
	for i, k := range ks {
		switch k {
		case 0:
			out[i] = i % 2
		default:
			out[i] = 2 * k
		}
	}
	return out
}

// genOneDoubled: a duplicate-free side of every length 1..100 (thorough: 300) against the same
// sequence with ONE key twice: in place ("k k"), a few places later, or at either end -- through
// the public EditScript on ints, strings and pointers.
func genOneDoubled(g *tr.G) {
	top := g.Scale(100, 300)
	seed := int(g.Seed)
	insert := func(ks []int, at, v int) []int {
		out := append([]int{}, ks[:at]...)
		out = append(out, v)
		return append(out, ks[at:]...)
	}
	for n := 1; n <= top; n++ {
		asc := seqFrom(2, n)
		perm := seqFrom(2, n)
		for i := n - 1; i > 0; i-- {
			j := g.R.Intn(i + 1)
			perm[i], perm[j] = perm[j], perm[i]
		}
		type variant struct {
			other []int
			tag   string
		}
		for bi, base := range [][]int{asc, perm} {
			if !g.Thorough() && bi != (n+seed)%2 {
				continue
			}
			ri := g.R.Intn(n)
			vs := []variant{
				{insert(base, 0, base[0]), "doubled-in-place"},
				{insert(base, n/2, base[n/2]), "doubled-in-place"},
				{insert(base, n, base[n-1]), "doubled-in-place"},
				{insert(base, ri, base[ri]), "doubled-in-place"},
				{insert(base, min(n, n/3+1+1+n%3), base[n/3]), "doubled-a-few-places-later"},
				{insert(base, 0, base[n-1]), "doubled-at-the-front"},
				{insert(base, n, base[0]), "doubled-at-the-end"},
				{insert(base, 0, base[n/2]), "doubled-at-the-front"},
			}
			for vi, v := range vs {
				if !g.Thorough() && vi != 3 && vi != 4 && vi != (n+seed)%3 && vi != 5+(n+seed)%3 {
					continue
				}
				ty := "i"
				switch (n + vi) % 5 {
				case 1:
					ty = "h" // strings "p<c>"
				case 3:
					ty = "p"
				}
				tags := []string{"one-doubled", v.tag}
				if n >= 16 {
					tags = append(tags, "one-doubled:distinct-side>=16")
				}
				l, r := base, v.other
				if ty == "h" { // codes of plain strings: beyond the table and the two long-string families
					l, r = shift(l, 5000), shift(r, 5000)
				}
				if (n+vi+bi)%2 == 0 || g.Thorough() {
					emit5(g, 0, ty, l, r, tags...)
				}
				if (n+vi+bi)%2 == 1 || g.Thorough() {
					emit5(g, 0, ty, r, l, tags...)
				}
			}
		}
	}
}

func shift(ks []int, by int) []int {
	out := make([]int, len(ks))
	for i, k := range ks {
		out[i] = k + by
	}
	return out
}

// genSharedSweep: both arguments views of ONE array of every length 0..300: f(s, s[:k]), f(s[:k], s)
// (with natural capacity the shorter view's spare capacity IS the rest of the longer one), and two
// adjacent halves (the first one's spare capacity is the second).
func genSharedSweep(g *tr.G) {
	seed := int(g.Seed)
	for L := 0; L <= 300; L++ {
		arr := make([]int, L)
		for j := range arr {
			arr[j] = g.R.Intn(3)
			if L%2 == 0 {
				arr[j] = j + 2 // distinct
			}
		}
		ks := []int{0, 1, L / 2, L - 1, L}
		for vi := 0; vi < 3; vi++ {
			k := ks[(L+vi+seed)%len(ks)]
			if k < 0 || k > L {
				continue
			}
			if !g.Thorough() && vi != (L+seed)%3 && L != 64 && L != 65 && L != 128 {
				continue
			}
			a, b, c, d := 0, L, 0, k
			switch vi {
			case 1:
				a, b, c, d = 0, k, 0, L
			case 2:
				a, b, c, d = 0, k, k, L
			}
			kind := "S"
			if modelFits(b-a, d-c) {
				kind = "L"
			}
			mode, ty, src := 0, "i", arr
			if L%2 == 1 && L%4 == 1 {
				mode, ty, src = 102, "s", withClass(102, arr, 0)
			}
			in := fmt.Sprintf("%s %d %s A %s %d %d %d %d %d", kind, mode, ty, tr.Ints(src), a, b, c, d, (L+vi)%2)
			tags := []string{"typed:" + ty, "aliased", "shared-sweep"}
			if kind == "S" {
				tags = append(tags, "spec-only")
			}
			g.Emit(in, true, tags...)
		}
	}
}

// genNested: the case's own eq calls back into the package (a complete call, or one whose eq
// panics and is recovered) while the outer call is running.  Called right after genPreludes: these
// are P lines too (two collections each, cheap while the heap is small).
func genNested(g *tr.G) {
	rnd := func(n, nsym int) []int {
		out := make([]int, n)
		for i := range out {
			if i > 0 && g.R.Chance(1, 3) {
				out[i] = out[i-1]
			} else {
				out[i] = g.R.Intn(nsym)
			}
		}
		return out
	}
	derive := func(base []int, nsym int) []int {
		var out []int
		for i := 0; i < len(base); {
			switch {
			case g.R.Chance(1, 10):
				i += 1 + g.R.Intn(3)
			case g.R.Chance(1, 10):
				out = append(out, g.R.Intn(nsym))
			default:
				for k := 1 + g.R.Intn(8); k > 0 && i < len(base); k-- {
					out = append(out, base[i])
					i++
				}
			}
		}
		return out
	}
	for i := 0; i < g.Scale(400, 4000); i++ {
		n := g.R.Range(1, 30)
		if i%20 == 0 {
			n = tr.Pick(g.R, []int{31, 32, 33, 63, 64, 65})
		}
		base := rnd(n, 6)
		l, r := derive(base, 6), derive(base, 6)
		if len(l) == 0 || len(r) == 0 {
			l, r = []int{0, 1}, []int{1, 0, 1}
		}
		var line string
		switch i % 4 {
		case 0:
			line = fmt.Sprintf("L 2 t E %s %s . .", tr.Ints(l), tr.Ints(r))
		case 1:
			line = fmt.Sprintf("L %d i E %s %s 777,777,777 888", tr.Pick(g.R, []int{2, 3, 102, 103, -4}), tr.Ints(l), tr.Ints(r))
		default:
			line = fmt.Sprintf("E %d %s %s . .", tr.Pick(g.R, []int{2, 3, 102, 103, -4}), tr.Ints(l), tr.Ints(r))
		}
		la, lb := len(l), len(r)
		total := la * lb
		at := []int{1, 2, total/2 + 1, max(total-min(la, lb), 1), total, total + 1}[g.R.Intn(6)]
		size := func(base int) int {
			switch g.R.Intn(5) {
			case 0:
				return base
			case 1:
				return base + 1
			case 2:
				return max(base/2, 1)
			case 3:
				return 2*base + 1
			}
			return g.R.Range(1, base+3)
		}
		nn, mm := size(la), size(lb)
		fn := "eeella"[g.R.Intn(6)]
		tot := nn * mm
		k := []int{0, 0, 1, tot/2 + 1, tot, tot + 1}[g.R.Intn(6)]
		item := fmt.Sprintf("@%d:%c%d.%d.%d.%d", at, fn, nn, mm, k, g.R.Intn(3))
		tags := []string{"nested-call"}
		if k == 0 {
			tags = append(tags, "nested-call-runs-to-end")
		} else {
			tags = append(tags, "nested-call-panics-inside")
		}
		g.Emit(line, true, "nested-twin") // the case alone first: what fails without the nested call is reported without it
		g.Emit("P "+item+" "+line, true, tags...)
	}
	isolate()
}

// genTyped5: small scopes and random pairs at the element types of round 5.
func genTyped5(g *tr.G, allSeqs func([]int, int) [][]int) {
	n5 := 0
	emit := func(mode int, ty string, l, r []int, tags ...string) {
		n5++
		var lx, rx []int
		switch n5 % 3 {
		case 1:
			lx, rx = []int{777, 777, 777}, []int{888}
		case 2:
			if len(r) > 0 {
				lx = []int{r[len(r)-1]}
			}
			if len(l) > 0 {
				rx = []int{l[len(l)-1], l[0]}
			}
		}
		in := fmt.Sprintf("L %d %s E %s %s %s %s", mode, ty, tr.Ints(l), tr.Ints(r), tr.Ints(lx), tr.Ints(rx))
		g.Emit(in, true, append([]string{"typed:" + ty}, tags...)...)
	}
	s3 := allSeqs([]int{0, 1, 2}, g.Scale(3, 4))
	for _, l := range s3 {
		for _, r := range s3 {
			emit(0, "b", l, r, "exh-typed5")
			emit(0, "w", l, r, "exh-typed5")
			emit(0, "z", l, r, "exh-typed5")
			emit(0, "p", l, r, "exh-typed5")
		}
	}
	for _, l := range allSeqs([]int{0, 1, 3, 2}, g.Scale(3, 4)) { // +0, -0, NaN, 2.0
		for _, r := range allSeqs([]int{0, 1, 3, 2}, g.Scale(3, 4)) {
			emit(-5, "g", l, r, "exh-float32-signed-zero-nan")
		}
	}
	type tm struct {
		mode int
		ty   string
		nsym int
	}
	typed := []tm{{0, "b", 5}, {0, "w", 5}, {-5, "g", 5}, {0, "z", 4}, {0, "p", 4}}
	for i := 0; i < g.Scale(1000, 20000); i++ {
		m := typed[i%len(typed)]
		n := g.R.Range(0, 40)
		if i%25 < 5 {
			n = tr.Pick(g.R, []int{63, 64, 65, 100})
		}
		base := make([]int, n)
		for j := range base {
			if j > 0 && g.R.Chance(1, 3) {
				base[j] = base[j-1]
			} else {
				base[j] = g.R.Intn(m.nsym)
			}
		}
		mut := func() []int {
			var out []int
			for i := 0; i < len(base); {
				switch {
				case g.R.Chance(1, 12):
					i += 1 + g.R.Intn(3)
				case g.R.Chance(1, 12):
					out = append(out, g.R.Intn(m.nsym))
				default:
					for k := 1 + g.R.Intn(8); k > 0 && i < len(base); k-- {
						out = append(out, base[i])
						i++
					}
				}
			}
			return out
		}
		l, r := mut(), mut()
		if m.ty == "g" && g.R.Bool() {
			for j := range r {
				if r[j] <= 1 && g.R.Bool() {
					r[j] ^= 1
				}
			}
		}
		emit(m.mode, m.ty, l, r, "typed5-random")
		if i%5 == 0 && len(base) > 0 {
			n := len(base)
			a := g.R.Intn(n + 1)
			b := g.R.Range(a, n)
			c := g.R.Range(max(0, a-3), min(n, a+3))
			if g.R.Chance(1, 3) {
				c = a
			}
			d := g.R.Range(c, n)
			in := fmt.Sprintf("L %d %s A %s %d %d %d %d %d", m.mode, m.ty, tr.Ints(base), a, b, c, d, g.R.Intn(2))
			g.Emit(in, true, "typed:"+m.ty, "aliased", "typed5-random")
		}
	}
}

// genThinLong: one input of exactly 2^15 and 2^16 - 1 .. 2^16 + 1 elements (thorough: 2^15 +- 1 too)
// against a thin one: all equal, distinct with the LAST / the first and the last element in common,
// nothing in common; both argument orders.  S lines with abbreviated lists ("7*65536", "1~65536":
// the harness and the driver expand them).
func genThinLong(g *tr.G) {
	for _, n := range []int{1<<15 - 1, 1 << 15, 1<<15 + 1, 1<<16 - 1, 1 << 16, 1<<16 + 1} {
		if !g.Thorough() && n < 1<<16-1 && n != 1<<15 {
			continue
		}
		N := strconv.Itoa(n)
		type pair struct{ long, thin string }
		pairs := []pair{
			{"7*" + N, "7,7,7"},
			{"1~" + N, N},
			{"1~" + N, "1," + N},
			{"1~" + N, strconv.Itoa(n + 5)},
			{"7*" + strconv.Itoa(n-1) + ",9", "9"},
		}
		for pi, p := range pairs {
			a, b := p.long, p.thin
			if (pi+n)%2 == 1 {
				a, b = b, a
			}
			g.Emit("S 0 i E "+a+" "+b+" . 888", true, "typed:i", "thin-long", "spec-only", "long:len>=2^15")
			if g.Thorough() {
				g.Emit("S 0 i E "+b+" "+a+" 777 .", true, "typed:i", "thin-long", "spec-only", "long:len>=2^15")
			}
		}
	}
}

func round5(g *tr.G, allSeqs func([]int, int) [][]int) {
	genThinLong(g)
	genTwoSided(g)
	genOneDoubled(g)
	genSharedSweep(g)
	genTyped5(g, allSeqs)
}
