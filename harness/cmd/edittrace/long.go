// L lines: typed, long and poisoned cases.
//
//	L <mode> <ty> E <lhs> <rhs> <lx> <rx>
//	L <mode> <ty> A <arr> <lo1> <hi1> <lo2> <hi2> <c>
//
// The two forms are those of the E and A lines (two windows with guards and spare capacity; two
// views of ONE array).  The trace speaks about CODES (non-negative ints); ty says which element
// type the harness maps them to before it calls the package, and mode which relation on codes the
// Go-level comparison then amounts to:
//
//	ty i   []int; mode as in the E lines (0: the public EditScript, else editScriptFunc under eqFor(mode))
//	ty f   []float64 through the public EditScript (==); mode must be -5.  Code 0 is +0.0, 1 is -0.0
//	       (equal under ==, told apart by the sign bit), 3 is NaN (equal to nothing), any other c is
//	       float64(c).  On codes: a ~ b iff neither is 3 and (a = b or both are <= 1).
//	ty s   []string through the public EditScript (==); mode must be 102.  Code c is a freshly
//	       allocated string with the text "k<c/2>": codes 2q and 2q+1 are equal under == and told
//	       apart by the address of their bytes.  On codes: a/2 = b/2.
//	ty h   []string through the public EditScript (==); mode must be 0.  Codes are strings with equal
//	       32-bit hashes and long strings one byte apart (round4.go); distinct codes, distinct strings.
//	ty t   []struct{K int32; P string; B [3]byte} through editScriptFunc with eq = (a.K == b.K), K the
//	       class of the code under eqFor(mode) (mode 1..99: c%mode, 101..: c/(mode-100)), P the code.
//
// After the call the script is read, then EVERY element of the two backing arrays is overwritten
// (code+500 in the lhs array, code+700 in the rhs array; +500 only when both are one array) and the
// script is read again: X and Y are documented to share storage with the inputs, so they must now
// show the new contents of the very spans they stand for.  The output is bounded:
//
//	<edits> / seq(all X) / seq(all Y) / seq(lhs array) / seq(rhs array) / seq(all X, re-read) / seq(all Y, re-read)
//
//	edits   "." or ';'-joined  <op>:<xoff>/<xcap>:<xlen>:<yoff>/<ycap>:<ylen>   ("-" for an empty slice,
//	        "?" when it does not point into its input: offsets by pointer arithmetic)
//	seq     <count>:<FNV-1a 64 of the comma-separated decimal codes, "." when empty>:<codes at 0,1,2,
//	        count/2-1..count/2+1, count-3..count-1>
package main

import (
	"fmt"
	"math"
	"slices"
	"sort"
	"strconv"
	"strings"
	"unsafe"

	"github.com/creachadair/mds/slice"
	"verif/harness/internal/tr"
)

func fnvInts(xs []int) uint64 {
	h := uint64(0xcbf29ce484222325)
	put := func(b byte) { h ^= uint64(b); h *= 0x100000001b3 }
	if len(xs) == 0 {
		put('.')
		return h
	}
	var buf [24]byte
	for i, x := range xs {
		if i > 0 {
			put(',')
		}
		for _, b := range strconv.AppendInt(buf[:0], int64(x), 10) {
			put(b)
		}
	}
	return h
}

func seq(xs []int) string {
	n := len(xs)
	var ix []int
	for _, c := range []int{0, 1, 2, n/2 - 1, n / 2, n/2 + 1, n - 3, n - 2, n - 1} {
		if c >= 0 && c < n {
			ix = append(ix, c)
		}
	}
	sort.Ints(ix)
	ix = slices.Compact(ix)
	w := make([]int, len(ix))
	for i, j := range ix {
		w[i] = xs[j]
	}
	return fmt.Sprintf("%d:%x:%s", n, fnvInts(xs), tr.Ints(w))
}

const poisonL, poisonR = 500, 700

type lcodec[T any] struct {
	enc func(int) T
	dec func(T) int
}

type lrec struct {
	K int32
	P string
	B [3]byte
}

var strReg = map[*byte]int{}

func classOf(mode, c int) int {
	switch {
	case mode > 100:
		return c / (mode - 100)
	case mode > 0:
		return c % mode
	}
	return c
}

// eqCodes is the relation on codes a typed mode amounts to.
func eqCodes(mode int) func(a, b int) bool {
	if mode == -5 {
		return func(a, b int) bool { return a != 3 && b != 3 && (a == b || (a <= 1 && b <= 1)) }
	}
	return eqFor(mode)
}

func offT[T any](base, sub []T) string {
	if len(sub) == 0 {
		return "-"
	}
	if len(base) == 0 {
		return "?"
	}
	sz := int64(unsafe.Sizeof(base[0]))
	d := int64(uintptr(unsafe.Pointer(&sub[0]))) - int64(uintptr(unsafe.Pointer(&base[0])))
	if d < 0 || d%sz != 0 || d >= sz*int64(len(base)) {
		return "?"
	}
	return strconv.FormatInt(d/sz, 10) + "/" + strconv.Itoa(cap(sub))
}

func runL[T any](c lcodec[T], call func(lhs, rhs []T) []slice.Edit[T], f []string) string {
	encAll := func(xs []int) []T {
		out := make([]T, len(xs), len(xs)) // exact capacity
		for i, x := range xs {
			out[i] = c.enc(x)
		}
		return out
	}
	var larr, lhs, rarr, rhs []T
	same := false
	switch {
	case len(f) == 8 && f[3] == "E":
		l, r, lx, rx := unInts5(f[4]), unInts5(f[5]), tr.UnInts(f[6]), tr.UnInts(f[7]) // unInts5: also "v*n", "a~b" (round5.go)
		larr = encAll(append(append([]int{guardL, guardL}, l...), lx...))
		rarr = encAll(append(append([]int{guardR, guardR}, r...), rx...))
		lhs = larr[2 : 2+len(l) : len(larr)]
		rhs = rarr[2 : 2+len(r) : len(rarr)]
	case len(f) == 10 && f[3] == "A":
		arr := encAll(tr.UnInts(f[4]))
		var b [5]int
		for i := range b {
			b[i], _ = strconv.Atoi(f[5+i])
		}
		if !(0 <= b[0] && b[0] <= b[1] && b[1] <= len(arr) && 0 <= b[2] && b[2] <= b[3] && b[3] <= len(arr)) {
			return "?"
		}
		if b[4] == 1 {
			lhs, rhs = arr[b[0]:b[1]:b[1]], arr[b[2]:b[3]:b[3]]
		} else {
			lhs, rhs = arr[b[0]:b[1]], arr[b[2]:b[3]]
		}
		larr, rarr, same = arr, arr, true
	default:
		return "?"
	}
	var es []slice.Edit[T]
	if p := tr.Catch(func() { es = call(lhs, rhs) }); p != "" {
		return "PANIC " + strings.TrimPrefix(p, "panic:")
	}
	afterCall()
	decAll := func(xs []T) []int {
		out := make([]int, len(xs))
		for i, x := range xs {
			out[i] = c.dec(x)
		}
		return out
	}
	read := func() (xs, ys []int) {
		for _, e := range es {
			xs = append(xs, decAll(e.X)...)
			ys = append(ys, decAll(e.Y)...)
		}
		return
	}
	var sb strings.Builder
	if len(es) == 0 {
		sb.WriteString(".")
	}
	for i, e := range es {
		if i > 0 {
			sb.WriteByte(';')
		}
		sb.WriteByte(byte(e.Op))
		sb.WriteString(":" + offT(lhs, e.X) + ":" + strconv.Itoa(len(e.X)) + ":" + offT(rhs, e.Y) + ":" + strconv.Itoa(len(e.Y)))
	}
	xs, ys := read()
	la, ra := decAll(larr), decAll(rarr)
	// poison: the script shares storage with the inputs, so it must follow them
	for i := range larr {
		larr[i] = c.enc(la[i] + poisonL)
	}
	if !same {
		for i := range rarr {
			rarr[i] = c.enc(ra[i] + poisonR)
		}
	}
	xs2, ys2 := read()
	return sb.String() + " / " + seq(xs) + " / " + seq(ys) + " / " + seq(la) + " / " + seq(ra) + " / " + seq(xs2) + " / " + seq(ys2)
}

func execL(f []string) string {
	if len(f) < 4 {
		return "?"
	}
	mode, err := strconv.Atoi(f[1])
	if err != nil {
		return "?"
	}
	switch f[2] {
	case "i":
		c := lcodec[int]{func(c int) int { return c }, func(v int) int { return v }}
		if mode == 0 {
			return runL(c, func(l, r []int) []slice.Edit[int] { return slice.EditScript(l, r) }, f)
		}
		return runL(c, func(l, r []int) []slice.Edit[int] { return slice.VerifEditScriptFunc(hookEq(eqFor(mode)), l, r) }, f)
	case "f":
		if mode != -5 {
			return "?"
		}
		c := lcodec[float64]{
			func(c int) float64 {
				switch c {
				case 0:
					return 0
				case 1:
					return math.Copysign(0, -1)
				case 3:
					return math.NaN()
				}
				return float64(c)
			},
			func(v float64) int {
				switch {
				case math.IsNaN(v):
					return 3
				case v == 0 && math.Signbit(v):
					return 1
				}
				return int(v)
			}}
		return runL(c, func(l, r []float64) []slice.Edit[float64] { return slice.EditScript(l, r) }, f)
	case "s":
		if mode != 102 {
			return "?"
		}
		clear(strReg)
		c := lcodec[string]{
			func(c int) string {
				s := string(append([]byte(nil), "k"+strconv.Itoa(c/2)...)) // a fresh allocation per element
				strReg[unsafe.StringData(s)] = c
				return s
			},
			func(s string) int {
				if c, ok := strReg[unsafe.StringData(s)]; ok && s == "k"+strconv.Itoa(c/2) {
					return c
				}
				return -888888
			}}
		return runL(c, func(l, r []string) []slice.Edit[string] { return slice.EditScript(l, r) }, f)
	case "h":
		if mode != 0 {
			return "?"
		}
		c := lcodec[string]{hEnc, hDec}
		return runL(c, func(l, r []string) []slice.Edit[string] { return slice.EditScript(l, r) }, f)
	case "t":
		if mode <= 0 {
			return "?"
		}
		c := lcodec[lrec]{
			func(c int) lrec {
				return lrec{K: int32(classOf(mode, c)), P: strconv.Itoa(c), B: [3]byte{byte(c), byte(c >> 8), 7}}
			},
			func(r lrec) int {
				c, _ := strconv.Atoi(r.P)
				if r.K != int32(classOf(mode, c)) || r.B != [3]byte{byte(c), byte(c >> 8), 7} {
					return -888888
				}
				return c
			}}
		return runL(c, func(l, r []lrec) []slice.Edit[lrec] {
			return slice.VerifEditScriptFunc(func(a, b lrec) bool {
				if len(armed) > 0 {
					nestedHook()
				}
				return a.K == b.K
			}, l, r)
		}, f)
	}
	if out, ok := execL5(mode, f[2], f); ok { // the element types of round 5 (round5.go)
		return out
	}
	return "?"
}

// ---- generator

func genLong(g *tr.G, allSeqs func([]int, int) [][]int) {
	nE := 0
	emitL := func(mode int, ty string, l, r []int, lxrx int, tags ...string) {
		nE++
		var lx, rx []int
		switch lxrx {
		case 1:
			lx, rx = []int{777, 777, 777}, []int{888}
		case 2: // what the other side continues with
			if len(r) > 0 {
				lx = []int{r[len(r)-1]}
			}
			if len(l) > 0 {
				rx = []int{l[len(l)-1], l[0]}
			}
		}
		eq := eqCodes(mode)
		pairs := 0
		for _, a := range l {
			for _, b := range r {
				if eq(a, b) {
					pairs++
				}
			}
		}
		t := append([]string{"typed:" + ty}, tags...)
		if pairs > 4096 {
			t = append(t, "long:equal-pairs>4096")
		}
		if len(l) >= 100 || len(r) >= 100 {
			t = append(t, "long:len>=100")
		}
		in := fmt.Sprintf("L %d %s E %s %s %s %s", mode, ty, tr.Ints(l), tr.Ints(r), tr.Ints(lx), tr.Ints(rx))
		g.Emit(in, ambiguous(l, r, mode) || len(l)+len(r) > 2, t...)
	}
	emitLA := func(mode int, ty string, arr []int, a, b, c, d, capLen int, tags ...string) {
		in := fmt.Sprintf("L %d %s A %s %d %d %d %d %d", mode, ty, tr.Ints(arr), a, b, c, d, capLen)
		t := append([]string{"typed:" + ty, "aliased"}, tags...)
		if b-a >= 100 || d-c >= 100 {
			t = append(t, "long:len>=100")
		}
		g.Emit(in, true, t...)
	}
	// ---- small scopes at every type: == -equal but distinguishable elements
	for _, l := range allSeqs([]int{0, 1, 3, 2}, g.Scale(3, 4)) { // +0, -0, NaN, 2.0
		for _, r := range allSeqs([]int{0, 1, 3, 2}, g.Scale(3, 4)) {
			emitL(-5, "f", l, r, nE%3, "exh-float-signed-zero-nan")
		}
	}
	s4 := allSeqs([]int{0, 1, 2, 3}, g.Scale(3, 4))
	for _, l := range s4 {
		for _, r := range s4 {
			emitL(102, "s", l, r, nE%3, "exh-string-equal-text-distinct-storage")
			emitL(2, "t", l, r, nE%3, "exh-struct-ignored-payload")
		}
	}
	for _, l := range allSeqs([]int{0, 1}, g.Scale(4, 5)) {
		for _, r := range allSeqs([]int{0, 1}, g.Scale(4, 5)) {
			emitL(0, "i", l, r, nE%3, "exh-poisoned")
		}
	}
	// ---- medium random, every type
	rnd := func(n, nsym int, runs bool) []int {
		out := make([]int, n)
		for i := range out {
			if runs && i > 0 && g.R.Chance(1, 3) {
				out[i] = out[i-1]
			} else {
				out[i] = g.R.Intn(nsym)
			}
		}
		return out
	}
	mutate := func(base []int, nsym int) []int {
		var out []int
		for i := 0; i < len(base); {
			switch {
			case g.R.Chance(1, 12):
				i += 1 + g.R.Intn(3)
			case g.R.Chance(1, 12):
				for k := 1 + g.R.Intn(3); k > 0; k-- {
					out = append(out, g.R.Intn(nsym))
				}
			default:
				for k := 1 + g.R.Intn(8); k > 0 && i < len(base); k-- {
					out = append(out, base[i])
					i++
				}
			}
		}
		return out
	}
	type tm struct {
		mode int
		ty   string
		nsym int
	}
	typed := []tm{{-5, "f", 5}, {102, "s", 6}, {2, "t", 6}, {3, "t", 6}, {103, "t", 6}, {0, "i", 3}, {2, "i", 4}, {-4, "i", 4}}
	for i := 0; i < g.Scale(1500, 30000); i++ {
		m := typed[i%len(typed)]
		base := rnd(g.R.Range(0, 40), m.nsym, true)
		l, r := mutate(base, m.nsym), mutate(base, m.nsym)
		if m.ty == "f" && g.R.Chance(1, 2) { // flip signs of zeros: still == -equal to the other side's
			for j := range r {
				if r[j] <= 1 && g.R.Bool() {
					r[j] ^= 1
				}
			}
		}
		if (m.ty == "s" || m.ty == "t") && g.R.Chance(1, 2) { // same classes, other representatives
			for j := range r {
				if g.R.Bool() {
					if m.ty == "s" || m.mode > 100 {
						r[j] ^= 1
					} else {
						r[j] = (r[j] + m.mode) % (2 * m.mode)
					}
				}
			}
		}
		emitL(m.mode, m.ty, l, r, i%3, "typed-random")
		if i%5 == 0 && len(base) > 0 {
			n := len(base)
			a := g.R.Intn(n + 1)
			b := g.R.Range(a, n)
			c := g.R.Range(max(0, a-3), min(n, a+3))
			if g.R.Chance(1, 3) {
				c = a // rhs := lhs[:k] or the other way round
			}
			d := g.R.Range(c, n)
			emitLA(m.mode, m.ty, base, a, b, c, d, g.R.Intn(2), "typed-random")
		}
	}
	// ---- long inputs with heavily repeated elements: more than 4096 equal position pairs in one call.
	// The model's LCS table is quadratic in time AND the extracted code slower than that: the number of
	// long cases is limited, not their size.
	rep := func(v, n int) []int {
		out := make([]int, n)
		for i := range out {
			out[i] = v
		}
		return out
	}
	period := func(p []int, n int) []int {
		out := make([]int, n)
		for i := range out {
			out[i] = p[i%len(p)]
		}
		return out
	}
	type lc struct {
		mode int
		ty   string
		l, r []int
		tag  string
	}
	var long []lc
	ln := func(lo, hi int) int { return g.R.Range(lo, hi) }
	for i := 0; i < g.Scale(8, 60); i++ { // random binary sequences, independent of each other
		long = append(long, lc{0, "i", rnd(ln(100, 140), 2, false), rnd(ln(100, 140), 2, false), "long-binary"})
	}
	for i := 0; i < g.Scale(4, 30); i++ {
		long = append(long, lc{0, "i", rnd(ln(140, 220), 2, i%2 == 0), rnd(ln(140, 220), 2, false), "long-binary"})
	}
	for i := 0; i < g.Scale(2, 12); i++ {
		long = append(long, lc{0, "i", rnd(ln(250, 300), 2, false), rnd(ln(220, 300), 2, true), "long-binary"})
	}
	// all-equal sequences, equal and different lengths, at the sizes of typical block allocators
	for _, p := range [][2]int{{150, 150}, {128, 129}, {65, 64}, {100, 41}, {290, 262}, {257, 300}} {
		long = append(long, lc{0, "i", rep(1, p[0]), rep(1, p[1]), "long-all-equal"})
	}
	a, b := ln(150, 300), ln(150, 300)
	long = append(long, lc{0, "i", rep(0, a), rep(0, b), "long-all-equal"})
	// all == -equal yet all distinguishable: zeros of both signs, strings with one text
	long = append(long, lc{-5, "f", rnd(ln(100, 160), 2, false), rnd(ln(100, 160), 2, false), "long-all-equal-signed-zeros"})
	long = append(long, lc{102, "s", rnd(ln(100, 140), 2, false), rnd(ln(100, 140), 2, false), "long-all-equal-strings"})
	long = append(long, lc{102, "s", rnd(ln(100, 140), 4, true), rnd(ln(100, 140), 4, false), "long-binary-strings"})
	long = append(long, lc{2, "t", rnd(ln(100, 140), 4, false), rnd(ln(100, 140), 4, true), "long-binary-keys-with-payload"})
	long = append(long, lc{-5, "f", rnd(ln(100, 140), 4, false), rnd(ln(100, 140), 4, false), "long-floats-with-nan"})
	// periodic, out of phase; one side a long run inside noise
	long = append(long, lc{0, "i", period([]int{0, 1}, ln(120, 200)), period([]int{1, 0}, ln(120, 200)), "long-periodic"})
	long = append(long, lc{0, "i", period([]int{0, 0, 1}, ln(120, 200)), period([]int{0, 1, 1}, ln(120, 200)), "long-periodic"})
	long = append(long, lc{0, "i", append(append(rnd(40, 3, false), rep(2, 100)...), rnd(40, 3, false)...), append(rep(2, 90), rnd(60, 3, true)...), "long-run-in-noise"})
	// derived from a common base (long common runs), few symbols
	for i := 0; i < g.Scale(4, 30); i++ {
		n := ln(120, 260)
		if i%4 == 1 { // long enough for a common subsequence of more than 256 elements
			n = ln(300, 330)
		}
		base := rnd(n, 2+i%2, true)
		long = append(long, lc{0, "i", mutate(base, 2), mutate(base, 2), "long-derived"})
	}
	for i, c := range long {
		emitL(c.mode, c.ty, c.l, c.r, i%3, c.tag)
	}
	// rhs a window of lhs's backing array, long
	for i := 0; i < g.Scale(6, 40); i++ {
		m := typed[(i*3)%len(typed)]
		if m.mode == -4 {
			m = tm{0, "i", 2}
		}
		n := ln(150, 320)
		arr := rnd(n, min(m.nsym, 2+i%3), i%2 == 0)
		a := g.R.Intn(n / 4)
		b := g.R.Range(a+100, n)
		var c, d int
		switch i % 4 {
		case 0: // rhs := lhs[:k]
			c, d = a, g.R.Range(a+50, b)
		case 1: // shifted by a little
			c = a + g.R.Range(1, 5)
			d = g.R.Range(max(c, b-10), n)
		case 2: // nested
			c = g.R.Range(a, a+30)
			d = g.R.Range(c+60, b)
		default: // overlapping tail / head
			c = g.R.Range(a+40, b-20)
			d = n
		}
		emitLA(m.mode, m.ty, arr, a, b, c, d, i%2, "long-aliased")
	}
}
