// Package elem maps the integer element CODES of trace lines to values of the element types the
// generic containers are instantiated at in round 5 (sizes 1, 1, 2, 3, 4, 8, 16 and 40 bytes;
// integers, a float, a pointer, a string, an array, a struct) and back.  Code 0 is the zero value
// of the type; a value no code maps to (half of a struct, a foreign pointer) decodes to Bad.
package elem

import (
	"strconv"
	"strings"
)

// Bad: what a value decodes to that no code maps to.
const Bad = -424242

// Codec: element codes of the trace <-> values of T.
type Codec[T any] struct {
	Enc    func(int) T
	Dec    func(T) int
	Cycle  int // element codes cycle through 1..Cycle (0: no limit)
	Poison T   // written over slices returned by the container
}

// Code: the code of the k-th inserted element (k = 1,2,3,…).
func (c Codec[T]) Code(k int) int {
	if c.Cycle > 0 && k > 0 {
		return 1 + (k-1)%c.Cycle
	}
	return k
}

// DecAll decodes a slice.
func DecAll[T any](dec func(T) int, xs []T) []int {
	out := make([]int, len(xs))
	for i, x := range xs {
		out[i] = dec(x)
	}
	return out
}

// Wide is the 40-byte element type.
type Wide struct{ a, b, c, d, e int64 }

var cells = func() []int {
	c := make([]int, 1<<17)
	for i := range c {
		c[i] = i
	}
	return c
}()

var (
	Int  = Codec[int]{Enc: func(c int) int { return c }, Dec: func(v int) int { return v }, Poison: -7}
	Byte = Codec[byte]{Enc: func(c int) byte { return byte(c) }, Dec: func(v byte) int { return int(v) }, Cycle: 250, Poison: 253}
	Bool = Codec[bool]{Enc: func(c int) bool { return c != 0 }, Dec: func(v bool) int {
		if v {
			return 1
		}
		return 0
	}, Cycle: 1, Poison: true}
	I16 = Codec[int16]{Enc: func(c int) int16 { return int16(c) }, Dec: func(v int16) int { return int(v) }, Cycle: 30000, Poison: -7}
	B3  = Codec[[3]byte]{
		Enc: func(c int) [3]byte { return [3]byte{byte(c), byte(c >> 8), byte(c >> 16)} },
		Dec: func(v [3]byte) int { return int(v[0]) | int(v[1])<<8 | int(v[2])<<16 }, Cycle: 1 << 23, Poison: [3]byte{255, 255, 255}}
	F32 = Codec[float32]{Enc: func(c int) float32 { return float32(c) }, Dec: func(v float32) int {
		if c := int(v); float32(c) == v && c > -(1<<24) && c < 1<<24 {
			return c
		}
		return Bad
	}, Cycle: 1 << 23, Poison: -7.5}
	Ptr = Codec[*int]{Enc: func(c int) *int {
		if c <= 0 || c >= len(cells) {
			return nil
		}
		return &cells[c]
	}, Dec: func(p *int) int {
		switch {
		case p == nil:
			return 0
		case *p > 0 && *p < len(cells) && p == &cells[*p]:
			return *p
		}
		return Bad
	}, Cycle: len(cells) - 1, Poison: new(int)}
	Str = Codec[string]{Enc: func(c int) string {
		if c == 0 {
			return ""
		}
		return "e" + strconv.Itoa(c)
	}, Dec: func(v string) int {
		if v == "" {
			return 0
		}
		if c, err := strconv.Atoi(strings.TrimPrefix(v, "e")); err == nil && v == "e"+strconv.Itoa(c) && c != 0 {
			return c
		}
		return Bad
	}, Poison: "poison"}
	WideC = Codec[Wide]{Enc: func(c int) Wide {
		x := int64(c)
		return Wide{x, 3 * x, 5 * x, -x, x << 20}
	}, Dec: func(v Wide) int {
		if x := v.a; v == (Wide{x, 3 * x, 5 * x, -x, x << 20}) {
			return int(x)
		}
		return Bad
	}, Poison: Wide{-7, -7, -7, -7, -7}}
)
