// Package tr holds what every trace generator shares: the single PRNG all random choices come
// from, the line-oriented trace writer, hex helpers, panic/hang capture and the statistics that
// end up in the evidence files.
package tr

import (
	"bufio"
	"encoding/hex"
	"encoding/json"
	"flag"
	"fmt"
	"os"
	"sort"
	"strconv"
	"strings"
	"time"
)

// Rand is SplitMix64: one state, seeded from VERIF_SEED, drives every random choice.
type Rand struct{ s uint64 }

// NewRand scrambles the seed through the SplitMix64 output function before using it as the state:
// with the state a linear function of the seed, neighbouring seeds produced the same stream shifted
// by a few draws and data-dependent generators fell back into step (notes/C03-requests.md,
// notes/C07-requests.md).
func NewRand(seed uint64) *Rand {
	z := seed + 0x9E3779B97F4A7C15
	z = (z ^ (z >> 30)) * 0xBF58476D1CE4E5B9
	z = (z ^ (z >> 27)) * 0x94D049BB133111EB
	z ^= z >> 31
	return &Rand{s: z ^ 0x1234567}
}
func (r *Rand) Uint64() uint64 {
	r.s += 0x9E3779B97F4A7C15
	z := r.s
	z = (z ^ (z >> 30)) * 0xBF58476D1CE4E5B9
	z = (z ^ (z >> 27)) * 0x94D049BB133111EB
	return z ^ (z >> 31)
}
func (r *Rand) Intn(n int) int {
	if n <= 0 {
		return 0
	}
	return int(r.Uint64() % uint64(n))
}
func (r *Rand) Range(lo, hi int) int { return lo + r.Intn(hi-lo+1) } // inclusive
func (r *Rand) Bool() bool           { return r.Uint64()&1 == 1 }
func (r *Rand) Chance(num, den int) bool { return r.Intn(den) < num }
func Pick[T any](r *Rand, xs []T) T  { return xs[r.Intn(len(xs))] }

// Opts are the common command-line options of every generator.
type Opts struct {
	Prop   string
	Tier   string
	Seed   uint64
	Out    string
	Stats  string
	Replay string
}

func ParseFlags() *Opts {
	o := &Opts{}
	flag.StringVar(&o.Prop, "prop", "", "property id")
	flag.StringVar(&o.Tier, "tier", "quick", "quick|thorough")
	flag.Uint64Var(&o.Seed, "seed", 1, "PRNG seed")
	flag.StringVar(&o.Out, "out", "", "trace file")
	flag.StringVar(&o.Stats, "stats", "", "statistics file (JSON)")
	flag.StringVar(&o.Replay, "replay", "", "file of trace inputs to re-run on the implementation (one per line, text before ' | ')")
	flag.Parse()
	return o
}

func (o *Opts) Thorough() bool { return o.Tier == "thorough" }

// Scale returns q for the quick tier and t for the thorough tier.
func (o *Opts) Scale(q, t int) int {
	if o.Thorough() {
		return t
	}
	return q
}

// W writes trace lines "input | output" and gathers statistics.
type W struct {
	w        *bufio.Writer
	f        *os.File
	Lines    int
	counters map[string]int
	samples  map[string][]string
	seen     map[string]bool // distinct non-trivial inputs (hash-free: kept as strings, bounded)
	Distinct int
	NonTriv  int
	start    time.Time
}

func NewW(path string) *W {
	f := os.Stdout
	if path != "" {
		var err error
		f, err = os.Create(path)
		if err != nil {
			fmt.Fprintln(os.Stderr, err)
			os.Exit(2)
		}
	}
	return &W{w: bufio.NewWriterSize(f, 1<<20), f: f, counters: map[string]int{}, samples: map[string][]string{},
		seen: map[string]bool{}, start: time.Now()}
}

// Case writes one trace line.  nontrivial says whether the case reached one of the states the
// property text singles out (the generator's own rule); tags are counted in the statistics.
func (w *W) Case(input, output string, nontrivial bool, tags ...string) {
	fmt.Fprintf(w.w, "%s | %s\n", input, output)
	w.Lines++
	kind := input
	if i := strings.IndexByte(input, ' '); i >= 0 {
		kind = input[:i]
	}
	w.counters["kind:"+kind]++
	for _, t := range tags {
		w.counters[t]++
	}
	if nontrivial {
		if len(w.seen) < 2_000_000 {
			if !w.seen[input] {
				w.seen[input] = true
				w.NonTriv++
			}
		}
	}
	if s := w.samples[kind]; len(s) < 3 && len(input)+len(output) < 400 && (nontrivial || len(s) == 0) {
		w.samples[kind] = append(s, input+" | "+output)
	}
}

func (w *W) Count(tag string, n int) { w.counters[tag] += n }

func (w *W) Close(o *Opts, rule string, extra map[string]any) {
	w.w.Flush()
	if w.f != os.Stdout {
		w.f.Close()
	}
	if o.Stats == "" {
		return
	}
	var samples []string
	var kinds []string
	for k := range w.samples {
		kinds = append(kinds, k)
	}
	sort.Strings(kinds)
	for _, k := range kinds {
		samples = append(samples, w.samples[k]...)
	}
	st := map[string]any{
		"evaluations":         w.Lines,
		"distinct_nontrivial": w.NonTriv,
		"rule":                rule,
		"counters":            w.counters,
		"samples":             samples,
		"seed":                o.Seed,
		"gen_wall_s":          time.Since(w.start).Seconds(),
	}
	for k, v := range extra {
		st[k] = v
	}
	b, _ := json.MarshalIndent(st, "", " ")
	os.WriteFile(o.Stats, b, 0o644)
}

// ---- encoding helpers

func Hex(s string) string {
	if s == "" {
		return "-"
	}
	return hex.EncodeToString([]byte(s))
}
func UnHex(s string) string {
	if s == "-" {
		return ""
	}
	b, err := hex.DecodeString(s)
	if err != nil {
		panic("bad hex " + s)
	}
	return string(b)
}
func HexList(ss []string) string {
	if len(ss) == 0 {
		return "."
	}
	out := make([]string, len(ss))
	for i, s := range ss {
		out[i] = Hex(s)
	}
	return strings.Join(out, ",")
}
func UnHexList(s string) []string {
	if s == "." {
		return nil
	}
	parts := strings.Split(s, ",")
	for i := range parts {
		parts[i] = UnHex(parts[i])
	}
	return parts
}
func Ints(xs []int) string {
	if len(xs) == 0 {
		return "."
	}
	out := make([]string, len(xs))
	for i, x := range xs {
		out[i] = strconv.Itoa(x)
	}
	return strings.Join(out, ",")
}
func UnInts(s string) []int {
	if s == "." || s == "" {
		return nil
	}
	parts := strings.Split(s, ",")
	out := make([]int, len(parts))
	for i, p := range parts {
		n, err := strconv.Atoi(p)
		if err != nil {
			panic("bad int " + p)
		}
		out[i] = n
	}
	return out
}
func B(b bool) string {
	if b {
		return "1"
	}
	return "0"
}

// Guard runs f, mapping a panic to a small enum and a hang (over the watchdog) to "hang".
// It returns "" when f returns normally.
func Guard(watchdog time.Duration, f func()) (res string) {
	done := make(chan string, 1)
	go func() {
		defer func() {
			if r := recover(); r != nil {
				done <- "panic:" + PanicKind(r)
				return
			}
		}()
		f()
		done <- ""
	}()
	select {
	case s := <-done:
		return s
	case <-time.After(watchdog):
	}
	// Second look: after a stall of the whole process (a loaded machine) the timer and the
	// call's completion become ready together and select picks one at random, which produced a
	// false "hang" once (notes/C08-requests.md).  A real hang is still there one watchdog later.
	select {
	case s := <-done:
		return s
	case <-time.After(watchdog):
		return "hang"
	}
}

// Catch runs f in the calling goroutine and maps a panic to the enum ("" = none).
func Catch(f func()) (res string) {
	defer func() {
		if r := recover(); r != nil {
			res = "panic:" + PanicKind(r)
		}
	}()
	f()
	return ""
}

func PanicKind(r any) string {
	s := fmt.Sprint(r)
	switch {
	case strings.Contains(s, "index out of range"), strings.Contains(s, "out of range"), strings.Contains(s, "slice bounds"):
		return "index"
	case strings.Contains(s, "invalid cursor"):
		return "invalid-cursor"
	case strings.Contains(s, "nil pointer"), strings.Contains(s, "nil map"):
		return "nil"
	case strings.Contains(s, "divide by zero"):
		return "divzero"
	}
	return "other"
}

// ReplayInputs reads a replay file: one trace input per line (anything after " | " is ignored).
func ReplayInputs(path string) []string {
	data, err := os.ReadFile(path)
	if err != nil {
		fmt.Fprintln(os.Stderr, err)
		os.Exit(2)
	}
	var out []string
	for _, l := range strings.Split(string(data), "\n") {
		l = strings.TrimRight(l, "\r")
		if l == "" || strings.HasPrefix(l, "#") {
			continue
		}
		if i := strings.Index(l, " | "); i >= 0 {
			l = l[:i]
		}
		out = append(out, l)
	}
	return out
}

// G is what a generator gets: the options, the PRNG and Emit, which runs the implementation on
// an input (through the package's executor) and writes the trace line.
type G struct {
	*Opts
	R    *Rand
	W    *W
	exec func(string) string
}

func (g *G) Emit(input string, nontrivial bool, tags ...string) string {
	out := g.exec(input)
	g.W.Case(input, out, nontrivial, tags...)
	return out
}

// Main is the entry point shared by all generators.  With -replay it re-runs the listed inputs
// (corpus, stored replays) on the implementation instead of generating new ones.
func Main(rule string, exec func(input string) string, gen func(g *G)) {
	o := ParseFlags()
	w := NewW(o.Out)
	g := &G{Opts: o, R: NewRand(o.Seed), W: w, exec: exec}
	if o.Replay != "" {
		for _, in := range ReplayInputs(o.Replay) {
			g.Emit(in, true, "replayed")
		}
	} else {
		gen(g)
	}
	w.Close(o, rule, nil)
}
