module verif/harness

go 1.23

require github.com/creachadair/mds v0.0.0

replace github.com/creachadair/mds => /repo
