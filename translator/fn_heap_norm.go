package main

// Heap backend: source-to-source normalisation of the functions that are translated, done on the
// syntax tree BEFORE type checking (see notes/fn-translator.md, "normalisation").  Two rewrites,
// both semantics-preserving by construction; a construct outside their conditions is left as it is
// and is then reported as lost by the translation proper.
//
//  1. switch -> if chain.
//       switch init; tag { case a, b: A; default: D; case c: C }
//     becomes
//       { init; switch_tag := tag; if switch_tag == a || switch_tag == b { A } else if switch_tag == c { C } else { D } }
//     (Go: the tag is evaluated once; the case expressions are evaluated left to right, top to
//     bottom, until one is equal; `default` runs when none is, wherever it is written).  A switch
//     without a tag uses the case expressions themselves.  Not rewritten: `fallthrough`, and a
//     `break` that leaves the switch.
//
//  2. inlining of a local function literal.
//       f := func(p T) { body }   ...   f(e)
//     with f never assigned again and used ONLY as the callee of call statements: every call
//     becomes the block
//       { var p_f T = e; body[p := p_f] }
//     and the definition is dropped.  Go calls the literal with its parameters bound to the
//     argument values and runs the body on the variables it captured BY REFERENCE: the block does
//     exactly that, provided the names the body captures denote the same variables at the call
//     (checked: such a name is declared only once in the enclosing function) and the body has no
//     return / defer / go / label / nested literal and does not mention f.
//
// When a file was rewritten it is printed and parsed again, so that every position (on which the
// scope analysis of the translation rests) is consistent; line numbers in messages then refer to
// the normalised text, which is quoted in the generated file.

import (
	"bytes"
	"go/ast"
	"go/parser"
	"go/printer"
	"go/token"
	"reflect"
	"strconv"
)

// hNormalizeFile rewrites the requested functions of pf ("F" or "Recv.M"); it returns the file to
// use (re-parsed when something changed) and the normalised text of each rewritten function.
func hNormalizeFile(pf *ast.File, path string, want map[string]bool) (*ast.File, map[string]string) {
	changed := map[string]bool{}
	for _, d := range pf.Decls {
		fd, ok := d.(*ast.FuncDecl)
		if !ok || fd.Body == nil || !want[hDeclSpec(fd)] {
			continue
		}
		u := hUncurry(fd) // fn_heap_rest.go: return func(yield) { ... } -> the function of both parameter lists
		a := hSwitchToIf(fd)
		l := hUnlabelLoops(fd)
		b := hInlineLiterals(fd)
		if a || b || l || u {
			changed[hDeclSpec(fd)] = true
		}
	}
	if len(changed) == 0 {
		return pf, nil
	}
	var buf bytes.Buffer
	if err := (&printer.Config{Mode: printer.UseSpaces | printer.TabIndent, Tabwidth: 8}).Fprint(&buf, fset, pf); err != nil {
		fail("normalisation of %s: cannot print: %v", path, err)
	}
	nf, err := parser.ParseFile(fset, path, buf.Bytes(), 0)
	if err != nil {
		fail("normalisation of %s: cannot parse the result: %v", path, err)
	}
	texts := map[string]string{}
	for _, d := range nf.Decls {
		if fd, ok := d.(*ast.FuncDecl); ok && changed[hDeclSpec(fd)] {
			var b bytes.Buffer
			(&printer.Config{Mode: printer.UseSpaces, Tabwidth: 2}).Fprint(&b, fset, fd)
			texts[hDeclSpec(fd)] = b.String()
		}
	}
	return nf, texts
}

func hDeclSpec(fd *ast.FuncDecl) string {
	if fd.Recv == nil || len(fd.Recv.List) == 0 {
		return fd.Name.Name
	}
	t := fd.Recv.List[0].Type
	for {
		switch v := t.(type) {
		case *ast.StarExpr:
			t = v.X
			continue
		case *ast.ParenExpr:
			t = v.X
			continue
		case *ast.IndexExpr:
			t = v.X
			continue
		case *ast.IndexListExpr:
			t = v.X
			continue
		}
		break
	}
	if id, ok := t.(*ast.Ident); ok {
		return id.Name + "." + fd.Name.Name
	}
	return fd.Name.Name
}

// hIdentNames: every identifier name that occurs in the function
func hIdentNames(fd *ast.FuncDecl) map[string]bool {
	names := map[string]bool{}
	ast.Inspect(fd, func(n ast.Node) bool {
		if id, ok := n.(*ast.Ident); ok {
			names[id.Name] = true
		}
		return true
	})
	return names
}

func hFreshName(names map[string]bool, base string) string {
	n := base
	for i := 1; names[n]; i++ {
		n = base + "_" + strconv.Itoa(i)
	}
	names[n] = true
	return n
}

// ---------------------------------------------------------------- switch -> if chain

func hSwitchToIf(fd *ast.FuncDecl) bool {
	names := hIdentNames(fd)
	changed := false
	var conv func(list []ast.Stmt)
	conv = func(list []ast.Stmt) {
		for i, s := range list {
			if sw, ok := s.(*ast.SwitchStmt); ok {
				if r := hConvertSwitch(sw, names); r != nil {
					list[i] = r
					changed = true
				}
			}
		}
	}
	ast.Inspect(fd.Body, func(n ast.Node) bool {
		switch v := n.(type) {
		case *ast.BlockStmt:
			conv(v.List)
		case *ast.CaseClause:
			conv(v.Body)
		}
		return true
	})
	return changed
}

// hBreaksOut: an unlabelled break in list that leaves the enclosing switch; or a fallthrough
func hBreaksOut(list []ast.Stmt) bool {
	found := false
	var walk func(n ast.Node)
	walk = func(n ast.Node) {
		ast.Inspect(n, func(x ast.Node) bool {
			if found || x == nil {
				return false
			}
			switch v := x.(type) {
			case *ast.FuncLit, *ast.ForStmt, *ast.RangeStmt, *ast.SwitchStmt, *ast.TypeSwitchStmt, *ast.SelectStmt:
				// a break inside belongs to that statement; a fallthrough cannot leave it
				_ = v
				return false
			case *ast.BranchStmt:
				if v.Tok == token.FALLTHROUGH || (v.Tok == token.BREAK && v.Label == nil) {
					found = true
				}
			}
			return true
		})
	}
	for _, s := range list {
		walk(s)
	}
	return found
}

func hConvertSwitch(sw *ast.SwitchStmt, names map[string]bool) ast.Stmt {
	var clauses []*ast.CaseClause
	var def *ast.CaseClause
	for _, s := range sw.Body.List {
		cc, ok := s.(*ast.CaseClause)
		if !ok || hBreaksOut(cc.Body) {
			return nil
		}
		if cc.List == nil {
			if def != nil {
				return nil
			}
			def = cc
		} else {
			clauses = append(clauses, cc)
		}
	}
	var out []ast.Stmt
	if sw.Init != nil {
		out = append(out, sw.Init)
	}
	var tag *ast.Ident
	if sw.Tag != nil {
		tag = ast.NewIdent(hFreshName(names, "switch_tag"))
		tag.Obj = ast.NewObj(ast.Var, tag.Name)
		out = append(out, &ast.AssignStmt{Lhs: []ast.Expr{tag}, Tok: token.DEFINE, Rhs: []ast.Expr{sw.Tag}})
	}
	block := func(cc *ast.CaseClause) *ast.BlockStmt { return &ast.BlockStmt{List: cc.Body} }
	var chain ast.Stmt
	if def != nil {
		chain = block(def)
	}
	for i := len(clauses) - 1; i >= 0; i-- {
		cc := clauses[i]
		var cond ast.Expr
		for _, e := range cc.List {
			var t ast.Expr = e
			if tag != nil {
				u := ast.NewIdent(tag.Name)
				u.Obj = tag.Obj
				u.NamePos = e.Pos()
				t = &ast.BinaryExpr{X: u, OpPos: e.Pos(), Op: token.EQL, Y: hParen(e)}
			} else {
				t = hParen(e)
			}
			if cond == nil {
				cond = t
			} else {
				cond = &ast.BinaryExpr{X: cond, Op: token.LOR, Y: t}
			}
		}
		chain = &ast.IfStmt{Cond: cond, Body: block(cc), Else: chain}
	}
	if chain != nil {
		out = append(out, chain)
	}
	return &ast.BlockStmt{List: out}
}

func hParen(e ast.Expr) ast.Expr {
	switch e.(type) {
	case *ast.Ident, *ast.SelectorExpr, *ast.BasicLit, *ast.CallExpr, *ast.ParenExpr, *ast.IndexExpr:
		return e
	}
	return &ast.ParenExpr{X: e}
}

// ---------------------------------------------------------------- inlining of local function literals

type hLitDef struct {
	obj    *ast.Object
	name   string
	lit    *ast.FuncLit
	params []*ast.Ident
	ptypes []ast.Expr
}

func hInlineLiterals(fd *ast.FuncDecl) bool {
	changed := false
	for {
		def, list, idx := hFindLiteral(fd)
		if def == nil {
			return changed
		}
		names := hIdentNames(fd)
		ren := map[*ast.Object]string{}
		for _, p := range def.params {
			if p.Name != "_" && p.Obj != nil {
				ren[p.Obj] = hFreshName(names, p.Name+"_"+def.name)
			}
		}
		// every call statement becomes a block
		var repl func(list []ast.Stmt)
		repl = func(list []ast.Stmt) {
			for i, s := range list {
				es, ok := s.(*ast.ExprStmt)
				if !ok {
					continue
				}
				call, ok := es.X.(*ast.CallExpr)
				if !ok {
					continue
				}
				id, ok := call.Fun.(*ast.Ident)
				if !ok || id.Obj != def.obj {
					continue
				}
				var blk []ast.Stmt
				for j, p := range def.params {
					if p.Name == "_" || p.Obj == nil {
						// the argument is still evaluated
						blk = append(blk, &ast.AssignStmt{Lhs: []ast.Expr{ast.NewIdent("_")}, Tok: token.ASSIGN, Rhs: []ast.Expr{call.Args[j]}})
						continue
					}
					n := ast.NewIdent(ren[p.Obj])
					n.Obj = ast.NewObj(ast.Var, n.Name)
					ty := hClone(reflect.ValueOf(def.ptypes[j]), nil).Interface().(ast.Expr)
					blk = append(blk, &ast.DeclStmt{Decl: &ast.GenDecl{Tok: token.VAR, Specs: []ast.Spec{
						&ast.ValueSpec{Names: []*ast.Ident{n}, Type: ty, Values: []ast.Expr{call.Args[j]}}}}})
				}
				body := hClone(reflect.ValueOf(def.lit.Body), ren).Interface().(*ast.BlockStmt)
				blk = append(blk, body.List...)
				list[i] = &ast.BlockStmt{List: blk}
			}
		}
		ast.Inspect(fd.Body, func(n ast.Node) bool {
			switch v := n.(type) {
			case *ast.BlockStmt:
				repl(v.List)
			case *ast.CaseClause:
				repl(v.Body)
			}
			return true
		})
		list[idx] = &ast.EmptyStmt{Implicit: true}
		changed = true
	}
}

// hFindLiteral: the first definition `f := func(...) { ... }` of the function that can be inlined
func hFindLiteral(fd *ast.FuncDecl) (*hLitDef, []ast.Stmt, int) {
	var res *hLitDef
	var rlist []ast.Stmt
	var ridx int
	try := func(list []ast.Stmt) {
		for i, s := range list {
			if res != nil {
				return
			}
			as, ok := s.(*ast.AssignStmt)
			if !ok || as.Tok != token.DEFINE || len(as.Lhs) != 1 || len(as.Rhs) != 1 {
				continue
			}
			id, ok := as.Lhs[0].(*ast.Ident)
			lit, ok2 := as.Rhs[0].(*ast.FuncLit)
			if !ok || !ok2 || id.Obj == nil || id.Name == "_" {
				continue
			}
			if lit.Type.Results != nil && len(lit.Type.Results.List) > 0 {
				continue
			}
			def := &hLitDef{obj: id.Obj, name: id.Name, lit: lit}
			if lit.Type.Params != nil {
				for _, f := range lit.Type.Params.List {
					if _, variadic := f.Type.(*ast.Ellipsis); variadic || len(f.Names) == 0 {
						def = nil
						break
					}
					for _, n := range f.Names {
						def.params = append(def.params, n)
						def.ptypes = append(def.ptypes, f.Type)
					}
				}
			}
			if def == nil || !hInlinable(fd, def, as) {
				continue
			}
			res, rlist, ridx = def, list, i
		}
	}
	ast.Inspect(fd.Body, func(n ast.Node) bool {
		if res != nil {
			return false
		}
		switch v := n.(type) {
		case *ast.FuncLit:
			return false
		case *ast.BlockStmt:
			try(v.List)
		}
		return true
	})
	return res, rlist, ridx
}

func hInlinable(fd *ast.FuncDecl, def *hLitDef, defStmt *ast.AssignStmt) bool {
	ok := true
	// the body: no return / defer / go / label / nested literal, no mention of f
	own := map[*ast.Object]bool{}
	ast.Inspect(def.lit, func(n ast.Node) bool {
		switch v := n.(type) {
		case *ast.ReturnStmt, *ast.DeferStmt, *ast.GoStmt, *ast.LabeledStmt:
			ok = false
		case *ast.FuncLit:
			if v != def.lit {
				ok = false
			}
		case *ast.BranchStmt:
			if v.Label != nil {
				ok = false
			}
		case *ast.Ident:
			if v.Obj == def.obj {
				ok = false
			}
		}
		return ok
	})
	if !ok {
		return false
	}
	// the objects declared inside the literal (parameters and locals)
	ast.Inspect(def.lit, func(n ast.Node) bool {
		if id, isId := n.(*ast.Ident); isId && id.Obj != nil {
			if d, isNode := id.Obj.Decl.(ast.Node); isNode && d.Pos() >= def.lit.Pos() && d.End() <= def.lit.End() {
				own[id.Obj] = true
			}
		}
		if as, isAs := n.(*ast.AssignStmt); isAs && as.Tok == token.DEFINE {
			// a variable introduced by the switch rewrite (switch_tag := ...) has no declaration node
			for _, l := range as.Lhs {
				if id, isId := l.(*ast.Ident); isId && id.Obj != nil && id.Obj.Decl == nil {
					own[id.Obj] = true
				}
			}
		}
		return true
	})
	// which objects each name denotes in the enclosing function (selectors and keys have no object)
	byName := map[string]map[*ast.Object]bool{}
	ast.Inspect(fd, func(n ast.Node) bool {
		if id, isId := n.(*ast.Ident); isId && id.Obj != nil {
			if byName[id.Name] == nil {
				byName[id.Name] = map[*ast.Object]bool{}
			}
			byName[id.Name][id.Obj] = true
		}
		return true
	})
	// the names the body captures denote the same thing everywhere in the function
	sel := map[*ast.Ident]bool{}
	ast.Inspect(def.lit.Body, func(n ast.Node) bool {
		switch v := n.(type) {
		case *ast.SelectorExpr:
			sel[v.Sel] = true
		case *ast.KeyValueExpr:
			if id, isId := v.Key.(*ast.Ident); isId {
				sel[id] = true
			}
		}
		return true
	})
	ast.Inspect(def.lit.Body, func(n ast.Node) bool {
		id, isId := n.(*ast.Ident)
		if !isId || sel[id] || own[id.Obj] {
			return true
		}
		objs := byName[id.Name]
		switch {
		case id.Obj == nil:
			// package level or universe (or a field key): no local of the function may have this name
			for o := range objs {
				if o.Kind == ast.Var || o.Kind == ast.Con || o.Kind == ast.Typ || o.Kind == ast.Fun {
					if d, isNode := o.Decl.(ast.Node); isNode && d.Pos() >= fd.Pos() && d.End() <= fd.End() {
						ok = false
					}
				}
			}
		default:
			if len(objs) != 1 {
				ok = false
			}
			// declared before the literal
			if d, isNode := id.Obj.Decl.(ast.Node); !isNode || d.Pos() >= def.lit.Pos() {
				ok = false
			}
		}
		return ok
	})
	if !ok {
		return false
	}
	// every other use of f is the callee of a call statement outside any literal, after the definition
	uses, calls := 0, 0
	ast.Inspect(fd.Body, func(n ast.Node) bool {
		if id, isId := n.(*ast.Ident); isId && id.Obj == def.obj && id != defStmt.Lhs[0] {
			uses++
		}
		return true
	})
	var walk func(n ast.Node)
	walk = func(n ast.Node) {
		ast.Inspect(n, func(x ast.Node) bool {
			switch v := x.(type) {
			case *ast.FuncLit:
				return false
			case *ast.ExprStmt:
				if call, isCall := v.X.(*ast.CallExpr); isCall {
					if id, isId := call.Fun.(*ast.Ident); isId && id.Obj == def.obj {
						if call.Ellipsis.IsValid() || len(call.Args) != len(def.params) || call.Pos() < defStmt.End() {
							ok = false
						}
						calls++
					}
				}
			}
			return true
		})
	}
	walk(fd.Body)
	return ok && uses == calls
}

// hClone: a deep copy of a syntax tree; identifiers whose object is in ren are renamed.  Objects
// and scopes are shared, positions are kept (the file is printed and parsed again afterwards).
func hClone(v reflect.Value, ren map[*ast.Object]string) reflect.Value {
	switch v.Kind() {
	case reflect.Interface:
		if v.IsNil() {
			return v
		}
		r := reflect.New(v.Type()).Elem()
		r.Set(hClone(v.Elem(), ren))
		return r
	case reflect.Ptr:
		if v.IsNil() {
			return v
		}
		switch v.Interface().(type) {
		case *ast.Object, *ast.Scope:
			return v
		}
		if v.Elem().Kind() != reflect.Struct {
			return v
		}
		r := reflect.New(v.Elem().Type())
		for i := 0; i < v.Elem().NumField(); i++ {
			if r.Elem().Field(i).CanSet() {
				r.Elem().Field(i).Set(hClone(v.Elem().Field(i), ren))
			}
		}
		if id, ok := r.Interface().(*ast.Ident); ok && id.Obj != nil {
			if n, ok := ren[id.Obj]; ok {
				id.Name = n
				id.Obj = ast.NewObj(ast.Var, n)
			}
		}
		return r
	case reflect.Slice:
		if v.IsNil() {
			return v
		}
		r := reflect.MakeSlice(v.Type(), v.Len(), v.Len())
		for i := 0; i < v.Len(); i++ {
			r.Index(i).Set(hClone(v.Index(i), ren))
		}
		return r
	}
	return v
}


// ---------------------------------------------------------------- labelled loops

// hUnlabelLoops: `L: for ... { ... break L ... continue L ... }` where every `break L` / `continue L`
// has the labelled loop as its INNERMOST enclosing loop and is not inside a switch or select (the
// switches have been turned into if chains before; one that could not be is left alone, and with it
// the label): there `break L` is `break` and `continue L` is `continue`.  The label is dropped.
// Any other use of a label is left as it is (and is then lost by the translation proper).
func hUnlabelLoops(fd *ast.FuncDecl) bool {
	changed := false
	try := func(list []ast.Stmt) {
		for i, s := range list {
			ls, ok := s.(*ast.LabeledStmt)
			if !ok {
				continue
			}
			var body *ast.BlockStmt
			switch v := ls.Stmt.(type) {
			case *ast.ForStmt:
				body = v.Body
			case *ast.RangeStmt:
				body = v.Body
			default:
				continue
			}
			good := true
			var uses []*ast.BranchStmt
			var walk func(n ast.Node, nested bool)
			walk = func(n ast.Node, nested bool) {
				ast.Inspect(n, func(x ast.Node) bool {
					if x == nil || !good {
						return false
					}
					switch v := x.(type) {
					case *ast.FuncLit:
						return false
					case *ast.ForStmt, *ast.RangeStmt, *ast.SwitchStmt, *ast.TypeSwitchStmt, *ast.SelectStmt:
						if x != n {
							walk(x, true)
							return false
						}
					case *ast.BranchStmt:
						if v.Label != nil && v.Label.Name == ls.Label.Name {
							if nested || (v.Tok != token.BREAK && v.Tok != token.CONTINUE) {
								good = false
							}
							uses = append(uses, v)
						}
					}
					return true
				})
			}
			walk(body, false)
			if !good {
				continue
			}
			for _, u := range uses {
				u.Label = nil
			}
			list[i] = ls.Stmt
			changed = true
		}
	}
	ast.Inspect(fd.Body, func(n ast.Node) bool {
		switch v := n.(type) {
		case *ast.BlockStmt:
			try(v.List)
		case *ast.CaseClause:
			try(v.Body)
		}
		return true
	})
	return changed
}
