package main

// Constructors, methods that return their receiver, copy, and slice fields with a tracked capacity
// (see notes/fn-translator.md).

import (
	"go/ast"
	"go/token"
)

// ---------------------------------------------------------------- methods returning their receiver

// returnsRecv: the only result is a pointer to the receiver's struct and every return statement
// returns the receiver itself: no Go result in the translation (the assigned fields are returned
// as usual).
func (c *fnCtx) returnsRecv(fd *ast.FuncDecl, recvType string) bool {
	if recvType == "" || fd.Type.Results == nil || len(fd.Type.Results.List) != 1 || len(fd.Type.Results.List[0].Names) > 0 {
		return false
	}
	st, ok := fd.Type.Results.List[0].Type.(*ast.StarExpr)
	if !ok {
		return false
	}
	base, _ := baseAndArgs(st.X)
	if id, ok := base.(*ast.Ident); !ok || id.Name != recvType {
		return false
	}
	all, any := true, false
	ast.Inspect(fd.Body, func(n ast.Node) bool {
		switch v := n.(type) {
		case *ast.FuncLit:
			return false
		case *ast.ReturnStmt:
			any = true
			if len(v.Results) != 1 || !c.isRecvSyntax(v.Results[0]) {
				all = false
			}
		}
		return true
	})
	return all && any
}

func (c *fnCtx) isRecvSyntax(e ast.Expr) bool {
	id, ok := e.(*ast.Ident)
	if !ok || c.fn.recvVar == "" || id.Name != c.fn.recvVar || id.Obj == nil {
		return false
	}
	if c.fn.recvObj != nil {
		return id.Obj == c.fn.recvObj
	}
	return c.fn.decl.Recv != nil && id.Obj.Decl == c.fn.decl.Recv.List[0]
}

// ---------------------------------------------------------------- constructors

type ctorInfo struct {
	v     string
	obj   *ast.Object
	lit   *ast.CompositeLit
	tname string
	targs []string
	rest  []ast.Stmt
	first ast.Stmt
}

// constructorOf: a function without receiver whose only result is *T (T a struct of the file)
// and whose body starts with  q := &T{...}  (q never reassigned, every return returns q), or is
// just  return &T{...}: from that statement on q plays the receiver; its fields are locals
// initialised from the literal and all of them are returned.
func (g *fnGen) constructorOf(fd *ast.FuncDecl) *ctorInfo {
	if fd == nil || fd.Recv != nil || fd.Body == nil || len(fd.Body.List) == 0 {
		return nil
	}
	if fd.Type.Results == nil || len(fd.Type.Results.List) != 1 || len(fd.Type.Results.List[0].Names) > 0 {
		return nil
	}
	st, ok := fd.Type.Results.List[0].Type.(*ast.StarExpr)
	if !ok {
		return nil
	}
	base, _ := baseAndArgs(st.X)
	tid, ok := base.(*ast.Ident)
	if !ok || g.structs[tid.Name] == nil {
		return nil
	}
	litOf := func(e ast.Expr) *ast.CompositeLit {
		if call, ok := e.(*ast.CallExpr); ok && isBuiltin(call, "new", 1) {
			// new(T) is &T{}: every field zero
			b, _ := baseAndArgs(call.Args[0])
			if id, ok := b.(*ast.Ident); !ok || id.Name != tid.Name {
				return nil
			}
			return &ast.CompositeLit{Type: call.Args[0], Lbrace: call.Lparen, Rbrace: call.Rparen}
		}
		u, ok := e.(*ast.UnaryExpr)
		if !ok || u.Op != token.AND {
			return nil
		}
		cl, ok := u.X.(*ast.CompositeLit)
		if !ok || cl.Type == nil {
			return nil
		}
		b, _ := baseAndArgs(cl.Type)
		if id, ok := b.(*ast.Ident); !ok || id.Name != tid.Name {
			return nil
		}
		return cl
	}
	ci := &ctorInfo{tname: tid.Name, first: fd.Body.List[0]}
	switch s := fd.Body.List[0].(type) {
	case *ast.ReturnStmt:
		if len(fd.Body.List) != 1 || len(s.Results) != 1 {
			return nil
		}
		ci.lit = litOf(s.Results[0])
		if ci.lit == nil {
			return nil
		}
		// the name the methods of T use for their receiver
		ci.v = "x"
		for _, d := range g.file.Decls {
			if md, ok := d.(*ast.FuncDecl); ok && md.Recv != nil {
				if v, tn, _ := recvInfo(md); tn == tid.Name && v != "" {
					ci.v = v
					break
				}
			}
		}
	case *ast.AssignStmt:
		if s.Tok != token.DEFINE || len(s.Lhs) != 1 || len(s.Rhs) != 1 {
			return nil
		}
		id, ok := s.Lhs[0].(*ast.Ident)
		if !ok || id.Obj == nil {
			return nil
		}
		ci.lit = litOf(s.Rhs[0])
		if ci.lit == nil {
			return nil
		}
		ci.v, ci.obj, ci.rest = id.Name, id.Obj, fd.Body.List[1:]
		okUse := true
		hasRet := false
		for _, r := range ci.rest {
			ast.Inspect(r, func(n ast.Node) bool {
				switch v := n.(type) {
				case *ast.FuncLit:
					okUse = false
				case *ast.AssignStmt:
					for _, l := range v.Lhs {
						if lid, ok := l.(*ast.Ident); ok && lid.Obj == ci.obj {
							okUse = false
						}
					}
				case *ast.ReturnStmt:
					hasRet = true
					if len(v.Results) != 1 {
						okUse = false
					} else if rid, ok := v.Results[0].(*ast.Ident); !ok || rid.Obj != ci.obj {
						okUse = false
					}
				}
				return true
			})
		}
		if !okUse || !hasRet {
			return nil
		}
	default:
		return nil
	}
	_, ci.targs = func() (ast.Expr, []string) {
		_, args := baseAndArgs(ci.lit.Type)
		var ss []string
		for _, a := range args {
			ss = append(ss, src(a))
		}
		return nil, ss
	}()
	return ci
}

// ctorInit: the fields of the constructed object, in struct order, initialised from the literal
// (values evaluated in source order; fields left out are zero).  A slice parameter stored into a
// field hands its array over: it must not be used afterwards.  A callback field that is only
// logged (func without results) must be set to a function of the file with an empty body.
func (c *fnCtx) ctorInit(ci *ctorInfo, fieldNames []string, fieldTypes map[string]ast.Expr, fieldFuncNoRes map[string]bool) []fnBind {
	var pre []fnBind
	vals := map[string]string{}
	spares := map[string]string{}
	for _, el := range ci.lit.Elts {
		kv, ok := el.(*ast.KeyValueExpr)
		if !ok {
			c.lostAt(ci.lit, "constructor literal with positional values")
		}
		id, ok := kv.Key.(*ast.Ident)
		if !ok {
			c.lostAt(kv, "constructor literal key %s", src(kv.Key))
		}
		if _, isField := fieldTypes[id.Name]; !isField {
			c.lostAt(kv, "constructor literal key %s", id.Name)
		}
		if fieldFuncNoRes[id.Name] {
			// the callback whose calls are logged: only a no-op function of the file
			b, _ := baseAndArgs(kv.Value)
			fid, ok := b.(*ast.Ident)
			var fd *ast.FuncDecl
			if ok {
				fd = findFunc(c.g.file, fid.Name)
			}
			if fd == nil || fd.Body == nil || len(fd.Body.List) != 0 {
				c.lostAt(kv, "callback field %s set to %s (only a function of the file with an empty body)", id.Name, src(kv.Value))
			}
			continue
		}
		fv := c.fields[id.Name]
		if fv == nil {
			c.lostAt(kv, "constructor literal field %s", id.Name)
		}
		if call, ok := kv.Value.(*ast.CallExpr); ok && fv.typ.k == "slice" && isBuiltin(call, "make", len(call.Args)) {
			// a slice the constructor makes itself: nobody else holds its array
			vals[id.Name] = c.ctorMake(call, id.Name, &pre, spares)
			continue
		}
		if fv.typ.k == "slice" {
			x := c.plainVar(kv.Value)
			if x == nil || x.role != "param" || x.view != nil || x.noElems || x.typ.k != "slice" {
				c.lostAt(kv, "slice value %s stored in a field (only a slice parameter that is not used afterwards)", src(kv.Value))
			}
			used := false
			for _, r := range ci.rest {
				ast.Inspect(r, func(n ast.Node) bool {
					if u, ok := n.(*ast.Ident); ok && c.lookup(u) == x {
						used = true
					}
					return true
				})
			}
			if used {
				c.lostAt(kv, "slice parameter %s stored in a field and used afterwards (aliasing)", x.name)
			}
			vals[id.Name] = x.name
			continue
		}
		if fv.typ.k == "obj" {
			vals[id.Name] = c.objInit(fv, kv.Value, &pre) // fn_stdobj.go: buf: bufio.NewReader(r)
			continue
		}
		e, et := c.expr(kv.Value, &pre)
		c.noAlias(kv.Value, et)
		vals[id.Name] = e
	}
	for _, f := range fieldNames {
		fv := c.fields[f]
		if fv == nil {
			continue
		}
		v, ok := vals[f]
		if !ok {
			v = c.zeroOf(fv.typ, ci.lit)
		}
		pat := fv.name
		if v == "[]" {
			pat += " : " + varType(fv)
		}
		pre = append(pre, fnBind{pat: pat, e: v, isLet: true})
		if sp := c.fat[fv]; sp != nil {
			spv := "[]"
			if s, ok := spares[f]; ok {
				spv = s
			}
			pre = append(pre, fnBind{pat: sp.name + " : " + varType(sp), e: spv, isLet: true})
		}
	}
	return pre
}

// ctorMake: make([]T, n[, c]) as the value of a slice field in a constructor literal: the check
// of make, n zero elements (and, for a field with a tracked capacity, c - n more in its spare part).
func (c *fnCtx) ctorMake(call *ast.CallExpr, field string, pre *[]fnBind, spares map[string]string) string {
	if at, ok := call.Args[0].(*ast.ArrayType); (ok && at.Len != nil) || len(call.Args) < 2 || len(call.Args) > 3 {
		c.lostAt(call, "make")
	}
	t := c.goType(call.Args[0])
	if t.k != "slice" {
		c.lostAt(call, "make of %s", src(call.Args[0]))
	}
	n, _ := c.expr(call.Args[1], pre)
	cp := n
	if len(call.Args) == 3 {
		cp, _ = c.expr(call.Args[2], pre)
	}
	bindRaw(pre, "_", "go_make_check "+paren(n)+" "+paren(cp))
	val := "[]"
	if n != "0" {
		if t.elem.k == "slice" {
			c.lostAt(call, "make of a non-empty slice of slices")
		}
		val = "repeat " + c.zeroOf(t.elem, call) + " (Z.to_nat " + paren(n) + ")"
	}
	if cp != n {
		spares[field] = "repeat " + c.zeroOf(t.elem, call) + " (Z.to_nat (" + cp + " - " + n + "))"
	}
	return val
}

// ---------------------------------------------------------------- copy

func isBuiltin(call *ast.CallExpr, name string, nargs int) bool {
	id, ok := call.Fun.(*ast.Ident)
	return ok && id.Name == name && id.Obj == nil && len(call.Args) == nargs
}

// copyStmt: copy(dst, src) as a statement: dst := go_copy dst src (elementwise, min of the lengths)
func (c *fnCtx) copyStmt(call *ast.CallExpr, pre *[]fnBind) {
	dst := c.plainVar(call.Args[0])
	if dst == nil || dst.typ.k != "slice" || dst.noElems || dst.typ.elem.k == "slice" {
		c.lostAt(call, "copy into %s (must be a list-represented slice variable or field)", src(call.Args[0]))
	}
	s, st := c.expr(call.Args[1], pre)
	if !(st.k == "slice" && st.elem.k != "slice") && st.k != "string" {
		c.lostAt(call, "copy from %s", src(call.Args[1]))
	}
	*pre = append(*pre, fnBind{pat: dst.name, e: "go_copy " + dst.name + " " + paren(s), isLet: true, effect: true})
}

// ---------------------------------------------------------------- slice fields with a tracked capacity

// fatReslice: x = x[lo:hi] on a slice whose spare capacity is tracked: exact up to cap, the
// elements beyond hi stay in the spare part.
func (c *fnCtx) fatReslice(x *fnVar, se *ast.SliceExpr, pre *[]fnBind) {
	sp := c.fat[x]
	lo, hi := "0", "(zlen "+x.name+")"
	if se.Low != nil {
		lo, _ = c.expr(se.Low, pre)
	}
	if se.High != nil {
		hi, _ = c.expr(se.High, pre)
	}
	if lo != "0" {
		c.lostAt(se, "re-slice of %s from a non-zero offset (its capacity is tracked)", x.name)
	}
	*pre = append(*pre, fnBind{pat: tuple([]string{x.name, sp.name}), m: tRaw{"go_reslice_cap " + x.name + " " + sp.name + " " + paren(hi)}, effect: true})
}
