package main

// Heap backend, TEXT extension: calls (see fn_heap_text.go): fmt.Fprint/Fprintln/Fprintf/Sprintf/
// Errorf with a literal format, errors.New / errors.Is, cmp.Or, strconv.Itoa, methods of abstract
// types of the standard library (objects and values), objects handed to callees, and the
// parameter-receiver convention (recv:V).

import (
	"go/ast"
	"go/constant"
	"go/types"
	"strings"
)

// ---------------------------------------------------------------- objects

// objVar: e is an object held in a variable (a parameter, a local) or in a field of the receiver
func (c *hctx) objVar(e ast.Expr) *hvar {
	if c.g.tx == nil {
		return nil
	}
	switch v := ast.Unparen(e).(type) {
	case *ast.Ident:
		if x := c.lookup(v); x != nil && x.typ != nil && x.typ.k == "obj" {
			return x
		}
	case *ast.SelectorExpr:
		if c.isRecvIdent(v.X) {
			if x := c.fields[v.Sel.Name]; x != nil && x.typ.k == "obj" {
				return x
			}
		}
	}
	return nil
}

// objParams: the object parameters of a translated function: handed back after the assigned fields.
// A parameter that the function gives away to a function of another package (bufio.NewReader(r))
// is not handed back.
func objParams(fn *hfunc) []*hvar {
	var vs []*hvar
	for _, p := range fn.params {
		if p.v != nil && p.v.typ.k == "obj" && !fn.givenAway[p.goName] {
			vs = append(vs, p.v)
		}
	}
	return vs
}

// scanGivenAway: the object parameters handed to functions of other packages
func (c *hctx) scanGivenAway() {
	if c.g.tx == nil {
		return
	}
	sig := c.fn.obj.Type().(*types.Signature)
	ast.Inspect(c.fn.decl.Body, func(n ast.Node) bool {
		call, ok := n.(*ast.CallExpr)
		if !ok {
			return true
		}
		if name, f := c.pkgFunc(call.Fun); name == "" || f == nil || !c.g.externs[name] {
			return true
		}
		for _, a := range call.Args {
			if id, ok := ast.Unparen(a).(*ast.Ident); ok {
				for i := 0; i < sig.Params().Len(); i++ {
					if pv := sig.Params().At(i); c.g.info.Uses[id] == pv {
						if t := c.g.typeOf(pv.Type(), nil); t != nil && t.k == "obj" {
							if c.fn.givenAway == nil {
								c.fn.givenAway = map[string]bool{}
							}
							c.fn.givenAway[pv.Name()] = true
						}
					}
				}
			}
		}
		return true
	})
}

// stdMethod: v is a call x.M(...) of a method of a type of the standard library: the key
// "pkg.Type.M", the signature, whether x is an object (state handed back) or a value
func (c *hctx) stdMethod(v *ast.CallExpr) (key string, sig *types.Signature, recv ast.Expr, ok bool) {
	if c.g.tx == nil {
		return
	}
	sel, isSel := ast.Unparen(v.Fun).(*ast.SelectorExpr)
	if !isSel {
		return
	}
	s := c.g.info.Selections[sel]
	if s == nil || s.Kind() != types.MethodVal {
		return
	}
	n := namedOf(s.Recv())
	if n == nil || !c.g.isStdNamed(n) {
		return
	}
	sg, isSig := s.Type().(*types.Signature)
	if !isSig {
		return
	}
	return n.Obj().Pkg().Name() + "." + n.Obj().Name() + "." + sel.Sel.Name, sg, sel.X, true
}

// textCallEffects: the variables a call rebinds through this extension: the objects it is handed
func (c *hctx) textCallEffects(v *ast.CallExpr, wr func(*hvar)) {
	if c.g.tx == nil {
		return
	}
	if _, _, recv, ok := c.stdMethod(v); ok {
		wr(c.objVar(recv))
	}
	for _, a := range v.Args {
		wr(c.objVar(a))
	}
	// a parameter-receiver callee: f(r, ...) with r this function's receiver, or a struct-valued variable
	if cal := c.g.calleeOf(v.Fun); cal != nil && cal.recvParam && len(v.Args) > 0 && len(cal.mutFields) > 0 {
		if c.isRecvIdent(v.Args[0]) {
			for _, f := range cal.mutFields {
				wr(c.fields[f])
			}
		} else {
			wr(c.structVar(v.Args[0]))
		}
	}
}

// ---------------------------------------------------------------- the parameter that plays the receiver

// textRecvParam: no receiver, and the first parameter is *V with a directive recv:V
func (c *hctx) textRecvParam(sig *types.Signature, fd *ast.FuncDecl) (*types.Var, *ast.Ident) {
	if c.g.tx == nil || sig.Params().Len() == 0 {
		return nil, nil
	}
	pv := sig.Params().At(0)
	pt, ok := pv.Type().(*types.Pointer)
	if !ok {
		return nil, nil
	}
	n := namedOf(pt)
	if n == nil || !c.g.tx.recvParam[n.Obj().Name()] || pv.Name() == "_" || pv.Name() == "" {
		return nil, nil
	}
	if len(fd.Type.Params.List) == 0 || len(fd.Type.Params.List[0].Names) == 0 {
		return nil, nil
	}
	c.fn.recvParam = true
	return pv, fd.Type.Params.List[0].Names[0]
}

// ---------------------------------------------------------------- calls

func (c *hctx) callText(v *ast.CallExpr, pre *[]hbind) ([]string, []*hty, bool) {
	if c.g.tx == nil {
		return nil, nil, false
	}
	one := func(s string, t *hty) ([]string, []*hty, bool) { return []string{s}, []*hty{t}, true }
	if key, sig, recv, ok := c.stdMethod(v); ok {
		return c.callStdMethod(key, sig, recv, v, pre)
	}
	name, f := c.pkgFunc(v.Fun)
	if name == "" || f == nil {
		return nil, nil, false
	}
	if c.g.externs[name] {
		return nil, nil, false // declared extern: a function argument (callPkg)
	}
	switch name {
	case "fmt.Sprintf":
		ps, w := c.formatPieces(v, 0, false, pre)
		if w != "" {
			c.lostAt(v, "%%w outside fmt.Errorf")
		}
		return one("(go_sprint ["+strings.Join(ps, "; ")+"])", htStr)
	case "fmt.Errorf":
		lit, okF := c.stringConst(v.Args[0])
		fs, okS := hCoqString(lit)
		if !okF || !okS {
			c.lostAt(v, "fmt.Errorf with a format that is not a plain string literal")
		}
		ps, w := c.formatPieces(v, 0, true, pre)
		if w == "" {
			w = "None"
		}
		return one("(Some (XFmt "+fs+" ["+strings.Join(ps, "; ")+"] "+w+"))", &hty{k: "err"})
	case "fmt.Fprintf", "fmt.Fprint", "fmt.Fprintln":
		if len(v.Args) < 1 {
			c.lostAt(v, "call of %s", name)
		}
		w := c.objVar(v.Args[0])
		if w == nil {
			c.lostAt(v, "%s to %s (the writer must be an object held in a variable)", name, src(v.Args[0]))
		}
		var ps []string
		switch name {
		case "fmt.Fprintf":
			var ww string
			ps, ww = c.formatPieces(v, 1, false, pre)
			if ww != "" {
				c.lostAt(v, "%%w outside fmt.Errorf")
			}
		default:
			for i, a := range v.Args[1:] {
				x, t := c.expr(a, pre)
				if t.k != "str" {
					// Fprint puts blanks between operands that are not strings, Fprintln formats with %v
					c.lostAt(a, "operand %s of %s (only strings)", src(a), name)
				}
				if i > 0 && name == "fmt.Fprintln" {
					ps = append(ps, "FStr "+hStrLit(" "))
				}
				ps = append(ps, "FStr "+paren(x))
			}
			if name == "fmt.Fprintln" {
				ps = append(ps, "FStr "+hStrLit("\n"))
			}
		}
		// one Write call with the whole text; its results are the results of the fmt function
		ft := &hty{k: "func", monadic: true, params: []*hty{w.typ, {k: "slice", elem: htByte}}, res: []*hty{htInt, {k: "err"}, w.typ}}
		key := c.writerKey(v.Args[0])
		x := c.externVar(key, ft, v)
		n, e := c.tmp(), c.tmp()
		*pre = append(*pre, hbind{pat: tuple([]string{n, e, w.name}), m: tRaw{x.name + " " + w.name + " (go_sprint [" + strings.Join(ps, "; ") + "])"}, effect: true})
		return []string{n, e}, []*hty{htInt, {k: "err"}}, true
	case "errors.New":
		lit, okF := c.stringConst(v.Args[0])
		ms, okS := hCoqString(lit)
		if !okF || !okS {
			c.lostAt(v, "errors.New of something that is not a plain string literal")
		}
		return one("(Some (XNew "+ms+"))", &hty{k: "err"})
	case "errors.Is":
		if len(v.Args) != 2 {
			c.lostAt(v, "call of errors.Is")
		}
		n, ok := c.sentinelOf(v.Args[1])
		if !ok {
			c.lostAt(v, "errors.Is with a target that is not a package-level error variable")
		}
		x, t := c.expr(v.Args[0], pre)
		if t.k != "err" {
			c.lostAt(v, "call of errors.Is")
		}
		return one("(go_xerr_is "+paren(x)+" \""+n+"\")", htBool)
	case "cmp.Or":
		if len(v.Args) != 2 || v.Ellipsis.IsValid() {
			c.lostAt(v, "cmp.Or (only two string operands)")
		}
		x, xt := c.expr(v.Args[0], pre)
		y, yt := c.expr(v.Args[1], pre)
		if xt.k != "str" || yt.k != "str" {
			c.lostAt(v, "cmp.Or (only two string operands)")
		}
		return one("(go_or_str "+paren(x)+" "+paren(y)+")", htStr)
	case "strconv.Itoa":
		x, t := c.expr(v.Args[0], pre)
		if t.k != "int" {
			c.lostAt(v, "call of strconv.Itoa")
		}
		return one("(go_itoa "+paren(x)+")", htStr)
	}
	return nil, nil, false
}

// writerKey: the Write method of the writer's type: "io.Writer.Write"
func (c *hctx) writerKey(e ast.Expr) string {
	if tv, ok := c.g.info.Types[e]; ok {
		if n := namedOf(tv.Type); n != nil && n.Obj().Pkg() != nil {
			return n.Obj().Pkg().Name() + "." + n.Obj().Name() + ".Write"
		}
	}
	c.lostAt(e, "writer %s", src(e))
	return ""
}

func (c *hctx) stringConst(e ast.Expr) (string, bool) {
	tv, ok := c.g.info.Types[e]
	if !ok || tv.Value == nil || tv.Value.Kind() != constant.String {
		return "", false
	}
	return constant.StringVal(tv.Value), true
}

// formatPieces: the call's format (argument number at) must be a string constant; it is split here,
// at translation time, into literal text and verbs.  Rendered output (Sprintf, Fprintf) knows %d on
// integers, %s on strings, %v on either, %%.  An error value (inErr) keeps the format itself and only
// lists the operands: %d %c (integers), %s %q (strings), %v, and one %w (an error: returned
// separately).  Flags, widths and every other verb are refused.
func (c *hctx) formatPieces(v *ast.CallExpr, at int, inErr bool, pre *[]hbind) (pieces []string, wrapped string) {
	if len(v.Args) <= at || v.Ellipsis.IsValid() {
		c.lostAt(v, "formatted output without a format")
	}
	f, ok := c.stringConst(v.Args[at])
	if !ok {
		c.lostAt(v, "format %s (only a string constant: it is interpreted at translation time)", src(v.Args[at]))
	}
	args := v.Args[at+1:]
	ai := 0
	lit := ""
	flush := func() {
		if lit != "" && !inErr {
			pieces = append(pieces, "FStr "+hStrLit(lit))
		}
		lit = ""
	}
	for i := 0; i < len(f); i++ {
		if f[i] != '%' {
			lit += string(f[i])
			continue
		}
		i++
		if i >= len(f) {
			c.lostAt(v, "format %q (a lone %% at the end)", f)
		}
		verb := f[i]
		if verb == '%' {
			lit += "%"
			continue
		}
		if ai >= len(args) {
			c.lostAt(v, "format %q (more verbs than operands)", f)
		}
		a := args[ai]
		ai++
		flush()
		if verb == 'w' {
			if !inErr || wrapped != "" {
				c.lostAt(v, "format %q (%%w: only once, only in fmt.Errorf)", f)
			}
			x, t := c.expr(a, pre)
			if t.k != "err" {
				c.lostAt(a, "operand %s of %%w (not an error)", src(a))
			}
			wrapped = paren(x)
			continue
		}
		x, t := c.expr(a, pre)
		isInt := t.k == "int"
		isStr := t.k == "str"
		okVerb := false
		switch verb {
		case 'd':
			okVerb = isInt
		case 's':
			okVerb = isStr
		case 'v':
			okVerb = isInt || isStr
		case 'c':
			okVerb = isInt && inErr
		case 'q':
			okVerb = isStr && inErr
		}
		if !okVerb {
			c.lostAt(a, "verb %%%c with the operand %s of kind %s", verb, src(a), t.k)
		}
		if isInt {
			pieces = append(pieces, "FInt "+paren(x))
		} else {
			pieces = append(pieces, "FStr "+paren(x))
		}
	}
	flush()
	if ai != len(args) {
		c.lostAt(v, "format %q (more operands than verbs)", f)
	}
	return pieces, wrapped
}

// callStdMethod: x.M(args) on an abstract type of the standard library: a function argument
// pkg_Type_M.  An object (interface / pointer to struct) takes its state first and hands the new
// state back last; a value (time.Time) is just the first argument.
func (c *hctx) callStdMethod(key string, sig *types.Signature, recv ast.Expr, v *ast.CallExpr, pre *[]hbind) ([]string, []*hty, bool) {
	if c.fn.selfRec || c.lit != nil {
		c.lostAt(v, "call of the method %s in a recursive function or a function literal", key)
	}
	if sig.Variadic() || v.Ellipsis.IsValid() || sig.Params().Len() != len(v.Args) {
		c.lostAt(v, "call of %s (variadic or arity)", key)
	}
	ov := c.objVar(recv)
	var rx string
	var rt *hty
	if ov != nil {
		rx, rt = ov.name, ov.typ
		if ov.role == "field" {
			c.recvCheck(pre)
		}
	} else {
		rx, rt = c.expr(recv, pre)
		if rt.k == "obj" {
			c.lostAt(v, "method call on the object %s (it must be held in a variable or a field of the receiver)", src(recv))
		}
		if rt.k != "elem" {
			c.lostAt(v, "method call %s on a value of kind %s", key, rt.k)
		}
	}
	ft := &hty{k: "func", monadic: true, params: []*hty{rt}}
	s := ""
	for i, a := range v.Args {
		pt := c.mustType(sig.Params().At(i).Type(), v)
		if pt.k == "obj" || pt.k == "func" || pt.k == "hptr" {
			c.lostAt(v, "call of %s: parameter of kind %s", key, pt.k)
		}
		ft.params = append(ft.params, pt)
		y, _ := c.expr(a, pre)
		s += " " + paren(y)
	}
	var ts []string
	for i := 0; i < sig.Results().Len(); i++ {
		t := c.mustType(sig.Results().At(i).Type(), v)
		if t.k == "obj" || t.k == "func" || t.k == "hptr" {
			c.lostAt(v, "call of %s: result of kind %s", key, t.k)
		}
		ft.res = append(ft.res, t)
		ts = append(ts, c.tmp())
	}
	rts := append([]*hty{}, ft.res...)
	pat := append([]string{}, ts...)
	if ov != nil {
		ft.res = append(ft.res, rt)
		pat = append(pat, ov.name)
	}
	if len(ft.res) == 0 {
		c.lostAt(v, "call of %s (no results)", key)
	}
	x := c.externVar(key, ft, v)
	*pre = append(*pre, hbind{pat: tuple(pat), m: tRaw{x.name + " " + paren(rx) + s}, effect: ov != nil})
	return ts, rts, true
}

// textExternObjArgs: an object handed to a function of another package (bufio.NewReader(r)) is
// given away: the variable must not be used afterwards
func (c *hctx) textExternObjArg(a ast.Expr, at ast.Node) {
	ov := c.objVar(a)
	if ov == nil {
		return
	}
	id, ok := ast.Unparen(a).(*ast.Ident)
	if !ok {
		c.lostAt(at, "the object %s handed to a function of another package (only a variable)", src(a))
	}
	o := c.g.info.Uses[id]
	used := false
	ast.Inspect(c.fn.decl.Body, func(n ast.Node) bool {
		if x, isId := n.(*ast.Ident); isId && x != id && x.Pos() > id.Pos() && c.g.info.Uses[x] == o {
			used = true
		}
		return true
	})
	if used {
		c.lostAt(at, "the object %s is used after it was handed to a function of another package", id.Name)
	}
}

// textScanFields: what this extension adds to the summary of the receiver's fields: a call f(r, ...)
// of a parameter-receiver function uses / assigns what f does; a method call on an object field
// (r.br.ReadString) or an object field handed to a callee rebinds that field
func (c *hctx) textScanFields(n ast.Node, used, mut map[string]bool) {
	if c.g.tx == nil {
		return
	}
	call, ok := n.(*ast.CallExpr)
	if !ok {
		return
	}
	objField := func(e ast.Expr) {
		if sel, ok := ast.Unparen(e).(*ast.SelectorExpr); ok && c.isRecvIdent(sel.X) {
			if tv, ok := c.g.info.Types[sel]; ok {
				if t := c.g.typeOf(tv.Type, nil); t != nil && t.k == "obj" {
					used[sel.Sel.Name], mut[sel.Sel.Name] = true, true
				}
			}
		}
	}
	if _, _, recv, ok := c.stdMethod(call); ok {
		objField(recv)
	}
	for _, a := range call.Args {
		objField(a)
	}
	if cal := c.g.calleeOf(call.Fun); cal != nil && cal.recvParam && len(call.Args) > 0 {
		fs, ms := cal.fields, cal.mutFields
		if cal == c.fn {
			fs, ms = nil, nil
		}
		if c.isRecvIdent(call.Args[0]) {
			for _, f := range fs {
				used[f] = true
			}
			for _, f := range ms {
				mut[f] = true
			}
		} else if in, ok := ast.Unparen(call.Args[0]).(*ast.SelectorExpr); ok && c.isRecvIdent(in.X) && len(ms) > 0 {
			mut[in.Sel.Name] = true
		}
	}
}
