package main

// Heap backend, TEXT extension: Go code that produces and reads text (mdiff/format.go,
// mdiff/reader.go).  Switched on by a directive "std:<import paths>" of the anchors entry; nothing
// here is reached without it.  See notes/fn-translator.md, "Text: strings, fmt, error values,
// objects of the standard library", and coq/Common/FnText.v (the run-time library).
//
//   std:strings,strconv,io,...   these packages of the standard library are type-checked from
//                                GOROOT/src (declarations only), so that the signatures of their
//                                functions and methods are the real ones
//   optptr:FileInfo,string,Patch *T is `option T` (None = nil): T is never changed through a pointer
//                                (checked: no store through a *T anywhere in the translated functions)
//   recv:diffReader              a function whose FIRST parameter is *diffReader treats it as a
//                                receiver (fields as arguments, assigned fields returned)
//
// Types.  string -> list Z; error -> go_xerr; a named type of a std package by value (time.Time)
// -> an abstract type argument `time_Time` with a zero value argument where needed; an interface
// or pointer-to-struct type of a std package (io.Writer, io.Reader, *bufio.Reader) -> an OBJECT: an
// abstract state type `io_Writer` that is threaded linearly (every method call and every callee
// that receives it hands it back; copying it is lost).  Methods of abstract types and the
// functions declared extern:pkg.F are function arguments (signatures read from GOROOT).
//
// Files: fn_heap_text.go (importer, types, expressions, statements), fn_heap_textcall.go (fmt,
// errors, methods of abstract types, the parameter-receiver convention).

import (
	"go/ast"
	"go/build"
	"go/constant"
	"go/parser"
	"go/token"
	"go/types"
	"os"
	"path/filepath"
	"sort"
	"strconv"
	"strings"
)

type htext struct {
	std       map[string]bool // import paths read from GOROOT
	optPtr    map[string]bool // *T is option T
	recvParam map[string]bool // *V as the first parameter plays the receiver
	abstract  map[string]bool // the abstract types in use: pseudo type parameters of the records that mention them
}

// textImporter: the importer of this entry; with a directive std: the listed packages are real
func (g *hgen) textImporter(dir string, specs []string) types.Importer {
	im := newHmodImporter(dir)
	for _, sp := range specs {
		if strings.HasPrefix(sp, "std:") {
			if g.tx == nil {
				g.tx = &htext{std: map[string]bool{}, optPtr: map[string]bool{}, recvParam: map[string]bool{}, abstract: map[string]bool{}}
			}
			for _, p := range strings.Split(strings.TrimPrefix(sp, "std:"), ",") {
				if p != "" {
					g.tx.std[p] = true
				}
			}
		}
	}
	if g.tx != nil {
		im.std = g.tx.std
	}
	return im
}

// textDirective: the directives of this extension
func (g *hgen) textDirective(sp string) bool {
	if g.tx == nil {
		return false
	}
	switch {
	case strings.HasPrefix(sp, "std:"):
		return true
	case strings.HasPrefix(sp, "optptr:"):
		for _, n := range strings.Split(strings.TrimPrefix(sp, "optptr:"), ",") {
			g.tx.optPtr[n] = true
		}
		return true
	case strings.HasPrefix(sp, "recv:"):
		for _, n := range strings.Split(strings.TrimPrefix(sp, "recv:"), ",") {
			g.tx.recvParam[n] = true
		}
		return true
	}
	return false
}

// importStd: a package of the standard library, from GOROOT/src: declarations only (function bodies
// are not checked), its own imports resolved the same way when they are listed, else empty
func (im *hmodImporter) importStd(path string) (*types.Package, error) {
	if p := im.done[path]; p != nil {
		return p, nil
	}
	if im.busy[path] {
		return im.fake.Import(path)
	}
	im.busy[path] = true
	defer delete(im.busy, path)
	dir := filepath.Join(goroot(), "src", filepath.FromSlash(path))
	ents, err := os.ReadDir(dir)
	if err != nil {
		return im.fake.Import(path)
	}
	var files []*ast.File
	for _, e := range ents {
		n := e.Name()
		if e.IsDir() || !strings.HasSuffix(n, ".go") || strings.HasSuffix(n, "_test.go") {
			continue
		}
		if ok, _ := build.Default.MatchFile(dir, n); !ok {
			continue
		}
		if pf, err := parser.ParseFile(fset, filepath.Join(dir, n), nil, parser.SkipObjectResolution); err == nil {
			files = append(files, pf)
		}
	}
	if len(files) == 0 {
		return im.fake.Import(path)
	}
	conf := types.Config{Importer: im, Error: func(error) {}, IgnoreFuncBodies: true, FakeImportC: true}
	pkg, _ := conf.Check(path, fset, files, nil)
	if pkg == nil {
		return im.fake.Import(path)
	}
	im.done[path] = pkg
	return pkg, nil
}

// ---------------------------------------------------------------- types

func (g *hgen) isStdNamed(n *types.Named) bool {
	return g.tx != nil && n != nil && n.Obj().Pkg() != nil && g.tx.std[n.Obj().Pkg().Path()]
}

func absName(n *types.Named) string { return n.Obj().Pkg().Name() + "_" + n.Obj().Name() }

// textTypeOf: the types this extension adds (nil: not one of them)
func (g *hgen) textTypeOf(t types.Type, at ast.Node) *hty {
	if g.tx == nil || t == nil {
		return nil
	}
	switch v := types.Unalias(t).(type) {
	case *types.Named:
		if v.Obj().Pkg() == nil && v.Obj().Name() == "error" {
			return &hty{k: "err"}
		}
		if g.isStdNamed(v) {
			switch v.Underlying().(type) {
			case *types.Interface:
				g.tx.abstract[absName(v)] = true
				return &hty{k: "obj", name: absName(v)}
			case *types.Struct:
				g.tx.abstract[absName(v)] = true
				return &hty{k: "elem", name: absName(v)} // a value of an abstract type
			}
		}
	case *types.Pointer:
		switch e := types.Unalias(v.Elem()).(type) {
		case *types.Basic:
			if e.Info()&types.IsString != 0 && g.tx.optPtr["string"] {
				return &hty{k: "opt", elem: htStr}
			}
		case *types.Named:
			if g.isStdNamed(e) {
				if _, isStruct := e.Underlying().(*types.Struct); isStruct {
					g.tx.abstract[absName(e)] = true
					return &hty{k: "obj", name: absName(e)}
				}
				return nil
			}
			if g.tx.optPtr[e.Obj().Name()] {
				et := g.typeOf(e, at)
				if et == nil || et.k != "struct" {
					return nil
				}
				return &hty{k: "opt", elem: et}
			}
		}
	}
	return nil
}

// textStructParams: the abstract types a record mentions are (pseudo) type parameters of it
func (g *hgen) textStructParams(s *hstruct, set map[string]bool) {
	if g.tx == nil {
		return
	}
	var ns []string
	for n := range set {
		if g.tx.abstract[n] {
			dup := false
			for _, tp := range s.tps {
				if tp == n {
					dup = true
				}
			}
			if !dup {
				ns = append(ns, n)
			}
		}
	}
	sort.Strings(ns)
	s.tps = append(s.tps, ns...)
}

// hStrLit: a Go string constant as a Gallina byte list: printable runs as go_str "...", other bytes
// by their codes
func hStrLit(s string) string {
	if s == "" {
		return "[]"
	}
	plain := func(b byte) bool { return b >= 32 && b <= 126 && b != '"' }
	var parts []string
	for i := 0; i < len(s); {
		j := i
		if plain(s[i]) {
			for j < len(s) && plain(s[j]) {
				j++
			}
			parts = append(parts, "go_str \"" + s[i:j] + "\"")
		} else {
			var xs []string
			for j < len(s) && !plain(s[j]) {
				xs = append(xs, strconv.Itoa(int(s[j])))
				j++
			}
			parts = append(parts, "["+strings.Join(xs, "; ")+"]")
		}
		i = j
	}
	if len(parts) == 1 && strings.HasPrefix(parts[0], "[") {
		return parts[0]
	}
	return "(" + strings.Join(parts, " ++ ") + ")"
}

// hCoqString: s as a Coq string literal ("" when it cannot be written as one)
func hCoqString(s string) (string, bool) {
	for i := 0; i < len(s); i++ {
		if s[i] < 32 || s[i] > 126 || s[i] == '"' || s[i] == '\\' {
			return "", false
		}
	}
	return "\"" + s + "\"", true
}

func (c *hctx) textConst(tv types.TypeAndValue) (string, *hty, bool) {
	if c.g.tx == nil || tv.Value == nil || tv.Value.Kind() != constant.String {
		return "", nil, false
	}
	return hStrLit(constant.StringVal(tv.Value)), htStr, true
}

// ---------------------------------------------------------------- expressions

// sentinelOf: e names a package-level variable of type error (io.EOF, errUnexpectedPrefix): "pkg.name"
func (c *hctx) sentinelOf(e ast.Expr) (string, bool) {
	if c.g.tx == nil {
		return "", false
	}
	var id *ast.Ident
	switch v := ast.Unparen(e).(type) {
	case *ast.Ident:
		id = v
	case *ast.SelectorExpr:
		if x, ok := v.X.(*ast.Ident); ok {
			if _, isPkg := c.g.info.Uses[x].(*types.PkgName); isPkg {
				id = v.Sel
			}
		}
	}
	if id == nil {
		return "", false
	}
	o, ok := c.g.info.Uses[id].(*types.Var)
	if !ok || o.Pkg() == nil || o.Parent() != o.Pkg().Scope() {
		return "", false
	}
	if t := c.g.typeOf(o.Type(), e); t == nil || t.k != "err" {
		return "", false
	}
	return o.Pkg().Name() + "." + o.Name(), true
}

// textIdent: an identifier that is not a local: a package-level error variable
func (c *hctx) textIdent(v *ast.Ident) (string, *hty, bool) {
	if n, ok := c.sentinelOf(v); ok {
		return "(Some (XVar \"" + n + "\"))", &hty{k: "err"}, true
	}
	return "", nil, false
}

// textQualified: pkg.Name that is not a call: io.EOF
func (c *hctx) textQualified(v *ast.SelectorExpr) (string, *hty, bool) {
	if n, ok := c.sentinelOf(v); ok {
		return "(Some (XVar \"" + n + "\"))", &hty{k: "err"}, true
	}
	return "", nil, false
}

// textField: x.f with x a nil-able pointer to a struct value
func (c *hctx) textField(v *ast.SelectorExpr, x string, t *hty, pre *[]hbind) (string, *hty, bool) {
	if t.k != "opt" || t.elem.k != "struct" {
		return "", nil, false
	}
	i := fieldIdx(t.elem.st, v.Sel.Name)
	if i < 0 {
		return "", nil, false
	}
	c.useStruct(t.elem.st, v)
	tm := c.tmp()
	hbindRaw(pre, tm, "go_deref "+paren(x))
	return "(" + t.elem.name + "_" + v.Sel.Name + " " + tm + ")", c.fieldTypes(t.elem)[i], true
}

// textStar: *p with p a nil-able pointer to a value
func (c *hctx) textStar(v *ast.StarExpr, pre *[]hbind) (string, *hty, bool) {
	if c.g.tx == nil {
		return "", nil, false
	}
	tv, ok := c.g.info.Types[v.X]
	if !ok {
		return "", nil, false
	}
	if pt := c.g.typeOf(tv.Type, v); pt == nil || pt.k != "opt" {
		return "", nil, false
	}
	x, t := c.expr(v.X, pre)
	tm := c.tmp()
	hbindRaw(pre, tm, "go_deref "+paren(x))
	return tm, t.elem, true
}

// textAddrOf: &x / &T{...} where the pointer type is a nil-able pointer to a value (optptr:): Some
// of the value.  &x: the variable must not be assigned after this point (the pointer would see it).
func (c *hctx) textAddrOf(v *ast.UnaryExpr, pre *[]hbind) (string, *hty, bool) {
	if c.g.tx == nil {
		return "", nil, false
	}
	tv, ok := c.g.info.Types[v]
	if !ok {
		return "", nil, false
	}
	pt := c.g.typeOf(tv.Type, v)
	if pt == nil || pt.k != "opt" {
		return "", nil, false
	}
	switch x := ast.Unparen(v.X).(type) {
	case *ast.CompositeLit:
		if pt.elem.k != "struct" {
			break
		}
		c.useStruct(pt.elem.st, v)
		return "(Some " + c.structLit(x, pt.elem, pre) + ")", pt, true
	case *ast.Ident:
		z := c.lookup(x)
		if z == nil || (z.role != "local" && z.role != "param") {
			break
		}
		if o := c.g.info.Uses[x]; o == nil || c.assignedAfter(o, v.End()) {
			c.lostAt(v, "address-of %s: the variable is assigned afterwards (the pointer would see the change)", x.Name)
		}
		return "(Some " + z.name + ")", pt, true
	}
	c.lostAt(v, "address-of %s (a nil-able pointer to a value: only &x of a variable that is not assigned afterwards, or &T{...})", src(v.X))
	return "", nil, false
}

// assignedAfter: the variable (or a field of it) is the target of an assignment at or after pos, or
// anywhere inside a loop that contains pos
func (c *hctx) assignedAfter(o types.Object, pos token.Pos) bool {
	found := false
	root := func(e ast.Expr) *ast.Ident {
		for {
			switch v := ast.Unparen(e).(type) {
			case *ast.Ident:
				return v
			case *ast.SelectorExpr:
				e = v.X
			case *ast.IndexExpr:
				e = v.X
			default:
				return nil
			}
		}
	}
	hit := func(e ast.Expr, at token.Pos, inLoopWithPos bool) {
		if id := root(e); id != nil && c.g.info.Uses[id] == o && (at >= pos || inLoopWithPos) {
			found = true
		}
	}
	var walk func(n ast.Node, inLoop bool)
	walk = func(n ast.Node, inLoop bool) {
		ast.Inspect(n, func(x ast.Node) bool {
			switch v := x.(type) {
			case *ast.ForStmt:
				if x != n {
					walk(v, inLoop || (v.Pos() <= pos && pos <= v.End()))
					return false
				}
			case *ast.RangeStmt:
				if x != n {
					walk(v, inLoop || (v.Pos() <= pos && pos <= v.End()))
					return false
				}
			case *ast.AssignStmt:
				for _, l := range v.Lhs {
					hit(l, v.Pos(), inLoop)
				}
			case *ast.IncDecStmt:
				hit(v.X, v.Pos(), inLoop)
			}
			return true
		})
	}
	walk(c.fn.decl.Body, false)
	return found
}

// textBinary: operators on strings, comparisons of errors and nil-able pointers with nil / a
// package-level error variable
func (c *hctx) textBinary(v *ast.BinaryExpr, x string, xt *hty, y string, yt *hty) (string, *hty, bool) {
	if c.g.tx == nil {
		return "", nil, false
	}
	neg := func(s string) string {
		if v.Op == token.NEQ {
			return "(negb " + s + ")"
		}
		return s
	}
	switch v.Op {
	case token.ADD:
		if xt.k == "str" && yt.k == "str" {
			return "(" + x + " ++ " + y + ")", htStr, true
		}
	case token.EQL, token.NEQ:
		switch {
		case xt.k == "str" && yt.k == "str":
			return neg("(str_eqb " + x + " " + y + ")"), htBool, true
		case xt.k == "err" && isNilExpr(v.Y):
			return neg("(go_xerr_isnil " + x + ")"), htBool, true
		case yt.k == "err" && isNilExpr(v.X):
			return neg("(go_xerr_isnil " + y + ")"), htBool, true
		case xt.k == "opt" && isNilExpr(v.Y):
			return neg("(go_onil " + x + ")"), htBool, true
		case yt.k == "opt" && isNilExpr(v.X):
			return neg("(go_onil " + y + ")"), htBool, true
		case xt.k == "err" && yt.k == "err":
			if n, ok := c.sentinelOf(v.Y); ok {
				return neg("(go_xerr_isvar " + x + " \"" + n + "\")"), htBool, true
			}
			if n, ok := c.sentinelOf(v.X); ok {
				return neg("(go_xerr_isvar " + y + " \"" + n + "\")"), htBool, true
			}
			c.lostAt(v, "comparison of two error values (only with nil or a package-level error variable)")
		}
	}
	return "", nil, false
}

// textExpr: the expression forms the base translation does not know
func (c *hctx) textExpr(e ast.Expr, pre *[]hbind) (string, *hty, bool) {
	if c.g.tx == nil {
		return "", nil, false
	}
	switch v := e.(type) {
	case *ast.SliceExpr:
		tv, ok := c.g.info.Types[v.X]
		if !ok || v.Slice3 {
			return "", nil, false
		}
		if b, isB := tv.Type.Underlying().(*types.Basic); !isB || b.Info()&types.IsString == 0 {
			return "", nil, false
		}
		x, _ := c.expr(v.X, pre)
		if !c.isTmp(x) && !c.isVarName(x) {
			t := c.tmp()
			*pre = append(*pre, hbind{pat: t, e: x, isLet: true})
			x = t
		}
		lo, hi := "0", "(zlen "+x+")"
		if v.Low != nil {
			lo, _ = c.expr(v.Low, pre)
		}
		if v.High != nil {
			hi, _ = c.expr(v.High, pre)
		}
		tm := c.tmp()
		hbindRaw(pre, tm, "go_substr "+x+" "+paren(lo)+" "+paren(hi))
		return tm, htStr, true
	}
	return "", nil, false
}

// textIndex: s[i] on a string: the byte
func (c *hctx) textIndex(v *ast.IndexExpr, pre *[]hbind) (string, *hty, bool) {
	if c.g.tx == nil {
		return "", nil, false
	}
	tv, ok := c.g.info.Types[v.X]
	if !ok {
		return "", nil, false
	}
	if b, isB := tv.Type.Underlying().(*types.Basic); !isB || b.Info()&types.IsString == 0 {
		return "", nil, false
	}
	x, _ := c.expr(v.X, pre)
	i, _ := c.expr(v.Index, pre)
	tm := c.tmp()
	hbindRaw(pre, tm, "go_get "+paren(x)+" "+paren(i))
	return tm, htByte, true
}

// textCompositeLit: T{} of an abstract value type (time.Time{}): its zero value
func (c *hctx) textCompositeLit(v *ast.CompositeLit, t *hty) (string, bool) {
	if c.g.tx != nil && t.k == "elem" && c.g.tx.abstract[t.name] && len(v.Elts) == 0 {
		return c.zeroOf(t, v), true
	}
	return "", false
}

// textNil: nil of the types of this extension
func textNil(t *hty) (string, bool) {
	if t != nil && (t.k == "err" || t.k == "opt") {
		return "None", true
	}
	return "", false
}

// ---------------------------------------------------------------- statements

// textPanic: panic("literal" + e): the literal is the message that is tied; e must be effect-free
func (c *hctx) textPanic(call *ast.CallExpr) (term, bool) {
	if c.g.tx == nil || len(call.Args) != 1 {
		return nil, false
	}
	be, ok := ast.Unparen(call.Args[0]).(*ast.BinaryExpr)
	if !ok || be.Op != token.ADD {
		return nil, false
	}
	tv, ok := c.g.info.Types[be.X]
	if !ok || tv.Value == nil || tv.Value.Kind() != constant.String {
		return nil, false
	}
	m, okS := hCoqString(constant.StringVal(tv.Value))
	if !okS {
		return nil, false
	}
	pure := true
	ast.Inspect(be.Y, func(n ast.Node) bool {
		switch x := n.(type) {
		case *ast.CallExpr:
			if tvf, ok := c.g.info.Types[x.Fun]; !ok || !tvf.IsType() {
				pure = false // only conversions
			}
		case *ast.IndexExpr, *ast.SliceExpr, *ast.StarExpr:
			pure = false
		}
		return true
	})
	if !pure {
		return nil, false
	}
	return tRaw{"Panic (PMsg " + m + ")"}, true
}

// textRangeExpr: for ... := range <a slice-valued expression that is not a variable>: Go evaluates
// the expression once; the elements are read from that slice as the loop goes.  In a function that
// stores nothing into the heap the value is bound to a list of its own first (exact: nothing can
// change the elements meanwhile).
func (c *hctx) textRangeExpr(v *ast.RangeStmt, pre *[]hbind) *hvar {
	if c.g.tx == nil {
		return nil
	}
	if c.fn.writesHeap {
		c.lostAt(v, "range over the expression %s in a function that changes the heap", src(v.X))
	}
	t := c.typeOfExpr(v.X)
	if t.k != "slice" {
		return nil
	}
	if c.synthWin == nil {
		c.synthWin = map[ast.Node]*hvar{}
	}
	w, ok := c.synthWin[v]
	if !ok {
		w = c.newVar("rng", t, "local")
		w.pos = v.Pos()
		c.synthWin[v] = w
	}
	x, _ := c.expr(v.X, pre)
	*pre = append(*pre, hbind{pat: w.name, e: x, isLet: true})
	return w
}

// textPathLvalue: e.X with e a struct-valued variable and X a slice field: e.X = append(e.X, v)
func (c *hctx) textPathLvalue(sel *ast.SelectorExpr) bool {
	if c.g.tx == nil {
		return false
	}
	x := c.structVar(sel.X)
	if x == nil {
		return false
	}
	i := fieldIdx(x.typ.st, sel.Sel.Name)
	return i >= 0 && c.fieldTypes(x.typ)[i].k == "slice"
}

// checkOptStores: nobody stores through a nil-able pointer to a value (p.f = e, *p = e)
func (c *hctx) checkOptStores() {
	if c.g.tx == nil || len(c.g.tx.optPtr) == 0 {
		return
	}
	bad := func(l ast.Expr) {
		switch v := ast.Unparen(l).(type) {
		case *ast.SelectorExpr:
			if tv, ok := c.g.info.Types[v.X]; ok {
				if pt := c.g.typeOf(tv.Type, nil); pt != nil && pt.k == "opt" {
					c.lostAt(l, "store through the pointer %s (declared optptr: a pointer to a value nobody changes)", src(v.X))
				}
			}
		case *ast.StarExpr:
			if tv, ok := c.g.info.Types[v.X]; ok {
				if pt := c.g.typeOf(tv.Type, nil); pt != nil && pt.k == "opt" {
					c.lostAt(l, "store through the pointer %s (declared optptr: a pointer to a value nobody changes)", src(v.X))
				}
			}
		}
	}
	ast.Inspect(c.fn.decl.Body, func(n ast.Node) bool {
		switch v := n.(type) {
		case *ast.AssignStmt:
			for _, l := range v.Lhs {
				bad(l)
			}
		case *ast.IncDecStmt:
			bad(v.X)
		}
		return true
	})
}
