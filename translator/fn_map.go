package main

// Named map types with methods, nil-aware maps, map parameters, iteration over a map with the
// order as an oracle argument, variadic parameters (see notes/fn-translator.md).

import (
	"go/ast"
	"go/token"
	"path/filepath"
	"runtime"
	"strconv"
)

func derefIdent(x ast.Expr) (*ast.Ident, bool) {
	for {
		if p, ok := x.(*ast.ParenExpr); ok {
			x = p.X
		} else if s, ok := x.(*ast.StarExpr); ok {
			x = s.X
		} else {
			break
		}
	}
	id, ok := x.(*ast.Ident)
	return id, ok
}

// namedMapTypeOf: e names (an instance of) a named map type of the file: its map type, with the
// name kept for the resolution of method calls.
func (c *fnCtx) namedMapTypeOf(e ast.Expr) *fnType {
	base, args := baseAndArgs(e)
	id, ok := base.(*ast.Ident)
	if !ok {
		return nil
	}
	ts := c.g.named[id.Name]
	if ts == nil || (id.Obj != nil && id.Obj.Kind != ast.Typ) {
		return nil
	}
	var t *fnType
	c.withTypeArgs(fieldListNames(ts.TypeParams), args, e, func() { t = c.goType(ts.Type) })
	u := *t
	u.name = id.Name
	return &u
}

// foreignNamedMapTypeOf: pkg.Name[args] with Name a named map type of another package of the module.
func (c *fnCtx) foreignNamedMapTypeOf(sel *ast.SelectorExpr, args []ast.Expr) *fnType {
	id, ok := sel.X.(*ast.Ident)
	if !ok || id.Obj != nil {
		return nil
	}
	for _, f := range c.g.foreignFiles(c, id.Name) {
		for _, d := range f.Decls {
			gd, ok := d.(*ast.GenDecl)
			if !ok || gd.Tok != token.TYPE {
				continue
			}
			for _, s := range gd.Specs {
				ts := s.(*ast.TypeSpec)
				if _, isMap := ts.Type.(*ast.MapType); isMap && ts.Name.Name == sel.Sel.Name {
					var t *fnType
					c.withTypeArgs(fieldListNames(ts.TypeParams), args, sel, func() { t = c.goType(ts.Type) })
					u := *t
					u.name = id.Name + "." + sel.Sel.Name
					return &u
				}
			}
		}
	}
	return nil
}

// foreignFiles: the parsed files of the imported package pkg (a package of the module, or of the
// standard library under GOROOT/src); nil if it cannot be found.
func (g *fnGen) foreignFiles(c *fnCtx, pkg string) []*ast.File {
	path := ""
	for _, imp := range g.file.Imports {
		p, err := strconv.Unquote(imp.Path.Value)
		if err != nil {
			continue
		}
		name := filepath.Base(p)
		if len(name) > 1 && name[0] == 'v' && name[1] >= '0' && name[1] <= '9' { // math/rand/v2
			name = filepath.Base(filepath.Dir(p))
		}
		if imp.Name != nil {
			name = imp.Name.Name
		}
		if name == pkg {
			path = p
		}
	}
	if path == "" {
		return nil
	}
	if files, ok := g.foreign[path]; ok {
		return files
	}
	files := g.parseImport(path)
	g.foreign[path] = files
	return files
}

func goroot() string { return runtime.GOROOT() }

// mapParamKind: the type of a parameter or receiver: a map type M, or *M (ptr)
func (c *fnCtx) paramTypeOf(e ast.Expr) (*fnType, bool) {
	if st, ok := e.(*ast.StarExpr); ok {
		t := c.goType(st.X)
		if t.k == "struct" {
			return c.goType(e), false // a pointer to an immutable struct: a value
		}
		if t.k != "map" {
			c.lostAt(e, "type %s", src(e))
		}
		return t, true
	}
	return c.goType(e), false
}

// callArgs: the arguments of a call of the translated function cal, the receiver of a method of a
// named map type first.
func callArgs(cal *fnFunc, v *ast.CallExpr) []ast.Expr {
	if cal.namedRecv {
		if sel, ok := v.Fun.(*ast.SelectorExpr); ok {
			return append([]ast.Expr{sel.X}, v.Args...)
		}
	}
	return v.Args
}

// mapMutations (a scan of the body): the variables (by object) whose map may be changed: stores,
// delete, clear, *x = ..., x = ... and arguments of translated callees that change them; and
// whether anything at all of that kind happens.
func (c *fnCtx) mapMutations(body ast.Node) (map[*ast.Object]bool, bool) {
	mut := map[*ast.Object]bool{}
	any := false
	mark := func(e ast.Expr) {
		any = true
		if ix, ok := e.(*ast.IndexExpr); ok {
			e = ix.X
		}
		if id, ok := derefIdent(e); ok && id.Obj != nil {
			mut[id.Obj] = true
		}
	}
	ast.Inspect(body, func(n ast.Node) bool {
		switch v := n.(type) {
		case *ast.AssignStmt:
			for _, l := range v.Lhs {
				switch l.(type) {
				case *ast.IndexExpr, *ast.StarExpr:
					mark(l)
				}
			}
		case *ast.IncDecStmt:
			if _, ok := v.X.(*ast.IndexExpr); ok {
				mark(v.X)
			}
		case *ast.CallExpr:
			if (isBuiltin(v, "delete", 2) || isBuiltin(v, "clear", 1)) && len(v.Args) > 0 {
				mark(v.Args[0])
			}
			if cal := c.g.calleeOf(c.fn, v); cal != nil {
				for i, a := range callArgs(cal, v) {
					if i < len(cal.params) && cal.params[i].mutated {
						mark(a)
					}
				}
			}
		}
		return true
	})
	return mut, any
}

// computeRetFresh: every map-typed result expression is a new map.
func (c *fnCtx) computeRetFresh(body *ast.BlockStmt) bool {
	var fresh func(e ast.Expr) bool
	localFresh := map[*ast.Object]int{} // 1 only fresh assignments so far, 2 something else
	fresh = func(e ast.Expr) bool {
		switch v := e.(type) {
		case *ast.ParenExpr:
			return fresh(v.X)
		case *ast.CallExpr:
			if id, ok := v.Fun.(*ast.Ident); ok && id.Name == "make" && id.Obj == nil {
				return true
			}
			if sel, ok := v.Fun.(*ast.SelectorExpr); ok {
				if id, ok := sel.X.(*ast.Ident); ok && id.Obj == nil && id.Name == "maps" && sel.Sel.Name == "Clone" {
					return true
				}
			}
			if cal := c.g.calleeOf(c.fn, v); cal != nil {
				return cal.retFresh
			}
		}
		return false
	}
	ast.Inspect(body, func(n ast.Node) bool {
		if as, ok := n.(*ast.AssignStmt); ok && len(as.Lhs) == len(as.Rhs) {
			for i, l := range as.Lhs {
				if id, ok := l.(*ast.Ident); ok && id.Obj != nil && c.vars[id.Obj] != nil && c.vars[id.Obj].role == "local" {
					if fresh(as.Rhs[i]) && localFresh[id.Obj] != 2 {
						localFresh[id.Obj] = 1
					} else {
						localFresh[id.Obj] = 2
					}
				}
			}
		}
		return true
	})
	ok, any := true, false
	ast.Inspect(body, func(n ast.Node) bool {
		if r, isRet := n.(*ast.ReturnStmt); isRet {
			for i, e := range r.Results {
				if len(r.Results) != len(c.fn.results) || c.fn.results[i].k != "map" {
					continue
				}
				any = true
				if fresh(e) {
					continue
				}
				if id, isId := e.(*ast.Ident); isId && id.Obj != nil && localFresh[id.Obj] == 1 {
					continue
				}
				ok = false
			}
		}
		return true
	})
	return ok && any
}

// ---------------------------------------------------------------- nil-aware map operations

func (c *fnCtx) mapOp(t *fnType, op string) string {
	if t.nilable {
		return "go_nmap_" + op
	}
	return "go_map_" + op
}

// asNmap: the map value m of type t as a nil-aware map
func asNmap(t *fnType, m string) string {
	if t.nilable {
		return m
	}
	return "(Some " + m + ")"
}

// ---------------------------------------------------------------- iteration over a map

// rangeMap: for k[, v] := range m.  Go leaves the order unspecified: the order is an ORACLE
// argument ord_<m> (a list of keys), accepted iff it is a duplicate-free enumeration of exactly the
// keys present when the loop starts (go_nmap_order_check, else Panic PBadOrder); a key whose entry
// was deleted before the iteration reaches it is skipped, as the Go specification says.  Creating
// entries in the map inside the loop (unspecified whether they are visited) is lost for direct
// stores and checked after every call that may change the map (go_nmap_nogrow_check).
func (c *fnCtx) rangeMap(v *ast.RangeStmt, t *fnType, k func() term) term {
	if len(c.loops) > 0 {
		c.lostAt(v, "range over a map inside a loop (one iteration order per execution would be needed)")
	}
	xv := c.plainVar(v.X)
	if xv == nil {
		c.lostAt(v, "range over %s (must be a map variable or field)", src(v.X))
	}
	ast.Inspect(v.Body, func(n ast.Node) bool {
		switch s := n.(type) {
		case *ast.AssignStmt:
			for _, l := range s.Lhs {
				if ix, ok := l.(*ast.IndexExpr); ok && c.rootVar(ix.X) == xv {
					c.lostAt(s, "store into %s while it is ranged over (whether a new entry is visited is unspecified)", xv.name)
				}
				if c.plainVar(l) == xv {
					c.lostAt(s, "assignment to %s inside a range over it", xv.name)
				}
			}
		case *ast.CallExpr:
			if isBuiltin(s, "clear", 1) && c.rootVar(s.Args[0]) == xv {
				c.lostAt(s, "clear of %s while it is ranged over", xv.name)
			}
		}
		return true
	})
	eqb := c.mapEqb(t, v)
	ordName := "ord_" + xv.name
	ord := c.extra("ord:"+strconv.Itoa(int(v.Pos())), ordName)
	if ord.typ.name == "?" {
		typ := "list " + parenT(t.key.coq())
		ord.typ = &fnType{k: "raw", name: typ, params: []*fnType{t.key}}
		tset := map[string]bool{}
		t.key.mentionsT(tset)
		c.setExtraType("ord:"+strconv.Itoa(int(v.Pos())), typ, tset)
	}
	var pre []fnBind
	bindRaw(&pre, "_", "go_nmap_order_check "+eqb+" "+asNmap(t, xv.name)+" "+ord.name)
	ls := &loopSpec{node: v, body: v.Body}
	cnt := c.rangeCounter(v)
	cnt.rangeKey = true
	cnt.pos = v.Pos()
	lim := c.rangeLimit(v)
	pre = append(pre, fnBind{pat: lim.name, e: "zlen " + ord.name, isLet: true})
	// the key of this iteration
	var key *fnVar
	if id, ok := v.Key.(*ast.Ident); ok && id.Name != "_" {
		key = c.declare(id, t.key)
	} else {
		if v.Key != nil {
			if id, ok := v.Key.(*ast.Ident); !ok || id.Name != "_" {
				c.lostAt(v, "range key %s", src(v.Key))
			}
		}
		if x, ok := c.synthKey[v]; ok {
			key = x
		} else {
			key = c.newVar("k", t.key, "local")
			key.pos = v.Pos()
			if c.synthKey == nil {
				c.synthKey = map[ast.Node]*fnVar{}
			}
			c.synthKey[v] = key
		}
	}
	key.rangeKey = true
	ls.iterLoc = append(ls.iterLoc, key)
	var val *fnVar
	if id, ok := v.Value.(*ast.Ident); ok && id.Name != "_" {
		val = c.declare(id, t.elem)
		ls.iterLoc = append(ls.iterLoc, val)
	} else if v.Value != nil {
		if id, ok := v.Value.(*ast.Ident); !ok || id.Name != "_" {
			c.lostAt(v, "range value %s", src(v.Value))
		}
	}
	ls.bodyPre = func() []fnBind {
		return []fnBind{{pat: key.name, m: tRaw{"go_get " + ord.name + " " + cnt.name}}}
	}
	// an entry removed before it is reached is not produced
	ls.skip = "negb (go_nmap_has " + eqb + " " + asNmap(t, xv.name) + " " + key.name + ")"
	if val != nil {
		zero := c.zeroOf(t.elem, v)
		for _, z := range zeroNeeds(t.elem) {
			ls.extraR = append(ls.extraR, c.zeroVar(z))
		}
		ls.afterSkip = []fnBind{{pat: val.name, e: c.mapOp(t, "get1") + " " + eqb + " " + paren(zero) + " " + xv.name + " " + key.name, isLet: true}}
	}
	ls.ranged = xv
	pre = append(pre, fnBind{pat: cnt.name, e: "0", isLet: true})
	ls.cond = func(pre *[]fnBind) string { return "(" + cnt.name + " <? " + lim.name + ")" }
	ls.post = func(k func() term) term { return tLet{cnt.name, cnt.name + " + 1", k()} }
	ls.extraW = []*fnVar{cnt}
	ls.extraR = append(ls.extraR, lim, cnt, ord, xv, c.mapEqbVar(t))
	return wrap(pre, c.loop(ls, k))
}

// nogrowCheck: after a call that may change the map being ranged over: no entry was created
func (c *fnCtx) nogrowCheck(pre *[]fnBind, before string) {
	for _, lc := range c.loops {
		if lc.ranged != nil && before != "" {
			eqb := c.mapEqb(lc.ranged.typ, nil)
			bindRaw(pre, "_", "go_nmap_nogrow_check "+eqb+" "+asNmap(lc.ranged.typ, before)+" "+asNmap(lc.ranged.typ, lc.ranged.name))
		}
	}
}

// rangedSnapshot: if x is a map being ranged over by an enclosing loop, bind its current value
// (for the check after the call that may change it)
func (c *fnCtx) rangedSnapshot(pre *[]fnBind, x *fnVar) string {
	for _, lc := range c.loops {
		if lc.ranged != nil && lc.ranged == x {
			t := c.tmp()
			*pre = append(*pre, fnBind{pat: t, e: x.name, isLet: true})
			return t
		}
	}
	return ""
}

// makeMapType: call is make(M[, hint]) with M a map type: the type (the hint must be effect-free;
// it has no effect on the value); nil if call makes something else.
func (c *fnCtx) makeMapType(call *ast.CallExpr, pre *[]fnBind) *fnType {
	if len(call.Args) < 1 || len(call.Args) > 2 {
		return nil
	}
	switch call.Args[0].(type) {
	case *ast.ArrayType, *ast.ChanType:
		return nil
	}
	t := c.goType(call.Args[0])
	if t.k != "map" {
		return nil
	}
	if len(call.Args) == 2 {
		var hp []fnBind
		if _, ht := c.expr(call.Args[1], &hp); len(hp) != 0 || !ht.isNum() {
			c.lostAt(call, "size hint %s of make (must be effect-free)", src(call.Args[1]))
		}
	}
	return t
}

// mapAssignCheck: a map value may be stored in a variable if it is a new map (make, maps.Clone,
// a call whose result is always a new map, nil), or -- a read-only alias -- if the function changes
// no map at all.
func (c *fnCtx) mapAssignCheck(st ast.Node, r ast.Expr) {
	switch v := r.(type) {
	case *ast.ParenExpr:
		c.mapAssignCheck(st, v.X)
		return
	case *ast.Ident:
		if v.Name == "nil" && v.Obj == nil {
			return
		}
	case *ast.CallExpr:
		if id, ok := v.Fun.(*ast.Ident); ok && id.Name == "make" && id.Obj == nil {
			return
		}
		if sel, ok := v.Fun.(*ast.SelectorExpr); ok {
			if id, ok := sel.X.(*ast.Ident); ok && id.Obj == nil && id.Name == "maps" && sel.Sel.Name == "Clone" {
				return
			}
		}
		if cal := c.g.calleeOf(c.fn, v); cal != nil && cal.retFresh {
			return
		}
		c.lostAt(st, "assignment of the map returned by %s (it may be one of its arguments: aliasing)", src(v.Fun))
	}
	if c.noMapMut {
		return
	}
	// a read-only alias: neither the variable read from nor (see the callers) the one assigned
	// is ever changed in this function
	root := r
	if ix, ok := root.(*ast.IndexExpr); ok {
		root = ix.X
	}
	if id, ok := derefIdent(root); ok && id.Obj != nil && !c.mapMut[id.Obj] {
		ok2 := true
		if as, isAs := st.(*ast.AssignStmt); isAs {
			for _, l := range as.Lhs {
				if lid, isId := derefIdent(l); isId && lid.Obj != nil && c.mapMut[lid.Obj] {
					ok2 = false
				}
			}
		}
		if ok2 {
			return
		}
	}
	c.lostAt(st, "assignment of the map value %s where one of the two variables is changed later (aliasing)", src(r))
}

// asNmapTo: the map value y of type from handed to a parameter of type to
func asNmapTo(to, from *fnType, y string) string {
	if to.nilable && !from.nilable {
		return "Some " + y
	}
	return y
}

// zeroVar: the argument zero_<T> (created when first needed)
func (c *fnCtx) zeroVar(z string) *fnVar {
	if v := c.zeros[z]; v != nil {
		return v
	}
	zt := c.elemT[z]
	if zt == nil {
		zt = &fnType{k: "elem", name: z}
	}
	v := c.newVar("zero_"+z, zt, "zero")
	c.zeros[z] = v
	if c.zero == nil {
		c.zero = v
		c.fn.zeroType = z
	}
	c.fn.zeroTypes = append(c.fn.zeroTypes, z)
	c.fn.needZero = true
	return v
}

// calleeSubst: the type parameters of the translated callee that are instantiated differently
// from their own name at this call, found from the map-typed arguments that are plain variables
// (m.Add(x) with m a Set[U]: T := U).  Empty when the caller uses the callee's names.
func (c *fnCtx) calleeSubst(cal *fnFunc, v *ast.CallExpr) map[string]*fnType {
	sub := map[string]*fnType{}
	for i, a := range callArgs(cal, v) {
		if i >= len(cal.params) || cal.params[i].v == nil || cal.params[i].v.typ.k != "map" {
			continue
		}
		x := c.plainVar(a)
		if x == nil || x.typ.k != "map" {
			continue
		}
		unifyT(cal.params[i].v.typ.key, x.typ.key, sub)
		unifyT(cal.params[i].v.typ.elem, x.typ.elem, sub)
	}
	for n, t := range sub {
		if t.k == "elem" && t.name == n {
			delete(sub, n)
		}
	}
	return sub
}

func unifyT(p, a *fnType, sub map[string]*fnType) {
	if p == nil || a == nil {
		return
	}
	if p.k == "elem" {
		if _, ok := sub[p.name]; !ok {
			sub[p.name] = a
		}
		return
	}
	if p.k != a.k {
		return
	}
	unifyT(p.elem, a.elem, sub)
	unifyT(p.key, a.key, sub)
	for i := range p.params {
		if i < len(a.params) {
			unifyT(p.params[i], a.params[i], sub)
		}
	}
}

func substT(t *fnType, sub map[string]*fnType) *fnType {
	if t.k == "elem" {
		if a, ok := sub[t.name]; ok {
			return a
		}
	}
	return t
}

// the integer limits of package math (sized types only: MaxInt/MaxUint depend on the platform)
var mathConsts = map[string]string{
	"MaxUint64": "18446744073709551615", "MaxInt64": "9223372036854775807", "MinInt64": "(-9223372036854775808)",
	"MaxUint32": "4294967295", "MaxInt32": "2147483647", "MinInt32": "(-2147483648)",
	"MaxUint16": "65535", "MaxInt16": "32767", "MinInt16": "(-32768)",
	"MaxUint8": "255", "MaxInt8": "127", "MinInt8": "(-128)",
}

// rangeWindow: `for ... := range xs[lo:hi]` over a window of a list-represented slice variable
// the body does not store into: the window is bound to a list of its own (go_sub).
func (c *fnCtx) rangeWindow(v *ast.RangeStmt, pre *[]fnBind) *fnVar {
	se, ok := v.X.(*ast.SliceExpr)
	if !ok || se.Slice3 {
		return nil
	}
	base := c.plainVar(se.X)
	if base == nil || base.typ.k != "slice" || base.noElems || base.typ.elem.k == "slice" {
		return nil
	}
	ast.Inspect(v.Body, func(n ast.Node) bool {
		if as, ok := n.(*ast.AssignStmt); ok {
			for _, l := range as.Lhs {
				if c.rootVar(l) == base {
					c.lostAt(as, "store into %s inside a range over a window of it", base.name)
				}
			}
		}
		return true
	})
	lo, hi := "0", "(zlen "+base.name+")"
	if se.Low != nil {
		lo, _ = c.expr(se.Low, pre)
	}
	if se.High != nil {
		hi, _ = c.expr(se.High, pre)
	}
	w, ok := c.synthWin[v]
	if !ok {
		w = c.newVar("win", base.typ, "local")
		w.pos = v.Pos()
		if c.synthWin == nil {
			c.synthWin = map[ast.Node]*fnVar{}
		}
		c.synthWin[v] = w
	}
	bindRaw(pre, w.name, "go_sub "+base.name+" "+paren(lo)+" "+paren(hi))
	return w
}

// desugarLabels rewrites, in place and once per function,
//
//	L: for ... { ...; for ... { ... continue L ... }; rest }
//
// into
//
//	for ... { ...; cont_L := false; for ... { ... { cont_L = true; break } ... }; if cont_L { continue }; rest }
//
// (likewise `break L`, and `continue L`/`break L` directly in the body of the labelled loop).  A label
// used in any other way stays, and the function is lost.
func (g *fnGen) desugarLabels(fd *ast.FuncDecl) {
	if g.desugared == nil {
		g.desugared = map[*ast.FuncDecl]bool{}
	}
	if g.desugared[fd] || fd.Body == nil {
		return
	}
	g.desugared[fd] = true
	var doBlock func(b *ast.BlockStmt)
	doBlock = func(b *ast.BlockStmt) {
		for i, s := range b.List {
			if ls, ok := s.(*ast.LabeledStmt); ok {
				if r := desugarLabel(ls); r != nil {
					b.List[i] = r
				}
			}
		}
		for _, s := range b.List {
			ast.Inspect(s, func(n ast.Node) bool {
				if bb, ok := n.(*ast.BlockStmt); ok {
					doBlock(bb)
					return false
				}
				return true
			})
		}
	}
	doBlock(fd.Body)
}

func loopBody(s ast.Node) *ast.BlockStmt {
	switch v := s.(type) {
	case *ast.ForStmt:
		return v.Body
	case *ast.RangeStmt:
		return v.Body
	}
	return nil
}

func desugarLabel(ls *ast.LabeledStmt) ast.Stmt {
	body := loopBody(ls.Stmt)
	if body == nil {
		return nil
	}
	label := ls.Label.Name
	ok := true
	var newList []ast.Stmt
	// uses outside every inner loop become a plain continue/break
	var plain func(n ast.Node, inLoop bool)
	plain = func(n ast.Node, inLoop bool) {
		ast.Inspect(n, func(x ast.Node) bool {
			if x == nil {
				return false
			}
			if lb := loopBody(x); lb != nil && x != n {
				plain(lb, true)
				return false
			}
			switch v := x.(type) {
			case *ast.SwitchStmt, *ast.SelectStmt, *ast.TypeSwitchStmt:
				ast.Inspect(v, func(y ast.Node) bool {
					if br, isBr := y.(*ast.BranchStmt); isBr && br.Label != nil && br.Label.Name == label {
						ok = false
					}
					return true
				})
				return false
			case *ast.BranchStmt:
				if v.Label != nil && v.Label.Name == label {
					if inLoop || (v.Tok != token.CONTINUE && v.Tok != token.BREAK) {
						ok = false
					} else {
						v.Label = nil
					}
				}
			}
			return true
		})
	}
	for _, s := range body.List {
		inner := loopBody(s)
		if inner == nil {
			plain(s, false)
			newList = append(newList, s)
			continue
		}
		// an inner loop: uses of the label directly in its body become { flag = true; break }
		var conts, brks []*ast.BranchStmt
		var scan func(n ast.Node, depth int)
		scan = func(n ast.Node, depth int) {
			ast.Inspect(n, func(x ast.Node) bool {
				if x == nil {
					return false
				}
				if lb := loopBody(x); lb != nil && x != n {
					scan(lb, depth+1)
					return false
				}
				switch v := x.(type) {
				case *ast.SwitchStmt, *ast.SelectStmt, *ast.TypeSwitchStmt:
					ast.Inspect(v, func(y ast.Node) bool {
						if br, isBr := y.(*ast.BranchStmt); isBr && br.Label != nil && br.Label.Name == label {
							ok = false
						}
						return true
					})
					return false
				case *ast.BranchStmt:
					if v.Label != nil && v.Label.Name == label {
						if depth > 0 {
							ok = false
						} else if v.Tok == token.CONTINUE {
							conts = append(conts, v)
						} else if v.Tok == token.BREAK {
							brks = append(brks, v)
						} else {
							ok = false
						}
					}
				}
				return true
			})
		}
		scan(inner, 0)
		var after []ast.Stmt
		mk := func(name string, uses []*ast.BranchStmt, tok token.Token) {
			if len(uses) == 0 {
				return
			}
			obj := ast.NewObj(ast.Var, name)
			id := func(pos token.Pos) *ast.Ident { return &ast.Ident{NamePos: pos, Name: name, Obj: obj} }
			decl := &ast.AssignStmt{Lhs: []ast.Expr{id(s.Pos() - 1)}, TokPos: s.Pos() - 1, Tok: token.DEFINE, Rhs: []ast.Expr{&ast.Ident{NamePos: s.Pos() - 1, Name: "false"}}}
			obj.Decl = decl
			newList = append(newList, decl)
			for _, u := range uses {
				replaceStmt(inner, u, &ast.BlockStmt{Lbrace: u.Pos(), List: []ast.Stmt{
					&ast.AssignStmt{Lhs: []ast.Expr{id(u.Pos())}, TokPos: u.Pos(), Tok: token.ASSIGN, Rhs: []ast.Expr{&ast.Ident{NamePos: u.Pos(), Name: "true"}}},
					&ast.BranchStmt{TokPos: u.Pos(), Tok: token.BREAK},
				}, Rbrace: u.End()})
			}
			after = append(after, &ast.IfStmt{If: s.End(), Cond: id(s.End()),
				Body: &ast.BlockStmt{Lbrace: s.End(), List: []ast.Stmt{&ast.BranchStmt{TokPos: s.End(), Tok: tok}}, Rbrace: s.End()}})
		}
		mk("cont_"+label, conts, token.CONTINUE)
		mk("brk_"+label, brks, token.BREAK)
		newList = append(newList, s)
		newList = append(newList, after...)
	}
	if !ok {
		return nil
	}
	body.List = newList
	return ls.Stmt
}

// replaceStmt replaces the statement old by new in whatever block of n it sits in
func replaceStmt(n ast.Node, old, new ast.Stmt) {
	ast.Inspect(n, func(x ast.Node) bool {
		if b, ok := x.(*ast.BlockStmt); ok {
			for i, s := range b.List {
				if s == old {
					b.List[i] = new
				}
			}
		}
		return true
	})
}

// ---------------------------------------------------------------- words inside a byte slice

// wordPtrExpr: (*uint64)(unsafe.Pointer(&data[i])) -> data[i]
func wordPtrExpr(e ast.Expr) *ast.IndexExpr {
	call, ok := e.(*ast.CallExpr)
	if !ok || len(call.Args) != 1 {
		return nil
	}
	p, ok := call.Fun.(*ast.ParenExpr)
	if !ok {
		return nil
	}
	st, ok := p.X.(*ast.StarExpr)
	if !ok {
		return nil
	}
	if id, ok := st.X.(*ast.Ident); !ok || id.Name != "uint64" || id.Obj != nil {
		return nil
	}
	up, ok := call.Args[0].(*ast.CallExpr)
	if !ok || len(up.Args) != 1 {
		return nil
	}
	sel, ok := up.Fun.(*ast.SelectorExpr)
	if !ok || sel.Sel.Name != "Pointer" {
		return nil
	}
	if id, ok := sel.X.(*ast.Ident); !ok || id.Name != "unsafe" || id.Obj != nil {
		return nil
	}
	u, ok := up.Args[0].(*ast.UnaryExpr)
	if !ok || u.Op != token.AND {
		return nil
	}
	ix, _ := u.X.(*ast.IndexExpr)
	return ix
}

// findWordPtrs: the locals declared as v := (*uint64)(unsafe.Pointer(&data[i])).  Such a v may
// only be dereferenced (*v, *v = e), and data must not be assigned as a whole in the function.
func (c *fnCtx) findWordPtrs(fd *ast.FuncDecl) {
	c.wordPtrDecl, c.wordPtrIdx = map[*ast.Object]*ast.IndexExpr{}, map[*ast.Object]string{}
	ast.Inspect(fd.Body, func(n ast.Node) bool {
		if as, ok := n.(*ast.AssignStmt); ok && as.Tok == token.DEFINE && len(as.Lhs) == 1 && len(as.Rhs) == 1 {
			if id, ok := as.Lhs[0].(*ast.Ident); ok && id.Obj != nil {
				if ix := wordPtrExpr(as.Rhs[0]); ix != nil {
					c.wordPtrDecl[id.Obj] = ix
				}
			}
		}
		return true
	})
	if len(c.wordPtrDecl) == 0 {
		return
	}
	isPtr := func(e ast.Expr) bool {
		id, ok := e.(*ast.Ident)
		return ok && id.Obj != nil && c.wordPtrDecl[id.Obj] != nil
	}
	var walk func(n ast.Node)
	walk = func(n ast.Node) {
		ast.Inspect(n, func(x ast.Node) bool {
			switch v := x.(type) {
			case *ast.StarExpr:
				if isPtr(v.X) {
					return false // *v
				}
			case *ast.AssignStmt:
				for i, l := range v.Lhs {
					if isPtr(l) {
						if v.Tok != token.DEFINE || i >= len(v.Rhs) || wordPtrExpr(v.Rhs[i]) == nil {
							c.lostAt(v, "assignment to the word pointer %s", src(l))
						}
						continue
					}
					for _, ix := range c.wordPtrDecl {
						if src(l) == src(ix.X) {
							c.lostAt(v, "assignment to %s, into which a word pointer is taken", src(l))
						}
					}
					walk(l)
				}
				for _, r := range v.Rhs {
					walk(r)
				}
				return false
			case *ast.Ident:
				if isPtr(v) {
					c.lostAt(v, "word pointer %s used as a value", v.Name)
				}
			}
			return true
		})
	}
	walk(fd.Body)
}

// wordTarget: e is *(*uint64)(unsafe.Pointer(&data[i])) or *v for a word pointer v: data[i]
func (c *fnCtx) wordTarget(e ast.Expr) *ast.IndexExpr {
	st, ok := e.(*ast.StarExpr)
	if !ok {
		return nil
	}
	if ix := wordPtrExpr(st.X); ix != nil {
		return ix
	}
	if id, ok := st.X.(*ast.Ident); ok && id.Obj != nil && c.wordPtrDecl != nil {
		return c.wordPtrDecl[id.Obj]
	}
	return nil
}

// wordAccess: the byte list and the index of a word access (the index evaluated now for the
// direct form, the one frozen at its declaration for a word pointer)
func (c *fnCtx) wordAccess(e ast.Expr, ix *ast.IndexExpr, pre *[]fnBind) (*fnVar, string) {
	x := c.plainVar(ix.X)
	if x == nil || x.typ.k != "slice" || x.typ.elem.k != "byte" || x.noElems {
		c.lostAt(e, "word access into %s (must be a list-represented []byte variable)", src(ix.X))
	}
	st := e.(*ast.StarExpr)
	if id, ok := st.X.(*ast.Ident); ok && id.Obj != nil {
		idx, ok := c.wordPtrIdx[id.Obj]
		if !ok {
			c.lostAt(e, "word pointer %s used before it is set", id.Name)
		}
		return x, idx
	}
	idx, _ := c.expr(ix.Index, pre)
	return x, idx
}
