package main

import (
	"fmt"
	"go/ast"
	"sort"
	"strconv"
	"strings"
)

// ---- cache/cache.go: the locking shape of every method of Cache (special generator "cachelocks")
//
// For every method with receiver Cache that touches the receiver at all, the generator walks the
// TOP-LEVEL statements of the body, following the state of the struct's one mutex field
// (Unl = not held, Excl = Lock, Shar = RLock), and emits the list of parts the method consists of:
//
//	Body m        one or more consecutive statements that use a field of the receiver (other than
//	              the mutex), executed while the mutex is held in mode m
//	CallSelf m f  a call of (or reference to) method f of the same receiver, made in mode m - before
//	              the Lock it makes the method two critical sections, under the Lock it self-deadlocks
//	Odd "why"     anything this walk does not understand and therefore must not be taken for a
//	              critical section: the mutex used inside a nested statement or closure, TryLock, an
//	              explicit Unlock after a deferred one, Lock while holding, a go statement, the
//	              receiver passed on as a value, returning with the mutex held
//
// A method is ATOMIC iff its list is exactly [Body Excl]: first "recv.mu.Lock()", then
// "defer recv.mu.Unlock()", and every statement that touches the receiver after them.  (Whether a
// [Body Shar] method is acceptable depends on its being read-only, which Coq decides on the model.)
// The decision is taken in Coq (Cache/ConcCache.v); here only the facts are produced.

type lockPart struct {
	kind, mode, arg string
}

func (p lockPart) coq() string {
	switch p.kind {
	case "Body":
		return "Body " + p.mode
	case "CallSelf":
		return fmt.Sprintf("CallSelf %s %s", p.mode, strconv.Quote(p.arg))
	}
	return "Odd " + strconv.Quote(p.arg)
}

func recvBase(fd *ast.FuncDecl) string {
	if fd.Recv == nil || len(fd.Recv.List) != 1 {
		return ""
	}
	t := fd.Recv.List[0].Type
	for {
		switch v := t.(type) {
		case *ast.StarExpr:
			t = v.X
			continue
		case *ast.IndexExpr:
			t = v.X
			continue
		case *ast.IndexListExpr:
			t = v.X
			continue
		case *ast.ParenExpr:
			t = v.X
			continue
		}
		break
	}
	if id, ok := t.(*ast.Ident); ok {
		return id.Name
	}
	return ""
}

func cacheLocks(f *ast.File) string {
	const typeName = "Cache"
	// the struct and its mutex field
	muName, muType := "", ""
	for _, d := range f.Decls {
		gd, ok := d.(*ast.GenDecl)
		if !ok {
			continue
		}
		for _, s := range gd.Specs {
			ts, ok := s.(*ast.TypeSpec)
			if !ok || ts.Name.Name != typeName {
				continue
			}
			st, ok := ts.Type.(*ast.StructType)
			if !ok {
				fail("type %s is not a struct", typeName)
			}
			for _, fld := range st.Fields.List {
				t := strings.TrimPrefix(src(fld.Type), "*")
				if t == "sync.Mutex" || t == "sync.RWMutex" {
					if muName != "" || len(fld.Names) != 1 {
						fail("type %s: more than one mutex field", typeName)
					}
					muName, muType = fld.Names[0].Name, src(fld.Type)
				}
			}
		}
	}
	if muName == "" {
		fail("type %s has no sync.Mutex / sync.RWMutex field", typeName)
	}
	// the methods of the type
	methods := map[string]bool{}
	for _, d := range f.Decls {
		if fd, ok := d.(*ast.FuncDecl); ok && recvBase(fd) == typeName {
			methods[fd.Name.Name] = true
		}
	}
	type m struct {
		name  string
		parts []lockPart
	}
	var ms []m
	for _, d := range f.Decls {
		fd, ok := d.(*ast.FuncDecl)
		if !ok || fd.Body == nil || recvBase(fd) != typeName {
			continue
		}
		recv := ""
		if len(fd.Recv.List[0].Names) == 1 {
			recv = fd.Recv.List[0].Names[0].Name
		}
		if recv == "" || recv == "_" {
			continue // cannot touch the receiver
		}
		// mutexCall: is e the call recv.mu.X()?  returns X
		mutexCall := func(e ast.Expr) string {
			ce, ok := e.(*ast.CallExpr)
			if !ok || len(ce.Args) != 0 {
				return ""
			}
			se, ok := ce.Fun.(*ast.SelectorExpr)
			if !ok {
				return ""
			}
			if src(se.X) == recv+"."+muName {
				return se.Sel.Name
			}
			return ""
		}
		var parts []lockPart
		add := func(p lockPart) {
			if n := len(parts); n > 0 && p.kind == "Body" && parts[n-1] == p {
				return
			}
			parts = append(parts, p)
		}
		held, deferred := "Unl", false
		for _, s := range fd.Body.List {
			if es, ok := s.(*ast.ExprStmt); ok {
				if x := mutexCall(es.X); x != "" {
					switch x {
					case "Lock", "RLock":
						if held != "Unl" {
							add(lockPart{"Odd", "", x + " while the mutex is held"})
						}
						held = map[string]string{"Lock": "Excl", "RLock": "Shar"}[x]
					case "Unlock", "RUnlock":
						want := map[string]string{"Unlock": "Excl", "RUnlock": "Shar"}[x]
						if held != want {
							add(lockPart{"Odd", "", x + " without the matching lock"})
						} else if deferred {
							add(lockPart{"Odd", "", "explicit " + x + " although the release is deferred"})
						}
						held = "Unl"
					default:
						add(lockPart{"Odd", "", "mutex method " + x})
					}
					continue
				}
			}
			if ds, ok := s.(*ast.DeferStmt); ok {
				if x := mutexCall(ds.Call); x != "" {
					okRel := (x == "Unlock" && held == "Excl") || (x == "RUnlock" && held == "Shar")
					if !okRel || deferred {
						add(lockPart{"Odd", "", "defer " + x + " without the matching lock"})
					}
					deferred = true
					continue
				}
			}
			// a general statement
			usesMu, touches, escapes, spawns := false, false, false, false
			var self []string
			accounted := map[*ast.Ident]bool{}
			ast.Inspect(s, func(n ast.Node) bool {
				switch v := n.(type) {
				case *ast.GoStmt:
					spawns = true
				case *ast.BinaryExpr:
					// a comparison of the receiver with nil uses no field and passes nothing on
					for _, pair := range [][2]ast.Expr{{v.X, v.Y}, {v.Y, v.X}} {
						if id, ok := pair[0].(*ast.Ident); ok && id.Name == recv && src(pair[1]) == "nil" {
							accounted[id] = true
						}
					}
				case *ast.SelectorExpr:
					if id, ok := v.X.(*ast.Ident); ok && id.Name == recv {
						accounted[id] = true
						switch {
						case v.Sel.Name == muName:
							usesMu = true
						case methods[v.Sel.Name]:
							self = append(self, v.Sel.Name)
						default:
							touches = true
						}
					}
				case *ast.Ident:
					if v.Name == recv && !accounted[v] {
						escapes = true
					}
				}
				return true
			})
			if usesMu {
				add(lockPart{"Odd", "", "the mutex is used inside a statement: " + firstLine(src(s))})
			}
			if spawns {
				add(lockPart{"Odd", "", "go statement: " + firstLine(src(s))})
			}
			if escapes {
				add(lockPart{"Odd", "", "the receiver is passed on: " + firstLine(src(s))})
			}
			for _, c := range self {
				add(lockPart{"CallSelf", held, c})
			}
			if touches {
				add(lockPart{"Body", held, ""})
			}
		}
		if held != "Unl" && !deferred {
			add(lockPart{"Odd", "", "returns with the mutex held"})
		}
		if len(parts) > 0 {
			ms = append(ms, m{fd.Name.Name, parts})
		}
	}
	if len(ms) == 0 {
		fail("no %s methods found", typeName)
	}
	sort.Slice(ms, func(i, j int) bool { return ms[i].name < ms[j].name })
	var b strings.Builder
	b.WriteString("From Coq Require Import String.\nFrom Mds Require Import Cache.ConcShape.\nLocal Open Scope string_scope.\n\n")
	fmt.Fprintf(&b, "(* the type of the one mutex field of %s (field %s) *)\n", typeName, muName)
	fmt.Fprintf(&b, "Definition cache_mutex_type : string := %s.\n\n", strconv.Quote(muType))
	b.WriteString("(* every method of Cache that touches the receiver, and the parts its body consists of, in order\n")
	b.WriteString("   (Body m = statements using the receiver's fields with the mutex held in mode m; CallSelf m f =\n")
	b.WriteString("   a call of method f of the same receiver in mode m; Odd = not understood).  Atomic = [Body Excl]. *)\n")
	b.WriteString("Definition cache_methods : list (string * list part) :=\n  [")
	for i, x := range ms {
		if i > 0 {
			b.WriteString(";\n   ")
		}
		var ps []string
		for _, p := range x.parts {
			ps = append(ps, p.coq())
		}
		fmt.Fprintf(&b, "(\"%s\", [%s])", x.name, strings.Join(ps, "; "))
	}
	b.WriteString("].\n")
	return b.String()
}

func firstLine(s string) string {
	if i := strings.IndexByte(s, '\n'); i >= 0 {
		s = s[:i]
	}
	s = strings.ReplaceAll(s, "\"", "'")
	if len(s) > 60 {
		s = s[:60]
	}
	return s
}
