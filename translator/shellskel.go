package main

// shell/shell.go: the control skeleton of Scanner.Next/Rest/Reset, Split, quotable, Quote, quote
// and Join, read from the AST by a small symbolic interpreter and printed as Gallina facts that
// coq/Shell/ShellModel.v is written over (appended to Gen/ShellTable.v by shellTable).
//
// What is *evaluated* (so that a changed statement changes the generated definition and breaks a
// lemma of coq/Shell/ShellSkel.v at make):
//   - the body of every case of Next's action switch  -> apply_action
//   - which of the latch test, cur.Reset() and s.err = err Next performs -> next_* booleans
//   - the statements of Rest and Reset                -> rest_*, reset_* booleans
//   - that Split resets the pooled scanner            -> split_resets
//   - the if-chain of quotable                        -> quotable_char, quotable_set, quotable_step
//   - the guards that open Quote and quote, in order  -> Quote_head, quote_head
//   - the body of quote's loop and what follows it    -> quote_inq0, quote_step, quote_end
//   - the separator Join writes                       -> join_sep
// What is only *compared with the expected text* (a change there makes the generator fail, which
// the check reports as a lost anchor, and the model of the unchanged source keeps being replayed
// against the changed package): the loop head of Next (ReadByte, the io.EOF test, the table
// lookup update[s.st][classOf[c]], s.st = next.state), the pool/buffer statements of Split,
// Quote and Join, the loop heads of quotable and quote, quotable's constants and return.

import (
	"fmt"
	"go/ast"
	"go/constant"
	"go/token"
	"sort"
	"strconv"
	"strings"
)

// a byte written to a buffer: a literal, the loop's byte variable, or (str) the whole string argument
type sbyte struct {
	lit int
	v   bool
	str bool
}

// sfail is fail with the characters that would open a string or a nested comment inside the Coq
// comment the message ends up in ("(* LOST: ... *)") replaced.
func sfail(format string, args ...any) {
	msg := fmt.Sprintf(format, args...)
	msg = strings.NewReplacer("\"", "'", "(*", "( *", "*)", "* )").Replace(msg)
	fail("%s", msg)
}

type interp struct {
	bools   map[string]bool // boolean variables and atomic conditions, by printed source
	byteVar string          // printed source of the byte being looked at ("c", "ch", "s[i]")
	byteLit int             // the literal the byte equals among those it is compared with; -1 = none
	writers map[string]bool // printed receivers whose Write* calls are recorded
	strVar  string          // the string parameter, for WriteString(s) / return s
	out     []sbyte
	term    string // "", continue, break, return, return:true, return:false, return:bytes, panic
	ret     []sbyte
	ors     map[string]bool // v |= NAME
	stopAt  func(ast.Stmt) bool
	stopped ast.Stmt
}

func charLit(e ast.Expr) (int, bool) {
	bl, ok := e.(*ast.BasicLit)
	if !ok || (bl.Kind != token.CHAR && bl.Kind != token.INT) {
		return 0, false
	}
	c := constant.MakeFromLiteral(bl.Value, bl.Kind, 0)
	n, ok := constant.Int64Val(constant.ToInt(c))
	if !ok || n < 0 || n > 255 {
		return 0, false
	}
	return int(n), true
}

// literals the byte variable is compared with anywhere under n
func comparedLits(n ast.Node, byteVar string) []int {
	seen := map[int]bool{}
	ast.Inspect(n, func(x ast.Node) bool {
		if be, ok := x.(*ast.BinaryExpr); ok && (be.Op == token.EQL || be.Op == token.NEQ) {
			if src(be.X) == byteVar {
				if v, ok := charLit(be.Y); ok {
					seen[v] = true
				}
			} else if src(be.Y) == byteVar {
				if v, ok := charLit(be.X); ok {
					seen[v] = true
				}
			}
		}
		return true
	})
	var out []int
	for v := range seen {
		out = append(out, v)
	}
	sort.Ints(out)
	return out
}

func (p *interp) cond(e ast.Expr) bool {
	if v, ok := p.bools[src(e)]; ok {
		return v
	}
	switch v := e.(type) {
	case *ast.ParenExpr:
		return p.cond(v.X)
	case *ast.Ident:
		if v.Name == "true" {
			return true
		}
		if v.Name == "false" {
			return false
		}
	case *ast.UnaryExpr:
		if v.Op == token.NOT {
			return !p.cond(v.X)
		}
	case *ast.BinaryExpr:
		switch v.Op {
		case token.LAND:
			return p.cond(v.X) && p.cond(v.Y)
		case token.LOR:
			return p.cond(v.X) || p.cond(v.Y)
		case token.EQL, token.NEQ:
			lit, ok := -1, false
			if p.byteVar != "" && src(v.X) == p.byteVar {
				lit, ok = charLit(v.Y)
			} else if p.byteVar != "" && src(v.Y) == p.byteVar {
				lit, ok = charLit(v.X)
			}
			if ok {
				return (p.byteLit == lit) == (v.Op == token.EQL)
			}
		}
	}
	sfail("skeleton: cannot evaluate condition %s", src(e))
	return false
}

func (p *interp) byteExpr(e ast.Expr) sbyte {
	if p.byteVar != "" && src(e) == p.byteVar {
		return sbyte{v: true}
	}
	if v, ok := charLit(e); ok {
		return sbyte{lit: v}
	}
	sfail("skeleton: not a byte expression: %s", src(e))
	return sbyte{}
}

func (p *interp) stringBytes(e ast.Expr) []sbyte {
	if id, ok := e.(*ast.Ident); ok && p.strVar != "" && id.Name == p.strVar {
		return []sbyte{{str: true}}
	}
	if bl, ok := e.(*ast.BasicLit); ok && bl.Kind == token.STRING {
		s, err := strconv.Unquote(bl.Value)
		if err != nil {
			sfail("skeleton: unquote %s", bl.Value)
		}
		out := []sbyte{}
		for _, c := range []byte(s) {
			out = append(out, sbyte{lit: int(c)})
		}
		return out
	}
	sfail("skeleton: not a string literal or the string argument: %s", src(e))
	return nil
}

func (p *interp) exec(list []ast.Stmt) {
	for _, st := range list {
		if p.term != "" || p.stopped != nil {
			return
		}
		if p.stopAt != nil && p.stopAt(st) {
			p.stopped = st
			return
		}
		p.stmt(st)
	}
}

func (p *interp) stmt(st ast.Stmt) {
	switch s := st.(type) {
	case *ast.BlockStmt:
		p.exec(s.List)
	case *ast.IfStmt:
		if s.Init != nil {
			p.stmt(s.Init)
		}
		if p.cond(s.Cond) {
			p.exec(s.Body.List)
		} else if s.Else != nil {
			p.stmt(s.Else)
		}
	case *ast.ExprStmt:
		call, ok := s.X.(*ast.CallExpr)
		if !ok {
			sfail("skeleton: unsupported statement %s", src(st))
		}
		fn := src(call.Fun)
		if fn == "panic" {
			p.term = "panic"
			return
		}
		sel, ok := call.Fun.(*ast.SelectorExpr)
		if !ok || !p.writers[src(sel.X)] {
			sfail("skeleton: unsupported call %s", src(st))
		}
		switch sel.Sel.Name {
		case "WriteByte":
			if len(call.Args) != 1 {
				sfail("skeleton: %s", src(st))
			}
			p.out = append(p.out, p.byteExpr(call.Args[0]))
		case "Write":
			cl, ok := call.Args[0].(*ast.CompositeLit)
			if len(call.Args) != 1 || !ok || src(cl.Type) != "[]byte" {
				sfail("skeleton: unsupported Write argument in %s", src(st))
			}
			for _, el := range cl.Elts {
				p.out = append(p.out, p.byteExpr(el))
			}
		case "WriteString":
			if len(call.Args) != 1 {
				sfail("skeleton: %s", src(st))
			}
			p.out = append(p.out, p.stringBytes(call.Args[0])...)
		case "Grow":
			// capacity only
		default:
			sfail("skeleton: unsupported call %s", src(st))
		}
	case *ast.AssignStmt:
		if s.Tok == token.OR_ASSIGN && len(s.Lhs) == 1 && len(s.Rhs) == 1 && p.ors != nil {
			p.ors[src(s.Lhs[0])+"|="+src(s.Rhs[0])] = true
			return
		}
		if len(s.Lhs) == 1 && len(s.Rhs) == 1 && (s.Tok == token.ASSIGN || s.Tok == token.DEFINE) {
			name := src(s.Lhs[0])
			if _, isBool := p.bools[name]; isBool {
				p.bools[name] = p.cond(s.Rhs[0])
				return
			}
			if name == p.byteVar || src(s.Rhs[0]) == p.byteVar {
				sfail("skeleton: the byte variable is reassigned: %s", src(st))
			}
		}
		if src(st) == "hasQ, hasOther := quotable(s)" {
			if _, ok := p.bools["hasQ"]; ok {
				return
			}
		}
		sfail("skeleton: unsupported assignment %s", src(st))
	case *ast.ReturnStmt:
		switch len(s.Results) {
		case 0:
			p.term = "return"
		case 1:
			switch src(s.Results[0]) {
			case "true":
				p.term = "return:true"
			case "false":
				p.term = "return:false"
			default:
				p.ret = p.stringBytes(s.Results[0])
				p.term = "return:bytes"
			}
		default:
			sfail("skeleton: unsupported return %s", src(st))
		}
	case *ast.BranchStmt:
		switch s.Tok {
		case token.CONTINUE:
			p.term = "continue"
		case token.BREAK:
			p.term = "break"
		default:
			sfail("skeleton: unsupported branch %s", src(st))
		}
	default:
		sfail("skeleton: unsupported statement %s", src(st))
	}
}

func coqBytes(bs []sbyte, byteName string) string {
	parts := make([]string, len(bs))
	for i, b := range bs {
		switch {
		case b.str:
			sfail("skeleton: the whole string written among other bytes")
		case b.v:
			parts[i] = byteName
		default:
			parts[i] = strconv.Itoa(b.lit)
		}
	}
	return "[" + strings.Join(parts, "; ") + "]"
}

func coqBool(b bool) string {
	if b {
		return "true"
	}
	return "false"
}

func bodyOf(f *ast.File, name string) []ast.Stmt {
	fd := findFunc(f, name)
	if fd == nil || fd.Body == nil {
		sfail("function %s not found", name)
	}
	return fd.Body.List
}

func expectText(where string, st ast.Stmt, want ...string) {
	got := src(st)
	for _, w := range want {
		if got == w {
			return
		}
	}
	sfail("skeleton of %s changed: found `%s`, expected `%s`", where, got, want[0])
}

func boolCombos(n int) [][]bool {
	out := [][]bool{}
	for m := 0; m < 1<<n; m++ {
		row := make([]bool, n)
		for i := range row {
			row[i] = m&(1<<(n-1-i)) == 0 // true first
		}
		out = append(out, row)
	}
	return out
}

func shellSkeleton(f *ast.File, actions []string) string {
	var b strings.Builder
	b.WriteString("\n(* ---- control skeleton, read from the function bodies (translator/shellskel.go) ---- *)\n")

	// ---------------- Scanner.Next
	next := bodyOf(f, "Scanner.Next")
	var loop *ast.ForStmt
	li := -1
	for i, st := range next {
		if fs, ok := st.(*ast.ForStmt); ok {
			loop, li = fs, i
			break
		}
	}
	if loop == nil || loop.Cond != nil || loop.Init != nil || loop.Post != nil {
		sfail("skeleton of Scanner.Next changed: no bare for loop")
	}
	checksLatch, clearsCur := false, false
	for _, st := range next[:li] {
		switch src(st) {
		case "if s.err != nil { return false }":
			if clearsCur {
				sfail("skeleton of Scanner.Next changed: latch test after cur.Reset()")
			}
			checksLatch = true
		case "s.cur.Reset()":
			clearsCur = true
		default:
			sfail("skeleton of Scanner.Next changed: unexpected statement before the loop: %s", src(st))
		}
	}
	if len(next) != li+2 {
		sfail("skeleton of Scanner.Next changed: expected exactly one return after the loop")
	}
	if _, ok := next[li+1].(*ast.ReturnStmt); !ok {
		sfail("skeleton of Scanner.Next changed: the loop is not followed by a return")
	}
	body := loop.Body.List
	k := 0
	need := func(want ...string) {
		if k >= len(body) {
			sfail("skeleton of Scanner.Next changed: loop body too short, expected `%s`", want[0])
		}
		expectText("Scanner.Next's loop", body[k], want...)
		k++
	}
	need("c, err := s.buf.ReadByte()")
	latchesErr := false
	if k < len(body) && src(body[k]) == "s.err = err" {
		latchesErr = true
		k++
	}
	need("if err == io.EOF { break } else if err != nil { return false }")
	need("next := update[s.st][classOf[c]]")
	need("s.st = next.state")
	if k != len(body)-1 {
		sfail("skeleton of Scanner.Next changed: statements between the state update and the action switch, or after the switch")
	}
	sw, ok := body[k].(*ast.SwitchStmt)
	if !ok || sw.Init != nil || src(sw.Tag) != "next.action" {
		sfail("skeleton of Scanner.Next changed: the loop does not end with switch next.action")
	}
	var deflt []ast.Stmt
	hasDefault := false
	cases := map[string][]ast.Stmt{}
	for _, cc := range sw.Body.List {
		cl := cc.(*ast.CaseClause)
		if cl.List == nil {
			deflt, hasDefault = cl.Body, true
			continue
		}
		for _, e := range cl.List {
			if _, dup := cases[src(e)]; dup {
				sfail("skeleton of Scanner.Next changed: duplicate case %s", src(e))
			}
			cases[src(e)] = cl.Body
		}
	}
	b.WriteString("\n(* Scanner.Next: what the switch on next.action does with the byte c and the token so far *)\n")
	b.WriteString("Inductive act_end : Set := AContinue | AEmit | APanic.\n")
	b.WriteString("Definition apply_action (a : action) (c : N) (acc : list N) : list N * act_end :=\n  match a with\n")
	for _, a := range actions {
		stmts, ok := cases[a]
		if !ok {
			if !hasDefault {
				// no case and no default: the switch does nothing, the loop goes on
				fmt.Fprintf(&b, "  | %s => (acc, AContinue)\n", a)
				continue
			}
			stmts = deflt
		}
		p := &interp{bools: map[string]bool{}, byteVar: "c", byteLit: -1, writers: map[string]bool{"s.cur": true}}
		if len(comparedLits(&ast.BlockStmt{List: stmts}, "c")) != 0 {
			sfail("skeleton of Scanner.Next changed: case %s inspects the byte", a)
		}
		p.exec(stmts)
		acc := "acc"
		if len(p.out) > 0 {
			acc = "acc ++ " + coqBytes(p.out, "c")
		}
		end := ""
		switch p.term {
		case "", "continue":
			end = "AContinue"
		case "return:true":
			end = "AEmit"
		case "panic":
			end = "APanic"
		default:
			sfail("skeleton of Scanner.Next changed: case %s ends with %s", a, p.term)
		}
		fmt.Fprintf(&b, "  | %s => (%s, %s)\n", a, acc, end)
	}
	b.WriteString("  end.\n")
	fmt.Fprintf(&b, "Definition next_checks_latch : bool := %s.   (* if s.err != nil { return false } opens Next *)\n", coqBool(checksLatch))
	fmt.Fprintf(&b, "Definition next_clears_cur : bool := %s.     (* s.cur.Reset() before the loop *)\n", coqBool(clearsCur))
	fmt.Fprintf(&b, "Definition next_latches_err : bool := %s.    (* s.err = err after every ReadByte *)\n", coqBool(latchesErr))

	// ---------------- Scanner.Rest
	restClears, restLatches, restReturns := false, false, false
	for _, st := range bodyOf(f, "Scanner.Rest") {
		t := src(st)
		switch {
		case restReturns:
			sfail("skeleton of Scanner.Rest changed: statement after the return")
		case t == "s.cur.Reset()":
			restClears = true
		case t == "s.err = io.EOF":
			restLatches = true
		case t == "return s.buf":
			restReturns = true
		case strings.HasPrefix(t, "s.st = "):
		default:
			sfail("skeleton of Scanner.Rest changed: unexpected statement %s", t)
		}
	}
	if !restReturns {
		sfail("skeleton of Scanner.Rest changed: it does not return s.buf")
	}
	b.WriteString("\n(* Scanner.Rest *)\n")
	fmt.Fprintf(&b, "Definition rest_clears_cur : bool := %s.\nDefinition rest_latches : bool := %s.      (* s.err = io.EOF *)\n", coqBool(restClears), coqBool(restLatches))

	// ---------------- Scanner.Reset
	rsBuf, rsCur, rsErr := false, false, false
	for _, st := range bodyOf(f, "Scanner.Reset") {
		t := src(st)
		switch {
		case t == "s.buf.Reset(r)":
			rsBuf = true
		case t == "s.cur.Reset()":
			rsCur = true
		case t == "s.err = nil":
			rsErr = true
		case strings.HasPrefix(t, "s.st = "):
		default:
			sfail("skeleton of Scanner.Reset changed: unexpected statement %s", t)
		}
	}
	b.WriteString("\n(* Scanner.Reset *)\n")
	fmt.Fprintf(&b, "Definition reset_rebinds : bool := %s.     (* s.buf.Reset(r) *)\nDefinition reset_clears_cur : bool := %s.\nDefinition reset_clears_err : bool := %s.  (* s.err = nil *)\n",
		coqBool(rsBuf), coqBool(rsCur), coqBool(rsErr))

	// ---------------- Split (the function): a pooled scanner, Reset, Scanner.Split, Complete
	resets := false
	sp := bodyOf(f, "Split")
	k = 0
	needSp := func(want string) {
		if k >= len(sp) {
			sfail("skeleton of Split changed: expected `%s`", want)
		}
		expectText("Split", sp[k], want)
		k++
	}
	needSp("sc := scanPool.Get().(*Scanner)")
	needSp("defer scanPool.Put(sc)")
	if k < len(sp) && src(sp[k]) == "sc.Reset(strings.NewReader(s))" {
		resets = true
		k++
	}
	needSp("ss := sc.Split()")
	needSp("return ss, sc.Complete()")
	if k != len(sp) {
		sfail("skeleton of Split changed: extra statements")
	}
	b.WriteString("\n(* Split: the pooled scanner is Reset to the argument before Scanner.Split and Complete *)\n")
	fmt.Fprintf(&b, "Definition split_resets : bool := %s.\n", coqBool(resets))
	for _, fn := range []string{"Scanner.Split", "Scanner.Each", "Scanner.Text", "Scanner.Err"} {
		want := map[string]string{
			"Scanner.Err":   "return s.err",
			"Scanner.Split": "var tokens []string | for s.Next() { tokens = append(tokens, s.Text()) } | return tokens",
			"Scanner.Each":  "for s.Next() { if !f(s.Text()) { return } }",
			"Scanner.Text":  "return s.cur.String()",
		}[fn]
		var got []string
		for _, st := range bodyOf(f, fn) {
			got = append(got, src(st))
		}
		if strings.Join(got, " | ") != want {
			sfail("skeleton of %s changed: found `%s`, expected `%s`", fn, strings.Join(got, " | "), want)
		}
	}

	// ---------------- the buffered reader is used as a byte queue only: s.buf occurs exactly as
	// s.buf.ReadByte() in Next, s.buf.Reset(r) in Reset and `return s.buf` in Rest.  (This is what
	// reduces "the same tokens however the reader fragments its input" to bufio.Reader's contract:
	// no Buffered/Peek/Discard/UnreadByte anywhere, so no decision depends on what has been read ahead.)
	bufUses := map[string]int{}
	for _, d := range f.Decls {
		fd, ok := d.(*ast.FuncDecl)
		if !ok || fd.Body == nil {
			continue
		}
		ast.Inspect(fd.Body, func(n ast.Node) bool {
			if se, ok := n.(*ast.SelectorExpr); ok && se.Sel.Name == "buf" {
				if _, isIdent := se.X.(*ast.Ident); isIdent {
					bufUses[fd.Name.Name]++
				}
			}
			return true
		})
	}
	if len(bufUses) != 3 || bufUses["Next"] != 1 || bufUses["Reset"] != 1 || bufUses["Rest"] != 1 {
		sfail("skeleton changed: the buffered reader is used outside ReadByte in Next / Reset / return in Rest: %v", bufUses)
	}
	b.WriteString("\n(* checked: s.buf is used only as s.buf.ReadByte() in Next, s.buf.Reset(r) in Reset, return s.buf in Rest *)\n")

	// ---------------- quotable
	qb := bodyOf(f, "quotable")
	if len(qb) != 4 {
		sfail("skeleton of quotable changed: %d statements", len(qb))
	}
	expectText("quotable", qb[0], "const ( quote = 1 other = 2 all = quote + other )")
	expectText("quotable", qb[1], "var v uint")
	qfor, ok := qb[2].(*ast.ForStmt)
	if !ok || src(qfor.Init) != "i := 0" || src(qfor.Cond) != "i < len(s) && v < all" || src(qfor.Post) != "i++" {
		sfail("skeleton of quotable changed: loop head")
	}
	expectText("quotable", qb[3], "return v&quote != 0, v&other != 0")
	qlits := comparedLits(qfor.Body, "s[i]")
	if len(qlits) != 1 {
		sfail("skeleton of quotable changed: s[i] is compared with %d literals", len(qlits))
	}
	setName, setAtom := "", ""
	ast.Inspect(qfor.Body, func(n ast.Node) bool {
		if be, ok := n.(*ast.BinaryExpr); ok && be.Op == token.GEQ && src(be.Y) == "0" {
			if call, ok := be.X.(*ast.CallExpr); ok && src(call.Fun) == "strings.IndexByte" && len(call.Args) == 2 && src(call.Args[1]) == "s[i]" {
				if id, ok := call.Args[0].(*ast.Ident); ok {
					if setName != "" {
						sfail("skeleton of quotable changed: two IndexByte tests")
					}
					setName, setAtom = id.Name, src(be)
				}
			}
		}
		return true
	})
	if setName == "" {
		sfail("skeleton of quotable changed: no strings.IndexByte(<set>, s[i]) >= 0 test")
	}
	switch setName {
	case "mustQuote", "shouldQuote", "spaces", "allQuote":
	default:
		sfail("skeleton of quotable changed: unknown character set %s", setName)
	}
	b.WriteString("\n(* quotable: per byte, which of the two flags the if-chain sets, given (s[i] == quotable_char) and\n   (strings.IndexByte(quotable_set, s[i]) >= 0); the early exit v < all does not change the result *)\n")
	fmt.Fprintf(&b, "Definition quotable_char : N := %d.\nDefinition quotable_set : list N := %s.\n", qlits[0], setName)
	b.WriteString("Definition quotable_step (isq inset : bool) : bool * bool :=\n  match isq, inset with\n")
	for _, c := range boolCombos(2) {
		p := &interp{bools: map[string]bool{setAtom: c[1]}, byteVar: "s[i]", byteLit: -1, ors: map[string]bool{}}
		if c[0] {
			p.byteLit = qlits[0]
		}
		p.exec(qfor.Body.List)
		if p.term != "" || len(p.out) != 0 {
			sfail("skeleton of quotable changed: the loop body leaves the loop")
		}
		for key := range p.ors {
			if key != "v|=quote" && key != "v|=other" {
				sfail("skeleton of quotable changed: %s", key)
			}
		}
		fmt.Fprintf(&b, "  | %s, %s => (%s, %s)\n", coqBool(c[0]), coqBool(c[1]), coqBool(p.ors["v|=quote"]), coqBool(p.ors["v|=other"]))
	}
	b.WriteString("  end.\n")

	// ---------------- the guards that open Quote and quote
	b.WriteString("\n(* the guards that open Quote (returns) and quote (writes to buf and returns), evaluated in source\n   order for s == \"\", hasQ, hasOther: a literal result, s itself, or go on to the quoting loop *)\n")
	b.WriteString("Inductive qhead : Set := HLit (l : list N) | HCopy | HLoop.\n")
	head := func(coqName string, stmts []ast.Stmt, isHead func(ast.Stmt) bool) []ast.Stmt {
		n := 0
		for n < len(stmts) && isHead(stmts[n]) {
			n++
		}
		fmt.Fprintf(&b, "Definition %s (empty hasQ hasOther : bool) : qhead :=\n  match empty, hasQ, hasOther with\n", coqName)
		for _, c := range boolCombos(3) {
			p := &interp{bools: map[string]bool{`s == ""`: c[0], `len(s) == 0`: c[0], `s != ""`: !c[0], "hasQ": c[1], "hasOther": c[2]},
				writers: map[string]bool{"buf": true}, strVar: "s", byteLit: -1}
			p.exec(stmts[:n])
			res := ""
			out := p.out
			switch p.term {
			case "":
				if len(out) != 0 {
					sfail("skeleton of %s changed: a guard writes and falls through", coqName)
				}
				res = "HLoop"
			case "return":
			case "return:bytes":
				if len(out) != 0 {
					sfail("skeleton of %s changed: a guard writes and returns a value", coqName)
				}
				out = p.ret
			default:
				sfail("skeleton of %s changed: a guard ends with %s", coqName, p.term)
			}
			if res == "" {
				if len(out) == 1 && out[0].str {
					res = "HCopy"
				} else {
					res = "HLit " + coqBytes(out, "?")
				}
			}
			fmt.Fprintf(&b, "  | %s, %s, %s => %s\n", coqBool(c[0]), coqBool(c[1]), coqBool(c[2]), res)
		}
		b.WriteString("  end.\n")
		return stmts[n:]
	}
	isIf := func(st ast.Stmt) bool { _, ok := st.(*ast.IfStmt); return ok }
	tail := head("Quote_head", bodyOf(f, "Quote"), isIf)
	wantTail := []string{"buf := bufPool.Get().(*bytes.Buffer)", "defer bufPool.Put(buf)", "buf.Reset()", "quote(s, buf)", "return buf.String()"}
	if len(tail) != len(wantTail) {
		sfail("skeleton of Quote changed: %d statements after the guards", len(tail))
	}
	for i, w := range wantTail {
		expectText("Quote", tail[i], w)
	}
	tail = head("quote_head", bodyOf(f, "quote"), func(st ast.Stmt) bool {
		return isIf(st) || src(st) == "hasQ, hasOther := quotable(s)"
	})
	// the rest of quote: buf.Grow, inq := <bool>, the loop over the bytes, what follows the loop
	inq0, haveInq := false, false
	var qloop ast.Stmt
	var after []ast.Stmt
scanTail:
	for i, st := range tail {
		t := src(st)
		if strings.HasPrefix(t, "buf.Grow(") {
			continue
		}
		if as, ok := st.(*ast.AssignStmt); ok && len(as.Lhs) == 1 && src(as.Lhs[0]) == "inq" && as.Tok == token.DEFINE {
			switch src(as.Rhs[0]) {
			case "false":
				inq0, haveInq = false, true
			case "true":
				inq0, haveInq = true, true
			default:
				sfail("skeleton of quote changed: %s", t)
			}
			continue
		}
		switch st.(type) {
		case *ast.RangeStmt, *ast.ForStmt:
			qloop, after = st, tail[i+1:]
			break scanTail
		default:
			sfail("skeleton of quote changed: unexpected statement %s", t)
		}
	}
	if qloop == nil || !haveInq {
		sfail("skeleton of quote changed: no loop over the bytes, or inq is not initialised")
	}
	var lbody []ast.Stmt
	switch l := qloop.(type) {
	case *ast.RangeStmt:
		if src(l.Key) != "i" || l.Value != nil || src(l.X) != "len(s)" || l.Tok != token.DEFINE {
			sfail("skeleton of quote changed: loop head")
		}
		lbody = l.Body.List
	case *ast.ForStmt:
		if src(l.Init) != "i := 0" || src(l.Cond) != "i < len(s)" || src(l.Post) != "i++" {
			sfail("skeleton of quote changed: loop head")
		}
		lbody = l.Body.List
	}
	if len(lbody) == 0 || src(lbody[0]) != "ch := s[i]" {
		sfail("skeleton of quote changed: the loop does not start with ch := s[i]")
	}
	lbody = lbody[1:]
	lits := comparedLits(&ast.BlockStmt{List: lbody}, "ch")
	b.WriteString("\n(* quote: the loop over the bytes of s (ch, the flag inq, hasOther) -> bytes written, new inq;\n   then what is written after the loop *)\n")
	fmt.Fprintf(&b, "Definition quote_inq0 : bool := %s.\n", coqBool(inq0))
	b.WriteString("Definition quote_step (ch : N) (inq hasOther : bool) : list N * bool :=\n")
	table := func(lit int, indent string) {
		fmt.Fprintf(&b, "%smatch inq, hasOther with\n", indent)
		for _, c := range boolCombos(2) {
			p := &interp{bools: map[string]bool{"inq": c[0], "hasOther": c[1]}, byteVar: "ch", byteLit: lit, writers: map[string]bool{"buf": true}}
			p.exec(lbody)
			if p.term != "" && p.term != "continue" {
				sfail("skeleton of quote changed: the loop body ends with %s", p.term)
			}
			fmt.Fprintf(&b, "%s| %s, %s => (%s, %s)\n", indent, coqBool(c[0]), coqBool(c[1]), coqBytes(p.out, "ch"), coqBool(p.bools["inq"]))
		}
		fmt.Fprintf(&b, "%send\n", indent)
	}
	for _, l := range lits {
		fmt.Fprintf(&b, "  if N.eqb ch %d then\n", l)
		table(l, "    ")
		b.WriteString("  else\n")
	}
	table(-1, "    ")
	b.WriteString("  .\n")
	b.WriteString("Definition quote_end (inq hasOther : bool) : list N :=\n  match inq, hasOther with\n")
	for _, c := range boolCombos(2) {
		p := &interp{bools: map[string]bool{"inq": c[0], "hasOther": c[1]}, writers: map[string]bool{"buf": true}, byteLit: -1}
		p.exec(after)
		if p.term != "" && p.term != "return" {
			sfail("skeleton of quote changed: after the loop: %s", p.term)
		}
		fmt.Fprintf(&b, "  | %s, %s => %s\n", coqBool(c[0]), coqBool(c[1]), coqBytes(p.out, "?"))
	}
	b.WriteString("  end.\n")

	// ---------------- Join
	jb := bodyOf(f, "Join")
	wantJ := []string{`if len(ss) == 0 { return "" }`, "buf := bufPool.Get().(*bytes.Buffer)", "defer bufPool.Put(buf)", "buf.Reset()", "quote(ss[0], buf)", "", "return buf.String()"}
	if len(jb) != len(wantJ) {
		sfail("skeleton of Join changed: %d statements", len(jb))
	}
	for i, w := range wantJ {
		if w != "" {
			expectText("Join", jb[i], w)
		}
	}
	jr, ok := jb[5].(*ast.RangeStmt)
	if !ok || src(jr.Key) != "_" || src(jr.Value) != "s" || src(jr.X) != "ss[1:]" {
		sfail("skeleton of Join changed: loop head")
	}
	p := &interp{bools: map[string]bool{}, writers: map[string]bool{"buf": true}, byteLit: -1,
		stopAt: func(st ast.Stmt) bool { return src(st) == "quote(s, buf)" }}
	p.exec(jr.Body.List)
	if p.stopped == nil || p.term != "" || p.stopped != jr.Body.List[len(jr.Body.List)-1] {
		sfail("skeleton of Join changed: the loop body does not end with quote(s, buf)")
	}
	b.WriteString("\n(* Join: what is written between two quoted elements *)\n")
	fmt.Fprintf(&b, "Definition join_sep : list N := %s.\n", coqBytes(p.out, "?"))
	return b.String()
}
