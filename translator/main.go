// Command translator regenerates coq/Gen/*.v from the current sources of
// creachadair/mds.  It is driven by anchors.json: every item names a function
// (or package-level declaration) and a place inside it, and the expression
// found there is printed as a Gallina definition over Z / bool.  Anything that
// cannot be found or printed is reported as "anchor <name> lost" (exit 3) —
// it is never replaced by a stale value.
//
// usage: translator -repo /repo -anchors anchors.json -out /verif/coq
package main

import (
	"bytes"
	"encoding/json"
	"flag"
	"fmt"
	"go/ast"
	"go/constant"
	"go/parser"
	"go/printer"
	"go/token"
	"math/big"
	"os"
	"path/filepath"
	"sort"
	"strconv"
	"strings"
)

type Item struct {
	Name   string            `json:"name"`             // Coq identifier to define
	Func   string            `json:"func,omitempty"`   // "Recv.Method" or "Func"
	At     string            `json:"at"`               // selector, see find()
	Params []string          `json:"params,omitempty"` // "x" (Z) or "b:bool"
	Subst  map[string]string `json:"subst,omitempty"`  // printed Go sub-expression -> parameter name
	Doc    string            `json:"doc,omitempty"`
}

type File struct {
	Out     string   `json:"out"` // relative to -out, e.g. Gen/HeapqIdx.v
	Src     string   `json:"src"` // relative to -repo
	Special string   `json:"special,omitempty"`
	Funcs   []string `json:"funcs,omitempty"` // special "fn": the functions to translate whole (fn.go)
	Items   []Item   `json:"items"`
}

type lost struct{ msg string }

func fail(format string, args ...any) { panic(lost{fmt.Sprintf(format, args...)}) }

var fset = token.NewFileSet()

func src(n ast.Node) string {
	var b bytes.Buffer
	printer.Fprint(&b, fset, n)
	return strings.Join(strings.Fields(b.String()), " ")
}

// ---------------------------------------------------------------- lookup

func findFunc(f *ast.File, name string) *ast.FuncDecl {
	recv, fn := "", name
	if i := strings.IndexByte(name, '.'); i >= 0 {
		recv, fn = name[:i], name[i+1:]
	}
	for _, d := range f.Decls {
		fd, ok := d.(*ast.FuncDecl)
		if !ok || fd.Name.Name != fn {
			continue
		}
		r := ""
		if fd.Recv != nil && len(fd.Recv.List) == 1 {
			t := fd.Recv.List[0].Type
			for {
				switch v := t.(type) {
				case *ast.StarExpr:
					t = v.X
					continue
				case *ast.IndexExpr:
					t = v.X
					continue
				case *ast.IndexListExpr:
					t = v.X
					continue
				}
				break
			}
			if id, ok := t.(*ast.Ident); ok {
				r = id.Name
			}
		}
		if r == recv {
			return fd
		}
	}
	return nil
}

func splitSel(at string) (kind, arg string, k int, sub string) {
	// kind:arg#k.sub
	kind = at
	if i := strings.IndexByte(at, ':'); i >= 0 {
		kind, arg = at[:i], at[i+1:]
	}
	if i := strings.LastIndexByte(arg, '@'); i >= 0 {
		sub = arg[i+1:]
		arg = arg[:i]
	}
	if i := strings.LastIndexByte(arg, '#'); i >= 0 {
		n, err := strconv.Atoi(arg[i+1:])
		if err == nil {
			k = n
			arg = arg[:i]
		}
	}
	return
}

// find returns the expression selected by at inside body, or a Go constant
// for the boolean/number selectors.
func find(body ast.Node, at string) (ast.Expr, *string) {
	kind, arg, k, sub := splitSel(at)
	var found ast.Expr
	count := 0
	hit := func(e ast.Expr) bool {
		if count == k && found == nil {
			found = e
		}
		count++
		return true
	}
	switch kind {
	case "assign": // assign:NAME#k  — RHS of the k-th assignment whose single LHS prints as NAME
		ast.Inspect(body, func(n ast.Node) bool {
			switch s := n.(type) {
			case *ast.AssignStmt:
				for i, l := range s.Lhs {
					if src(l) != arg {
						continue
					}
					var rhs ast.Expr
					if len(s.Rhs) == len(s.Lhs) {
						rhs = s.Rhs[i]
					} else {
						continue
					}
					switch s.Tok {
					case token.ASSIGN, token.DEFINE:
					case token.ADD_ASSIGN:
						rhs = &ast.BinaryExpr{X: l, Op: token.ADD, Y: &ast.ParenExpr{X: rhs}}
					case token.SUB_ASSIGN:
						rhs = &ast.BinaryExpr{X: l, Op: token.SUB, Y: &ast.ParenExpr{X: rhs}}
					case token.MUL_ASSIGN:
						rhs = &ast.BinaryExpr{X: l, Op: token.MUL, Y: &ast.ParenExpr{X: rhs}}
					case token.QUO_ASSIGN:
						rhs = &ast.BinaryExpr{X: l, Op: token.QUO, Y: &ast.ParenExpr{X: rhs}}
					case token.REM_ASSIGN:
						rhs = &ast.BinaryExpr{X: l, Op: token.REM, Y: &ast.ParenExpr{X: rhs}}
					case token.SHL_ASSIGN:
						rhs = &ast.BinaryExpr{X: l, Op: token.SHL, Y: &ast.ParenExpr{X: rhs}}
					case token.SHR_ASSIGN:
						rhs = &ast.BinaryExpr{X: l, Op: token.SHR, Y: &ast.ParenExpr{X: rhs}}
					case token.OR_ASSIGN:
						rhs = &ast.BinaryExpr{X: l, Op: token.OR, Y: &ast.ParenExpr{X: rhs}}
					default:
						continue
					}
					hit(rhs)
				}
			case *ast.IncDecStmt:
				if src(s.X) == arg {
					op := token.ADD
					if s.Tok == token.DEC {
						op = token.SUB
					}
					hit(&ast.BinaryExpr{X: s.X, Op: op, Y: &ast.BasicLit{Kind: token.INT, Value: "1"}})
				}
			case *ast.ValueSpec:
				for i, nm := range s.Names {
					if nm.Name == arg && i < len(s.Values) {
						hit(s.Values[i])
					}
				}
			}
			return true
		})
	case "if": // if:#k — condition of the k-th if statement (pre-order)
		ast.Inspect(body, func(n ast.Node) bool {
			if s, ok := n.(*ast.IfStmt); ok {
				hit(s.Cond)
			}
			return true
		})
	case "for": // for:#k — condition of the k-th for statement
		ast.Inspect(body, func(n ast.Node) bool {
			if s, ok := n.(*ast.ForStmt); ok {
				if s.Cond == nil {
					hit(ast.NewIdent("true"))
				} else {
					hit(s.Cond)
				}
			}
			return true
		})
	case "range": // range:#k — the range expression of the k-th range statement
		ast.Inspect(body, func(n ast.Node) bool {
			if s, ok := n.(*ast.RangeStmt); ok {
				hit(s.X)
			}
			return true
		})
	case "case": // case:#k — first expression of the k-th case clause
		ast.Inspect(body, func(n ast.Node) bool {
			if s, ok := n.(*ast.CaseClause); ok && len(s.List) > 0 {
				hit(s.List[0])
			}
			return true
		})
	case "return": // return:#k@j — j-th result of the k-th return statement
		j := 0
		if sub != "" {
			j, _ = strconv.Atoi(sub)
		}
		ast.Inspect(body, func(n ast.Node) bool {
			if s, ok := n.(*ast.ReturnStmt); ok && j < len(s.Results) {
				hit(s.Results[j])
			}
			return true
		})
	case "arg": // arg:FN#k@j — j-th argument of the k-th call whose function prints as FN
		j := 0
		if sub != "" {
			j, _ = strconv.Atoi(sub)
		}
		ast.Inspect(body, func(n ast.Node) bool {
			if c, ok := n.(*ast.CallExpr); ok && src(c.Fun) == arg && j < len(c.Args) {
				hit(c.Args[j])
			}
			return true
		})
	case "index": // index:BASE#k — index expression of the k-th BASE[...]
		ast.Inspect(body, func(n ast.Node) bool {
			if e, ok := n.(*ast.IndexExpr); ok && src(e.X) == arg {
				hit(e.Index)
			}
			return true
		})
	case "slice": // slice:BASE#k@lo|hi|max
		ast.Inspect(body, func(n ast.Node) bool {
			if e, ok := n.(*ast.SliceExpr); ok && src(e.X) == arg {
				var x ast.Expr
				switch sub {
				case "lo":
					x = e.Low
				case "hi":
					x = e.High
				case "max":
					x = e.Max
				}
				if x == nil {
					x = ast.NewIdent("__absent")
				}
				hit(x)
			}
			return true
		})
	case "lit": // lit:TYPE#k@j or lit:TYPE#k@Field — element of the k-th composite literal whose type prints as TYPE
		ast.Inspect(body, func(n ast.Node) bool {
			c, ok := n.(*ast.CompositeLit)
			if !ok || c.Type == nil || src(c.Type) != arg {
				return true
			}
			var x ast.Expr
			if j, err := strconv.Atoi(sub); err == nil {
				if j < len(c.Elts) {
					x = c.Elts[j]
					if kv, ok := x.(*ast.KeyValueExpr); ok {
						x = kv.Value
					}
				}
			} else {
				for _, e := range c.Elts {
					if kv, ok := e.(*ast.KeyValueExpr); ok && src(kv.Key) == sub {
						x = kv.Value
					}
				}
			}
			if x == nil {
				x = ast.NewIdent("__absent")
			}
			hit(x)
			return true
		})
	case "shape": // shape — statement skeleton of the body as one number: a hex digit per statement in source order
		// 1 if  2 for  3 range  4 return  5 assignment  6 expression stmt  7 break/continue/goto/fallthrough  8 ++/--
		// 9 declaration  a switch/select (b = each case)  c go/defer/send/other  d else  e '{'  f '}'  (labels transparent)
		var d []byte
		var walk func(s ast.Stmt)
		block := func(b *ast.BlockStmt) {
			d = append(d, 14)
			if b != nil {
				for _, s := range b.List {
					walk(s)
				}
			}
			d = append(d, 15)
		}
		walk = func(s ast.Stmt) {
			switch v := s.(type) {
			case nil:
			case *ast.BlockStmt:
				block(v)
			case *ast.LabeledStmt:
				walk(v.Stmt)
			case *ast.IfStmt:
				d = append(d, 1)
				walk(v.Init)
				block(v.Body)
				if v.Else != nil {
					d = append(d, 13)
					walk(v.Else)
				}
			case *ast.ForStmt:
				d = append(d, 2)
				walk(v.Init)
				walk(v.Post)
				block(v.Body)
			case *ast.RangeStmt:
				d = append(d, 3)
				block(v.Body)
			case *ast.ReturnStmt:
				d = append(d, 4)
			case *ast.AssignStmt:
				d = append(d, 5)
			case *ast.ExprStmt:
				d = append(d, 6)
			case *ast.BranchStmt:
				d = append(d, 7)
			case *ast.IncDecStmt:
				d = append(d, 8)
			case *ast.DeclStmt:
				d = append(d, 9)
			case *ast.SwitchStmt:
				d = append(d, 10)
				walk(v.Init)
				block(v.Body)
			case *ast.TypeSwitchStmt:
				d = append(d, 10)
				walk(v.Init)
				block(v.Body)
			case *ast.SelectStmt:
				d = append(d, 10)
				block(v.Body)
			case *ast.CaseClause:
				d = append(d, 11, 14)
				for _, s := range v.Body {
					walk(s)
				}
				d = append(d, 15)
			case *ast.CommClause:
				d = append(d, 11, 14)
				for _, s := range v.Body {
					walk(s)
				}
				d = append(d, 15)
			default:
				d = append(d, 12)
			}
		}
		b, ok := body.(*ast.BlockStmt)
		if !ok {
			fail("shape needs a function")
		}
		block(b)
		n := new(big.Int)
		for _, x := range d {
			n.Lsh(n, 4)
			n.Or(n, big.NewInt(int64(x)))
		}
		s := n.String()
		return nil, &s
	case "pos": // pos:NAME#k — ordinal, among all assignment/inc-dec statements of the body (pre-order),
		// of the statement that assign:NAME#k selects
		ord, res := 0, -1
		ast.Inspect(body, func(n ast.Node) bool {
			switch s := n.(type) {
			case *ast.AssignStmt:
				for _, l := range s.Lhs {
					if src(l) == arg {
						if count == k && res < 0 {
							res = ord
						}
						count++
					}
				}
				ord++
			case *ast.IncDecStmt:
				if src(s.X) == arg {
					if count == k && res < 0 {
						res = ord
					}
					count++
				}
				ord++
			}
			return true
		})
		if res < 0 {
			fail("selector %q matched %d places, wanted #%d", at, count, k)
		}
		s := fmt.Sprintf("%d", res)
		return nil, &s
	case "ord": // ord:assign:NAME#k | ord:call:FN#k — pre-order ordinal (over all statements of the body) of the
		// innermost statement containing the k-th assignment to NAME / the k-th call of FN
		what, name, _ := strings.Cut(arg, ":")
		ordinal, res := -1, -1
		var stack []ast.Node
		var stmtOrd []int // ordinal of the innermost enclosing statement, parallel to stack
		ast.Inspect(body, func(nd ast.Node) bool {
			if nd == nil {
				stack = stack[:len(stack)-1]
				stmtOrd = stmtOrd[:len(stmtOrd)-1]
				return true
			}
			cur := -1
			if len(stmtOrd) > 0 {
				cur = stmtOrd[len(stmtOrd)-1]
			}
			if _, ok := nd.(ast.Stmt); ok {
				ordinal++
				cur = ordinal
			}
			stack = append(stack, nd)
			stmtOrd = append(stmtOrd, cur)
			match := false
			switch v := nd.(type) {
			case *ast.AssignStmt:
				if what == "assign" {
					for _, l := range v.Lhs {
						if src(l) == name {
							match = true
						}
					}
				}
			case *ast.IncDecStmt:
				match = what == "assign" && src(v.X) == name
			case *ast.CallExpr:
				match = what == "call" && src(v.Fun) == name
			}
			if match {
				if count == k && res < 0 {
					res = cur
				}
				count++
			}
			return true
		})
		if res < 0 {
			fail("selector %q matched %d places, wanted #%d", at, count, k)
		}
		s := strconv.Itoa(res)
		return nil, &s
	case "ncalls": // ncalls:FN — number of calls whose function prints as FN
		n := 0
		ast.Inspect(body, func(nd ast.Node) bool {
			if c, ok := nd.(*ast.CallExpr); ok && src(c.Fun) == arg {
				n++
			}
			return true
		})
		s := fmt.Sprintf("%d", n)
		return nil, &s
	case "cond": // cond:#k — condition of the k-th if-or-for statement (pre-order, same counting as isfor)
		ast.Inspect(body, func(n ast.Node) bool {
			switch s := n.(type) {
			case *ast.IfStmt:
				hit(s.Cond)
			case *ast.ForStmt:
				if s.Cond == nil {
					hit(ast.NewIdent("true"))
				} else {
					hit(s.Cond)
				}
			}
			return true
		})
	case "isfor": // isfor:#k — is the k-th if-or-for statement (pre-order) a for statement?
		var res *string
		ast.Inspect(body, func(nd ast.Node) bool {
			switch nd.(type) {
			case *ast.IfStmt, *ast.ForStmt:
				if count == k && res == nil {
					_, isFor := nd.(*ast.ForStmt)
					s := "false"
					if isFor {
						s = "true"
					}
					res = &s
				}
				count++
			}
			return true
		})
		if res == nil {
			fail("no statement %s", at)
		}
		return nil, res
	default:
		fail("unknown selector %q", at)
	}
	if found == nil {
		fail("selector %q matched %d places, wanted #%d", at, count, k)
	}
	return found, nil
}

// ---------------------------------------------------------------- printing

type penv struct {
	params map[string]string // name -> "Z"|"bool"
	subst  map[string]string
	consts map[string]ast.Expr // package-level constants (inlined)
}

func isBoolOp(op token.Token) bool {
	switch op {
	case token.LSS, token.LEQ, token.GTR, token.GEQ, token.EQL, token.NEQ, token.LAND, token.LOR:
		return true
	}
	return false
}

func (p *penv) typ(e ast.Expr) string {
	if nm, ok := p.subst[src(e)]; ok {
		return p.params[nm]
	}
	switch v := e.(type) {
	case *ast.ParenExpr:
		return p.typ(v.X)
	case *ast.BinaryExpr:
		if isBoolOp(v.Op) {
			return "bool"
		}
		return "Z"
	case *ast.UnaryExpr:
		if v.Op == token.NOT {
			return "bool"
		}
		return "Z"
	case *ast.Ident:
		if v.Name == "true" || v.Name == "false" {
			return "bool"
		}
		if t, ok := p.params[v.Name]; ok {
			return t
		}
		if c, ok := p.consts[v.Name]; ok {
			return p.typ(c)
		}
	}
	return "Z"
}

func (p *penv) pr(e ast.Expr) string {
	if nm, ok := p.subst[src(e)]; ok {
		if _, ok := p.params[nm]; !ok {
			fail("subst target %s is not a parameter", nm)
		}
		return nm
	}
	switch v := e.(type) {
	case *ast.ParenExpr:
		return p.pr(v.X)
	case *ast.Ident:
		if v.Name == "true" || v.Name == "false" {
			return v.Name
		}
		if _, ok := p.params[v.Name]; ok {
			return v.Name
		}
		if c, ok := p.consts[v.Name]; ok {
			return p.pr(c)
		}
		fail("free identifier %s", v.Name)
	case *ast.BasicLit:
		switch v.Kind {
		case token.INT, token.CHAR:
			c := constant.MakeFromLiteral(v.Value, v.Kind, 0)
			return "(" + constant.ToInt(c).ExactString() + ")"
		}
		fail("unsupported literal %s", v.Value)
	case *ast.UnaryExpr:
		switch v.Op {
		case token.SUB:
			return "(Z.opp " + p.pr(v.X) + ")"
		case token.ADD:
			return p.pr(v.X)
		case token.NOT:
			return "(negb " + p.pr(v.X) + ")"
		}
		fail("unsupported unary %s", v.Op)
	case *ast.BinaryExpr:
		x, y := p.pr(v.X), p.pr(v.Y)
		f := ""
		switch v.Op {
		case token.ADD:
			f = "Z.add"
		case token.SUB:
			f = "Z.sub"
		case token.MUL:
			f = "Z.mul"
		case token.QUO:
			f = "Z.quot"
		case token.REM:
			f = "Z.rem"
		case token.SHL:
			f = "Z.shiftl"
		case token.SHR:
			f = "Z.shiftr"
		case token.AND:
			f = "Z.land"
		case token.OR:
			f = "Z.lor"
		case token.XOR:
			f = "Z.lxor"
		case token.AND_NOT:
			f = "Z.ldiff"
		case token.LSS:
			f = "Z.ltb"
		case token.LEQ:
			f = "Z.leb"
		case token.GTR:
			f = "Z.gtb"
		case token.GEQ:
			f = "Z.geb"
		case token.EQL:
			if p.typ(v.X) == "bool" {
				f = "Bool.eqb"
			} else {
				f = "Z.eqb"
			}
		case token.NEQ:
			if p.typ(v.X) == "bool" {
				return "(negb (Bool.eqb " + x + " " + y + "))"
			}
			return "(negb (Z.eqb " + x + " " + y + "))"
		case token.LAND:
			f = "andb"
		case token.LOR:
			f = "orb"
		default:
			fail("unsupported operator %s", v.Op)
		}
		return "(" + f + " " + x + " " + y + ")"
	case *ast.CallExpr:
		fn := src(v.Fun)
		switch fn {
		case "min", "max":
			if len(v.Args) == 2 {
				return "(Z." + fn + " " + p.pr(v.Args[0]) + " " + p.pr(v.Args[1]) + ")"
			}
		case "int", "uint", "uint64", "int64", "uintptr", "byte", "rune":
			if len(v.Args) == 1 { // conversions are the identity on the unbounded model
				return p.pr(v.Args[0])
			}
		}
		fail("unsupported call %s", src(v))
	}
	fail("unsupported expression %s", src(e))
	return ""
}

// ---------------------------------------------------------------- main

func pkgConsts(f *ast.File) map[string]ast.Expr {
	out := map[string]ast.Expr{}
	for _, d := range f.Decls {
		gd, ok := d.(*ast.GenDecl)
		if !ok || gd.Tok != token.CONST {
			continue
		}
		for _, s := range gd.Specs {
			vs := s.(*ast.ValueSpec)
			for i, n := range vs.Names {
				if i < len(vs.Values) {
					if id, ok := vs.Values[i].(*ast.Ident); ok && id.Name == "iota" {
						continue
					}
					out[n.Name] = vs.Values[i]
				}
			}
		}
	}
	return out
}

func genItem(f *ast.File, it Item) (def string, err error) {
	defer func() {
		if r := recover(); r != nil {
			if l, ok := r.(lost); ok {
				err = fmt.Errorf("anchor %s lost: %s", it.Name, l.msg)
				return
			}
			panic(r)
		}
	}()
	var scope ast.Node = f
	if it.Func != "" {
		fd := findFunc(f, it.Func)
		if fd == nil || fd.Body == nil {
			fail("function %s not found", it.Func)
		}
		scope = fd.Body
	}
	p := &penv{params: map[string]string{}, subst: map[string]string{}, consts: pkgConsts(f)}
	var plist []string
	for _, q := range it.Params {
		nm, ty := q, "Z"
		if i := strings.IndexByte(q, ':'); i >= 0 {
			nm, ty = q[:i], q[i+1:]
		}
		p.params[nm] = ty
		plist = append(plist, fmt.Sprintf("(%s : %s)", nm, ty))
	}
	for k, v := range it.Subst {
		p.subst[strings.Join(strings.Fields(k), " ")] = v
	}
	e, lit := find(scope, it.At)
	var body, ty, orig string
	if lit != nil {
		body = *lit
		ty = "Z"
		if body == "true" || body == "false" {
			ty = "bool"
		}
		orig = it.At
	} else {
		body = p.pr(e)
		ty = p.typ(e)
		orig = src(e)
	}
	var b strings.Builder
	if it.Doc != "" {
		fmt.Fprintf(&b, "(* %s *)\n", strings.ReplaceAll(strings.ReplaceAll(it.Doc, "*)", "* )"), "(*", "( *"))
	}
	esc := func(x string) string { return strings.ReplaceAll(strings.ReplaceAll(x, "*)", "* )"), "(*", "( *") }
	fmt.Fprintf(&b, "(* %s %s : %s *)\n", esc(it.Func), esc(it.At), esc(orig))
	ps := ""
	if len(plist) > 0 {
		ps = " " + strings.Join(plist, " ")
	}
	fmt.Fprintf(&b, "Definition %s%s : %s := %s.\n", it.Name, ps, ty, body)
	return b.String(), nil
}

func main() {
	repo := flag.String("repo", "/repo", "repository root")
	anchors := flag.String("anchors", "anchors.json", "anchor file")
	out := flag.String("out", "", "output root (the coq directory)")
	flag.Parse()
	// -anchors names a file or a directory of *.json fragments (each a list of File entries).
	var files []File
	var paths []string
	if st, err := os.Stat(*anchors); err == nil && st.IsDir() {
		paths, _ = filepath.Glob(filepath.Join(*anchors, "*.json"))
		sort.Strings(paths)
	} else {
		paths = []string{*anchors}
	}
	for _, ap := range paths {
		data, err := os.ReadFile(ap)
		if err != nil {
			fmt.Fprintln(os.Stderr, "translator:", err)
			os.Exit(2)
		}
		var fs []File
		if err := json.Unmarshal(data, &fs); err != nil {
			fmt.Fprintln(os.Stderr, "translator:", ap+":", err)
			os.Exit(2)
		}
		files = append(files, fs...)
	}
	status := 0
	for _, fl := range files {
		path := filepath.Join(*repo, fl.Src)
		if strings.HasPrefix(fl.Src, "GOROOT/") { // a file of the standard library (fn translator: slices.BinarySearchFunc)
			path = filepath.Join(goroot(), "src", strings.TrimPrefix(fl.Src, "GOROOT/"))
		}
		var f *ast.File
		var err error
		var b strings.Builder
		fmt.Fprintf(&b, "(* GENERATED by /verif/translator from %s on every run.  Do not edit. *)\n", fl.Src)
		fmt.Fprintf(&b, "From Coq Require Import ZArith NArith List Bool.\nImport ListNotations.\n\n")
		var lostItems []string
		if fl.Special == "inventory" { // Src is a package directory
			s, ls := inventory(path)
			b.WriteString(s)
			lostItems = append(lostItems, ls...)
		} else if f, err = parser.ParseFile(fset, path, nil, 0); err != nil {
			lostItems = append(lostItems, fmt.Sprintf("anchor %s lost: parse error: %v", fl.Out, err))
		} else {
			if fl.Special == "fn" {
				s, ls := fnGenerate(f, fl.Funcs)
				b.WriteString(s)
				lostItems = append(lostItems, ls...)
			} else if fl.Special != "" {
				s, err := special(fl.Special, f)
				if err != nil {
					lostItems = append(lostItems, fmt.Sprintf("anchor %s lost: %v", fl.Special, err))
				} else {
					b.WriteString(s)
				}
			}
			if len(fl.Items) > 0 {
				b.WriteString("Local Open Scope Z_scope.\n\n")
			}
			for _, it := range fl.Items {
				def, err := genItem(f, it)
				if err != nil {
					lostItems = append(lostItems, err.Error())
					continue
				}
				b.WriteString(def)
				b.WriteString("\n")
			}
		}
		sort.Strings(lostItems)
		for _, l := range lostItems {
			fmt.Printf("translator: %s: %s\n", fl.Out, l)
			// A lost anchor leaves the definition out, so that whatever depends on it fails to compile.
			fmt.Fprintf(&b, "(* LOST: %s *)\n", strings.ReplaceAll(strings.ReplaceAll(l, "*)", "* )"), "(*", "( *"))
			status = 3
		}
		dst := filepath.Join(*out, fl.Out)
		old, _ := os.ReadFile(dst)
		if string(old) != b.String() {
			os.MkdirAll(filepath.Dir(dst), 0o755)
			if err := os.WriteFile(dst, []byte(b.String()), 0o644); err != nil {
				fmt.Fprintln(os.Stderr, "translator:", err)
				os.Exit(2)
			}
			fmt.Println("translator: wrote", fl.Out)
		}
	}
	os.Exit(status)
}
