package main

// Struct types declared inside a function, pointers to immutable structs (option), structs with
// slice fields that are windows of a parameter (views), named basic types, permutations of slice
// variables.  See notes/fn-translator.md.

import (
	"go/ast"
	"go/token"
	"sort"
	"strings"
)

// ---------------------------------------------------------------- struct types declared inside the function

// localTypes registers the struct types the body declares (type seq struct{...}): their Coq name
// is <function>_<name>; the Record is emitted with the other records of the file.
func (c *fnCtx) localTypes(body ast.Node) {
	ast.Inspect(body, func(n ast.Node) bool {
		ds, ok := n.(*ast.DeclStmt)
		if !ok {
			return true
		}
		gd, ok := ds.Decl.(*ast.GenDecl)
		if !ok || gd.Tok != token.TYPE {
			return true
		}
		for _, s := range gd.Specs {
			ts := s.(*ast.TypeSpec)
			if _, isStruct := ts.Type.(*ast.StructType); !isStruct || ts.TypeParams != nil {
				c.lostAt(ds, "declaration of the type %s inside a function (only plain structs)", ts.Name.Name)
			}
			if c.localStructs == nil {
				c.localStructs = map[string]*ast.TypeSpec{}
			}
			c.localStructs[ts.Name.Name] = ts
			cn := c.fn.name + "_" + ts.Name.Name
			c.g.coqNames[ts] = cn
			known := false
			for _, o := range c.g.structOrder {
				if o == cn {
					known = true
				}
			}
			if !known {
				c.g.structOrder = append(c.g.structOrder, cn)
			}
		}
		return true
	})
}

// structDecl: the declaration of the struct type the identifier names (of the function, then of the file)
func (c *fnCtx) structDecl(id *ast.Ident) *ast.TypeSpec {
	if ts := c.localStructs[id.Name]; ts != nil {
		return ts
	}
	return c.g.structs[id.Name]
}

func (g *fnGen) coqName(ts *ast.TypeSpec) string {
	if n, ok := g.coqNames[ts]; ok {
		return n
	}
	return ts.Name.Name
}

// ---------------------------------------------------------------- pointers to immutable structs

// immutableStruct: no field of the struct is ever assigned outside a composite literal, and no
// pointer to one of its fields is taken -- in the function for a type declared there, in the whole
// file otherwise.  The test is syntactic and by field NAME (x.f = e for any x counts).
func (c *fnCtx) immutableStruct(ts *ast.TypeSpec) (bool, string) {
	names, _ := structFields(ts.Type.(*ast.StructType))
	isField := map[string]bool{}
	for _, n := range names {
		isField[n] = true
	}
	why := ""
	var lhsSel func(e ast.Expr) *ast.SelectorExpr
	lhsSel = func(e ast.Expr) *ast.SelectorExpr {
		switch v := e.(type) {
		case *ast.ParenExpr:
			return lhsSel(v.X)
		case *ast.IndexExpr:
			return lhsSel(v.X)
		case *ast.SelectorExpr:
			if isField[v.Sel.Name] {
				return v
			}
			return lhsSel(v.X)
		}
		return nil
	}
	check := func(body ast.Node) {
		ast.Inspect(body, func(n ast.Node) bool {
			switch v := n.(type) {
			case *ast.AssignStmt:
				for _, l := range v.Lhs {
					if s := lhsSel(l); s != nil && why == "" {
						why = "the field " + s.Sel.Name + " is assigned at line " + itoa(fset.Position(v.Pos()).Line)
					}
				}
			case *ast.IncDecStmt:
				if s := lhsSel(v.X); s != nil && why == "" {
					why = "the field " + s.Sel.Name + " is assigned at line " + itoa(fset.Position(v.Pos()).Line)
				}
			case *ast.UnaryExpr:
				if v.Op == token.AND {
					if s := lhsSel(v.X); s != nil && why == "" {
						why = "a pointer to the field " + s.Sel.Name + " is taken at line " + itoa(fset.Position(v.Pos()).Line)
					}
				}
			}
			return true
		})
	}
	if c.localStructs[ts.Name.Name] == ts {
		check(c.fn.decl.Body)
	} else {
		for _, d := range c.g.file.Decls {
			if fd, ok := d.(*ast.FuncDecl); ok && fd.Body != nil {
				check(fd.Body)
			}
		}
	}
	return why == "", why
}

func itoa(n int) string {
	if n == 0 {
		return "0"
	}
	s := ""
	for n > 0 {
		s = string(rune('0'+n%10)) + s
		n /= 10
	}
	return s
}

// ptrTypeOf: *S with S an immutable struct: option S (nil = None).  The cells are never changed
// after their creation and pointer identity is not observable, so the value stands for the pointer.
func (c *fnCtx) ptrTypeOf(st *ast.StarExpr) *fnType {
	base, _ := baseAndArgs(st.X)
	id, ok := base.(*ast.Ident)
	if !ok {
		return nil
	}
	ts := c.structDecl(id)
	if ts == nil {
		return nil
	}
	if ok, why := c.immutableStruct(ts); !ok {
		c.lostAt(st, "type %s: pointer to a struct that is changed after its creation (%s); such pointers are supported as a read-only parameter whose scalar fields are read, and as the elements of a receiver field declared distinct:", src(st), why)
	}
	t := c.structTypeOf(st.X)
	if t == nil {
		return nil
	}
	return &fnType{k: "ptr", elem: t}
}

// addrOf: &T{...} (a new cell) and &z (z a local of an immutable struct type that is never assigned)
func (c *fnCtx) addrOf(v *ast.UnaryExpr, pre *[]fnBind) (string, *fnType) {
	switch x := v.X.(type) {
	case *ast.CompositeLit:
		if x.Type != nil {
			if pt := c.ptrTypeOf(&ast.StarExpr{Star: v.Pos(), X: x.Type}); pt != nil {
				return "(Some " + c.structLit(x, pt.elem, pre) + ")", pt
			}
		}
	case *ast.Ident:
		if z := c.lookup(x); z != nil && z.typ.k == "struct" && z.role == "local" {
			if ok, why := c.immutableStruct(z.typ.decl); !ok {
				c.lostAt(v, "address of %s: a struct that is changed after its creation (%s)", x.Name, why)
			}
			if x.Obj != nil && assignsObj(c.fn.decl.Body, x.Obj) {
				c.lostAt(v, "address of %s, which is assigned", x.Name)
			}
			return "(Some " + z.name + ")", &fnType{k: "ptr", elem: z.typ}
		}
	}
	c.lostAt(v, "address-of %s (only &T{...} and &z for an immutable struct)", src(v.X))
	return "", nil
}

// ---------------------------------------------------------------- slice fields of a struct: views of one parameter

// viewField: the view-typed field of a struct literal gets a window of parameter x: every literal
// of the function must use the same parameter for that field (the view does not say of what).
func (c *fnCtx) viewField(t *fnType, field string, e ast.Expr) {
	var x *fnVar
	switch v := e.(type) {
	case *ast.Ident:
		x = c.lookup(v)
	case *ast.SliceExpr:
		if id, ok := v.X.(*ast.Ident); ok {
			x = c.lookup(id)
		}
	}
	if x == nil || x.view == nil {
		c.lostAt(e, "slice value %s stored in the field %s (only a window of a slice parameter)", src(e), field)
	}
	key := t.name + "." + field
	if c.viewBase == nil {
		c.viewBase = map[string]*fnVar{}
	}
	if b, ok := c.viewBase[key]; ok && b != x {
		c.lostAt(e, "field %s holds windows of two different parameters (%s and %s)", key, b.name, x.name)
	}
	c.viewBase[key] = x
}

// viewBaseDoc: "Edit.X: windows of lhs; Edit.Y: windows of rhs"
func (c *fnCtx) viewBaseDoc() string {
	var ks []string
	for k := range c.viewBase {
		ks = append(ks, k)
	}
	sort.Strings(ks)
	var ps []string
	for _, k := range ks {
		ps = append(ps, k+": windows of "+c.viewBase[k].name)
	}
	return strings.Join(ps, "; ")
}

// ---------------------------------------------------------------- permutations of slice variables

// slicePermutation: a parallel assignment that involves slice values must permute plain
// list-represented slice variables (p, c = c, p): afterwards no two names share an array, as
// before.  Anything else would make two variables refer to one array.
func (c *fnCtx) slicePermutation(v *ast.AssignStmt) {
	count := map[*fnVar]int{}
	for i := range v.Lhs {
		l, r := c.plainVar(v.Lhs[i]), c.plainVar(v.Rhs[i])
		for _, x := range []*fnVar{l, r} {
			if x == nil || x.typ.k != "slice" || x.view != nil || x.noElems || c.fat[x] != nil || x.role == "field" {
				c.lostAt(v, "parallel assignment of slice values (only a permutation of list-represented slice variables)")
			}
		}
		count[l]++
		count[r]--
	}
	for _, n := range count {
		if n != 0 {
			c.lostAt(v, "parallel assignment of slice values that is not a permutation (aliasing)")
		}
	}
}

// ---------------------------------------------------------------- read-only pointer parameters

// readOnlyPtrParams: a parameter x *T, T a struct of the file that is changed elsewhere (so *T is
// not a value), of which this function only READS scalar fields (x.f; x itself is never assigned,
// compared, handed on, and no field is written or has its address taken): one argument x_f per
// field read, in struct order -- like the fields of the receiver.  Returns false when f is no such
// parameter (the ordinary rules apply).
func (c *fnCtx) readOnlyPtrParams(f *ast.Field) bool {
	st, ok := f.Type.(*ast.StarExpr)
	if !ok {
		return false
	}
	base, _ := baseAndArgs(st.X)
	id, ok := base.(*ast.Ident)
	if !ok {
		return false
	}
	ts := c.g.structs[id.Name]
	if ts == nil || ts.TypeParams != nil {
		return false
	}
	if ok, _ := c.immutableStruct(ts); ok {
		return false // a pointer to an immutable struct is a value (option)
	}
	names, types := structFields(ts.Type.(*ast.StructType))
	for _, n := range f.Names {
		if n.Obj == nil || n.Name == "_" {
			c.lostAt(f, "blank pointer parameter")
		}
		read := map[string]bool{}
		okUse := map[*ast.Ident]bool{}
		ast.Inspect(c.fn.decl.Body, func(x ast.Node) bool {
			switch v := x.(type) {
			case *ast.AssignStmt:
				for _, l := range v.Lhs {
					if b := baseIdent(l); b != nil && b.Obj == n.Obj {
						c.lostAt(v, "pointer parameter %s: assignment through it or to it (only reads of scalar fields)", n.Name)
					}
				}
			case *ast.IncDecStmt:
				if b := baseIdent(v.X); b != nil && b.Obj == n.Obj {
					c.lostAt(v, "pointer parameter %s: assignment through it (only reads of scalar fields)", n.Name)
				}
			case *ast.UnaryExpr:
				if v.Op == token.AND {
					if b := baseIdent(v.X); b != nil && b.Obj == n.Obj {
						c.lostAt(v, "pointer parameter %s: address of a field", n.Name)
					}
				}
			case *ast.SelectorExpr:
				if xid, isId := v.X.(*ast.Ident); isId && xid.Obj == n.Obj {
					okUse[xid] = true
					read[v.Sel.Name] = true
				}
			}
			return true
		})
		ast.Inspect(c.fn.decl.Body, func(x ast.Node) bool {
			if xid, isId := x.(*ast.Ident); isId && xid.Obj == n.Obj && !okUse[xid] {
				c.lostAt(xid, "pointer parameter %s used as a value (only reads of its scalar fields)", n.Name)
			}
			return true
		})
		p := &fnParam{goName: n.Name, ptrStruct: ts}
		if c.ptrFields == nil {
			c.ptrFields = map[*ast.Object]map[string]*fnVar{}
		}
		c.ptrFields[n.Obj] = map[string]*fnVar{}
		for _, fname := range names {
			if !read[fname] {
				continue
			}
			ft := c.goType(types[fname])
			switch ft.k {
			case "int", "byte", "bool", "string", "u64":
			default:
				c.lostAt(f, "pointer parameter %s: field %s of type %s is read (only scalar fields)", n.Name, fname, src(types[fname]))
			}
			v := c.newVar(n.Name+"_"+fname, ft, "param")
			c.ptrFields[n.Obj][fname] = v
			p.ptrFields = append(p.ptrFields, fname)
			p.ptrVars = append(p.ptrVars, v)
			delete(read, fname)
		}
		for fname := range read {
			c.lostAt(f, "pointer parameter %s: %s is not a field of %s", n.Name, fname, id.Name)
		}
		c.fn.params = append(c.fn.params, p)
	}
	return true
}
