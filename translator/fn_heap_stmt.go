package main

// Heap backend: statements, loops, the effect analysis (see fn_heap.go).

import (
	"go/ast"
	"go/token"
	"go/types"
	"strconv"
	"strings"
)

// ---------------------------------------------------------------- which variables a piece of code assigns

func (c *hctx) outside(v *hvar, lo, hi token.Pos) bool {
	if v.role != "local" || v.pos == 0 {
		return true
	}
	return v.pos < lo || v.pos >= hi
}

// lhsVar: the variable a store to l rebinds (the heap for a store through a pointer)
func (c *hctx) lhsVar(l ast.Expr) *hvar {
	switch v := ast.Unparen(l).(type) {
	case *ast.Ident:
		return c.lookup(v)
	case *ast.SelectorExpr:
		if c.isRecvIdent(v.X) {
			return c.fields[v.Sel.Name]
		}
		if c.cellSel(v) != nil {
			return c.heap
		}
		if c.eptrIdent(v.X) {
			return c.heap // a store through a pointer into a slice field of a cell
		}
		return c.lhsVar(v.X)
	case *ast.IndexExpr:
		return c.lhsVar(v.X)
	}
	return nil
}

// assigned: the variables (fields, callback states, the heap) the nodes may assign
func (c *hctx) assigned(nodes ...ast.Node) map[*hvar]bool {
	w := map[*hvar]bool{}
	g := c.g
	wr := func(v *hvar) {
		if v != nil {
			w[v] = true
		}
	}
	var walk func(n ast.Node)
	calleeEffects := func(cal *hfunc, fun ast.Expr, args []ast.Expr) {
		if cal.writesHeap {
			wr(c.heap)
		}
		if sel, ok := ast.Unparen(fun).(*ast.SelectorExpr); ok && cal.recvFields && len(cal.mutFields) > 0 {
			if c.isRecvIdent(sel.X) {
				for _, f := range cal.mutFields {
					wr(c.fields[f])
				}
			} else {
				wr(c.structVar(sel.X))
			}
		}
		for _, a := range args {
			if id, ok := ast.Unparen(a).(*ast.Ident); ok {
				if x := c.lookup(id); x != nil && x.typ.k == "func" && x.typ.stateful {
					wr(c.cbState[x])
				}
			}
		}
	}
	walk = func(n ast.Node) {
		if n == nil {
			return
		}
		ast.Inspect(n, func(n ast.Node) bool {
			switch v := n.(type) {
			case *ast.AssignStmt:
				for _, l := range v.Lhs {
					wr(c.lhsVar(l))
				}
			case *ast.IncDecStmt:
				wr(c.lhsVar(v.X))
			case *ast.RangeStmt:
				if v.Tok == token.ASSIGN {
					wr(c.lhsVar(v.Key))
					if v.Value != nil {
						wr(c.lhsVar(v.Value))
					}
				}
				if cal := g.calleeOf(v.X); cal != nil {
					calleeEffects(cal, v.X, nil)
				}
			case *ast.UnaryExpr:
				if v.Op == token.AND {
					if _, isLit := ast.Unparen(v.X).(*ast.CompositeLit); isLit {
						if tv, ok := g.info.Types[v]; ok {
							if ht := g.typeOf(tv.Type, nil); ht != nil && ht.k == "hptr" {
								wr(c.heap)
							}
						}
					}
				}
			case *ast.CompositeLit:
				if tv, ok := g.info.Types[v]; ok {
					if _, isPtr := types.Unalias(tv.Type).(*types.Pointer); isPtr {
						if ht := g.typeOf(tv.Type, nil); ht != nil && ht.k == "hptr" {
							wr(c.heap)
						}
					}
				}
			case *ast.CallExpr:
				if isBuiltin(v, "new", 1) {
					if tv, ok := g.info.Types[v]; ok {
						if ht := g.typeOf(tv.Type, nil); ht != nil && ht.k == "hptr" {
							wr(c.heap)
						}
					}
				}
				c.textCallEffects(v, wr)
				if cal := g.calleeOf(v.Fun); cal != nil {
					calleeEffects(cal, v.Fun, v.Args)
				} else if id, ok := ast.Unparen(v.Fun).(*ast.Ident); ok {
					if x := c.lookup(id); x != nil && x.typ.k == "func" {
						if x.typ.stateful {
							wr(c.cbState[x])
						}
						if x.typ.shape != nil && x.typ.shape.writesHeap {
							wr(c.heap)
						}
					}
				}
			}
			return true
		})
	}
	for _, n := range nodes {
		walk(n)
	}
	return w
}

// ---------------------------------------------------------------- statements

func (c *hctx) stmts(list []ast.Stmt, k func() term) term {
	if len(list) == 0 {
		return k()
	}
	return c.stmt(list[0], func() term { return c.stmts(list[1:], k) })
}

func (c *hctx) stmt(s ast.Stmt, k func() term) term {
	switch v := s.(type) {
	case *ast.BlockStmt:
		return c.stmts(v.List, k)
	case *ast.EmptyStmt:
		return k()
	case *ast.ExprStmt:
		if call := isPanicCall(v); call != nil {
			if len(call.Args) == 1 {
				if lit, ok := call.Args[0].(*ast.BasicLit); ok && lit.Kind == token.STRING {
					m, err := strconv.Unquote(lit.Value)
					if err == nil && !strings.ContainsAny(m, "\"\\\n") {
						return tRaw{"Panic (PMsg \"" + m + "\")"}
					}
				}
			}
			if t, ok := c.textPanic(call); ok {
				return t
			}
			c.lostAt(v, "panic argument %s (only a plain string literal)", src(call.Args[0]))
		}
		call, ok := v.X.(*ast.CallExpr)
		if !ok {
			c.lostAt(v, "expression statement")
		}
		if as := c.sortStmt(v); as != nil {
			return c.assign(as, k) // slices.SortFunc(xs, lit): xs = the sorted list (fn_heap_ctor.go)
		}
		var pre []hbind
		c.call(call, &pre, nil) // results are dropped
		return wrap(pre, k())
	case *ast.IncDecStmt:
		op := token.ADD
		if v.Tok == token.DEC {
			op = token.SUB
		}
		return c.opAssign(v.X, nil, op, v, k)
	case *ast.AssignStmt:
		return c.assign(v, k)
	case *ast.DeclStmt:
		gd, ok := v.Decl.(*ast.GenDecl)
		if !ok || gd.Tok != token.VAR {
			c.lostAt(v, "declaration")
		}
		var pre []hbind
		for _, sp := range gd.Specs {
			vs := sp.(*ast.ValueSpec)
			for i, n := range vs.Names {
				if n.Name == "_" {
					continue
				}
				o := c.g.info.Defs[n]
				if o == nil {
					c.lostAt(v, "declaration of %s", n.Name)
				}
				t := c.mustType(o.Type(), v)
				switch {
				case len(vs.Values) == 0:
					x := c.declare(n, t)
					pat := x.name
					if z := c.zeroOf(t, v); z == "[]" || z == "None" {
						pre = append(pre, hbind{pat: pat + " : " + t.coq(), e: z, isLet: true})
					} else {
						pre = append(pre, hbind{pat: pat, e: z, isLet: true})
					}
				case len(vs.Values) == len(vs.Names):
					e, _ := c.expr(vs.Values[i], &pre)
					x := c.declare(n, t)
					pre = append(pre, hbind{pat: x.name, e: e, isLet: true})
				default:
					c.lostAt(v, "declaration with a multi-valued initialiser")
				}
			}
		}
		return wrap(pre, k())
	case *ast.ReturnStmt:
		return c.retStmt(v)
	case *ast.BranchStmt:
		if v.Label != nil || len(c.loops) == 0 {
			c.lostAt(v, "%s", v.Tok)
		}
		lc := c.loops[len(c.loops)-1]
		switch v.Tok {
		case token.BREAK:
			return lc.brk()
		case token.CONTINUE:
			return lc.cont()
		}
		c.lostAt(v, "%s", v.Tok)
	case *ast.IfStmt:
		if v.Init != nil {
			return c.stmt(v.Init, func() term { return c.ifStmt(v, k) })
		}
		return c.ifStmt(v, k)
	case *ast.ForStmt:
		return c.forStmt(v, k)
	case *ast.RangeStmt:
		return c.rangeStmt(v, k)
	}
	c.lostAt(s, "statement %T", s)
	return nil
}

func (c *hctx) retStmt(v *ast.ReturnStmt) term {
	var pre []hbind
	var vals []string
	res := c.fn.results
	if c.lit != nil {
		res = c.lit.res
	}
	if (c.fn.ctor || c.fn.retRecv) && c.lit == nil {
		return c.retTerm(nil) // the new struct / the receiver itself: its fields
	}
	if len(v.Results) == 0 {
		if c.lit != nil {
			if len(res) > 0 {
				c.lostAt(v, "bare return inside a function literal")
			}
			return c.litRet(nil)
		}
		if len(res) > 0 {
			if len(c.retNames) != len(res) {
				c.lostAt(v, "bare return")
			}
			vals = hnames(c.retNames)
		}
		return c.retTerm(vals)
	}
	if len(v.Results) == 1 && len(res) > 1 {
		call, ok := v.Results[0].(*ast.CallExpr)
		if !ok {
			c.lostAt(v, "return of a multi-valued expression")
		}
		vals, _ = c.call(call, &pre, nil)
	} else {
		if len(v.Results) != len(res) {
			c.lostAt(v, "return arity")
		}
		for i, r := range v.Results {
			if res[i].k == "struct" && res[i].vres {
				vals = append(vals, c.vresValue(r, res[i], &pre))
				continue
			}
			x, t := c.expr(r, &pre)
			if t.k == "func" {
				c.lostAt(r, "returned function value")
			}
			if t.k == "nil" && res[i].k == "slice" {
				x = "[]" // the nil slice
			} else if s, ok := textNil(res[i]); ok && t.k == "nil" {
				x = s
			} else if t.k == "nil" && res[i].k != "hptr" {
				c.lostAt(r, "returned nil")
			}
			vals = append(vals, x)
		}
	}
	if c.lit != nil {
		return wrap(pre, c.litRet(vals))
	}
	return wrap(pre, c.retTerm(vals))
}

func (c *hctx) ifStmt(v *ast.IfStmt, k func() term) term {
	var pre []hbind
	cond, ct := c.expr(v.Cond, &pre)
	if ct.k != "bool" {
		c.lostAt(v.Cond, "condition")
	}
	var el []ast.Stmt
	switch e := v.Else.(type) {
	case nil:
	case *ast.BlockStmt:
		el = e.List
	default:
		el = []ast.Stmt{e}
	}
	fa, fb := canFall(v.Body.List), canFall(el)
	none := func() term { return tRaw{"Panic (PMsg \"unreachable\")"} }
	// the state of the element pointers follows the control flow: each branch starts from the state here
	ep0 := c.epSave()
	second := func(list []ast.Stmt, k func() term) term {
		c.epRestore(ep0)
		return c.stmts(list, k)
	}
	switch {
	case !fa && !fb:
		return wrap(pre, tIf{cond, c.stmts(v.Body.List, none), second(el, none)})
	case !fa:
		return wrap(pre, tIf{cond, c.stmts(v.Body.List, none), second(el, k)})
	case !fb:
		return wrap(pre, tIf{cond, c.stmts(v.Body.List, k), second(el, none)})
	}
	abrupt := hasAbrupt(v.Body)
	if v.Else != nil && hasAbrupt(v.Else) {
		abrupt = true
	}
	if abrupt {
		// a branch may leave early and may fall through: the continuation is written in both
		return wrap(pre, tIf{cond, c.stmts(v.Body.List, k), second(el, k)})
	}
	var nodes []ast.Node
	nodes = append(nodes, v.Body)
	if v.Else != nil {
		nodes = append(nodes, v.Else)
	}
	var m []*hvar
	for _, x := range c.sortedVars(c.assigned(nodes...)) {
		if c.outside(x, v.Pos(), v.End()) {
			m = append(m, x)
		}
	}
	var ends []map[*hvar]hepState
	join := func() term {
		ends = append(ends, c.epSave())
		return tOk{tuple(hnames(m))}
	}
	pat := tuple(hnames(m))
	if len(m) == 0 {
		pat = "_"
	}
	a := c.stmts(v.Body.List, join)
	b := second(el, join)
	c.epMerge(ends)
	if len(m) == 0 && isPure(a) && isPure(b) {
		return wrap(pre, k())
	}
	return wrap(pre, tBind{pat, tIf{cond, a, b}, k()})
}

// ---------------------------------------------------------------- assignment

func (c *hctx) assign(v *ast.AssignStmt, k func() term) term {
	if v.Tok != token.ASSIGN && v.Tok != token.DEFINE {
		ops := map[token.Token]token.Token{token.ADD_ASSIGN: token.ADD, token.SUB_ASSIGN: token.SUB, token.MUL_ASSIGN: token.MUL,
			token.QUO_ASSIGN: token.QUO, token.REM_ASSIGN: token.REM}
		op, ok := ops[v.Tok]
		if !ok || len(v.Lhs) != 1 || len(v.Rhs) != 1 {
			c.lostAt(v, "assignment %s", v.Tok)
		}
		return c.opAssign(v.Lhs[0], v.Rhs[0], op, v, k)
	}
	if c.bindsEptr(v) {
		return c.assignEptr(v, k) // p := slice.PtrAt(O.F, i): a pointer into a slice field of a cell
	}
	var pre []hbind
	// a, b := f(x)
	if len(v.Rhs) == 1 && len(v.Lhs) > 1 {
		call, ok := v.Rhs[0].(*ast.CallExpr)
		if !ok {
			c.lostAt(v, "multi-valued right-hand side")
		}
		vals, ts := c.call(call, &pre, nil)
		if len(vals) != len(v.Lhs) {
			c.lostAt(v, "assignment arity")
		}
		for i, l := range v.Lhs {
			c.store(l, vals[i], ts[i], v, &pre)
		}
		return wrap(pre, k())
	}
	if len(v.Lhs) != len(v.Rhs) {
		c.lostAt(v, "assignment arity")
	}
	if len(v.Lhs) == 1 {
		if c.pathSliceUpdate(v, &pre) { // O.F = O.F[lo:hi], p.G = append(p.G, ...): a slice field of a cell / of an element
			return wrap(pre, k())
		}
		if t := c.sliceUpdate(v, &pre); t {
			return wrap(pre, k())
		}
		// Go: the operands of the left-hand side, then the right-hand side, then the store
		st := c.storePrep(v.Lhs[0], v, &pre)
		e, t := c.expr(v.Rhs[0], &pre)
		st(e, t)
		return wrap(pre, k())
	}
	// parallel assignment: operands and right-hand sides first, then the stores left to right
	var sts []func(string, *hty)
	for _, l := range v.Lhs {
		sts = append(sts, c.storePrep(l, v, &pre))
	}
	var vals []string
	var ts []*hty
	for _, r := range v.Rhs {
		x, t := c.expr(r, &pre)
		vals = append(vals, x)
		ts = append(ts, t)
	}
	allVars := true
	for _, l := range v.Lhs {
		if _, ok := ast.Unparen(l).(*ast.Ident); !ok {
			allVars = false
		}
	}
	if allVars {
		var pats []string
		for i, l := range v.Lhs {
			id := ast.Unparen(l).(*ast.Ident)
			x := c.target(id, v, ts[i])
			if x == nil {
				pats = append(pats, "_")
			} else {
				c.checkAssign(x, ts[i], v)
				pats = append(pats, x.name)
			}
		}
		pre = append(pre, hbind{pat: tuple(pats), e: tuple(vals), isLet: true})
		return wrap(pre, k())
	}
	// values that later stores could change are frozen first
	for i := range vals {
		if !c.isTmp(vals[i]) {
			if _, err := strconv.Atoi(vals[i]); err != nil {
				t := c.tmp()
				pre = append(pre, hbind{pat: t, e: vals[i], isLet: true})
				vals[i] = t
			}
		}
	}
	for i := range v.Lhs {
		sts[i](vals[i], ts[i])
	}
	return wrap(pre, k())
}

func (c *hctx) isTmp(s string) bool {
	if len(s) < 2 || s[0] != 't' {
		return false
	}
	n, err := strconv.Atoi(s[1:])
	return err == nil && n >= 1 && n <= c.ntmp
}

// opAssign: l op= r (r nil: 1)
func (c *hctx) opAssign(l ast.Expr, r ast.Expr, op token.Token, at ast.Stmt, k func() term) term {
	var pre []hbind
	st := c.storePrep(l, &ast.AssignStmt{Tok: token.ASSIGN, TokPos: at.Pos()}, &pre)
	x, xt := c.lhsRead(l, &pre)
	y, yt := "1", htInt
	if r != nil {
		y, yt = c.expr(r, &pre)
	}
	if xt.k != "int" || yt.k != "int" {
		c.lostAt(at, "operands of %s", op)
	}
	var e string
	switch op {
	case token.ADD, token.SUB, token.MUL:
		e = "(" + x + " " + op.String() + " " + y + ")"
	case token.QUO, token.REM:
		f, gq := "Z.quot", "go_quot"
		if op == token.REM {
			f, gq = "Z.rem", "go_rem"
		}
		if _, err := strconv.Atoi(y); err == nil && y != "0" {
			e = "(" + f + " " + x + " " + y + ")"
		} else {
			t := c.tmp()
			hbindRaw(&pre, t, gq+" "+paren(x)+" "+paren(y))
			e = t
		}
	default:
		c.lostAt(at, "assignment operator %s", op)
	}
	st(e, htInt)
	return wrap(pre, k())
}

// lhsRead: the current value of a left-hand side (for x op= e)
func (c *hctx) lhsRead(l ast.Expr, pre *[]hbind) (string, *hty) {
	return c.expr(l, pre)
}

func (c *hctx) target(id *ast.Ident, st *ast.AssignStmt, t *hty) *hvar {
	if id.Name == "_" {
		return nil
	}
	if x := c.lookup(id); x != nil {
		return x
	}
	if st.Tok == token.DEFINE && c.g.info.Defs[id] != nil {
		if t.k == "nil" {
			c.lostAt(id, "declaration from nil")
		}
		dt := t
		if o := c.g.info.Defs[id]; o != nil && t.k != "func" {
			dt = c.mustType(o.Type(), id)
		}
		return c.declare(id, dt)
	}
	c.lostAt(id, "assignment target %s", id.Name)
	return nil
}

func (c *hctx) checkAssign(x *hvar, t *hty, at ast.Node) {
	if x.typ.k == "func" {
		if !sameShape(x.typ, t) {
			c.lostAt(at, "assignment of a function value of another kind to %s", x.name)
		}
		if x.role != "local" {
			c.lostAt(at, "assignment to the function parameter %s", x.name)
		}
	}
}

func (c *hctx) store(l ast.Expr, val string, t *hty, st *ast.AssignStmt, pre *[]hbind) {
	c.storePrep(l, st, pre)(val, t)
}

// storePrep evaluates the operands of the left-hand side l and returns the store itself
func (c *hctx) storePrep(l ast.Expr, st *ast.AssignStmt, pre *[]hbind) func(val string, t *hty) {
	switch v := ast.Unparen(l).(type) {
	case *ast.Ident:
		return func(val string, t *hty) {
			x := c.target(v, st, t)
			if x == nil {
				return
			}
			c.checkAssign(x, t, st)
			if t.k == "nil" {
				val = c.nilOf(x.typ, l)
			}
			if t.k == "struct" && t.owned && !c.freshOwned(val) {
				c.lostAt(l, "copy of a pointer to a value struct (aliasing)")
			}
			if n := len(*pre); n > 0 && !(*pre)[n-1].isLet && (*pre)[n-1].pat == val && c.isTmp(val) {
				(*pre)[n-1].pat = x.name // the temporary just bound is the variable
				return
			}
			pat := x.name
			if val == "None" || val == "[]" {
				pat += " : " + x.typ.coq()
			} else if c.g.tx != nil && x.typ.k == "struct" && len(x.typ.args) > 0 && st.Tok == token.DEFINE {
				pat += " : " + x.typ.coq() // a record with type arguments: a field left at None would leave them open
			}
			*pre = append(*pre, hbind{pat: pat, e: val, isLet: true})
		}
	case *ast.SelectorExpr:
		sel := c.g.info.Selections[v]
		if sel == nil || sel.Kind() != types.FieldVal {
			c.lostAt(l, "assignment target %s", src(l))
		}
		if c.isRecvIdent(v.X) {
			x := c.fields[v.Sel.Name]
			if x == nil {
				c.lostAt(l, "assignment target %s", src(l))
			}
			c.recvCheck(pre)
			return func(val string, t *hty) {
				if t.k == "nil" {
					val = c.nilOf(x.typ, l)
				}
				pat := x.name
				if val == "None" || val == "[]" {
					pat += " : " + x.typ.coq()
				}
				*pre = append(*pre, hbind{pat: pat, e: val, isLet: true, effect: true})
			}
		}
		if cs := c.cellSel(v); cs != nil {
			addr, pt := c.cellOf(v, pre)
			if !c.isTmp(addr) && !c.isVarName(addr) {
				t := c.tmp()
				*pre = append(*pre, hbind{pat: t, e: addr, isLet: true})
				addr = t
			}
			_ = pt
			return func(val string, t *hty) {
				h := c.needHeap(l)
				if t != nil && t.k == "slice" {
					c.fieldStored(v, cs, st, pre) // the element pointers into this field are detached
				}
				cv := c.tmp()
				rec := "mk_" + cs.name
				for _, f := range cs.fnames {
					if f == v.Sel.Name {
						rec += " " + paren(val)
					} else {
						rec += " (" + cs.name + "_" + f + " " + cv + ")"
					}
				}
				*pre = append(*pre, hbind{pat: h, m: tRaw{"go_hmod " + h + " " + addr + " (fun " + cv + " => " + rec + ")"}, effect: true})
			}
		}
		if ep := c.eptrVar(v.X); ep != nil {
			return c.eptrStore(ep, v, pre) // p.f = e through a pointer into a slice field of a cell
		}
		// x.f = e on a struct-valued variable or field of the receiver
		x := c.structVar(v.X)
		if x == nil {
			c.lostAt(l, "assignment target %s", src(l))
		}
		return func(val string, t *hty) {
			if t != nil && t.k == "nil" {
				if i := fieldIdx(x.typ.st, v.Sel.Name); i >= 0 {
					val = c.nilOf(c.fieldTypes(x.typ)[i], l)
				}
			}
			rec := "mk_" + x.typ.name
			for _, f := range x.typ.st.fnames {
				if f == v.Sel.Name {
					rec += " " + paren(val)
				} else {
					rec += " (" + x.typ.name + "_" + f + " " + x.name + ")"
				}
			}
			*pre = append(*pre, hbind{pat: x.name, e: rec, isLet: true, effect: true})
		}
	}
	if st := c.indexStore(l, pre); st != nil {
		return st
	}
	c.lostAt(l, "assignment target %s", src(l))
	return nil
}

func (c *hctx) isVarName(s string) bool {
	for _, v := range c.all {
		if v.name == s {
			return true
		}
	}
	return false
}

// freshOwned: the value of a *V (V a value struct) that is assigned to a variable must be new: the
// result of a call or &T{...} (bound to a temporary or written in place), never another variable
func (c *hctx) freshOwned(val string) bool {
	return !c.isVarName(val)
}

// ---------------------------------------------------------------- loops

type hloopSpec struct {
	node    ast.Node
	body    *ast.BlockStmt
	cond    func(pre *[]hbind) string
	bodyPre func() []hbind
	post    func(k func() term) term
	eff     []ast.Node
	extraW  []*hvar
	iterLoc []*hvar
}

func (c *hctx) forStmt(v *ast.ForStmt, k func() term) term {
	ls := &hloopSpec{node: v, body: v.Body}
	if v.Cond != nil {
		ls.cond = func(pre *[]hbind) string {
			s, t := c.expr(v.Cond, pre)
			if t.k != "bool" {
				c.lostAt(v.Cond, "loop condition")
			}
			return s
		}
		ls.eff = append(ls.eff, v.Cond)
	}
	if v.Post != nil {
		ls.post = func(k func() term) term { return c.stmt(v.Post, k) }
		ls.eff = append(ls.eff, v.Post)
	}
	if v.Init != nil {
		return c.stmt(v.Init, func() term { return c.loop(ls, k) })
	}
	return c.loop(ls, k)
}

func (c *hctx) synthVar(m *map[ast.Node]*hvar, n ast.Node, base string) *hvar {
	if *m == nil {
		*m = map[ast.Node]*hvar{}
	}
	if x, ok := (*m)[n]; ok {
		return x
	}
	x := c.newVar(base, htInt, "local")
	x.pos = n.Pos()
	(*m)[n] = x
	return x
}

func (c *hctx) rangeStmt(v *ast.RangeStmt, k func() term) term {
	if v.Tok == token.ASSIGN {
		c.lostAt(v, "range assigning to existing variables")
	}
	// range over a function: for x := range y.Each { body }  ==  y.Each(func(x T) bool { body; return true })
	if cal := c.g.calleeOf(v.X); cal != nil {
		return c.rangeFunc(v, cal, k)
	}
	tv, ok := c.g.info.Types[v.X]
	if !ok {
		c.lostAt(v, "range over %s", src(v.X))
	}
	if _, isMap := tv.Type.Underlying().(*types.Map); isMap {
		return c.rangeMap(v, k)
	}
	var pre []hbind
	ls := &hloopSpec{node: v, body: v.Body}
	var key *hvar
	if id, ok := v.Key.(*ast.Ident); ok && id.Name != "_" {
		if o := c.g.info.Defs[id]; o != nil && hAssignsObj(c.g, v.Body, o) {
			c.lostAt(v, "range whose body assigns the index variable")
		}
		key = c.declare(id, htInt)
	} else {
		key = c.synthVar(&c.synth, v, "r")
	}
	key.pos = v.Pos()
	lim := c.synthVar(&c.synthLim, v, "lim")
	rangeT := tv.Type.Underlying()
	if tp, isTp := types.Unalias(tv.Type).(*types.TypeParam); isTp {
		if sl := coreSliceOf(tp); sl != nil {
			rangeT = sl
		}
	}
	switch u := rangeT.(type) {
	case *types.Basic:
		if u.Info()&types.IsInteger == 0 || v.Value != nil {
			c.lostAt(v, "range over %s", src(v.X))
		}
		x, _ := c.expr(v.X, &pre)
		pre = append(pre, hbind{pat: lim.name, e: x, isLet: true})
	case *types.Slice:
		id, ok := ast.Unparen(v.X).(*ast.Ident)
		var xv *hvar
		if ok {
			xv = c.lookup(id)
		}
		if se, isWin := ast.Unparen(v.X).(*ast.SliceExpr); isWin {
			xv = c.rangeWindow(v, se, &pre) // for ... := range xs[lo:hi]: the window as a list of its own
		} else if xv == nil {
			xv = c.textRangeExpr(v, &pre) // a slice-valued expression, in a function that stores nothing (fn_heap_text.go)
		}
		if xv == nil || xv.typ.k != "slice" {
			c.lostAt(v, "range over %s (must be a slice variable)", src(v.X))
		}
		if c.assigned(v.Body)[xv] {
			c.lostAt(v, "assignment to %s inside a range over it", xv.name)
		}
		pre = append(pre, hbind{pat: lim.name, e: "zlen " + xv.name, isLet: true})
		if id, ok := v.Value.(*ast.Ident); ok && id.Name != "_" {
			val := c.declare(id, xv.typ.elem)
			ls.iterLoc = append(ls.iterLoc, val)
			ls.bodyPre = func() []hbind {
				return []hbind{{pat: val.name, m: tRaw{"go_get " + xv.name + " " + key.name}}}
			}
		}
	default:
		c.lostAt(v, "range over %s", src(v.X))
	}
	pre = append(pre, hbind{pat: key.name, e: "0", isLet: true})
	ls.cond = func(pre *[]hbind) string { return "(" + key.name + " <? " + lim.name + ")" }
	ls.post = func(k func() term) term { return tLet{key.name, key.name + " + 1", k()} }
	ls.extraW = []*hvar{key}
	return wrap(pre, c.loop(ls, k))
}

// rangeMap: for k, v := range m, m a map PARAMETER that the function does nothing else with: m is
// the list of the entries in the order this iteration visits them (an input: Go leaves the order
// open; that every key occurs once is a hypothesis of whoever instantiates the list, not checked).
func (c *hctx) rangeMap(v *ast.RangeStmt, k func() term) term {
	id, ok := ast.Unparen(v.X).(*ast.Ident)
	var xv *hvar
	if ok {
		xv = c.lookup(id)
	}
	if xv == nil || xv.typ.k != "rmap" {
		c.lostAt(v, "range over %s (must be a map parameter)", src(v.X))
	}
	if c.assigned(v.Body)[xv] {
		c.lostAt(v, "assignment to %s inside a range over it", xv.name)
	}
	n := 0
	ast.Inspect(c.fn.decl, func(x ast.Node) bool {
		if i, ok := x.(*ast.Ident); ok && c.g.info.Uses[i] != nil && c.g.info.Uses[i] == c.g.info.Uses[id] {
			n++
		}
		return true
	})
	if n != 1 {
		c.lostAt(v, "map %s used other than by one range", xv.name)
	}
	var pre []hbind
	ls := &hloopSpec{node: v, body: v.Body}
	idx := c.synthVar(&c.synth, v, "r")
	idx.pos = v.Pos()
	lim := c.synthVar(&c.synthLim, v, "lim")
	pre = append(pre, hbind{pat: lim.name, e: "zlen " + xv.name, isLet: true})
	kn, vn := "_", "_"
	if id, ok := v.Key.(*ast.Ident); ok && id.Name != "_" {
		kv := c.declare(id, xv.typ.params[0])
		ls.iterLoc = append(ls.iterLoc, kv)
		kn = kv.name
	}
	if v.Value != nil {
		if id, ok := v.Value.(*ast.Ident); ok && id.Name != "_" {
			vv := c.declare(id, xv.typ.params[1])
			ls.iterLoc = append(ls.iterLoc, vv)
			vn = vv.name
		}
	}
	ls.bodyPre = func() []hbind {
		return []hbind{{pat: "(" + kn + ", " + vn + ")", m: tRaw{"go_get " + xv.name + " " + idx.name}}}
	}
	pre = append(pre, hbind{pat: idx.name, e: "0", isLet: true})
	ls.cond = func(pre *[]hbind) string { return "(" + idx.name + " <? " + lim.name + ")" }
	ls.post = func(k func() term) term { return tLet{idx.name, idx.name + " + 1", k()} }
	ls.extraW = []*hvar{idx}
	return wrap(pre, c.loop(ls, k))
}

func hAssignsObj(g *hgen, body ast.Node, obj types.Object) bool {
	found := false
	ast.Inspect(body, func(n ast.Node) bool {
		switch v := n.(type) {
		case *ast.AssignStmt:
			for _, l := range v.Lhs {
				if id, ok := l.(*ast.Ident); ok && g.info.Uses[id] == obj {
					found = true
				}
			}
		case *ast.IncDecStmt:
			if id, ok := v.X.(*ast.Ident); ok && g.info.Uses[id] == obj {
				found = true
			}
		}
		return true
	})
	return found
}

// rangeFunc: for x := range y.M { body }: the body is the callback of y.M
func (c *hctx) rangeFunc(v *ast.RangeStmt, cal *hfunc, k func() term) term {
	ast.Inspect(v.Body, func(n ast.Node) bool {
		switch x := n.(type) {
		case *ast.ReturnStmt:
			c.lostAt(n, "return inside a range over a function")
		case *ast.BranchStmt:
			c.lostAt(n, "%s inside a range over a function", x.Tok)
		case *ast.FuncLit:
			return false
		}
		return true
	})
	var cb *hparam
	n := 0
	for _, p := range cal.params {
		if p.v != nil && p.v.typ.k == "func" {
			cb = p
			n++
		}
	}
	sig := cal.obj.Type().(*types.Signature)
	if n != 1 || cb.st == nil || sig.Params().Len() != 1 || len(cb.v.typ.res) != 1 || cb.v.typ.res[0].k != "bool" {
		c.lostAt(v, "range over %s (not a function of one stateful callback func(...) bool)", src(v.X))
	}
	sub := c.typeSub(cal, v.X)
	clo := &hclosure{node: v.Body, body: v.Body, res: cb.v.typ.res, implicit: true}
	for _, pt := range cb.v.typ.params {
		clo.ptypes = append(clo.ptypes, hsubst(pt, sub))
	}
	for _, e := range []ast.Expr{v.Key, v.Value} {
		if e == nil {
			continue
		}
		id, ok := e.(*ast.Ident)
		if !ok {
			c.lostAt(v, "range variable %s", src(e))
		}
		clo.params = append(clo.params, id)
	}
	if len(clo.params) > len(clo.ptypes) {
		c.lostAt(v, "range over %s (too many variables)", src(v.X))
	}
	var pre []hbind
	c.callTranslated(cal, v.X, nil, false, clo, v, &pre, nil)
	return wrap(pre, k())
}

func (c *hctx) loop(ls *hloopSpec, k func() term) term {
	if c.lit != nil {
		c.lostAt(ls.node, "loop inside a function literal")
	}
	c.fuel = true
	if name, ok := c.loopDone[ls.node]; ok {
		return c.loopCall(name, k) // the continuation is translated a second time
	}
	c.nloop++
	name := c.fn.name + "_loop" + strconv.Itoa(c.nloop)
	nodes := append([]ast.Node{ls.body}, ls.eff...)
	w := c.assigned(nodes...)
	for _, x := range ls.extraW {
		w[x] = true
	}
	iterLoc := map[*hvar]bool{}
	for _, x := range ls.iterLoc {
		iterLoc[x] = true
	}
	lo, hi := ls.body.Pos(), ls.body.End()
	var state []*hvar
	inState := map[*hvar]bool{}
	for _, x := range c.sortedVars(w) {
		if c.outside(x, lo, hi) && !iterLoc[x] {
			state = append(state, x)
			inState[x] = true
		}
	}
	hasRet := hasReturn(ls.body)
	stTuple := tuple(hnames(state))
	exit := stTuple
	if hasRet {
		exit = "Next " + paren(stTuple)
	}
	const recMark = "\x00REC\x00"
	lc := &hloop{hasRet: hasRet}
	lc.brk = func() term { return tOk{exit} }
	lc.cont = func() term {
		if ls.post != nil {
			return ls.post(func() term { return tRaw{recMark} })
		}
		return tRaw{recMark}
	}
	c.loops = append(c.loops, lc)
	c.epLoopCheck(ls.body)
	epBefore := c.epSave()
	var bodyPre []hbind
	if ls.bodyPre != nil {
		bodyPre = ls.bodyPre()
	}
	bodyT := wrap(bodyPre, c.stmts(ls.body.List, lc.cont))
	var fixBody term
	if ls.cond != nil {
		var cpre []hbind
		cond := ls.cond(&cpre)
		fixBody = wrap(cpre, tIf{cond, bodyT, lc.brk()})
	} else {
		fixBody = bodyT
	}
	c.loops = c.loops[:len(c.loops)-1]
	c.epRestore(epBefore)
	fixBody = simp(fixBody)
	rendered := render(fixBody, 2, false)
	// the read-only arguments: the variables declared outside the loop that the body mentions
	var ro []*hvar
	probe := stripStrings(strings.ReplaceAll(rendered, recMark, ""))
	if c.heap != nil && !inState[c.heap] && wordIn(probe, c.heap.name) {
		ro = append(ro, c.heap)
	}
	var roVars []*hvar
	for _, x := range c.all { // everything declared outside the loop that the body mentions

		if inState[x] || iterLoc[x] || !c.outside(x, lo, hi) {
			continue
		}
		if wordIn(probe, x.name) {
			roVars = append(roVars, x)
		}
	}
	// the heap goes after the ordinary variables, as in a function signature
	ro = append(roVars, ro...)
	rec := name + " fuel gas"
	for _, x := range ro {
		rec += " " + x.name
	}
	for _, x := range state {
		rec += " " + x.name
	}
	rendered = strings.ReplaceAll(rendered, recMark, rec)
	var stTypes []string
	for _, x := range state {
		s := c.varType(x)
		if x.typ.k == "func" {
			s = "(" + s + ")"
		}
		stTypes = append(stTypes, s)
	}
	stType := "unit"
	if len(stTypes) > 0 {
		stType = strings.Join(stTypes, " * ")
	}
	rtype := "res " + paren(stType)
	if hasRet {
		rtype = "res (ctl " + paren(stType) + " " + paren(c.retType()) + ")"
	}
	all := append(append([]*hvar{}, ro...), state...)
	var b strings.Builder
	b.WriteString("Fixpoint " + name + c.tparamsOf(all, hasRet) + " (fuel gas : nat)" + c.binders(ro) + c.binders(state) + " {struct gas} : " + rtype + " :=\n")
	b.WriteString("  match gas with\n  | O => OutOfFuel\n  | S gas =>\n    " + rendered + "\n  end.\n")
	c.fix = append(c.fix, b.String())
	c.loopDone[ls.node] = name
	call := name + " fuel fuel"
	for _, x := range ro {
		call += " " + x.name
	}
	for _, x := range state {
		call += " " + x.name
	}
	pat := stTuple
	if len(state) == 0 {
		pat = "_"
	}
	c.loopInfo[name] = &loopInfo{call: call, pat: pat, hasRet: hasRet}
	return c.loopCall(name, k)
}

func (c *hctx) loopCall(name string, k func() term) term {
	li := c.loopInfo[name]
	if !li.hasRet {
		return tBind{li.pat, tRaw{li.call}, k()}
	}
	r := c.tmp()
	var ret term
	if len(c.loops) > 0 {
		ret = tOk{"Ret " + r + "_"}
	} else {
		ret = tOk{r + "_"}
	}
	return tBind{r, tRaw{li.call}, tMatchCtl{scrut: r, retVar: r + "_", ret: ret, nextPat: li.pat, next: k()}}
}

// stripStrings removes the string literals ("...") of a rendered term
func stripStrings(s string) string {
	var b strings.Builder
	in := false
	for i := 0; i < len(s); i++ {
		if s[i] == '"' {
			in = !in
			continue
		}
		if !in {
			b.WriteByte(s[i])
		}
	}
	return b.String()
}

// sliceVar: e is a slice-typed variable or receiver field
func (c *hctx) sliceVar(e ast.Expr) *hvar {
	switch v := ast.Unparen(e).(type) {
	case *ast.Ident:
		if x := c.lookup(v); x != nil && x.typ.k == "slice" {
			return x
		}
	case *ast.SelectorExpr:
		if c.isRecvIdent(v.X) {
			if x := c.fields[v.Sel.Name]; x != nil && x.typ.k == "slice" {
				return x
			}
		}
	}
	return nil
}

// sliceUpdate: x = append(x, e...) and x = x[lo:hi] on the SAME list-represented slice variable or
// receiver field (exact for the elements; re-slicing beyond len is the distinguished PSliceLen)
func (c *hctx) sliceUpdate(v *ast.AssignStmt, pre *[]hbind) bool {
	x := c.sliceVar(v.Lhs[0])
	if x != nil && x.role == "field" {
		switch ast.Unparen(v.Rhs[0]).(type) {
		case *ast.CallExpr, *ast.SliceExpr:
			c.recvCheck(pre)
		}
	}
	switch r := ast.Unparen(v.Rhs[0]).(type) {
	case *ast.CallExpr:
		if !isBuiltin(r, "append", len(r.Args)) || len(r.Args) < 1 {
			return false
		}
		if x == nil || c.sliceVar(r.Args[0]) != x || v.Tok != token.ASSIGN {
			c.lostAt(v, "append (only x = append(x, e...) on a slice variable or receiver field)")
		}
		if r.Ellipsis.IsValid() {
			// x = append(x, ys...): the elements of ys after those of x
			if len(r.Args) != 2 {
				c.lostAt(v, "append")
			}
			y, t := c.expr(r.Args[1], pre)
			if t.k != "slice" {
				c.lostAt(v, "append of %s...", src(r.Args[1]))
			}
			*pre = append(*pre, hbind{pat: x.name, e: x.name + " ++ " + paren(y), isLet: true, effect: true})
			return true
		}
		var xs []string
		for _, a := range r.Args[1:] {
			y, t := c.expr(a, pre)
			if t.k == "slice" || t.k == "func" {
				c.lostAt(a, "appended value of type %s", t.k)
			}
			xs = append(xs, y)
		}
		*pre = append(*pre, hbind{pat: x.name, e: x.name + " ++ [" + strings.Join(xs, "; ") + "]", isLet: true, effect: true})
		return true
	case *ast.SliceExpr:
		if x == nil || c.sliceVar(r.X) != x || r.Slice3 || v.Tok != token.ASSIGN {
			c.lostAt(v, "slice expression %s (only x = x[lo:hi] on a slice variable or receiver field: aliasing)", src(r))
		}
		lo, hi := "0", "(zlen "+x.name+")"
		if r.Low != nil {
			lo, _ = c.expr(r.Low, pre)
		}
		if r.High != nil {
			hi, _ = c.expr(r.High, pre)
		}
		*pre = append(*pre, hbind{pat: x.name, m: tRaw{"go_sub " + x.name + " " + paren(lo) + " " + paren(hi)}, effect: true})
		return true
	}
	return false
}

// nilOf: nil assigned to a variable of type t
func (c *hctx) nilOf(t *hty, at ast.Node) string {
	switch t.k {
	case "slice":
		return "[]"
	case "hptr", "err", "opt":
		return "None"
	}
	c.lostAt(at, "nil assigned to a variable of type %s", t.k)
	return ""
}
