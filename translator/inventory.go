package main

// special "inventory": for one package directory, the list of every function and method with a
// body in its non-test .go files, each with the statement skeleton of its body (the "shape"
// number of find(), extended: the bodies of function literals are walked too, and every call
// expression contributes one digit to the statement that contains it), plus the package-level
// declarations (types with their field counts, constants and variables with their printed
// values).  Emitted as  Definition inventory : list (string * Z)  /  Definition decls : list string.
//
// The Coq side pins the list the models were transcribed from (coq/Inventory/*.v, one lemma per
// package proved by reflexivity): a new helper function, a new file, an added guard, a dropped
// or reordered statement, an extra call inside a statement, a changed constant, anywhere in the
// package, changes this file and breaks that lemma — whether or not any expression anchor or
// generated function looks at the place.  It says nothing about expressions; those are the
// business of the item anchors and of the function translator.

import (
	"fmt"
	"go/ast"
	"go/parser"
	"go/token"
	"math/big"
	"os"
	"path/filepath"
	"sort"
	"strings"
)

func deepShape(body *ast.BlockStmt) string {
	var d []byte
	var walk func(s ast.Stmt)
	var block func(b *ast.BlockStmt)
	// exprs: one digit 0 per call expression (pre-order), and the body of every function literal
	exprs := func(nodes ...ast.Node) {
		for _, n := range nodes {
			if n == nil || isNilNode(n) {
				continue
			}
			ast.Inspect(n, func(x ast.Node) bool {
				switch v := x.(type) {
				case *ast.CallExpr:
					d = append(d, 0)
				case *ast.FuncLit:
					d = append(d, 12)
					block(v.Body)
					return false
				}
				return true
			})
		}
	}
	block = func(b *ast.BlockStmt) {
		d = append(d, 14)
		if b != nil {
			for _, s := range b.List {
				walk(s)
			}
		}
		d = append(d, 15)
	}
	walk = func(s ast.Stmt) {
		switch v := s.(type) {
		case nil:
		case *ast.BlockStmt:
			block(v)
		case *ast.LabeledStmt:
			walk(v.Stmt)
		case *ast.IfStmt:
			d = append(d, 1)
			walk(v.Init)
			exprs(v.Cond)
			block(v.Body)
			if v.Else != nil {
				d = append(d, 13)
				walk(v.Else)
			}
		case *ast.ForStmt:
			d = append(d, 2)
			walk(v.Init)
			if v.Cond != nil {
				exprs(v.Cond)
			}
			walk(v.Post)
			block(v.Body)
		case *ast.RangeStmt:
			d = append(d, 3)
			exprs(v.X)
			block(v.Body)
		case *ast.ReturnStmt:
			d = append(d, 4)
			for _, r := range v.Results {
				exprs(r)
			}
		case *ast.AssignStmt:
			d = append(d, 5)
			for _, r := range v.Lhs {
				exprs(r)
			}
			for _, r := range v.Rhs {
				exprs(r)
			}
		case *ast.ExprStmt:
			d = append(d, 6)
			exprs(v.X)
		case *ast.BranchStmt:
			d = append(d, 7)
		case *ast.IncDecStmt:
			d = append(d, 8)
		case *ast.DeclStmt:
			d = append(d, 9)
			exprs(v.Decl)
		case *ast.SwitchStmt:
			d = append(d, 10)
			walk(v.Init)
			if v.Tag != nil {
				exprs(v.Tag)
			}
			block(v.Body)
		case *ast.TypeSwitchStmt:
			d = append(d, 10)
			walk(v.Init)
			block(v.Body)
		case *ast.SelectStmt:
			d = append(d, 10)
			block(v.Body)
		case *ast.CaseClause:
			d = append(d, 11)
			for _, e := range v.List {
				exprs(e)
			}
			d = append(d, 14)
			for _, s := range v.Body {
				walk(s)
			}
			d = append(d, 15)
		case *ast.CommClause:
			d = append(d, 11, 14)
			for _, s := range v.Body {
				walk(s)
			}
			d = append(d, 15)
		case *ast.DeferStmt:
			d = append(d, 12, 1)
			exprs(v.Call)
		case *ast.GoStmt:
			d = append(d, 12, 2)
			exprs(v.Call)
		case *ast.SendStmt:
			d = append(d, 12, 3)
			exprs(v.Chan, v.Value)
		default:
			d = append(d, 12)
		}
	}
	block(body)
	n := new(big.Int)
	n.SetInt64(1) // leading 1 keeps leading zero digits
	for _, x := range d {
		n.Lsh(n, 4)
		n.Or(n, big.NewInt(int64(x)))
	}
	return n.String()
}

func isNilNode(n ast.Node) bool {
	switch v := n.(type) {
	case ast.Expr:
		return v == nil
	case ast.Stmt:
		return v == nil
	}
	return false
}

func recvName(fd *ast.FuncDecl) string {
	if fd.Recv == nil || len(fd.Recv.List) != 1 {
		return ""
	}
	t := fd.Recv.List[0].Type
	for {
		switch v := t.(type) {
		case *ast.StarExpr:
			t = v.X
			continue
		case *ast.IndexExpr:
			t = v.X
			continue
		case *ast.IndexListExpr:
			t = v.X
			continue
		}
		break
	}
	if id, ok := t.(*ast.Ident); ok {
		return id.Name
	}
	return "?"
}

func coqString(s string) string {
	return "\"" + strings.ReplaceAll(s, "\"", "\"\"") + "\""
}

// inventory returns the text of the Gen file and the list of problems.
func inventory(dir string) (string, []string) {
	var lostItems []string
	ents, err := os.ReadDir(dir)
	if err != nil {
		return "", []string{fmt.Sprintf("anchor inventory lost: %v", err)}
	}
	var funcs, decls, files []string
	for _, e := range ents {
		name := e.Name()
		if e.IsDir() || !strings.HasSuffix(name, ".go") || strings.HasSuffix(name, "_test.go") {
			continue
		}
		files = append(files, coqString(name))
		f, err := parser.ParseFile(fset, filepath.Join(dir, name), nil, 0)
		if err != nil {
			lostItems = append(lostItems, fmt.Sprintf("anchor inventory lost: parse error: %v", err))
			continue
		}
		for _, d := range f.Decls {
			switch v := d.(type) {
			case *ast.FuncDecl:
				if v.Body == nil {
					continue
				}
				n := v.Name.Name
				if r := recvName(v); r != "" {
					n = r + "." + n
				}
				np, nr := 0, 0
				if v.Type.Params != nil {
					np = v.Type.Params.NumFields()
				}
				if v.Type.Results != nil {
					nr = v.Type.Results.NumFields()
				}
				funcs = append(funcs, fmt.Sprintf("(%s, %s%%Z)", coqString(fmt.Sprintf("%s:%s/%d/%d", name, n, np, nr)), deepShape(v.Body)))
			case *ast.GenDecl:
				if v.Tok == token.IMPORT {
					continue
				}
				for _, sp := range v.Specs {
					switch s := sp.(type) {
					case *ast.TypeSpec:
						decls = append(decls, coqString(fmt.Sprintf("%s:type %s = %s", name, s.Name.Name, src(s.Type))))
					case *ast.ValueSpec:
						for i, id := range s.Names {
							val := ""
							if i < len(s.Values) {
								val = src(s.Values[i])
							}
							decls = append(decls, coqString(fmt.Sprintf("%s:%s %s = %s", name, v.Tok.String(), id.Name, val)))
						}
					}
				}
			}
		}
	}
	sort.Strings(funcs)
	sort.Strings(decls)
	var b strings.Builder
	b.WriteString("From Coq Require Import String.\nLocal Open Scope string_scope.\n\n")
	b.WriteString("(* every function with a body: (file:Recv.Name/params/results, deep statement skeleton) *)\n")
	b.WriteString("Definition inventory : list (string * Z) :=\n  [ ")
	b.WriteString(strings.Join(funcs, ";\n    "))
	b.WriteString(" ].\n\n(* package-level types, constants and variables as printed *)\n")
	b.WriteString("Definition decls : list string :=\n  [ ")
	b.WriteString(strings.Join(decls, ";\n    "))
	b.WriteString(" ].\n\n(* the non-test .go files of the package *)\nDefinition files : list string :=\n  [ ")
	b.WriteString(strings.Join(files, "; "))
	b.WriteString(" ].\n")
	return b.String(), lostItems
}
