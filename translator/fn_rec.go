package main

// Lists of pointers to records that are changed through the loop variable (`[]*Chunk` with the
// spec distinct:Type.field), slice fields a struct OWNS (spec owned:Type.field), struct types and
// constants of another package of the module.  See notes/fn-translator.md.

import (
	"go/ast"
	"go/token"
	"strings"
)

// ---------------------------------------------------------------- struct types and constants of other packages

// aliasTarget: `type Edit = slice.Edit[string]` in the file: the aliased type expression
func (g *fnGen) aliasTarget(name string) ast.Expr {
	for _, d := range g.file.Decls {
		if gd, ok := d.(*ast.GenDecl); ok && gd.Tok == token.TYPE {
			for _, s := range gd.Specs {
				if ts := s.(*ast.TypeSpec); ts.Name.Name == name && ts.Assign.IsValid() {
					return ts.Type
				}
			}
		}
	}
	return nil
}

// foreignTypeSpec: the declaration of pkg.Name in another package of the module
func (c *fnCtx) foreignTypeSpec(pkg, name string) *ast.TypeSpec {
	for _, f := range c.g.foreignFiles(c, pkg) {
		for _, d := range f.Decls {
			if gd, ok := d.(*ast.GenDecl); ok && gd.Tok == token.TYPE {
				for _, s := range gd.Specs {
					if ts := s.(*ast.TypeSpec); ts.Name.Name == name {
						return ts
					}
				}
			}
		}
	}
	return nil
}

// foreignStructTypeOf: pkg.Name[args] with Name a struct type of another package of the module:
// a Record of this file under the type's own name (slice.Edit[string] -> Edit (list Z)).
func (c *fnCtx) foreignStructTypeOf(sel *ast.SelectorExpr, args []ast.Expr) *fnType {
	id, ok := sel.X.(*ast.Ident)
	if !ok || id.Obj != nil {
		return nil
	}
	ts := c.foreignTypeSpec(id.Name, sel.Sel.Name)
	if ts == nil {
		return nil
	}
	stt, ok := ts.Type.(*ast.StructType)
	if !ok {
		return nil
	}
	tps := fieldListNames(ts.TypeParams)
	if len(tps) != len(args) {
		c.lostAt(sel, "type %s (type arguments)", src(sel))
	}
	t := &fnType{k: "struct", name: ts.Name.Name, decl: ts}
	for _, a := range args {
		t.params = append(t.params, c.goType(a))
	}
	if c.g.foreignStructs == nil {
		c.g.foreignStructs = map[*ast.TypeSpec]string{}
	}
	c.g.foreignStructs[ts] = id.Name
	known := false
	for _, o := range c.g.structOrder {
		if o == ts.Name.Name {
			known = true
		}
	}
	if !known {
		if c.g.structs[ts.Name.Name] != nil {
			c.lostAt(sel, "type %s: a struct of the same name is declared in this file", src(sel))
		}
		// before the structs of the file, which may hold it
		c.g.structOrder = append([]string{ts.Name.Name}, c.g.structOrder...)
	}
	names, types := structFields(stt)
	saved := c.foreignPkg
	c.foreignPkg = id.Name
	defer func() { c.foreignPkg = saved }()
	c.withTypeArgs(tps, args, sel, func() {
		for _, n := range names {
			ft := c.fieldTypeOf(ts.Name.Name, n, types[n])
			switch ft.k {
			case "int", "byte", "bool", "string", "elem", "u64", "view", "slice":
			default:
				c.lostAt(sel, "struct type %s with a field of type %s", src(sel), src(types[n]))
			}
			t.fnames = append(t.fnames, n)
			t.res = append(t.res, ft)
		}
	})
	c.g.record(c, ts)
	return t
}

// foreignBasic: a named basic type of the package whose declarations are being read (EditOp byte)
func (c *fnCtx) foreignBasic(name string) *fnType {
	if c.foreignPkg == "" {
		return nil
	}
	ts := c.foreignTypeSpec(c.foreignPkg, name)
	if ts == nil || ts.TypeParams != nil {
		return nil
	}
	if id, ok := ts.Type.(*ast.Ident); ok {
		switch id.Name {
		case "int", "int64", "uint", "int32", "uint32", "uint64", "bool", "byte", "uint8", "string":
			return c.goType(id)
		}
	}
	return nil
}

// foreignConst: pkg.Name, a constant of another package of the module: its value
func (c *fnCtx) foreignConst(sel *ast.SelectorExpr, pre *[]fnBind) (string, *fnType) {
	id, ok := sel.X.(*ast.Ident)
	if !ok || id.Obj != nil {
		return "", nil
	}
	for _, f := range c.g.foreignFiles(c, id.Name) {
		if v, ok := pkgConsts(f)[sel.Sel.Name]; ok {
			if n, ok := c.constVal(v); ok {
				return zlit(n), tyUntyped
			}
			c.lostAt(sel, "constant %s (its value %s)", src(sel), src(v))
		}
	}
	return "", nil
}

// ---------------------------------------------------------------- owned slice fields

// fieldTypeOf: the representation of field f of struct type sname: a slice field is a window of a
// slice parameter (a view) unless the spec owned:sname.f says the struct owns the array: then it
// is the list of its elements, and only values nobody else holds may be stored into it.
func (c *fnCtx) fieldTypeOf(sname, f string, e ast.Expr) *fnType {
	if c.g.owned[sname+"."+f] {
		ft := c.goType(e)
		if ft.k != "slice" || ft.elem.k == "slice" || ft.elem.k == "map" {
			c.lostAt(e, "owned field %s.%s of type %s", sname, f, src(e))
		}
		return ft
	}
	return c.fieldType(e)
}

// measuredOnlyAfter: after position pos the local list x only appears as len(x): then a struct
// that took it over is its only holder that matters (nobody changes or re-slices it through x)
func (c *fnCtx) measuredOnlyAfter(x *fnVar, pos token.Pos) bool {
	ok := true
	okUse := map[*ast.Ident]bool{}
	ast.Inspect(c.fn.decl.Body, func(n ast.Node) bool {
		if call, isCall := n.(*ast.CallExpr); isCall && isBuiltin(call, "len", 1) {
			if id, isId := call.Args[0].(*ast.Ident); isId {
				okUse[id] = true
			}
		}
		return true
	})
	ast.Inspect(c.fn.decl.Body, func(n ast.Node) bool {
		if id, isId := n.(*ast.Ident); isId && id.Pos() > pos && c.lookup(id) == x && !okUse[id] {
			ok = false
		}
		return true
	})
	return ok
}

// ownedValue: the value stored into the owned slice field `field` of the record variable x
// (x.field = r), or into such a field of a struct literal (x == nil):
//   - nil, or a local list this function made that is only measured afterwards (X: pre);
//   - append(x.field, e...), append([]E{e...}, x.field...), x.field[lo:hi]: the field's own value
//     extended / shortened (the old array has no other holder).
func (c *fnCtx) ownedValue(r ast.Expr, x *fnVar, field string, t *fnType, pre *[]fnBind) string {
	for {
		p, ok := r.(*ast.ParenExpr)
		if !ok {
			break
		}
		r = p.X
	}
	isSelf := func(e ast.Expr) bool {
		sel, ok := e.(*ast.SelectorExpr)
		return ok && x != nil && c.plainVar(sel.X) == x && sel.Sel.Name == field
	}
	self := func() string { return "(" + x.typ.name + "_" + field + " " + x.name + ")" }
	elems := func(es []ast.Expr) string {
		var xs []string
		for _, e := range es {
			xs = append(xs, c.elemValue(e, t.elem, pre))
		}
		return "[" + strings.Join(xs, "; ") + "]"
	}
	switch v := r.(type) {
	case *ast.Ident:
		if v.Name == "nil" && v.Obj == nil {
			return "[]"
		}
		if y := c.lookup(v); y != nil && y.role == "local" && y.typ.k == "slice" && y.view == nil && c.fat[y] == nil {
			if !c.measuredOnlyAfter(y, v.End()) {
				c.lostAt(r, "slice %s stored in the owned field %s and used afterwards (aliasing; only len(%s))", v.Name, field, v.Name)
			}
			return y.name
		}
	case *ast.CallExpr:
		if isBuiltin(v, "append", len(v.Args)) && len(v.Args) >= 1 {
			if isSelf(v.Args[0]) && !v.Ellipsis.IsValid() {
				return "(" + self() + " ++ " + elems(v.Args[1:]) + ")"
			}
			if lit, ok := v.Args[0].(*ast.CompositeLit); ok && v.Ellipsis.IsValid() && len(v.Args) == 2 && isSelf(v.Args[1]) {
				if lt := c.goType(lit.Type); lt.k == "slice" {
					return "(" + elems(lit.Elts) + " ++ " + self() + ")"
				}
			}
		}
	case *ast.SliceExpr:
		if isSelf(v.X) && !v.Slice3 {
			lo, hi := "0", "(zlen "+self()+")"
			if v.Low != nil {
				lo, _ = c.expr(v.Low, pre)
			}
			if v.High != nil {
				hi, _ = c.expr(v.High, pre)
			}
			tm := c.tmp()
			bindRaw(pre, tm, "go_sub "+self()+" "+paren(lo)+" "+paren(hi))
			return tm
		}
	}
	c.lostAt(r, "value %s stored in the owned slice field %s (only nil, a local list not used afterwards, or the field's own value appended to / re-sliced)", src(r), field)
	return ""
}

// elemValue: an element of a slice literal or of an append: a struct literal (its type may be
// elided inside a slice literal) or a scalar
func (c *fnCtx) elemValue(e ast.Expr, et *fnType, pre *[]fnBind) string {
	if lit, ok := e.(*ast.CompositeLit); ok && et.k == "struct" {
		if lit.Type != nil {
			if lt := c.goType(lit.Type); lt.k != "struct" || lt.coq() != et.coq() {
				c.lostAt(e, "element %s of another type", src(e))
			}
		}
		return c.structLit(lit, et, pre)
	}
	x, t := c.expr(e, pre)
	switch t.k {
	case "slice", "view", "map", "obj", "sres", "func":
		c.lostAt(e, "element %s of type %s", src(e), t.k)
	}
	return x
}

// ---------------------------------------------------------------- lists of pointers to records

// distinctPtrList: the type of a receiver field []*S under the spec distinct:Type.field: the
// pointers it holds are taken to be pairwise distinct and non-nil (an invariant of the type, set
// up where the list is built), so the list is represented by the records: reading x[i].f reads
// record i, a store through the range variable of `for i, c := range d.field` is written back at
// position i at once.  Returns nil when t is not of that shape.
func (c *fnCtx) distinctPtrList(t ast.Expr) *fnType {
	at, ok := t.(*ast.ArrayType)
	if !ok || at.Len != nil {
		return nil
	}
	st, ok := at.Elt.(*ast.StarExpr)
	if !ok {
		return nil
	}
	et := c.structTypeOf(st.X)
	if et == nil {
		return nil
	}
	return &fnType{k: "slice", elem: et}
}

// rangedPtrFields (a scan of the body): the receiver fields with the spec distinct: that are
// ranged over with a value variable through which the body assigns: those fields are changed.
func (c *fnCtx) rangedPtrFields(body ast.Node, isRecvIdent func(ast.Expr) bool, recvType string) []string {
	var fs []string
	ast.Inspect(body, func(n ast.Node) bool {
		rs, ok := n.(*ast.RangeStmt)
		if !ok {
			return true
		}
		sel, ok := rs.X.(*ast.SelectorExpr)
		if !ok || !isRecvIdent(sel.X) || !c.g.distinct[recvType+"."+sel.Sel.Name] {
			return true
		}
		v, ok := rs.Value.(*ast.Ident)
		if !ok || v.Obj == nil {
			return true
		}
		if storesThrough(rs.Body, v.Obj) {
			fs = append(fs, sel.Sel.Name)
		}
		return true
	})
	return fs
}

// storesThrough: the body assigns a field through the variable (v.f = e, v.f op= e, v.f++)
func storesThrough(body ast.Node, obj *ast.Object) bool {
	found := false
	ast.Inspect(body, func(n ast.Node) bool {
		switch s := n.(type) {
		case *ast.AssignStmt:
			for _, l := range s.Lhs {
				if _, isSel := l.(*ast.SelectorExpr); isSel {
					if b := baseIdent(l); b != nil && b.Obj == obj {
						found = true
					}
				}
			}
		case *ast.IncDecStmt:
			if _, isSel := s.X.(*ast.SelectorExpr); isSel {
				if b := baseIdent(s.X); b != nil && b.Obj == obj {
					found = true
				}
			}
		}
		return true
	})
	return found
}
