package main

// Directive fresh:Recv.F (syntactic backend) -- a method of a struct R that builds and returns a NEW
// object of ANOTHER struct S of the file which shares R's object field:
//
//	func (m Map[T, U]) First() *Iter[T, U] {
//		it := &Iter[T, U]{m: m.m}
//		if m.m != nil { it.c = m.m.Root().Min() }
//		return it
//	}
//
// The object representation hands object states around by value and cannot say "the same object"
// of two fields.  But here the literal itself says it: it.m IS m.m, R has no other field the body
// mentions, and every return hands back `it`.  So the method is translated as a method of S run on
// the fresh object: before translation the source gets the additional declaration
//
//	func (it *Iter[T, U]) Map_First() *Iter[T, U] {
//		it.c = nil                       // the fields the literal leaves out are zero
//		if it.m != nil { it.c = it.m.Root().Min() }
//		return it
//	}
//
// (every `m.m` replaced by `it.m`, the literal statement by the zero stores), and the spec becomes
// Iter.Map_First.  Second form, for a body that is `return m.F(a...).G(b...)` with F itself fresh:
// `it.Map_F(a...); it.G(b...); return it`.  Checked syntactically; anything else: the spec is left
// as it is and reported lost.  The file is printed and parsed again, so every identifier is
// resolved in the new text.

import (
	"go/ast"
	"go/parser"
	"go/token"
	"os"
	"strings"
)

type freshInfo struct {
	itName, ty string // the variable of the new object, the printed type S[...]
	sname      string // S
	newName    string // Map_First
}

// fnFresh rewrites the specs fresh:R.F; returns the (possibly re-parsed) file and the new specs.
func fnFresh(f *ast.File, specs []string) (*ast.File, []string) {
	any := false
	for _, sp := range specs {
		if strings.HasPrefix(sp, "fresh:") {
			any = true
		}
	}
	if !any {
		return f, specs
	}
	path := fset.Position(f.Pos()).Filename
	srcb, err := os.ReadFile(path)
	if err != nil {
		return f, specs
	}
	text := string(srcb)
	off := func(p token.Pos) int { return fset.Position(p).Offset }
	done := map[string]*freshInfo{} // by method name F
	var added []string
	out := make([]string, 0, len(specs))
	for _, sp := range specs {
		if !strings.HasPrefix(sp, "fresh:") {
			out = append(out, sp)
			continue
		}
		name := strings.TrimPrefix(sp, "fresh:")
		fd := findFunc(f, name)
		if fd == nil || fd.Body == nil || fd.Recv == nil || len(fd.Recv.List) != 1 || len(fd.Recv.List[0].Names) != 1 || len(fd.Body.List) == 0 {
			out = append(out, name)
			continue
		}
		recv := fd.Recv.List[0].Names[0]
		rname, _, _ := func() (string, string, []string) { a, b, c := recvInfo(fd); return b, a, c }()
		params := text[off(fd.Type.Params.Pos()):off(fd.Type.Params.End())]
		var fi *freshInfo
		var body string
		// form 2: return m.F(a...).G(b...)
		if ret, ok := fd.Body.List[0].(*ast.ReturnStmt); ok && len(fd.Body.List) == 1 && len(ret.Results) == 1 {
			if outer, ok := ret.Results[0].(*ast.CallExpr); ok {
				if osel, ok := outer.Fun.(*ast.SelectorExpr); ok {
					if inner, ok := osel.X.(*ast.CallExpr); ok {
						if isel, ok := inner.Fun.(*ast.SelectorExpr); ok {
							if id, ok := isel.X.(*ast.Ident); ok && id.Obj == recv.Obj && done[isel.Sel.Name] != nil && !mentions(inner.Args, recv.Obj) && !mentions(outer.Args, recv.Obj) {
								d := done[isel.Sel.Name]
								fi = &freshInfo{itName: d.itName, ty: d.ty, sname: d.sname, newName: rname + "_" + fd.Name.Name}
								body = "\t" + d.itName + "." + d.newName + text[off(inner.Lparen):off(inner.Rparen)+1] + "\n\t" +
									d.itName + "." + osel.Sel.Name + text[off(outer.Lparen):off(outer.Rparen)+1] + "\n\treturn " + d.itName + "\n"
							}
						}
					}
				}
			}
		}
		// form 1: it := &S{f: m.g}; ...; return it
		if fi == nil {
			as, ok := fd.Body.List[0].(*ast.AssignStmt)
			if ok && as.Tok == token.DEFINE && len(as.Lhs) == 1 && len(as.Rhs) == 1 {
				itId, _ := as.Lhs[0].(*ast.Ident)
				un, _ := as.Rhs[0].(*ast.UnaryExpr)
				if itId != nil && un != nil && un.Op == token.AND {
					if lit, ok := un.X.(*ast.CompositeLit); ok && len(lit.Elts) == 1 {
						if kv, ok := lit.Elts[0].(*ast.KeyValueExpr); ok {
							fkey, _ := kv.Key.(*ast.Ident)
							vsel, _ := kv.Value.(*ast.SelectorExpr)
							base, _ := baseAndArgs(lit.Type)
							sid, _ := base.(*ast.Ident)
							if fkey != nil && vsel != nil && sid != nil {
								if rid, ok := vsel.X.(*ast.Ident); ok && rid.Obj == recv.Obj {
									fi = freshForm1(f, fd, text, off, recv, itId, sid.Name, text[off(lit.Type.Pos()):off(lit.Type.End())], fkey.Name, vsel.Sel.Name, rname, &body)
								}
							}
						}
					}
				}
			}
		}
		if fi == nil {
			out = append(out, name) // not of the shape: translated as it stands (and lost)
			continue
		}
		done[fd.Name.Name] = fi
		added = append(added, "\nfunc ("+fi.itName+" *"+fi.ty+") "+fi.newName+params+" *"+fi.ty+" {\n"+body+"}\n")
		out = append(out, fi.sname+"."+fi.newName)
	}
	if len(added) == 0 {
		return f, out
	}
	nf, err := parser.ParseFile(fset, path, text+strings.Join(added, ""), 0)
	if err != nil {
		return f, specs
	}
	return nf, out
}

func mentions(es []ast.Expr, o *ast.Object) bool {
	found := false
	for _, e := range es {
		ast.Inspect(e, func(n ast.Node) bool {
			if id, ok := n.(*ast.Ident); ok && id.Obj == o {
				found = true
			}
			return true
		})
	}
	return found
}

func freshForm1(f *ast.File, fd *ast.FuncDecl, text string, off func(token.Pos) int, recv, itId *ast.Ident, sname, ty, fkey, gsel, rname string, body *string) *freshInfo {
	// the struct S and its other fields: only pointer fields (zero = nil)
	var st *ast.StructType
	for _, d := range f.Decls {
		if gd, ok := d.(*ast.GenDecl); ok && gd.Tok == token.TYPE {
			for _, s := range gd.Specs {
				if ts := s.(*ast.TypeSpec); ts.Name.Name == sname {
					st, _ = ts.Type.(*ast.StructType)
				}
			}
		}
	}
	if st == nil {
		return nil
	}
	var zero strings.Builder
	hasKey := false
	for _, fl := range st.Fields.List {
		for _, n := range fl.Names {
			if n.Name == fkey {
				hasKey = true
				continue
			}
			if _, isPtr := fl.Type.(*ast.StarExpr); !isPtr {
				return nil
			}
			zero.WriteString("\t" + itId.Name + "." + n.Name + " = nil\n")
		}
	}
	if !hasKey {
		return nil
	}
	// the rest of the body: every use of the receiver is m.g; every return returns it
	type span struct{ lo, hi int }
	var repl []span
	ok := true
	rest := fd.Body.List[1:]
	inSel := map[*ast.Ident]bool{}
	for _, s := range rest {
		ast.Inspect(s, func(n ast.Node) bool {
			switch v := n.(type) {
			case *ast.SelectorExpr:
				if id, isId := v.X.(*ast.Ident); isId && id.Obj == recv.Obj {
					if v.Sel.Name != gsel {
						ok = false
					}
					inSel[id] = true
					repl = append(repl, span{off(v.Pos()), off(v.End())})
				}
			case *ast.Ident:
				if v.Obj == recv.Obj && !inSel[v] {
					ok = false
				}
			case *ast.ReturnStmt:
				if len(v.Results) != 1 {
					ok = false
				} else if id, isId := v.Results[0].(*ast.Ident); !isId || id.Obj != itId.Obj {
					ok = false
				}
			case *ast.FuncLit:
				ok = false
			case *ast.AssignStmt:
				for _, l := range v.Lhs {
					if id, isId := l.(*ast.Ident); isId && id.Obj == itId.Obj {
						ok = false
					}
					// the shared field must stay what the literal made it
					if ls, isSel := l.(*ast.SelectorExpr); isSel && ls.Sel.Name == fkey {
						if id, isId := ls.X.(*ast.Ident); isId && id.Obj == itId.Obj {
							ok = false
						}
					}
				}
			}
			return true
		})
	}
	if !ok || len(rest) == 0 {
		return nil
	}
	lo, hi := off(rest[0].Pos()), off(fd.Body.Rbrace)
	var b strings.Builder
	cur := lo
	for _, sp := range repl { // in source order (Inspect is pre-order, spans do not nest)
		b.WriteString(text[cur:sp.lo])
		b.WriteString(itId.Name + "." + fkey)
		cur = sp.hi
	}
	b.WriteString(text[cur:hi])
	*body = zero.String() + "\t" + b.String()
	return &freshInfo{itName: itId.Name, ty: ty, sname: sname, newName: rname + "_" + fd.Name.Name}
}
