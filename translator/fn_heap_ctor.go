package main

// Heap backend, constructor extension (stree.New): three small rules, each behind a directive, so
// that no function translated before is read differently.
//
//   "pkgfn:limitFunc"        a plain function of the package ITSELF that this entry does not
//                            translate (another entry / backend does): a function argument with
//                            its Go signature, pure (`limitFunc : Z -> Z -> Z`); the tie
//                            instantiates it with the function generated elsewhere
//   "extern:slices.SortFunc" / "extern:slices.CompactFunc" (standard library, no signature in the
//                            type information): `slices.SortFunc(xs, lit)` as a statement on a LOCAL
//                            slice variable made by `make` in this function is the rebinding
//                            `xs = slices_SortFunc xs lit`; `xs = slices.CompactFunc(xs, lit)`
//                            likewise.  The comparison literal is the state-passing lambda of
//                            closure() (it may read the heap: `compare(a.X, b.X)` through two
//                            pointers), with the unit state: the function argument has the type
//                            `list E -> (unit -> E -> E -> res (R * unit)) -> res (list E)`.
//                            What the two functions DO is the business of the tie (an assumed
//                            contract, stated there).
//   a function-typed field in a struct literal: a plain function value (a callback parameter
//   without state or shape, or the result of a pkgfn call)

import (
	"go/ast"
	"go/token"
	"go/types"
	"strings"
)

var hSliceFuncs = map[string]string{"slices.SortFunc": "int", "slices.CompactFunc": "bool"}

// plainFuncValue: a function value that can sit in a record field as it is
func plainFuncValue(t *hty) bool {
	return t.k == "func" && !t.stateful && t.shape == nil && !t.monadic && t.raw == "" && len(t.objParamTypes()) == 0
}

// callPkgFn: f(args) with "pkgfn:f"
func (c *hctx) callPkgFn(v *ast.CallExpr, pre *[]hbind) ([]string, []*hty, bool) {
	id, ok := ast.Unparen(v.Fun).(*ast.Ident)
	if !ok || !c.g.pkgfns[id.Name] {
		return nil, nil, false
	}
	f, ok := c.g.info.Uses[id].(*types.Func)
	if !ok {
		return nil, nil, false
	}
	sig := f.Type().(*types.Signature)
	if sig.Recv() != nil || sig.TypeParams().Len() > 0 || sig.Variadic() || sig.Results().Len() != 1 || v.Ellipsis.IsValid() {
		c.lostAt(v, "call of the package function %s (method, generic, variadic or not one result)", id.Name)
	}
	ft := &hty{k: "func"}
	for i := 0; i < sig.Params().Len(); i++ {
		t := c.mustType(sig.Params().At(i).Type(), v)
		if t.k != "int" && t.k != "bool" {
			c.lostAt(v, "call of the package function %s: parameter of type %s", id.Name, t.k)
		}
		ft.params = append(ft.params, t)
	}
	rt := c.mustType(sig.Results().At(0).Type(), v)
	if !(rt.k == "int" || rt.k == "bool" || plainFuncValue(rt)) {
		c.lostAt(v, "call of the package function %s: result of type %s", id.Name, rt.k)
	}
	ft.res = []*hty{rt}
	if len(v.Args) != len(ft.params) {
		c.lostAt(v, "call of %s: arity", id.Name)
	}
	x := c.externVar(id.Name, ft, v)
	s := x.name
	for _, a := range v.Args {
		y, _ := c.expr(a, pre)
		s += " " + paren(y)
	}
	return []string{"(" + s + ")"}, []*hty{rt}, true
}

// madeLocally: xs is a local slice variable whose only definition is `xs := make(...)`, apart from
// assignments of the results of the slice functions themselves
func (c *hctx) madeLocally(id *ast.Ident) bool {
	obj := c.g.info.Uses[id]
	if obj == nil || c.fn.decl == nil {
		return false
	}
	ok, made := true, false
	ast.Inspect(c.fn.decl.Body, func(n ast.Node) bool {
		as, isAs := n.(*ast.AssignStmt)
		if !isAs {
			return true
		}
		for i, l := range as.Lhs {
			lid, isId := ast.Unparen(l).(*ast.Ident)
			if !isId || (c.g.info.Defs[lid] != obj && c.g.info.Uses[lid] != obj) {
				continue
			}
			if len(as.Rhs) != len(as.Lhs) {
				ok = false
				continue
			}
			call, isCall := ast.Unparen(as.Rhs[i]).(*ast.CallExpr)
			if !isCall {
				ok = false
				continue
			}
			if fid, isF := call.Fun.(*ast.Ident); isF && fid.Name == "make" && as.Tok == token.DEFINE {
				made = true
				continue
			}
			if name, _ := c.pkgFunc(call.Fun); hSliceFuncs[name] != "" && c.g.externs[name] {
				continue
			}
			ok = false
		}
		return true
	})
	return ok && made
}

// callSliceFunc: slices.SortFunc(xs, lit) / slices.CompactFunc(xs, lit), declared extern
func (c *hctx) callSliceFunc(v *ast.CallExpr, pre *[]hbind) ([]string, []*hty, bool) {
	name, _ := c.pkgFunc(v.Fun)
	rk := hSliceFuncs[name]
	if rk == "" || !c.g.externs[name] {
		return nil, nil, false
	}
	if c.fn.selfRec || c.lit != nil || len(c.loops) > 0 {
		c.lostAt(v, "call of %s in a recursive function, a loop or a function literal", name)
	}
	if len(v.Args) != 2 || v.Ellipsis.IsValid() {
		c.lostAt(v, "call of %s: arity", name)
	}
	id, ok := ast.Unparen(v.Args[0]).(*ast.Ident)
	if !ok || !c.madeLocally(id) {
		c.lostAt(v, "call of %s: the slice must be a local variable made in this function and assigned only by the slice functions", name)
	}
	xs, xt := c.expr(id, pre)
	if xt.k != "slice" {
		c.lostAt(v, "call of %s on a %s", name, xt.k)
	}
	lit, ok := ast.Unparen(v.Args[1]).(*ast.FuncLit)
	if !ok {
		c.lostAt(v, "call of %s: the comparison must be a function literal", name)
	}
	lt := c.typeOfExpr(lit)
	if lt == nil || lt.k != "func" || len(lt.params) != 2 || len(lt.res) != 1 || lt.res[0].k != rk ||
		lt.params[0].coq() != xt.elem.coq() || lt.params[1].coq() != xt.elem.coq() {
		c.lostAt(v, "call of %s: type of the comparison literal", name)
	}
	clo := &hclosure{node: lit, body: lit.Body, ptypes: lt.params, res: lt.res}
	for _, f := range lit.Type.Params.List {
		if len(f.Names) == 0 {
			clo.params = append(clo.params, nil)
		}
		for _, n := range f.Names {
			clo.params = append(clo.params, n)
		}
	}
	lam, init, _, _ := c.closure(clo)
	if init != "tt" {
		c.lostAt(v, "call of %s: the comparison literal assigns a variable", name)
	}
	cb := &hty{k: "func", params: lt.params, res: lt.res,
		raw: "unit -> " + parenT(lt.params[0].coq()) + " -> " + parenT(lt.params[1].coq()) + " -> res (" + lt.res[0].coq() + " * unit)"}
	ft := &hty{k: "func", monadic: true, params: []*hty{xt, cb}, res: []*hty{xt}}
	x := c.externVar(name, ft, v)
	tm := c.tmp()
	*pre = append(*pre, hbind{pat: tm, m: tRaw{x.name + " " + paren(xs) + " " + lam}})
	return []string{tm}, []*hty{xt}, true
}

// sortStmt: slices.SortFunc(xs, lit) as a statement = xs = slices.SortFunc(xs, lit)
func (c *hctx) sortStmt(v *ast.ExprStmt) *ast.AssignStmt {
	call, ok := v.X.(*ast.CallExpr)
	if !ok {
		return nil
	}
	name, _ := c.pkgFunc(call.Fun)
	if name != "slices.SortFunc" || !c.g.externs[name] || len(call.Args) != 2 {
		return nil
	}
	id, ok := ast.Unparen(call.Args[0]).(*ast.Ident)
	if !ok {
		return nil
	}
	return &ast.AssignStmt{Lhs: []ast.Expr{id}, TokPos: v.Pos(), Tok: token.ASSIGN, Rhs: []ast.Expr{call}}
}

func hPkgFnDirective(g *hgen, sp string) bool {
	if !strings.HasPrefix(sp, "pkgfn:") {
		return false
	}
	if g.pkgfns == nil {
		g.pkgfns = map[string]bool{}
	}
	g.pkgfns[strings.TrimPrefix(sp, "pkgfn:")] = true
	return true
}

// makeSlice: make([]E, n) with "pkgfn:"/slice-function directives present in the entry (the
// constructor extension): n zero values after the run-time check of the length.  Only where the
// value is bound to a local variable by `xs := make(...)` (madeLocally checks the other uses).
func (c *hctx) makeSlice(v *ast.CallExpr, pre *[]hbind) ([]string, []*hty, bool) {
	if len(c.g.pkgfns) == 0 || len(v.Args) != 2 {
		return nil, nil, false
	}
	t := c.typeOfExpr(v)
	if t == nil || t.k != "slice" {
		return nil, nil, false
	}
	n, nt := c.expr(v.Args[1], pre)
	if nt.k != "int" {
		return nil, nil, false
	}
	if !c.isTmp(n) && !c.isVarName(n) {
		tm := c.tmp()
		*pre = append(*pre, hbind{pat: tm, e: n, isLet: true})
		n = tm
	}
	*pre = append(*pre, hbind{pat: "_", m: tRaw{"go_make_check " + n + " " + n}})
	return []string{"(repeat " + paren(c.zeroOf(t.elem, v)) + " (Z.to_nat " + n + "))"}, []*hty{t}, true
}

// indexStore: xs[i] = e on a local slice variable made in this function (nobody else holds its
// array): the list with position i replaced, Go's index check first
func (c *hctx) indexStore(l ast.Expr, pre *[]hbind) func(val string, t *hty) {
	ix, ok := ast.Unparen(l).(*ast.IndexExpr)
	if !ok {
		return nil
	}
	id, ok := ast.Unparen(ix.X).(*ast.Ident)
	if !ok {
		return nil
	}
	x := c.lookup(id)
	if x == nil || x.typ.k != "slice" || x.role != "local" || !c.madeLocally(id) {
		return nil
	}
	i, it := c.expr(ix.Index, pre)
	if it.k != "int" {
		return nil
	}
	return func(val string, t *hty) {
		if t.k == "nil" {
			val = c.nilOf(x.typ.elem, l)
		}
		*pre = append(*pre, hbind{pat: x.name, m: tRaw{"go_set " + x.name + " " + paren(i) + " " + paren(val)}, effect: true})
	}
}
