package main

// The CONFIGURATION backend of the function translator (spec "cfg:<label>" in funcs).
//
// It translates the straight-line constructor / option functions the two other backends leave out
// (cache.New, cache.LRU, the Config methods, distinct.NewCounter, distinct.BufferSize): functions
// whose values are structs with interface-typed and function-typed fields, closures that are
// returned, and calls of constructors of other packages.  Everything outside the small subset below
// is reported as lost, never approximated.
//
// Representation (notes/fn-translator.md, "Configuration backend"):
//   struct of the package (by value or through the pointer a constructor returns)  -> Record, all fields (mutexes skipped)
//   interface type of the package (Store[K, V])        -> option St_<Iface>   (None = nil); a struct pointer stored there: Some <record>
//   func(A, B) R                                       -> option (A -> B -> R) (None = the nil function)
//   func(A, B)  (no result: called for effect)         -> option (A -> B -> list Ev): the events a call emits; func(K, V) {} emits []
//   a type given by "type:<Go type>=<Coq type>"        -> that Coq type (St_<x>: abstract state of a foreign object)
//   pkg.F(args) with "extern:pkg.F=<Coq type>"         -> the function argument pkg_F (total: a constructor); an argument x[:] of a
//                                                         local array is handed over and bound again from the first component of the result
//   x.f.M(args) as a statement with "method:f.M=<type>" -> field f of the local struct x replaced by f_M (x.f) args
//   a function of the package used as a value, "value:f=<Coq type>" -> the argument f_
//   a function literal that assigns what it captures   -> its ordinal among the literals of the function (k%nat); the "lit:" spec of the
//                                                         syntactic backend translates its body
//   float64                                            -> the abstract type Flt with the operations used as arguments (Flt_ltb, Flt_mul, Flt_div, Flt_of_Z, Flt_to_Z)
//   panic("m"), panic(fmt.Sprintf("m", ...))           -> Panic (PMsg "m"); a function with a panic returns res

import (
	"fmt"
	"go/ast"
	"go/parser"
	"go/token"
	"os"
	"path/filepath"
	"regexp"
	"strconv"
	"strings"
)

func cfgSpecs(specs []string) bool {
	for _, s := range specs {
		if strings.HasPrefix(s, "cfg:") {
			return true
		}
	}
	return false
}

type cfgGen struct {
	files    []*ast.File
	structs  map[string]*ast.TypeSpec
	ifaces   map[string]*ast.TypeSpec
	funcs    map[string]*ast.FuncDecl // every function of the package, by "Recv.name" / "name"
	types    map[string]string        // printed Go type -> Coq type
	externs  map[string]string        // "pkg.F" -> Coq type
	methods  map[string]string        // "field.M" -> Coq type
	values   map[string]string        // "f" -> Coq type
	listed   map[string]*cfgFunc
	records  map[string]string // emitted Records
	recOrder []string
	emitted  []string
	recExtra map[string][]string // the abstract types a Record is parametrised by, after its own type parameters
}

type cfgFunc struct {
	spec    string
	decl    *ast.FuncDecl
	monadic bool
	done    bool
	text    string
	extras  []string // function arguments added (externs, methods, values, float operations), in first-use order
	extraT  map[string]string // their Coq types (a caller of the package hands them on)
}

type cfgCtx struct {
	g       *cfgGen
	fn      *cfgFunc
	tparams map[string]bool
	vstruct map[string]string // variable -> the struct of the package it holds
	vtype   map[string]string // variable -> Coq type (parameters)
	vfloat  map[string]bool
	verr    map[string]bool
	inst    map[string]string // abstract type -> what this function fixes it to
	extras  []string
	extraT  map[string]string
	nlit    int
}

var cfgAbstract = regexp.MustCompile(`\b(St_\w+|Fn_\w+|Ev|Flt)\b`)

func fnCfgGenerate(f *ast.File, specs []string) (string, []string) {
	g := &cfgGen{structs: map[string]*ast.TypeSpec{}, ifaces: map[string]*ast.TypeSpec{}, funcs: map[string]*ast.FuncDecl{},
		types: map[string]string{}, externs: map[string]string{}, methods: map[string]string{}, values: map[string]string{},
		listed: map[string]*cfgFunc{}, records: map[string]string{}, recExtra: map[string][]string{}}
	// the declarations of the whole package (the file and its siblings)
	g.files = []*ast.File{f}
	self := fset.Position(f.Pos()).Filename
	if ents, err := os.ReadDir(filepath.Dir(self)); err == nil {
		for _, e := range ents {
			n := e.Name()
			if !strings.HasSuffix(n, ".go") || strings.HasSuffix(n, "_test.go") || n == filepath.Base(self) {
				continue
			}
			if pf, err := parser.ParseFile(fset, filepath.Join(filepath.Dir(self), n), nil, 0); err == nil && pf.Name.Name == f.Name.Name {
				g.files = append(g.files, pf)
			}
		}
	}
	for _, pf := range g.files {
		for _, d := range pf.Decls {
			switch v := d.(type) {
			case *ast.GenDecl:
				if v.Tok != token.TYPE {
					continue
				}
				for _, s := range v.Specs {
					ts := s.(*ast.TypeSpec)
					switch ts.Type.(type) {
					case *ast.StructType:
						g.structs[ts.Name.Name] = ts
					case *ast.InterfaceType:
						g.ifaces[ts.Name.Name] = ts
					}
				}
			case *ast.FuncDecl:
				_, rt, _ := recvInfo(v)
				k := v.Name.Name
				if rt != "" {
					k = rt + "." + k
				}
				g.funcs[k] = v
			}
		}
	}
	var order []*cfgFunc
	for _, sp := range specs {
		kv := func(p string) (string, string, bool) {
			if !strings.HasPrefix(sp, p) {
				return "", "", false
			}
			r := strings.TrimPrefix(sp, p)
			i := strings.LastIndex(r, "=")
			if i < 0 {
				return "", "", false
			}
			return strings.TrimSpace(r[:i]), strings.TrimSpace(r[i+1:]), true
		}
		if strings.HasPrefix(sp, "cfg:") {
			continue
		}
		if k, v, ok := kv("type:"); ok {
			g.types[k] = v
			continue
		}
		if k, v, ok := kv("extern:"); ok {
			g.externs[k] = v
			continue
		}
		if k, v, ok := kv("method:"); ok {
			g.methods[k] = v
			continue
		}
		if k, v, ok := kv("value:"); ok {
			g.values[k] = v
			continue
		}
		fn := &cfgFunc{spec: sp}
		// a function of the file, or of a sibling file of the package (cache.LRU in lru.go returns a
		// Config of cache.go: one output file holds both, so that they share the Records)
		for _, pf := range g.files {
			if fn.decl = findFunc(pf, sp); fn.decl != nil {
				break
			}
		}
		g.listed[sp] = fn
		order = append(order, fn)
	}
	var lostMsgs []string
	for _, fn := range order {
		g.translate(fn)
		if !fn.done {
			lostMsgs = append(lostMsgs, fmt.Sprintf("fn %s lost: %s", fn.spec, fn.text))
		}
	}
	texts := g.emitted
	var b strings.Builder
	b.WriteString("From Mds Require Import Common.FnRt.\nLocal Open Scope Z_scope.\n\n")
	for _, n := range g.recOrder {
		b.WriteString(g.records[n])
		b.WriteString("\n")
	}
	for _, t := range texts {
		b.WriteString(t)
		b.WriteString("\n")
	}
	return b.String(), lostMsgs
}

func (g *cfgGen) translate(fn *cfgFunc) {
	if fn.done || fn.text != "" {
		return
	}
	defer func() {
		if r := recover(); r != nil {
			if l, ok := r.(lost); ok {
				fn.done, fn.text = false, l.msg
				return
			}
			panic(r)
		}
	}()
	if fn.decl == nil || fn.decl.Body == nil {
		fail("function not found")
	}
	c := &cfgCtx{g: g, fn: fn, tparams: map[string]bool{}, vstruct: map[string]string{}, vtype: map[string]string{},
		vfloat: map[string]bool{}, verr: map[string]bool{}, inst: map[string]string{}, extraT: map[string]string{}}
	fd := fn.decl
	var tps []string
	addTP := func(fl *ast.FieldList) {
		if fl == nil {
			return
		}
		for _, f := range fl.List {
			switch ct := f.Type.(type) {
			case *ast.Ident:
				if ct.Name != "any" && ct.Name != "comparable" {
					c.lost(f, "type constraint %s", src(f.Type))
				}
			case *ast.SelectorExpr:
				// cmp.Ordered: the type stays abstract; its order enters only through functions
				// declared with value: (cmp.Compare)
				if src(ct) != "cmp.Ordered" || c.g.values["cmp.Compare"] == "" {
					c.lost(f, "type constraint %s", src(f.Type))
				}
			default:
				c.lost(f, "type constraint %s", src(f.Type))
			}
			for _, n := range f.Names {
				c.tparams[n.Name] = true
				tps = append(tps, n.Name)
			}
		}
	}
	var params []string
	if fd.Recv != nil {
		r := fd.Recv.List[0]
		if _, ptr := r.Type.(*ast.StarExpr); ptr {
			c.lost(r, "pointer receiver (the syntactic backend translates methods of objects)")
		}
		_, _, targs := recvInfo(fd)
		for _, a := range targs {
			if a == "_" {
				c.lost(r, "blank type parameter of the receiver")
			}
			c.tparams[a] = true
			tps = append(tps, a)
		}
		if len(r.Names) != 1 {
			c.lost(r, "receiver without a name")
		}
		c.bindParam(r.Names[0].Name, r.Type, &params)
	}
	addTP(fd.Type.TypeParams)
	for _, p := range fd.Type.Params.List {
		if len(p.Names) == 0 {
			c.lost(p, "unnamed parameter")
		}
		for _, n := range p.Names {
			c.bindParam(n.Name, p.Type, &params)
		}
	}
	if fd.Type.Results == nil || len(fd.Type.Results.List) != 1 || len(fd.Type.Results.List[0].Names) > 1 {
		c.lost(fd, "result list (exactly one result)")
	}
	body := c.stmts(fd.Body.List)
	rt := c.ty(fd.Type.Results.List[0].Type, "")
	if fn.monadic {
		rt = "res " + parenT(rt)
	}
	var sig strings.Builder
	for _, e := range c.extras {
		fmt.Fprintf(&sig, " (%s : %s)", e, c.extraT[e])
	}
	for _, p := range params {
		sig.WriteString(" " + p)
	}
	sigText := c.subst(sig.String())
	rt = c.subst(rt)
	// implicit type arguments: the type parameters, then the abstract types the signature mentions
	var imp []string
	seen := map[string]bool{}
	for _, t := range tps {
		if !seen[t] {
			seen[t] = true
			imp = append(imp, t)
		}
	}
	for _, m := range cfgAbstract.FindAllString(sigText+" "+rt, -1) {
		if !seen[m] {
			seen[m] = true
			imp = append(imp, m)
		}
	}
	var out strings.Builder
	if fn2 := filepath.Base(fset.Position(fd.Pos()).Filename); fn2 != filepath.Base(fset.Position(g.files[0].Pos()).Filename) {
		fmt.Fprintf(&out, "(* declared in %s of the same package *)\n", fn2)
	}
	fmt.Fprintf(&out, "(* %s *)\n", strings.TrimSuffix(strings.TrimSpace(src(&ast.FuncDecl{Recv: fd.Recv, Name: fd.Name, Type: fd.Type})), "{}"))
	fmt.Fprintf(&out, "Definition %s", cfgName(fd.Name.Name))
	if len(imp) > 0 {
		fmt.Fprintf(&out, " {%s : Type}", strings.Join(imp, " "))
	}
	fmt.Fprintf(&out, "%s : %s :=\n%s.\n", sigText, rt, body)
	fn.done, fn.text, fn.extras, fn.extraT = true, out.String(), c.extras, c.extraT
	g.emitted = append(g.emitted, fn.text) // callees are finished first
}

// cfgIdent: the Coq identifier of an extern key (pkg.F -> pkg_F; kv{}.Compare -> kv_Compare)
func cfgIdent(key string) string {
	var b strings.Builder
	for _, r := range strings.ReplaceAll(key, ".", "_") {
		if r == '_' || (r >= '0' && r <= '9') || (r >= 'A' && r <= 'Z') || (r >= 'a' && r <= 'z') {
			b.WriteRune(r)
		}
	}
	return b.String()
}

func cfgName(n string) string {
	if fnReserved[n] {
		return n + "_"
	}
	return n
}

func (c *cfgCtx) lost(n ast.Node, format string, args ...any) {
	line := 0
	if n != nil {
		line = fset.Position(n.Pos()).Line
	}
	fail("unsupported %s at line %d (configuration backend)", fmt.Sprintf(format, args...), line)
}

func (c *cfgCtx) subst(s string) string {
	for k, v := range c.inst {
		s = regexp.MustCompile(`\b`+k+`\b`).ReplaceAllString(s, parenT(v))
	}
	return s
}

func (c *cfgCtx) bindParam(name string, t ast.Expr, params *[]string) {
	if name == "_" {
		c.lost(t, "blank parameter")
	}
	ct := c.ty(t, name)
	c.vtype[name] = ct
	if sn := c.structName(t); sn != "" {
		c.vstruct[name] = sn
	}
	if ct == "Flt" {
		c.vfloat[name] = true
	}
	*params = append(*params, fmt.Sprintf("(%s : %s)", name, ct))
}

func (c *cfgCtx) extra(name, typ string) string {
	if _, ok := c.extraT[name]; !ok {
		c.extraT[name] = typ
		c.extras = append(c.extras, name)
	}
	return name
}

// structName: the struct of the package a type expression denotes (T, T[..], *T, *T[..]), or "".
func (c *cfgCtx) structName(t ast.Expr) string {
	if s, ok := t.(*ast.StarExpr); ok {
		t = s.X
	}
	base, _ := baseAndArgs(t)
	if base == nil {
		base = t
	}
	if id, ok := base.(*ast.Ident); ok {
		if _, ok := c.g.structs[id.Name]; ok && !c.tparams[id.Name] {
			return id.Name
		}
	}
	return ""
}

// ty: the Coq type of a Go type.  hint names the field or variable (unused except in messages).
func (c *cfgCtx) ty(t ast.Expr, hint string) string {
	if ct, ok := c.g.types[src(t)]; ok {
		return ct
	}
	switch v := t.(type) {
	case *ast.Ident:
		switch v.Name {
		case "int", "int64", "int32", "uint", "uint32", "uint64", "byte", "uint8":
			return "Z"
		case "bool":
			return "bool"
		case "float64":
			return "Flt"
		}
		if c.tparams[v.Name] {
			return v.Name
		}
	case *ast.ParenExpr:
		return c.ty(v.X, hint)
	case *ast.StarExpr:
		if c.structName(t) != "" {
			return c.ty(v.X, hint)
		}
	case *ast.MapType:
		return "go_map " + parenT(c.ty(v.Key, hint)) + " " + parenT(c.ty(v.Value, hint))
	case *ast.ArrayType:
		if v.Len != nil {
			return "list " + parenT(c.ty(v.Elt, hint))
		}
	case *ast.FuncType:
		var ps []string
		if v.Params != nil {
			for _, f := range v.Params.List {
				n := len(f.Names)
				if n == 0 {
					n = 1
				}
				for i := 0; i < n; i++ {
					ps = append(ps, parenT(c.ty(f.Type, hint)))
				}
			}
		}
		r := "list Ev"
		if v.Results != nil && len(v.Results.List) > 0 {
			if len(v.Results.List) != 1 || len(v.Results.List[0].Names) > 1 {
				c.lost(t, "function type with several results")
			}
			r = c.ty(v.Results.List[0].Type, hint)
		}
		ps = append(ps, r)
		return "option (" + strings.Join(ps, " -> ") + ")"
	}
	base, args := baseAndArgs(t)
	if base == nil {
		base = t
	}
	if id, ok := base.(*ast.Ident); ok && !c.tparams[id.Name] {
		if _, ok := c.g.ifaces[id.Name]; ok {
			return "option St_" + id.Name
		}
		if ts, ok := c.g.structs[id.Name]; ok {
			c.g.record(c, ts)
			var as []string
			for _, a := range args {
				as = append(as, parenT(c.ty(a, hint)))
			}
			as = append(as, c.g.recExtra[id.Name]...)
			return strings.TrimSpace(id.Name + " " + strings.Join(as, " "))
		}
	}
	c.lost(t, "type %s (declare it with type:%s=<Coq type>)", src(t), src(t))
	return ""
}

type cfgField struct {
	name string
	typ  ast.Expr
	coq  string
}

func (g *cfgGen) fieldsOf(c *cfgCtx, ts *ast.TypeSpec) []cfgField {
	// the field types are read under the struct's own type parameter names
	c2 := &cfgCtx{g: g, fn: c.fn, tparams: map[string]bool{}, inst: map[string]string{}, extraT: map[string]string{}}
	if ts.TypeParams != nil {
		for _, f := range ts.TypeParams.List {
			for _, n := range f.Names {
				c2.tparams[n.Name] = true
			}
		}
	}
	var out []cfgField
	for _, f := range ts.Type.(*ast.StructType).Fields.List {
		if s := src(f.Type); s == "sync.Mutex" || s == "sync.RWMutex" {
			continue
		}
		if len(f.Names) == 0 {
			fail("unsupported embedded field in struct %s (configuration backend)", ts.Name.Name)
		}
		for _, n := range f.Names {
			out = append(out, cfgField{n.Name, f.Type, c2.ty(f.Type, n.Name)})
		}
	}
	return out
}

func (g *cfgGen) record(c *cfgCtx, ts *ast.TypeSpec) {
	name := ts.Name.Name
	if _, ok := g.records[name]; ok {
		return
	}
	g.records[name] = "" // busy
	fs := g.fieldsOf(c, ts)
	var tps, extra []string
	seen := map[string]bool{}
	if ts.TypeParams != nil {
		for _, f := range ts.TypeParams.List {
			for _, n := range f.Names {
				tps = append(tps, n.Name)
				seen[n.Name] = true
			}
		}
	}
	var fl []string
	for _, f := range fs {
		for _, m := range cfgAbstract.FindAllString(f.coq, -1) {
			if !seen[m] {
				seen[m] = true
				extra = append(extra, m)
			}
		}
		fl = append(fl, fmt.Sprintf("%s_%s : %s", name, f.name, f.coq))
	}
	g.recExtra[name] = extra
	all := append(append([]string{}, tps...), extra...)
	var b strings.Builder
	fmt.Fprintf(&b, "(* type %s struct (every field but the mutex) *)\n", name)
	if len(all) > 0 {
		fmt.Fprintf(&b, "Record %s (%s : Type) : Type := mk_%s { %s }.\n", name, strings.Join(all, " "), name, strings.Join(fl, "; "))
		fmt.Fprintf(&b, "Arguments mk_%s {%s}.\n", name, strings.Join(all, " "))
		for _, f := range fs {
			fmt.Fprintf(&b, "Arguments %s_%s {%s}.\n", name, f.name, strings.Join(all, " "))
		}
	} else {
		fmt.Fprintf(&b, "Record %s : Type := mk_%s { %s }.\n", name, name, strings.Join(fl, "; "))
	}
	g.records[name] = b.String()
	g.recOrder = append(g.recOrder, name)
}

// ---------------------------------------------------------------- statements

func (c *cfgCtx) ret(e string) string {
	if c.fn.monadic {
		return "Ok " + paren(e)
	}
	return e
}

func cfgHasPanic(n ast.Node) bool {
	found := false
	ast.Inspect(n, func(x ast.Node) bool {
		if call, ok := x.(*ast.CallExpr); ok {
			if id, ok := call.Fun.(*ast.Ident); ok && id.Name == "panic" {
				found = true
			}
		}
		return true
	})
	return found
}

func (c *cfgCtx) panicMsg(s ast.Stmt) (string, bool) {
	es, ok := s.(*ast.ExprStmt)
	if !ok {
		return "", false
	}
	call, ok := es.X.(*ast.CallExpr)
	if !ok || len(call.Args) != 1 {
		return "", false
	}
	if id, ok := call.Fun.(*ast.Ident); !ok || id.Name != "panic" {
		return "", false
	}
	a := call.Args[0]
	if inner, ok := a.(*ast.CallExpr); ok && src(inner.Fun) == "fmt.Sprintf" && len(inner.Args) >= 1 {
		// the format string is the message; the arguments must be plain variables
		for _, x := range inner.Args[1:] {
			if _, ok := x.(*ast.Ident); !ok {
				c.lost(x, "argument of fmt.Sprintf in a panic (only variables)")
			}
		}
		a = inner.Args[0]
	}
	if lit, ok := a.(*ast.BasicLit); ok && lit.Kind == token.STRING {
		return "Panic (PMsg " + lit.Value + ")", true
	}
	c.lost(s, "panic argument %s", src(a))
	return "", false
}

func (c *cfgCtx) stmts(list []ast.Stmt) string {
	if c.fn.decl.Body != nil && !c.fn.monadic && cfgHasPanic(c.fn.decl.Body) {
		c.fn.monadic = true
	}
	if len(list) == 0 {
		c.lost(c.fn.decl, "path without a return")
	}
	s, rest := list[0], list[1:]
	if m, ok := c.panicMsg(s); ok {
		return "  " + m
	}
	switch v := s.(type) {
	case *ast.ReturnStmt:
		if len(v.Results) != 1 {
			c.lost(v, "return of %d values", len(v.Results))
		}
		return "  " + c.ret(c.ex(v.Results[0]))
	case *ast.DeclStmt:
		gd := v.Decl.(*ast.GenDecl)
		if gd.Tok == token.TYPE && len(gd.Specs) == 1 {
			// type kv = stree.KV[T, U]: a local ALIAS declares nothing at run time; the name stays as
			// written in the keys of extern: declarations (kv{}.Compare)
			if ts := gd.Specs[0].(*ast.TypeSpec); ts.Assign.IsValid() {
				return c.stmts(rest)
			}
		}
		if gd.Tok == token.VAR && len(gd.Specs) == 1 {
			vs := gd.Specs[0].(*ast.ValueSpec)
			if at, ok := vs.Type.(*ast.ArrayType); ok && at.Len != nil && len(vs.Names) == 1 && len(vs.Values) == 0 {
				if lit, ok := at.Len.(*ast.BasicLit); ok && lit.Kind == token.INT && c.ty(at.Elt, "") == "Z" {
					return fmt.Sprintf("  let %s := repeat 0 %s in\n%s", vs.Names[0].Name, lit.Value, c.stmts(rest))
				}
			}
		}
	case *ast.IfStmt:
		if v.Else != nil {
			c.lost(v, "if with else")
		}
		pre := ""
		if v.Init != nil {
			as, ok := v.Init.(*ast.AssignStmt)
			if !ok || as.Tok != token.DEFINE || len(as.Rhs) != 1 {
				c.lost(v, "if initialiser %s", src(v.Init))
			}
			call, ok := as.Rhs[0].(*ast.CallExpr)
			if !ok {
				c.lost(v, "if initialiser %s", src(v.Init))
			}
			key := src(call.Fun)
			typ, ok := c.g.externs[key]
			if !ok {
				c.lost(v, "call of %s (declare it with extern:%s=<Coq type>)", key, key)
			}
			name := c.extra(strings.ReplaceAll(key, ".", "_"), typ)
			var pat, args []string
			for _, a := range call.Args {
				if se, ok := a.(*ast.SliceExpr); ok && se.Low == nil && se.High == nil && se.Max == nil {
					if id, ok := se.X.(*ast.Ident); ok {
						pat = append(pat, id.Name) // the array is written by the callee: bound again
						args = append(args, id.Name)
						continue
					}
				}
				args = append(args, c.ex(a))
			}
			for _, l := range as.Lhs {
				id := l.(*ast.Ident)
				pat = append(pat, id.Name)
				if id.Name != "_" && strings.HasSuffix(strings.TrimSpace(typ), "bool") && l == as.Lhs[len(as.Lhs)-1] {
					c.verr[id.Name] = true // the error result: true = non-nil
				}
			}
			pre = fmt.Sprintf("  let '(%s) := %s %s in\n", strings.Join(pat, ", "), name, strings.Join(args, " "))
		}
		cond := c.ex(v.Cond)
		if len(v.Body.List) != 1 {
			c.lost(v, "if body of %d statements", len(v.Body.List))
		}
		var then string
		if m, ok := c.panicMsg(v.Body.List[0]); ok {
			then = m
		} else if r, ok := v.Body.List[0].(*ast.ReturnStmt); ok && len(r.Results) == 1 {
			then = c.ret(c.ex(r.Results[0]))
		} else {
			c.lost(v, "if body %s", src(v.Body.List[0]))
		}
		return fmt.Sprintf("%s  if %s then %s else\n%s", pre, stripParen(cond), then, c.stmts(rest))
	case *ast.AssignStmt:
		if len(v.Lhs) == 1 && len(v.Rhs) == 1 {
			switch l := v.Lhs[0].(type) {
			case *ast.Ident:
				if v.Tok == token.DEFINE {
					rhs := v.Rhs[0]
					if u, ok := rhs.(*ast.UnaryExpr); ok && u.Op == token.AND {
						rhs = u.X
					}
					if cl, ok := rhs.(*ast.CompositeLit); ok {
						if sn := c.structName(cl.Type); sn != "" {
							e := c.ex(v.Rhs[0])
							c.vstruct[l.Name] = sn
							c.vtype[l.Name] = c.ty(cl.Type, l.Name)
							return fmt.Sprintf("  let %s : %s := %s in\n%s", l.Name, c.vtype[l.Name], e, c.stmts(rest))
						}
					}
					if c.isFloat(rhs) && l.Name != "_" {
						// a float64 local
						e := c.ex(rhs)
						c.vfloat[l.Name] = true
						c.vtype[l.Name] = "Flt"
						return fmt.Sprintf("  let %s := %s in\n%s", l.Name, e, c.stmts(rest))
					}
				}
			case *ast.SelectorExpr:
				if id, ok := l.X.(*ast.Ident); ok && v.Tok == token.ASSIGN && c.vstruct[id.Name] != "" {
					e := c.ex(v.Rhs[0])
					return fmt.Sprintf("  let %s : %s := %s in\n%s", id.Name, c.vtype[id.Name], c.rebuild(id.Name, l.Sel.Name, e, l), c.stmts(rest))
				}
			}
		}
	case *ast.ExprStmt:
		// x.f.M(args): a method of the object held in field f of the local struct x
		if call, ok := v.X.(*ast.CallExpr); ok {
			if m, ok := call.Fun.(*ast.SelectorExpr); ok {
				if fs, ok := m.X.(*ast.SelectorExpr); ok {
					if id, ok := fs.X.(*ast.Ident); ok && c.vstruct[id.Name] != "" {
						key := fs.Sel.Name + "." + m.Sel.Name
						typ, ok := c.g.methods[key]
						if !ok {
							c.lost(v, "method call %s (declare it with method:%s=<Coq type>)", src(call.Fun), key)
						}
						name := c.extra(fs.Sel.Name+"_"+m.Sel.Name, typ)
						args := []string{c.ex(fs)}
						for _, a := range call.Args {
							args = append(args, c.ex(a))
						}
						e := name + " " + strings.Join(args, " ")
						return fmt.Sprintf("  let %s : %s := %s in\n%s", id.Name, c.vtype[id.Name], c.rebuild(id.Name, fs.Sel.Name, e, v), c.stmts(rest))
					}
				}
			}
		}
	}
	c.lost(s, "statement %s", src(s))
	return ""
}

// rebuild: the record held in variable x with field f replaced by e.
func (c *cfgCtx) rebuild(x, f, e string, at ast.Node) string {
	sn := c.vstruct[x]
	fs := c.g.fieldsOf(c, c.g.structs[sn])
	var parts []string
	found := false
	for _, fd := range fs {
		if fd.name == f {
			parts = append(parts, paren(e))
			found = true
		} else {
			parts = append(parts, fmt.Sprintf("(%s_%s %s)", sn, fd.name, x))
		}
	}
	if !found {
		c.lost(at, "field %s of %s", f, sn)
	}
	return "mk_" + sn + " " + strings.Join(parts, " ")
}

// ---------------------------------------------------------------- expressions

func (c *cfgCtx) isFloat(e ast.Expr) bool {
	switch v := e.(type) {
	case *ast.Ident:
		return c.vfloat[v.Name]
	case *ast.ParenExpr:
		return c.isFloat(v.X)
	case *ast.BasicLit:
		return v.Kind == token.FLOAT
	case *ast.BinaryExpr:
		switch v.Op {
		case token.ADD, token.SUB, token.MUL, token.QUO:
			return c.isFloat(v.X) || c.isFloat(v.Y)
		}
	case *ast.CallExpr:
		f := src(v.Fun)
		if f == "float64" {
			return true
		}
		if t, ok := c.g.externs[f]; ok {
			return strings.HasSuffix(strings.TrimSpace(t), "Flt")
		}
		if fn := c.pkgFunc(v.Fun); fn != nil {
			rs := fn.decl.Type.Results
			return rs != nil && len(rs.List) == 1 && src(rs.List[0].Type) == "float64"
		}
	}
	return false
}

func (c *cfgCtx) flt(e ast.Expr) string {
	if c.isFloat(e) {
		return c.ex(e)
	}
	if p, ok := e.(*ast.ParenExpr); ok {
		return c.flt(p.X)
	}
	if lit, ok := e.(*ast.BasicLit); ok && lit.Kind == token.INT {
		// an untyped integer constant in a float64 expression (exactly representable: checked small)
		if len(lit.Value) > 9 {
			c.lost(e, "large constant %s in a float64 expression", lit.Value)
		}
		return "(" + c.extra("Flt_of_Z", "Z -> Flt") + " " + lit.Value + ")"
	}
	if n, ok := c.constInt(e); ok {
		// an integer constant of the package in a float64 expression (exactly representable: checked small)
		if len(n) > 9 {
			c.lost(e, "large constant %s in a float64 expression", n)
		}
		return "(" + c.extra("Flt_of_Z", "Z -> Flt") + " " + n + ")"
	}
	c.lost(e, "operand %s of a float64 operation", src(e))
	return ""
}

// constInt: the value of an integer constant expression over the constants of the package
// (maxBalance, 2 * maxBalance), printed; only names that are not shadowed by a local.
func (c *cfgCtx) constInt(e ast.Expr) (string, bool) {
	var ev func(e ast.Expr, depth int) (int64, bool)
	ev = func(e ast.Expr, depth int) (int64, bool) {
		if depth > 8 {
			return 0, false
		}
		switch v := e.(type) {
		case *ast.ParenExpr:
			return ev(v.X, depth)
		case *ast.BasicLit:
			if v.Kind == token.INT {
				n, err := strconv.ParseInt(v.Value, 0, 64)
				return n, err == nil
			}
		case *ast.Ident:
			if v.Obj != nil && v.Obj.Kind != ast.Con {
				return 0, false
			}
			if _, local := c.vtype[v.Name]; local {
				return 0, false
			}
			for _, pf := range c.g.files {
				if x, ok := pkgConsts(pf)[v.Name]; ok {
					return ev(x, depth+1)
				}
			}
		case *ast.BinaryExpr:
			a, ok1 := ev(v.X, depth)
			b, ok2 := ev(v.Y, depth)
			if ok1 && ok2 {
				switch v.Op {
				case token.ADD:
					return a + b, true
				case token.SUB:
					return a - b, true
				case token.MUL:
					if a > -1<<30 && a < 1<<30 && b > -1<<30 && b < 1<<30 {
						return a * b, true
					}
				}
			}
		}
		return 0, false
	}
	if _, isLit := e.(*ast.BasicLit); isLit {
		return "", false
	}
	n, ok := ev(e, 0)
	if !ok {
		return "", false
	}
	return strconv.FormatInt(n, 10), true
}

// pkgFunc: a LISTED plain function of the package called by name (toFraction(β)).
func (c *cfgCtx) pkgFunc(e ast.Expr) *cfgFunc {
	if base, _ := baseAndArgs(e); base != nil {
		e = base // NewFunc[T, U](...): an explicit instantiation
	}
	id, ok := e.(*ast.Ident)
	if !ok || (id.Obj != nil && id.Obj.Kind != ast.Fun) {
		return nil
	}
	fn := c.g.listed[id.Name]
	if fn == nil || fn.decl == nil || fn.decl.Recv != nil || fn == c.fn {
		return nil
	}
	return fn
}

func (c *cfgCtx) isNil(e ast.Expr) bool {
	id, ok := e.(*ast.Ident)
	return ok && id.Name == "nil" && id.Obj == nil
}

func (c *cfgCtx) ex(e ast.Expr) string {
	switch v := e.(type) {
	case *ast.ParenExpr:
		return c.ex(v.X)
	case *ast.BasicLit:
		if v.Kind == token.INT {
			return v.Value
		}
	case *ast.Ident:
		switch v.Name {
		case "nil":
			if v.Obj == nil {
				return "None"
			}
		case "true", "false":
			return v.Name
		}
		if _, ok := c.vtype[v.Name]; ok {
			return v.Name
		}
		if v.Obj != nil && v.Obj.Kind == ast.Var {
			return v.Name // a local bound by a let
		}
		if n, ok := c.constInt(v); ok {
			return n // an integer constant of the package, inlined
		}
	case *ast.SelectorExpr:
		if id, ok := v.X.(*ast.Ident); ok {
			if typ, ok := c.g.values[src(v)]; ok && id.Obj == nil && c.vstruct[id.Name] == "" {
				return c.extra(cfgIdent(src(v)), typ) // a function of another package used as a value (cmp.Compare)
			}
			if sn := c.vstruct[id.Name]; sn != "" {
				return fmt.Sprintf("(%s_%s %s)", sn, v.Sel.Name, id.Name)
			}
			if id.Obj == nil && id.Name == "math" {
				switch v.Sel.Name {
				case "MaxUint64":
					return "18446744073709551615"
				case "MaxInt64":
					return "9223372036854775807"
				}
			}
		}
	case *ast.UnaryExpr:
		if v.Op == token.AND {
			if cl, ok := v.X.(*ast.CompositeLit); ok && c.structName(cl.Type) != "" {
				return c.ex(cl) // a new object: its fields
			}
		}
		if v.Op == token.NOT {
			return "(negb " + c.ex(v.X) + ")"
		}
	case *ast.BinaryExpr:
		return c.binary(v)
	case *ast.CompositeLit:
		return c.composite(v)
	case *ast.FuncLit:
		return c.funcLit(v)
	case *ast.IndexExpr, *ast.IndexListExpr:
		// an instantiated function of the package used as a value
		if base, _ := baseAndArgs(e); base != nil {
			if id, ok := base.(*ast.Ident); ok {
				if typ, ok := c.g.values[id.Name]; ok {
					return c.extra(id.Name+"_", typ)
				}
			}
		}
	case *ast.CallExpr:
		return c.call(v)
	}
	c.lost(e, "expression %s", src(e))
	return ""
}

func (c *cfgCtx) binary(v *ast.BinaryExpr) string {
	// comparisons with nil
	if v.Op == token.EQL || v.Op == token.NEQ {
		x, y := v.X, v.Y
		if c.isNil(x) {
			x, y = y, x
		}
		if c.isNil(y) {
			if id, ok := x.(*ast.Ident); ok && c.verr[id.Name] {
				if v.Op == token.NEQ {
					return id.Name
				}
				return "(negb " + id.Name + ")"
			}
			// an interface-typed or function-typed field: an option
			if _, ok := x.(*ast.SelectorExpr); ok {
				a, b := "true", "false"
				if v.Op == token.NEQ {
					a, b = b, a
				}
				return fmt.Sprintf("(match %s with None => %s | Some _ => %s end)", c.ex(x), a, b)
			}
			c.lost(v, "comparison %s", src(v))
		}
	}
	if v.Op == token.LOR || v.Op == token.LAND {
		op := "||"
		if v.Op == token.LAND {
			op = "&&"
		}
		return "(" + c.ex(v.X) + " " + op + " " + c.ex(v.Y) + ")"
	}
	if c.isFloat(v.X) || c.isFloat(v.Y) {
		a, b := c.flt(v.X), c.flt(v.Y)
		switch v.Op {
		case token.LSS:
			return "(" + c.extra("Flt_ltb", "Flt -> Flt -> bool") + " " + a + " " + b + ")"
		case token.GTR:
			return "(" + c.extra("Flt_ltb", "Flt -> Flt -> bool") + " " + b + " " + a + ")"
		case token.MUL:
			return "(" + c.extra("Flt_mul", "Flt -> Flt -> Flt") + " " + a + " " + b + ")"
		case token.QUO:
			return "(" + c.extra("Flt_div", "Flt -> Flt -> Flt") + " " + a + " " + b + ")"
		case token.ADD:
			return "(" + c.extra("Flt_add", "Flt -> Flt -> Flt") + " " + a + " " + b + ")"
		case token.SUB:
			return "(" + c.extra("Flt_sub", "Flt -> Flt -> Flt") + " " + a + " " + b + ")"
		case token.EQL:
			return "(" + c.extra("Flt_eqb", "Flt -> Flt -> bool") + " " + a + " " + b + ")"
		}
		c.lost(v, "float64 operation %s", v.Op)
	}
	a, b := c.ex(v.X), c.ex(v.Y)
	switch v.Op {
	case token.LEQ:
		return "(" + a + " <=? " + b + ")"
	case token.LSS:
		return "(" + a + " <? " + b + ")"
	case token.GEQ:
		return "(" + b + " <=? " + a + ")"
	case token.GTR:
		return "(" + b + " <? " + a + ")"
	case token.ADD, token.SUB, token.MUL:
		return "(" + a + " " + v.Op.String() + " " + b + ")"
	}
	c.lost(v, "operator %s", v.Op)
	return ""
}

func (c *cfgCtx) zeroOf(coq string, at ast.Node) string {
	switch {
	case coq == "Z":
		return "0"
	case coq == "bool":
		return "false"
	case strings.HasPrefix(coq, "option "), strings.HasPrefix(coq, "go_nmap "):
		return "None"
	case strings.HasPrefix(coq, "go_map "), strings.HasPrefix(coq, "list "):
		return "[]"
	}
	c.lost(at, "zero value of a field of type %s", coq)
	return ""
}

func (c *cfgCtx) composite(v *ast.CompositeLit) string {
	sn := c.structName(v.Type)
	if sn == "" {
		c.lost(v, "composite literal of type %s", src(v.Type))
	}
	c.ty(v.Type, "") // emits the Record
	fs := c.g.fieldsOf(c, c.g.structs[sn])
	given := map[string]ast.Expr{}
	for _, el := range v.Elts {
		kv, ok := el.(*ast.KeyValueExpr)
		if !ok {
			c.lost(el, "positional element of a struct literal")
		}
		given[src(kv.Key)] = kv.Value
	}
	// the values are evaluated in SOURCE order; all of them are effect-free here (constructors
	// of new objects, reads), so the struct order of the Record is used
	var parts []string
	for _, f := range fs {
		val, ok := given[f.name]
		if !ok {
			parts = append(parts, c.zeroOf(f.coq, v))
			continue
		}
		delete(given, f.name)
		e := c.ex(val)
		if strings.HasPrefix(f.coq, "option St_") {
			// an interface-typed field: a struct pointer stored there fixes the abstract state type
			if id, ok := val.(*ast.Ident); ok && c.vstruct[id.Name] != "" {
				c.inst[strings.TrimPrefix(f.coq, "option ")] = c.vtype[id.Name]
				e = "(Some " + e + ")"
			}
		}
		parts = append(parts, paren(e))
	}
	for k := range given {
		c.lost(v, "field %s of %s", k, sn)
	}
	return "mk_" + sn + " " + strings.Join(parts, " ")
}

func (c *cfgCtx) funcLit(v *ast.FuncLit) string {
	k := c.nlit
	c.nlit++
	assigns := false
	ast.Inspect(v.Body, func(n ast.Node) bool {
		switch n.(type) {
		case *ast.AssignStmt, *ast.IncDecStmt:
			assigns = true
		}
		return true
	})
	if assigns {
		// a closure that changes what it captures: its ordinal (the lit: spec of the syntactic backend translates it)
		return fmt.Sprintf("%d%%nat", k)
	}
	var ps []string
	if v.Type.Params != nil {
		for _, f := range v.Type.Params.List {
			t := c.ty(f.Type, "")
			if len(f.Names) == 0 {
				ps = append(ps, fmt.Sprintf("(_ : %s)", t))
			}
			for _, n := range f.Names {
				ps = append(ps, fmt.Sprintf("(%s : %s)", n.Name, t))
			}
		}
	}
	body := ""
	switch {
	case len(v.Body.List) == 0 && v.Type.Results == nil:
		body = "[]" // called for effect only, does nothing: no event
	case len(v.Body.List) == 1:
		if r, ok := v.Body.List[0].(*ast.ReturnStmt); ok && len(r.Results) == 1 {
			body = c.ex(r.Results[0])
		}
	}
	if body == "" {
		c.lost(v, "function literal body")
	}
	if len(ps) == 0 {
		c.lost(v, "function literal without parameters")
	}
	return "(Some (fun " + strings.Join(ps, " ") + " => " + body + "))"
}

func (c *cfgCtx) call(v *ast.CallExpr) string {
	f := src(v.Fun)
	switch f {
	case "make":
		if len(v.Args) == 1 {
			if _, ok := v.Args[0].(*ast.MapType); ok {
				c.ty(v.Args[0], "")
				return "[]"
			}
			if strings.HasPrefix(c.ty(v.Args[0], ""), "go_nmap ") {
				return "go_nmap_make"
			}
		}
	case "float64":
		if len(v.Args) == 1 {
			return "(" + c.extra("Flt_of_Z", "Z -> Flt") + " " + c.ex(v.Args[0]) + ")"
		}
	case "int":
		if len(v.Args) == 1 && c.isFloat(v.Args[0]) {
			return "(" + c.extra("Flt_to_Z", "Flt -> Z") + " " + c.ex(v.Args[0]) + ")"
		}
	}
	if typ, ok := c.g.externs[f]; ok {
		name := c.extra(cfgIdent(f), typ)
		var args []string
		for _, a := range v.Args {
			if strings.Contains(typ, "Flt") {
				args = append(args, c.flt(a))
			} else {
				args = append(args, c.ex(a))
			}
		}
		return "(" + name + " " + strings.Join(args, " ") + ")"
	}
	// a listed plain function of the package: its function arguments are handed on under the same names
	if cal := c.pkgFunc(v.Fun); cal != nil {
		c.g.translate(cal)
		if !cal.done {
			c.lost(v, "callee %s is lost", cal.spec)
		}
		if cal.monadic {
			c.lost(v, "callee %s (panics)", cal.spec)
		}
		var args []string
		for _, x := range cal.extras {
			args = append(args, c.extra(x, cal.extraT[x]))
		}
		var ptypes []ast.Expr
		for _, p := range cal.decl.Type.Params.List {
			for range p.Names {
				ptypes = append(ptypes, p.Type)
			}
		}
		if len(ptypes) != len(v.Args) {
			c.lost(v, "call %s (variadic or unnamed parameters)", src(v))
		}
		for i, a := range v.Args {
			if src(ptypes[i]) == "float64" {
				args = append(args, c.flt(a))
			} else {
				args = append(args, c.ex(a))
			}
		}
		return "(" + cfgName(cal.decl.Name.Name) + " " + strings.Join(args, " ") + ")"
	}
	// a listed method of the package on a struct-valued variable: x.m(args)
	if sel, ok := v.Fun.(*ast.SelectorExpr); ok {
		if id, ok := sel.X.(*ast.Ident); ok && c.vstruct[id.Name] != "" {
			cal := c.g.listed[c.vstruct[id.Name]+"."+sel.Sel.Name]
			if cal != nil {
				c.g.translate(cal)
				if !cal.done {
					c.lost(v, "callee %s is lost", cal.spec)
				}
				if cal.monadic || len(cal.extras) > 0 {
					c.lost(v, "callee %s (panics or takes function arguments)", cal.spec)
				}
				args := []string{id.Name}
				for _, a := range v.Args {
					args = append(args, c.ex(a))
				}
				return "(" + cfgName(sel.Sel.Name) + " " + strings.Join(args, " ") + ")"
			}
		}
	}
	c.lost(v, "call %s", src(v))
	return ""
}
