package main

import (
	"go/ast"
	"go/constant"
	"go/token"
	"sort"
	"strconv"
	"strings"
)

// ---------------------------------------------------------------- function

// externKey: "pkg.F" if call is a call of a declared external function.
func (c *fnCtx) externKey(call *ast.CallExpr) string {
	if sel, ok := call.Fun.(*ast.SelectorExpr); ok {
		if id, ok := sel.X.(*ast.Ident); ok && id.Obj == nil {
			k := id.Name + "." + sel.Sel.Name
			if c.g.externs[k] {
				return k
			}
		}
	}
	return ""
}

// isOracleAppend: x := append(y, ...) / x = append(y, ...) with x not y: the run time decides
// where the result lives and what its capacity is.
func oracleAppend(st *ast.AssignStmt) *ast.CallExpr {
	if len(st.Lhs) != 1 || len(st.Rhs) != 1 {
		return nil
	}
	call, ok := st.Rhs[0].(*ast.CallExpr)
	if !ok {
		return nil
	}
	id, ok := call.Fun.(*ast.Ident)
	if !ok || id.Name != "append" || id.Obj != nil || len(call.Args) < 2 {
		return nil
	}
	if src(st.Lhs[0]) == src(call.Args[0]) {
		return nil
	}
	if _, isSel := st.Lhs[0].(*ast.SelectorExpr); isSel {
		if _, isLit := call.Args[0].(*ast.CompositeLit); isLit {
			return nil // c.Edits = append([]Edit{...}, c.Edits...): a prepend to an owned field
		}
	}
	return call
}

func (c *fnCtx) extra(key, name string) *fnVar {
	if v, ok := c.extras[key]; ok {
		return v
	}
	v := c.newVar(name, &fnType{k: "raw", name: "?"}, "extra")
	c.extras[key] = v
	c.fn.extras = append(c.fn.extras, &fnExtra{key: key, name: v.name})
	return v
}

type fnScan struct {
	fieldsUsed map[string]bool
	fieldsMut  map[string]bool
	logs       []string
	zeros      []string // type parameters whose zero value is needed, first-use order
}

func (s *fnScan) addZero(names ...string) {
	for _, n := range names {
		dup := false
		for _, z := range s.zeros {
			if z == n {
				dup = true
			}
		}
		if !dup {
			s.zeros = append(s.zeros, n)
		}
	}
}

// zeroNeeds: the type parameters whose zero values the zero value of t is built from.
func zeroNeeds(t *fnType) []string {
	switch t.k {
	case "elem":
		return []string{t.name}
	case "struct":
		var ns []string
		for _, ft := range structFieldTypes(t) {
			ns = append(ns, zeroNeeds(ft)...)
		}
		return ns
	}
	return nil
}

func (s *fnScan) addLog(n string) {
	for _, l := range s.logs {
		if l == n {
			return
		}
	}
	s.logs = append(s.logs, n)
}

func structFields(st *ast.StructType) (names []string, types map[string]ast.Expr) {
	types = map[string]ast.Expr{}
	for _, f := range st.Fields.List {
		for _, n := range f.Names {
			names = append(names, n.Name)
			types[n.Name] = f.Type
		}
	}
	return
}

func (c *fnCtx) isRecv(e ast.Expr) bool {
	id, ok := e.(*ast.Ident)
	return ok && c.fn.recvVar != "" && id.Name == c.fn.recvVar && id.Obj != nil && id.Obj.Kind == ast.Var && c.vars[id.Obj] == nil
}

func (c *fnCtx) function() {
	fn := c.fn
	fd := fn.decl
	_, recvType, targs := recvInfo(fd)
	if fn.ctor != nil {
		recvType, targs = fn.ctor.tname, fn.ctor.targs
	}
	if fn.localObj != nil {
		recvType, targs = fn.localObj.tname, fn.localObj.targs
	}
	if fn.pooled != nil {
		recvType, targs = fn.pooled.tname, nil
	}
	c.sx = &fnCtxX{}
	var fieldNames []string
	fieldTypes := map[string]ast.Expr{}
	if fn.namedRecv {
		// a method of a named map type: the receiver is the first parameter
		c.typeParamsAs(c.g.named[recvType].TypeParams, targs, fd)
	} else if recvType != "" {
		ts := c.g.structs[recvType]
		if ts == nil {
			c.lostAt(fd, "receiver type %s (not a struct of this file)", recvType)
		}
		var tps []string
		if ts.TypeParams != nil {
			for _, f := range ts.TypeParams.List {
				for _, n := range f.Names {
					tps = append(tps, n.Name)
				}
			}
		}
		if len(tps) != len(targs) {
			c.lostAt(fd, "receiver type arguments %v (the struct declares %v)", targs, tps)
		}
		// the method may rename the type parameters (func (c *Cache[K, _]) ...): the generated
		// code uses the method's names (the struct's for _); the struct's names stay known for
		// the types of the fields
		c.typeParamsAs(ts.TypeParams, targs, fd)
		fieldNames, fieldTypes = structFields(ts.Type.(*ast.StructType))
	}
	c.typeParams(fd.Type.TypeParams)
	c.localTypes(fd.Body)
	c.g.desugarLabels(fd)
	c.body = fd.Body
	if rest, ok := c.mutexPrologue(fd, fieldTypes); ok {
		c.body = &ast.BlockStmt{Lbrace: fd.Body.Lbrace, List: rest, Rbrace: fd.Body.Rbrace}
	}
	if fn.ctor != nil {
		c.body = &ast.BlockStmt{Lbrace: fd.Body.Lbrace, List: fn.ctor.rest, Rbrace: fd.Body.Rbrace}
	}
	if fn.pooled != nil {
		c.body = &ast.BlockStmt{Lbrace: fd.Body.Lbrace, List: fn.pooled.rest, Rbrace: fd.Body.Rbrace}
	}
	fn.retRecv = fn.ctor != nil || c.returnsRecv(fd, recvType)
	for _, f := range fieldNames {
		if o := c.objectField(recvType, f, fieldTypes[f]); o != nil {
			c.objs[f] = o
		}
	}
	c.scanObjVars(fd) // fn_stdobj.go: object parameters (buf *bytes.Buffer) and pooled objects

	// ---- which parameters are function values called for effect only (logged)
	paramFuncNoRes := map[string]bool{}
	for _, f := range fd.Type.Params.List {
		if ft, ok := f.Type.(*ast.FuncType); ok && (ft.Results == nil || len(ft.Results.List) == 0) {
			for _, n := range f.Names {
				paramFuncNoRes[n.Name] = true
			}
		}
	}
	fieldFuncNoRes := map[string]bool{}
	for n, t := range fieldTypes {
		if ft, ok := t.(*ast.FuncType); ok && (ft.Results == nil || len(ft.Results.List) == 0) {
			fieldFuncNoRes[n] = true
		}
	}

	c.logFields = fieldFuncNoRes
	nilTested := nilTestedFuncParams(fd)
	c.nilFlags = map[*ast.Object]*fnVar{}

	// ---- summary of the body: fields used / assigned, logs, zero values
	sc := &fnScan{fieldsUsed: map[string]bool{}, fieldsMut: map[string]bool{}}
	var needExtras [][2]string
	isRecvIdent := func(e ast.Expr) bool {
		id, ok := e.(*ast.Ident)
		if fn.namedRecv {
			return false
		}
		if ok && fn.recvObj != nil {
			return id.Obj == fn.recvObj
		}
		return ok && fn.recvVar != "" && id.Name == fn.recvVar && id.Obj != nil && id.Obj.Decl == fd.Recv.List[0]
	}
	var rootField func(e ast.Expr) string
	rootField = func(e ast.Expr) string {
		switch v := e.(type) {
		case *ast.ParenExpr:
			return rootField(v.X)
		case *ast.IndexExpr:
			return rootField(v.X)
		case *ast.SelectorExpr:
			if isRecvIdent(v.X) {
				return v.Sel.Name
			}
			return rootField(v.X) // c.f.g = e: a field of a struct-valued field
		}
		return ""
	}
	mapKeyExtra := func(t ast.Expr) {
		if mt, ok := t.(*ast.MapType); ok {
			if kt := c.goType(mt.Key); kt.k == "elem" {
				needExtras = append(needExtras, [2]string{"eqb:" + kt.name, "eqb_" + kt.name})
			}
		}
	}
	okLits := c.allowedLits(c.body)
	ast.Inspect(c.body, func(n ast.Node) bool {
		switch v := n.(type) {
		case *ast.FuncLit:
			if !okLits[v] {
				c.lostAt(v, "function literal (only as an argument of a translated function or of a declared external function)")
			}
		case *ast.GoStmt, *ast.DeferStmt, *ast.SelectStmt, *ast.SendStmt, *ast.TypeSwitchStmt, *ast.LabeledStmt:
			if c.poolPutDefer(n) {
				return false // defer pool.Put(x) right after x := pool.Get().(*T)
			}
			c.lostAt(n, "statement %T", n)
		case *ast.AssignStmt:
			for _, l := range v.Lhs {
				if f := rootField(l); f != "" {
					sc.fieldsMut[f] = true
					if sel, ok := l.(*ast.SelectorExpr); ok && isRecvIdent(sel.X) {
						fn.reshapes[f] = true
						if _, isArr := fieldTypes[f].(*ast.ArrayType); isArr && c.g.capFields[recvType+"."+f] {
							fn.fatFields[f] = true // spec cap:
						}
					}
				}
			}
			if oracleAppend(v) != nil {
				needExtras = append(needExtras, [2]string{"append", "append_"})
			}
			if len(v.Lhs) == 1 && len(v.Rhs) == 1 {
				if sel, ok := v.Lhs[0].(*ast.SelectorExpr); ok && isRecvIdent(sel.X) && c.objs[sel.Sel.Name] != nil {
					if id, ok := v.Rhs[0].(*ast.Ident); ok && id.Name == "nil" && id.Obj == nil {
						// it.c = nil on an object field: the nil pointer of that type is an argument
						needExtras = append(needExtras, [2]string{"objnilval:" + sel.Sel.Name, sel.Sel.Name + "_nilptr"})
					}
					if outer, ok := v.Rhs[0].(*ast.CallExpr); ok {
						if osel, ok := outer.Fun.(*ast.SelectorExpr); ok {
							if inner, ok := osel.X.(*ast.CallExpr); ok {
								if o, _ := c.objCallSyntax(inner, isRecvIdent); o != nil {
									// it.c = it.m.Root().Min(): the last method is one of the stored-into field's
									// own (it hands its receiver back, checked when the store is translated)
									needExtras = append(needExtras, [2]string{"obj:" + o.field + "." + inner.Fun.(*ast.SelectorExpr).Sel.Name, o.field + "_" + inner.Fun.(*ast.SelectorExpr).Sel.Name})
									needExtras = append(needExtras, [2]string{"obj:" + sel.Sel.Name + "." + osel.Sel.Name, sel.Sel.Name + "_" + osel.Sel.Name})
									sc.fieldsUsed[sel.Sel.Name], sc.fieldsMut[sel.Sel.Name] = true, true
								}
							}
						}
					}
				}
			}
		case *ast.IncDecStmt:
			if f := rootField(v.X); f != "" {
				sc.fieldsMut[f] = true
			}
		case *ast.RangeStmt:
			if f, m, call := objIterOperand(v.X, isRecvIdent); call != nil && c.objs[f] != nil {
				// range over an iterator method of an object field (fn_rest.go)
				needExtras = append(needExtras, [2]string{"obj:" + f + "." + m, f + "_" + m})
				sc.fieldsUsed[f], sc.fieldsMut[f] = true, true
			}
		case *ast.BinaryExpr:
			if f := objNilOperand(v, isRecvIdent); f != "" && c.objs[f] != nil {
				// m.f == nil on an object field: a flag of its own (fn_rest.go)
				needExtras = append(needExtras, [2]string{"objnil:" + f, f + "_nil"})
				sc.fieldsUsed[f] = true
				return false
			}
		case *ast.SelectorExpr:
			if isRecvIdent(v.X) {
				if ft, isField := fieldTypes[v.Sel.Name]; isField {
					if isMutexType(ft) {
						c.lostAt(v, "use of the mutex %s outside the canonical prologue (%s.Lock(); defer %s.Unlock() as the first two statements)", src(v), src(v), src(v))
					}
					if !fieldFuncNoRes[v.Sel.Name] {
						sc.fieldsUsed[v.Sel.Name] = true
					}
					mapKeyExtra(ft)
				}
			}
		case *ast.CallExpr:
			if o, m := c.objCallSyntax(v, isRecvIdent); o != nil {
				// a method of an object field: the object (and the fields its callbacks write) changes
				needExtras = append(needExtras, [2]string{"obj:" + o.field + "." + m, o.field + "_" + m})
				sc.fieldsUsed[o.field], sc.fieldsMut[o.field] = true, true
				for _, w := range o.writes {
					sc.fieldsUsed[w], sc.fieldsMut[w] = true, true
					mapKeyExtra(fieldTypes[w])
				}
			}
			if id, ok := v.Fun.(*ast.Ident); ok && id.Name == "delete" && id.Obj == nil && len(v.Args) == 2 {
				if f := rootField(v.Args[0]); f != "" {
					sc.fieldsMut[f] = true
				}
			}
			if isBuiltin(v, "copy", 2) {
				if f := rootField(v.Args[0]); f != "" {
					sc.fieldsMut[f] = true
				}
			}
			if isBuiltin(v, "cap", 1) {
				// cap of a slice field: its spare capacity is tracked (companion <field>_spare)
				if sel, ok := v.Args[0].(*ast.SelectorExpr); ok && isRecvIdent(sel.X) {
					if _, isArr := fieldTypes[sel.Sel.Name].(*ast.ArrayType); isArr {
						fn.fatFields[sel.Sel.Name] = true
					}
				}
			}
			if id, ok := v.Fun.(*ast.Ident); ok && id.Name == "make" && id.Obj == nil && len(v.Args) >= 1 {
				mapKeyExtra(v.Args[0])
			}
			if k := c.externKey(v); k != "" {
				needExtras = append(needExtras, [2]string{k, strings.ReplaceAll(k, ".", "_")})
				for _, a := range v.Args {
					if f := rootField(a); f != "" {
						if _, isArr := fieldTypes[f].(*ast.ArrayType); isArr {
							sc.fieldsMut[f] = true
						}
					}
				}
			}
			if cal := c.g.calleeOf(fn, v); cal != nil {
				for _, e := range cal.extras {
					if strings.HasPrefix(e.key, "eqb:") || strings.HasPrefix(e.key, "cmp:") {
						continue // passed when the call is translated (the type argument may differ)
					}
					needExtras = append(needExtras, [2]string{e.key, e.name})
				}
				for _, f := range cal.fields {
					sc.fieldsUsed[f] = true
				}
				for _, f := range cal.mutFields {
					sc.fieldsMut[f] = true
				}
				for f := range cal.fatFields {
					fn.fatFields[f] = true
				}
				for f := range cal.reshapes {
					fn.reshapes[f] = true
				}
				for f := range cal.remakes {
					fn.remakes[f] = true
				}
				for _, l := range cal.logs {
					sc.addLog(l)
				}
				sc.addZero(cal.zeroTypes...)
			} else if sel, ok := v.Fun.(*ast.SelectorExpr); ok && isRecvIdent(sel.X) && fieldFuncNoRes[sel.Sel.Name] {
				sc.addLog(sel.Sel.Name)
			} else if id, ok := v.Fun.(*ast.Ident); ok && paramFuncNoRes[id.Name] && id.Obj != nil && id.Obj.Kind == ast.Var {
				sc.addLog(id.Name)
			} else if id, ok := v.Fun.(*ast.Ident); ok && id.Name == "make" && id.Obj == nil && len(v.Args) >= 2 {
				if lit, ok := v.Args[1].(*ast.BasicLit); !ok || lit.Value != "0" {
					if at, ok := v.Args[0].(*ast.ArrayType); ok {
						if t := c.goType(at.Elt); t.k == "elem" {
							sc.addZero(t.name)
						}
					}
				}
			}
		case *ast.ValueSpec:
			if v.Type != nil && len(v.Values) == 0 {
				sc.addZero(zeroNeeds(c.goType(v.Type))...)
			}
		case *ast.CompositeLit:
			// fields left out of a struct literal are zero
			if t := c.structTypeOf(v.Type); t != nil {
				sc.addZero(c.litZeroNeeds(v, t)...)
			}
		case *ast.IndexExpr:
			// m[k] of an absent key is the zero value
			sc.addZero(c.mapIndexZeroNeeds(v, fieldTypes, isRecvIdent)...)
		}
		return true
	})

	for _, f := range c.rangedPtrFields(c.body, isRecvIdent, recvType) {
		sc.fieldsUsed[f], sc.fieldsMut[f] = true, true // changed through the range variable
	}

	// ---- variables of the signature
	var handedObjs map[*ast.Object]string
	if lo := fn.localObj; lo != nil {
		c.localObjChecks(lo)
		handedObjs = c.handedParams(lo)
		for _, f := range handedObjs {
			fn.fatFields[f] = true // the array is the caller's: what falls off the field stays in it
		}
	}
	for _, f := range fieldNames {
		if fn.ctor != nil || fn.localObj != nil {
			// a constructor: every field of the new object is a local and is returned
			// (a local object: every field is a local)
			if fieldFuncNoRes[f] || isMutexType(fieldTypes[f]) {
				continue
			}
		} else if !(sc.fieldsUsed[f] || sc.fieldsMut[f]) || fieldFuncNoRes[f] {
			continue
		}
		var ft *fnType
		if o := c.objs[f]; o != nil {
			ft = o.typ
		} else {
			if c.g.distinct[recvType+"."+f] {
				if ft = c.distinctPtrList(fieldTypes[f]); ft == nil {
					c.lostAt(fd, "field %s declared distinct: but not of a type []*S", f)
				}
			} else {
				ft = c.goType(fieldTypes[f])
			}
			if _, lit := fieldTypes[f].(*ast.MapType); lit && ft.k == "map" {
				u := *ft
				u.nilable = false // a map field of the receiver is taken to be allocated
				ft = &u
			}
		}
		v := c.newVar(fn.recvVar+"_"+f, ft, "field")
		v.distinctPtr = c.g.distinct[recvType+"."+f]
		c.fields[f] = v
		if fn.fatFields[f] {
			c.fat[v] = c.newVar(fn.recvVar+"_"+f+"_spare", ft, "field")
		}
		if fn.ctor != nil {
			fn.mutFields = append(fn.mutFields, f)
			continue
		}
		if fn.localObj != nil {
			continue
		}
		fn.fields = append(fn.fields, f)
		if sc.fieldsMut[f] {
			fn.mutFields = append(fn.mutFields, f)
		}
	}
	logged := map[string]bool{}
	for _, l := range sc.logs {
		logged[l] = true
	}
	c.findWordPtrs(fd)
	usage := c.sliceUsage(fd)
	mapMut, anyMapMut := c.mapMutations(c.body)
	c.noMapMut, c.mapMut = !anyMapMut, mapMut
	plist := fd.Type.Params.List
	if fn.namedRecv {
		plist = append([]*ast.Field{fd.Recv.List[0]}, plist...)
	}
	for _, f := range plist {
		if c.readOnlyPtrParams(f) {
			continue
		}
		if c.objParams(f) {
			continue // fn_stdobj.go: x *pkg.T of the standard library: an object handed in and back
		}
		t, isPtr := c.paramTypeOf(f.Type)
		names := f.Names
		if len(names) == 0 {
			// an unnamed parameter (func nmove[T any](T, int) {}): an argument nobody can mention
			nm := "a" + strconv.Itoa(len(fn.params))
			names = []*ast.Ident{{Name: nm, NamePos: f.Pos(), Obj: ast.NewObj(ast.Var, nm)}}
		}
		_, isVariadic := f.Type.(*ast.Ellipsis)
		for _, n := range names {
			p := &fnParam{goName: n.Name, variadic: isVariadic}
			fn.params = append(fn.params, p)
			if t.k == "map" {
				if n.Name == "_" || n.Obj == nil {
					c.lostAt(f, "blank parameter")
				}
				v := c.newVar(n.Name, t, "param")
				v.obj, v.ptr = n.Obj, isPtr
				c.vars[n.Obj] = v
				p.v = v
				p.mutated = mapMut[n.Obj]
				if !isPtr {
					// a map parameter assigned as a whole refers to another map from then on:
					// what happens to that one is not what happens to the argument
					ast.Inspect(c.body, func(x ast.Node) bool {
						if as, ok := x.(*ast.AssignStmt); ok {
							for _, l := range as.Lhs {
								if id, ok := l.(*ast.Ident); ok && id.Obj == n.Obj && as.Tok != token.DEFINE {
									c.lostAt(as, "assignment to the map parameter %s", n.Name)
								}
							}
						}
						return true
					})
				}
				continue
			}
			if n.Obj != nil && nilTested[n.Obj] {
				// u == nil on a function-typed parameter: a flag of its own, before the function
				fl := c.newVar(n.Name+"_nil", tyBool, "param")
				c.nilFlags[n.Obj] = fl
				fn.nilParams = true
				if t.k == "func" && len(t.res) == 0 {
					p.v = fl
					continue
				}
				fn.params = append(fn.params[:len(fn.params)-1], &fnParam{goName: n.Name + "_nil", v: fl}, p)
			}
			if t.k == "func" && len(t.res) == 0 {
				continue // called for effect only: its calls are the log
			}
			if t.k == "func" && fn.monadicParams[len(fn.params)-1] {
				u := *t
				u.monadic = true // it receives a function literal somewhere: called through the res monad
				t = &u
			}
			if n.Name == "_" {
				c.lostAt(f, "blank parameter")
			}
			if t.k == "seq" && (n.Obj == nil || !seqOnlyRanged(fd, n.Obj)) {
				c.lostAt(f, "iterator parameter %s (only ranged over)", n.Name)
			}
			if t.k == "slice" && t.elem.k == "slice" && n.Obj != nil && nestedReadOnly(fd, n.Obj) {
				// a slice of slices that is only read: by value
				if t.elem.elem.k == "slice" {
					c.lostAt(f, "parameter %s: three levels of slices", n.Name)
				}
				t = &fnType{k: "slice", elem: &fnType{k: "rslice", elem: t.elem.elem}}
			}
			v := c.newVar(n.Name, t, "param")
			v.obj = n.Obj
			c.vars[n.Obj] = v
			p.v = v
			if t.k == "slice" {
				u := usage[n.Name]
				if u.view {
					v.view = c.newVar(n.Name+"_v", tyView, "view")
					v.noElems = !u.elems
				}
				p.mutated = u.stored
				if f, ok := handedObjs[n.Obj]; ok {
					// the local object works on this parameter's array: its final content is returned
					if u.view || v.noElems {
						c.lostAt(fd, "slice parameter %s handed to a constructor and also re-sliced into a result", n.Name)
					}
					end := fn.localObj.stmt.End()
					ast.Inspect(c.body, func(x ast.Node) bool {
						if id, ok := x.(*ast.Ident); ok && id.Obj == n.Obj && id.Pos() > end {
							c.lostAt(id, "slice parameter %s used after it was handed to the constructor %s (aliasing)", n.Name, fn.localObj.callee.Name.Name)
						}
						return true
					})
					p.mutated = true
					if c.handed == nil {
						c.handed = map[*fnVar]string{}
					}
					c.handed[v] = f
				}
			}
		}
	}
	for _, e := range needExtras {
		c.extra(e[0], e[1])
		c.typeKnownExtra(e[0])
	}
	for _, z := range sc.zeros {
		zt := c.elemT[z]
		if zt == nil {
			zt = &fnType{k: "elem", name: z}
		}
		v := c.newVar("zero_"+z, zt, "zero")
		c.zeros[z] = v
		if c.zero == nil {
			c.zero = v
			fn.zeroType = z
		}
		fn.zeroTypes = append(fn.zeroTypes, z)
		fn.needZero = true
	}
	for _, l := range sc.logs {
		var ft *fnType
		if t, ok := fieldTypes[l]; ok && fieldFuncNoRes[l] {
			ft = c.goType(t)
		} else {
			for _, f := range fd.Type.Params.List {
				for _, n := range f.Names {
					if n.Name == l {
						ft = c.goType(f.Type)
					}
				}
			}
		}
		if ft == nil {
			fail("unsupported logged callback %s", l)
		}
		c.logs[l] = c.newVar(l+"_log", &fnType{k: "slice", elem: &fnType{k: "tuple", params: ft.params}}, "log")
		fn.logs = append(fn.logs, l)
	}
	// results
	if fd.Type.Results != nil && !fn.retRecv {
		slot := 0
		nres := fd.Type.Results.NumFields()
		for _, f := range fd.Type.Results.List {
			var t *fnType
			if _, isPtr := f.Type.(*ast.StarExpr); isPtr && len(f.Names) == 0 && elemPtrResult(fd, slot, nres) != nil {
				t = &fnType{k: "eptr"} // &s[i] of a slice parameter, or nil: the index
			} else {
				t = c.goType(f.Type)
			}
			n := len(f.Names)
			if n == 0 {
				n = 1
			}
			for i := 0; i < n; i++ {
				rt := t
				if u := usage["#ret"+strconv.Itoa(slot)]; t.k == "slice" && t.elem.k != "slice" && u != nil && u.view {
					rt = tyView
				} else if t.k == "slice" && t.elem.k != "slice" && u != nil && u.mixed {
					rt = &fnType{k: "sres", elem: t.elem} // an argument on one path, a new slice on another
				}
				fn.results = append(fn.results, rt)
				if len(f.Names) > 0 {
					v := c.declare(f.Names[i], t)
					c.retNames = append(c.retNames, v)
				}
				slot++
			}
		}
	}

	// ---- body
	var body term
	end := func() term {
		c.retPos = fd.Body.Rbrace
		if len(fn.results) > 0 {
			if len(c.retNames) == len(fn.results) {
				var vals []string
				for _, v := range c.retNames {
					vals = append(vals, v.name)
				}
				return c.retTerm(vals)
			}
			return tRaw{"Panic (PMsg \"unreachable\")"}
		}
		return c.retTerm(nil)
	}
	c.objResults(fd) // fn_stdobj.go: `return s.buf` for an interface result: the object itself
	for i, t := range fn.results {
		if t.k == "obj" && !c.sx.objResult[i] {
			c.lostAt(fd, "result of type %s (aliasing)", t.k)
		}
	}
	for _, p := range fn.params {
		if p.v != nil && p.v.typ.k == "obj" && !c.sx.isObjVar(p.v) {
			c.lostAt(fd, "parameter %s of type %s (aliasing)", p.goName, p.v.typ.k)
		}
	}
	var ctorPre []fnBind
	if fn.ctor != nil {
		ctorPre = c.ctorInit(fn.ctor, fieldNames, fieldTypes, fieldFuncNoRes)
	}
	inner := c.stmts(c.body.List, end)
	// named results and logs start at their zero values
	body = wrap(ctorPre, inner)
	for i := len(fn.logs) - 1; i >= 0; i-- {
		body = tLet{c.logs[fn.logs[i]].name + " : " + varType(c.logs[fn.logs[i]]), "[]", body}
	}
	for i := len(c.retNames) - 1; i >= 0; i-- {
		if c.retNames[i] != nil {
			body = tLet{c.retNames[i].name + " : " + varType(c.retNames[i]), c.zeroOf(c.retNames[i].typ, fd), body}
		}
	}
	fn.retFresh = c.computeRetFresh(c.body)
	for _, f := range c.handed {
		if fn.remakes[f] {
			c.lostAt(fd, "the field %s, which holds the array of a slice parameter, is given a new array (make) by a method called here", f)
		}
	}
	c.emit(body)
}

func (c *fnCtx) zeroOf(t *fnType, at ast.Node) string {
	switch t.k {
	case "int", "byte", "u64":
		return "0"
	case "bool":
		return "false"
	case "string", "slice":
		return "[]"
	case "unit":
		return "tt"
	case "map":
		if t.nilable {
			return "None"
		}
	case "elem":
		return c.zeroVar(t.name).name
	case "err":
		return "ENil"
	case "obj":
		return c.objZero(t, at) // fn_stdobj.go: the zero value of a struct of the standard library, an argument
	case "ptr":
		return "(@None " + parenT(t.elem.coq()) + ")"
	case "view":
		return "(mkView 0 0 0)" // the nil slice
	case "struct":
		s := "mk_" + t.name
		for _, ft := range structFieldTypes(t) {
			s += " " + paren(c.zeroOf(ft, at))
		}
		return "(" + s + ")"
	}
	c.lostAt(at, "zero value of type %s", t.k)
	return ""
}

// ---- how slice parameters are used: indexed (elements needed), re-sliced into a result (view
// needed), stored into (returned updated).  "#ret<k>" -> result slot k is a view of a parameter.
type sliceUse struct{ elems, view, stored, mixed bool }

func (c *fnCtx) sliceUsage(fd *ast.FuncDecl) map[string]*sliceUse {
	use := map[string]*sliceUse{}
	isParam := map[*ast.Object]string{}
	for _, f := range fd.Type.Params.List {
		if _, isPtr := f.Type.(*ast.StarExpr); isPtr {
			continue // *M (a map) or a pointer to a struct: not a slice
		}
		if c.goType(f.Type).k != "slice" {
			continue // strings and scalars are values
		}
		for _, n := range f.Names {
			if n.Obj != nil {
				isParam[n.Obj] = n.Name
				use[n.Name] = &sliceUse{}
			}
		}
	}
	paramOf := func(e ast.Expr) string {
		if p, ok := e.(*ast.ParenExpr); ok {
			e = p.X
		}
		if id, ok := e.(*ast.Ident); ok && id.Obj != nil {
			return isParam[id.Obj]
		}
		return ""
	}
	// a slice expression or a bare parameter in a position where the slice itself escapes
	escapes := func(e ast.Expr) bool {
		if se, ok := e.(*ast.SliceExpr); ok {
			if p := paramOf(se.X); p != "" {
				use[p].view = true
				return true
			}
			return false
		}
		return false
	}
	nret := 0
	if fd.Type.Results != nil {
		for _, f := range fd.Type.Results.List {
			k := len(f.Names)
			if k == 0 {
				k = 1
			}
			nret += k
		}
	}
	retRooted := make([]int, nret) // 0 unknown, 1 all parameter-rooted, 2 none, 3 mixed
	// a parameter that is appended to (x = append(x, ...)) is a list of its own from then on:
	// returning it returns elements, not a window of the argument
	appended := map[string]bool{}
	ast.Inspect(fd.Body, func(n ast.Node) bool {
		if as, ok := n.(*ast.AssignStmt); ok && len(as.Lhs) == 1 && len(as.Rhs) == 1 {
			if call, ok := as.Rhs[0].(*ast.CallExpr); ok {
				if id, ok := call.Fun.(*ast.Ident); ok && id.Name == "append" && id.Obj == nil && len(call.Args) > 0 {
					if p := paramOf(as.Lhs[0]); p != "" && p == paramOf(call.Args[0]) {
						appended[p] = true
					}
				}
			}
		}
		return true
	})
	ast.Inspect(fd.Body, func(n ast.Node) bool {
		switch v := n.(type) {
		case *ast.IndexExpr:
			if p := paramOf(v.X); p != "" {
				use[p].elems = true
			}
		case *ast.RangeStmt:
			if p := paramOf(v.X); p != "" && v.Value != nil {
				use[p].elems = true
			}
		case *ast.AssignStmt:
			for i, l := range v.Lhs {
				if ix, ok := l.(*ast.IndexExpr); ok {
					if p := paramOf(ix.X); p != "" {
						use[p].stored = true
					}
				}
				if ix := c.wordTarget(l); ix != nil {
					// a store through (*uint64)(unsafe.Pointer(&p[i]))
					if p := paramOf(ix.X); p != "" {
						use[p].stored, use[p].elems = true, true
					}
				}
				// x = x[lo:hi] on a parameter is a re-slice of the list itself
				if len(v.Lhs) == len(v.Rhs) {
					if se, ok := v.Rhs[i].(*ast.SliceExpr); ok && paramOf(se.X) != "" && paramOf(se.X) == paramOf(l) {
						use[paramOf(l)].elems = true
						return true
					}
				}
			}
		case *ast.ReturnStmt:
			if len(v.Results) == nret {
				for i, r := range v.Results {
					rooted := false
					if p := paramOf(r); p != "" && use[p] != nil && appended[p] {
						use[p].elems = true
					} else if p := paramOf(r); p != "" && use[p] != nil {
						if _, isSlice := c.paramType(fd, p).(*ast.ArrayType); isSlice || c.isSliceTypeParam(fd, p) {
							rooted = true
							use[p].view = true
						}
					}
					if escapes(r) {
						rooted = true
					}
					if id, ok := r.(*ast.Ident); ok && id.Name == "nil" {
						continue
					}
					if call, ok := r.(*ast.CallExpr); ok {
						if cal := c.g.calleeOf(c.fn, call); cal != nil && len(cal.results) == 1 && cal.results[0].k == "sres" {
							retRooted[i] = 3 // handed through
							continue
						}
						// return pkg.F(vs), F an external func(S) S that may store into vs: the result
						// is a window of the parameter's array, the parameter is stored into
						if key := c.externKey(call); key != "" && len(call.Args) == 1 {
							if p := paramOf(call.Args[0]); p != "" && use[p] != nil {
								if efd := c.externDeclQuiet(key); efd != nil && externHandsBack(efd) {
									rooted = true
									use[p].view, use[p].stored, use[p].elems = true, true, true
								}
							}
						}
					}
					k := 2
					if rooted {
						k = 1
					}
					if retRooted[i] == 0 {
						retRooted[i] = k
					} else if retRooted[i] != k {
						retRooted[i] = 3
					}
				}
			}
		case *ast.ExprStmt:
			// pkg.F(vs) as a statement, F declared extern: it hands back the new elements of its
			// slice arguments: a parameter among them is stored into
			if call, ok := v.X.(*ast.CallExpr); ok && c.externKey(call) != "" {
				for _, a := range call.Args {
					if p := paramOf(a); p != "" {
						use[p].stored, use[p].elems = true, true
					}
				}
			}
		case *ast.CompositeLit:
			for _, e := range v.Elts {
				if kv, ok := e.(*ast.KeyValueExpr); ok && (c.fn.ctor == nil || c.fn.ctor.lit != v) {
					e = kv.Value // Edit[T]{X: lhs[lpos:lend]}; (the literal of a constructor hands its slices over)
				}
				if p := paramOf(e); p != "" {
					use[p].view = true
				}
				escapes(e)
			}
		case *ast.CallExpr:
			if id, ok := v.Fun.(*ast.Ident); ok && id.Obj == nil {
				switch id.Name {
				case "append":
					for _, a := range v.Args[1:] {
						escapes(a)
					}
				case "cap":
					if p := paramOf(v.Args[0]); p != "" {
						use[p].view = true
					}
				case "copy":
					if len(v.Args) == 2 {
						if p := paramOf(v.Args[0]); p != "" {
							use[p].stored, use[p].elems = true, true
						}
					}
				}
			}
			if cal := c.g.calleeOf(c.fn, v); cal != nil {
				for i, a := range callArgs(cal, v) {
					if p := paramOf(a); p != "" && i < len(cal.params) && cal.params[i].v != nil {
						cp := cal.params[i]
						if cp.v.view != nil {
							use[p].view = true
						}
						if !cp.v.noElems {
							use[p].elems = true
						}
						if cp.mutated {
							use[p].stored = true
						}
					}
				}
			} else {
				// handed to a callback: its elements are needed
				for _, a := range v.Args {
					if p := paramOf(a); p != "" {
						if id, ok := v.Fun.(*ast.Ident); !ok || (id.Name != "len" && id.Name != "cap") {
							use[p].elems = true
						}
					}
				}
			}
		}
		return true
	})
	for i, k := range retRooted {
		switch k {
		case 1:
			use["#ret"+strconv.Itoa(i)] = &sliceUse{view: true}
		case 3:
			use["#ret"+strconv.Itoa(i)] = &sliceUse{mixed: true}
		}
	}
	return use
}

func (c *fnCtx) paramType(fd *ast.FuncDecl, name string) ast.Expr {
	for _, f := range fd.Type.Params.List {
		for _, n := range f.Names {
			if n.Name == name {
				return f.Type
			}
		}
	}
	return nil
}

func (c *fnCtx) isSliceTypeParam(fd *ast.FuncDecl, name string) bool {
	if id, ok := c.paramType(fd, name).(*ast.Ident); ok {
		if t, ok := c.elemT[id.Name]; ok {
			return t.k == "slice"
		}
	}
	return false
}

// ---------------------------------------------------------------- emission of one function

func (c *fnCtx) usesFuel() bool { return c.fuel }

func (c *fnCtx) tparamsOf(vs []*fnVar, extra ...*fnType) string {
	set := map[string]bool{}
	for _, v := range vs {
		v.typ.mentionsT(set)
	}
	for _, t := range extra {
		t.mentionsT(set)
	}
	var names []string
	for n := range set {
		names = append(names, n)
	}
	sort.Strings(names)
	s := ""
	for _, n := range names {
		s += " {" + n + " : Type}"
	}
	return s
}

func (t *fnType) mentionsT(set map[string]bool) {
	switch t.k {
	case "elem":
		set[t.name] = true
	case "raw", "struct":
		for _, p := range t.params {
			p.mentionsT(set)
		}
	case "obj":
		set[t.name] = true
	case "ptr", "sres", "table":
		t.elem.mentionsT(set)
	case "opaque":
		set[t.name] = true
	case "map":
		t.key.mentionsT(set)
		t.elem.mentionsT(set)
	case "slice":
		if t.elem.k != "slice" { // a slice of slices is a list of views
			t.elem.mentionsT(set)
		}
	case "func", "tuple":
		for _, p := range t.params {
			p.mentionsT(set)
		}
		for _, p := range t.res {
			p.mentionsT(set)
		}
	}
}

func varType(v *fnVar) string {
	if v.typ.k == "slice" && v.typ.elem.k == "tuple" {
		return "list (" + tupleType(v.typ.elem.params) + ")"
	}
	return v.typ.coq()
}

// prodType: the type of v as a component of a product (function types parenthesised)
func prodType(v *fnVar) string {
	if v.typ.k == "func" {
		return "(" + varType(v) + ")"
	}
	return varType(v)
}

func binders(vs []*fnVar) string {
	var b strings.Builder
	for _, v := range vs {
		b.WriteString(" (" + v.name + " : " + varType(v) + ")")
	}
	return b.String()
}

// sigVars: the Coq parameters of the function, in order.
func (c *fnCtx) sigVars() []*fnVar {
	var vs []*fnVar
	for _, f := range c.fn.fields {
		vs = append(vs, c.fields[f])
		if sp := c.fat[c.fields[f]]; sp != nil {
			vs = append(vs, sp)
		}
	}
	for _, p := range c.fn.params {
		vs = append(vs, p.ptrVars...)
		if p.v == nil {
			continue
		}
		if !p.v.noElems {
			vs = append(vs, p.v)
		}
		if p.v.view != nil {
			vs = append(vs, p.v.view)
		}
	}
	for _, e := range c.fn.extras {
		vs = append(vs, c.extras[e.key])
	}
	for _, z := range c.fn.zeroTypes {
		vs = append(vs, c.zeros[z])
	}
	return vs
}

// retVars: what every return hands back after the Go results.
func (c *fnCtx) retVars() []*fnVar {
	var vs []*fnVar
	for _, f := range c.fn.mutFields {
		vs = append(vs, c.fields[f])
		if sp := c.fat[c.fields[f]]; sp != nil {
			vs = append(vs, sp)
		}
	}
	for _, p := range c.fn.params {
		if p.v != nil && p.mutated {
			vs = append(vs, p.v)
		}
	}
	for _, l := range c.fn.logs {
		vs = append(vs, c.logs[l])
	}
	return vs
}

func (c *fnCtx) retType() string {
	var ps []string
	for _, t := range c.fn.results {
		s := t.coq()
		if t.k == "func" {
			s = "(" + s + ")"
		}
		ps = append(ps, s)
	}
	for _, v := range c.retVars() {
		ps = append(ps, prodType(v))
	}
	if len(ps) == 0 {
		return "unit"
	}
	return strings.Join(ps, " * ")
}

func tuple(xs []string) string {
	switch len(xs) {
	case 0:
		return "tt"
	case 1:
		return xs[0]
	}
	return "(" + strings.Join(xs, ", ") + ")"
}

func (c *fnCtx) retTerm(vals []string) term {
	xs := append([]string{}, vals...)
	for _, v := range c.retVars() {
		if f, ok := c.handed[v]; ok && c.retPos > c.fn.localObj.stmt.End() {
			// the array this function was handed, after the object worked on it
			x := c.fields[f]
			xs = append(xs, "(go_handback "+x.name+" "+c.fat[x].name+")")
			continue
		}
		xs = append(xs, v.name)
	}
	t := tuple(xs)
	if len(c.loops) > 0 {
		return tOk{"Ret " + paren(t)}
	}
	return tOk{t}
}

func (c *fnCtx) emit(body term) {
	fn := c.fn
	var b strings.Builder
	for _, f := range c.fix {
		b.WriteString(f)
		b.WriteString("\n")
	}
	sig := c.sigVars()
	var rts []*fnType
	rts = append(rts, fn.results...)
	for _, v := range c.retVars() {
		rts = append(rts, v.typ)
	}
	tp := c.tparamsOf(sig, rts...)
	body = simp(body)
	fn.pure = isPure(body) && !c.fuel
	fn.fuel = c.fuel
	doc := strings.ReplaceAll(strings.ReplaceAll(src(&ast.FuncDecl{Recv: fn.decl.Recv, Name: fn.decl.Name, Type: fn.decl.Type}), "(*", "( *"), "*)", "* )")
	b.WriteString("(* " + doc + " *)\n")
	b.WriteString(c.g.normComment(fn)) // fn_stdobj.go: the normalised source when a switch was rewritten
	if vd := c.viewBaseDoc(); vd != "" {
		b.WriteString("(* slice fields: " + vd + " *)\n")
	}
	if fn.pure {
		b.WriteString("Definition " + fn.name + tp + binders(sig) + " : " + c.retType() + " :=\n  " + render(body, 1, true) + ".\n")
	} else {
		fuel := ""
		if c.fuel {
			fuel = " (fuel : nat)"
		}
		b.WriteString("Definition " + fn.name + tp + binders(sig) + fuel + " : res " + paren(c.retType()) + " :=\n  " + render(body, 1, false) + ".\n")
	}
	fn.text = b.String()
}

// ---------------------------------------------------------------- effects of a piece of code

type effSet struct{ r, w map[*fnVar]bool }

func (c *fnCtx) rootVar(e ast.Expr) *fnVar {
	switch v := e.(type) {
	case *ast.ParenExpr:
		return c.rootVar(v.X)
	case *ast.StarExpr:
		if ix := c.wordTarget(v); ix != nil {
			return c.rootVar(ix.X)
		}
		return c.rootVar(v.X)
	case *ast.Ident:
		return c.lookup(v)
	case *ast.IndexExpr:
		return c.rootVar(v.X)
	case *ast.SelectorExpr:
		if c.isRecv(v.X) {
			return c.fields[v.Sel.Name]
		}
		return c.rootVar(v.X) // x.f of a struct-valued variable
	}
	return nil
}

func (c *fnCtx) effects(nodes ...ast.Node) effSet {
	es := effSet{map[*fnVar]bool{}, map[*fnVar]bool{}}
	rd := func(v *fnVar) {
		if v != nil {
			es.r[v] = true
			if v.view != nil {
				es.r[v.view] = true
			}
			if sp := c.fat[v]; sp != nil && v.role != "field" {
				es.r[sp] = true
			}
		}
	}
	wr := func(v *fnVar) {
		if v != nil {
			es.w[v] = true
		}
	}
	for _, nd := range nodes {
		if nd == nil {
			continue
		}
		ast.Inspect(nd, func(n ast.Node) bool {
			switch v := n.(type) {
			case *ast.AssignStmt:
				for _, l := range v.Lhs {
					wr(c.rootVar(l))
					if x := c.rootVar(l); x != nil && x.aliasOf != nil {
						// a store through the range variable of a list of distinct pointers
						es.r[x.aliasOf], es.w[x.aliasOf], es.r[x.aliasIdx] = true, true, true
					}
					// a field with a tracked capacity assigned as a whole: its spare part changes too
					if x := c.plainVar(l); x != nil && x.role == "field" && c.fat[x] != nil {
						es.r[c.fat[x]], es.w[c.fat[x]] = true, true
					}
				}
			case *ast.IncDecStmt:
				wr(c.rootVar(v.X))
				if x := c.rootVar(v.X); x != nil && x.aliasOf != nil {
					es.r[x.aliasOf], es.w[x.aliasOf], es.r[x.aliasIdx] = true, true, true
				}
			case *ast.ValueSpec:
				if v.Type != nil && len(v.Values) == 0 && c.zero != nil {
					for _, z := range zeroNeeds(c.goType(v.Type)) {
						rd(c.zeros[z])
					}
				}
			case *ast.CompositeLit:
				if t := c.structTypeOf(v.Type); t != nil {
					for _, z := range c.litZeroNeeds(v, t) {
						rd(c.zeros[z])
					}
				}
			case *ast.RangeStmt:
				if x := c.plainVar(v.X); x != nil && x.typ.k == "map" {
					rd(c.mapEqbVar(x.typ))
					if id, ok := v.Value.(*ast.Ident); ok && id.Name != "_" {
						for _, z := range zeroNeeds(x.typ.elem) {
							rd(c.zeroVar(z))
						}
					}
				}
				if v.Tok == token.ASSIGN {
					if v.Key != nil {
						wr(c.rootVar(v.Key))
					}
					if v.Value != nil {
						wr(c.rootVar(v.Value))
					}
				}
			case *ast.IndexExpr:
				if x := c.rootVar(v.X); x != nil && x.typ.k == "map" {
					rd(c.mapEqbVar(x.typ))
					for _, z := range zeroNeeds(x.typ.elem) {
						rd(c.zeros[z])
					}
				}
			case *ast.Ident:
				rd(c.lookup(v))
			case *ast.BinaryExpr:
				if f := objNilOperand(v, c.isRecv); f != "" && c.extras["objnil:"+f] != nil {
					rd(c.extras["objnil:"+f])
				}
			case *ast.SelectorExpr:
				if c.isRecv(v.X) {
					rd(c.fields[v.Sel.Name])
					return false
				}
				if id, ok := v.X.(*ast.Ident); ok && id.Obj != nil && c.ptrFields[id.Obj] != nil {
					rd(c.ptrFields[id.Obj][v.Sel.Name])
					return false
				}
			case *ast.CallExpr:
				if k := c.externKey(v); k != "" {
					rd(c.extras[k])
					for _, a := range v.Args {
						if x := c.plainVar(a); x != nil && x.typ.k == "slice" {
							wr(x)
						}
					}
				}
				if id, ok := v.Fun.(*ast.Ident); ok && id.Name == "append" && id.Obj == nil {
					rd(c.extras["append"])
				}
				if id, ok := v.Fun.(*ast.Ident); ok && id.Name == "delete" && id.Obj == nil && len(v.Args) == 2 {
					if x := c.rootVar(v.Args[0]); x != nil {
						wr(x)
						rd(x)
						rd(c.mapEqbVar(x.typ))
					}
				}
				if isBuiltin(v, "copy", 2) {
					if x := c.rootVar(v.Args[0]); x != nil {
						wr(x)
						rd(x)
					}
				}
				if isBuiltin(v, "clear", 1) {
					wr(c.rootVar(v.Args[0]))
				}
				if isBuiltin(v, "len", 1) {
					if x := c.plainVar(v.Args[0]); x != nil && x.typ.k == "map" {
						rd(c.mapEqbVar(x.typ))
					}
				}
				if isBuiltin(v, "cap", 1) {
					if x := c.plainVar(v.Args[0]); x != nil && x.role == "field" && c.fat[x] != nil {
						es.r[c.fat[x]] = true
					}
				}
				if fv, m := c.objCallOf(v); fv != nil {
					rd(c.extras["obj:"+c.objOf(fv).field+"."+m])
					rd(fv)
					wr(fv)
					for _, w := range c.objOf(fv).writes {
						rd(c.fields[w])
						wr(c.fields[w])
					}
				}
				if cal := c.g.calleeOf(c.fn, v); cal != nil {
					sub := c.calleeSubst(cal, v)
					for _, e := range cal.extras {
						if strings.HasPrefix(e.key, "eqb:") {
							rd(c.mapEqbVar(&fnType{k: "map", key: substT(&fnType{k: "elem", name: strings.TrimPrefix(e.key, "eqb:")}, sub)}))
							continue
						}
						if strings.HasPrefix(e.key, "cmp:") {
							rd(c.cmpVar(&fnType{k: "elem", name: strings.TrimPrefix(e.key, "cmp:"), ordered: true}))
							continue
						}
						rd(c.extras[e.key])
					}
					for _, f := range cal.fields {
						rd(c.fields[f])
					}
					for _, f := range cal.mutFields {
						wr(c.fields[f])
					}
					for f := range cal.fatFields {
						if x := c.fields[f]; x != nil && c.fat[x] != nil {
							es.r[c.fat[x]], es.w[c.fat[x]] = true, true
						}
					}
					for _, l := range cal.logs {
						wr(c.logs[l])
					}
					for i, a := range callArgs(cal, v) {
						if i < len(cal.params) && cal.params[i].mutated {
							wr(c.rootVar(a))
							rd(c.rootVar(a))
						}
					}
					for _, z := range cal.zeroTypes {
						if zt := substT(&fnType{k: "elem", name: z}, sub); zt.k == "elem" {
							rd(c.zeroVar(zt.name))
						}
					}
				} else if l := c.loggedCall(v); l != nil {
					wr(l)
					rd(l)
				} else if id, ok := v.Fun.(*ast.Ident); ok && id.Name == "make" && id.Obj == nil && c.zero != nil {
					rd(c.zero)
				}
			}
			return true
		})
	}
	return es
}

// loggedCall: the log variable if call is a call of a logged callback.
func (c *fnCtx) loggedCall(call *ast.CallExpr) *fnVar {
	switch f := call.Fun.(type) {
	case *ast.Ident:
		if f.Obj != nil && f.Obj.Kind == ast.Var && c.vars[f.Obj] == nil {
			return c.logs[f.Name]
		}
	case *ast.SelectorExpr:
		if c.isRecv(f.X) {
			return c.logs[f.Sel.Name]
		}
	}
	return nil
}

func (c *fnCtx) outside(v *fnVar, lo, hi token.Pos) bool {
	if v.role != "local" {
		return true
	}
	return v.pos < lo || v.pos >= hi
}

func sortedVars(m map[*fnVar]bool) []*fnVar {
	var vs []*fnVar
	for v := range m {
		vs = append(vs, v)
	}
	sort.Slice(vs, func(i, j int) bool { return vs[i].idx < vs[j].idx })
	return vs
}

func names(vs []*fnVar) []string {
	var xs []string
	for _, v := range vs {
		xs = append(xs, v.name)
	}
	return xs
}

// ---------------------------------------------------------------- expressions

func wrap(pre []fnBind, body term) term {
	for i := len(pre) - 1; i >= 0; i-- {
		if pre[i].isLet {
			body = tLet{pre[i].pat, pre[i].e, body}
		} else {
			body = tBind{pre[i].pat, pre[i].m, body}
		}
	}
	return body
}

func bindRaw(pre *[]fnBind, pat, s string) {
	*pre = append(*pre, fnBind{pat: pat, m: tRaw{s}})
}

func (c *fnCtx) constVal(e ast.Expr) (int64, bool) {
	switch v := e.(type) {
	case *ast.ParenExpr:
		return c.constVal(v.X)
	case *ast.BasicLit:
		if v.Kind == token.INT || v.Kind == token.CHAR {
			n, ok := constant.Int64Val(constant.ToInt(constant.MakeFromLiteral(v.Value, v.Kind, 0)))
			return n, ok
		}
	case *ast.Ident:
		if x, ok := c.localConst(v); ok {
			return c.constVal(x) // fn_err.go: a constant declared inside the function
		}
		if v.Obj != nil && v.Obj.Kind == ast.Con {
			if x, ok := c.g.consts[v.Name]; ok {
				return c.constVal(x)
			}
		}
	case *ast.UnaryExpr:
		if v.Op == token.SUB {
			n, ok := c.constVal(v.X)
			return -n, ok
		}
	}
	return 0, false
}

func zlit(n int64) string {
	if n < 0 {
		return "(" + strconv.FormatInt(n, 10) + ")"
	}
	return strconv.FormatInt(n, 10)
}

func (c *fnCtx) expr(e ast.Expr, pre *[]fnBind) (string, *fnType) {
	switch v := e.(type) {
	case *ast.ParenExpr:
		return c.expr(v.X, pre)
	case *ast.BasicLit:
		switch v.Kind {
		case token.INT, token.CHAR:
			n, ok := c.constVal(v)
			if !ok {
				c.lostAt(v, "literal %s", v.Value)
			}
			return zlit(n), tyUntyped
		case token.STRING:
			s, err := strconv.Unquote(v.Value)
			if err != nil {
				c.lostAt(v, "string literal")
			}
			var bs []string
			for _, ch := range []byte(s) {
				bs = append(bs, strconv.Itoa(int(ch)))
			}
			return "[" + strings.Join(bs, "; ") + "]", tyString
		}
		c.lostAt(v, "literal %s", v.Value)
	case *ast.Ident:
		switch v.Name {
		case "true", "false":
			if v.Obj == nil {
				return v.Name, tyBool
			}
		case "nil":
			if v.Obj == nil {
				return "[]", &fnType{k: "nil"}
			}
		}
		if x := c.lookup(v); x != nil {
			if x.noElems {
				return x.view.name, tyView
			}
			if x.ptr {
				c.lostAt(v, "pointer %s used as a value (only *%s)", v.Name, v.Name)
			}
			return x.name, x.typ
		}
		if x, ok := c.localConst(v); ok {
			return c.expr(x, pre) // fn_err.go: a constant declared inside the function
		}
		if v.Obj != nil && v.Obj.Kind == ast.Con {
			if x, ok := c.g.consts[v.Name]; ok {
				return c.expr(x, pre)
			}
		}
		if s, t := c.globalTable(v); t != nil {
			return s, t // fn_stdobj.go: a package-level table that is never assigned: a constant of the file
		}
		c.lostAt(v, "identifier %s", v.Name)
	case *ast.SelectorExpr:
		if id, ok := v.X.(*ast.Ident); ok && id.Obj != nil && c.ptrFields[id.Obj] != nil {
			if x := c.ptrFields[id.Obj][v.Sel.Name]; x != nil {
				return x.name, x.typ // a field read through a read-only pointer parameter
			}
			c.lostAt(v, "selector %s", src(v))
		}
		if c.isRecv(v.X) {
			if f, ok := c.fields[v.Sel.Name]; ok {
				if f.typ.k == "obj" {
					c.lostAt(v, "object field %s used as a value (only its methods can be called)", src(v))
				}
				return f.name, f.typ
			}
			c.lostAt(v, "selector %s", src(v))
		}
		if id, ok := v.X.(*ast.Ident); ok && id.Obj == nil && id.Name == "math" {
			if n, ok := mathConsts[v.Sel.Name]; ok {
				return n, tyUntyped
			}
		}
		if s, t := c.errSelector(v); t != nil {
			return s, t // fn_err.go: io.EOF
		}
		if s, t := c.foreignConst(v, pre); t != nil {
			return s, t
		}
		if s, t := c.structSelect(v, pre); t != nil {
			return s, t
		}
		c.lostAt(v, "selector %s", src(v))
	case *ast.StarExpr:
		if ix := c.wordTarget(v); ix != nil {
			// *(*uint64)(unsafe.Pointer(&data[i])): the bounds check of data[i], then 8 bytes unchecked
			x, idx := c.wordAccess(v, ix, pre)
			tm := c.tmp()
			bindRaw(pre, tm, "go_load64 "+x.name+" "+paren(idx))
			return tm, tyU64
		}
		if x := c.plainVar(v); x != nil {
			return x.name, x.typ
		}
		c.lostAt(v, "dereference %s", src(v))
	case *ast.UnaryExpr:
		if v.Op == token.AND {
			return c.addrOf(v, pre)
		}
		x, t := c.expr(v.X, pre)
		switch v.Op {
		case token.SUB:
			if n, ok := c.constVal(v); ok {
				return zlit(n), tyUntyped
			}
			if t.k == "byte" {
				return "(go_byte (- " + x + "))", t
			}
			if t.k == "u64" {
				return "(go_u64 (- " + x + "))", t
			}
			return "(- " + x + ")", t
		case token.ADD:
			return x, t
		case token.NOT:
			return "(negb " + x + ")", tyBool
		}
		c.lostAt(v, "unary operator %s", v.Op)
	case *ast.BinaryExpr:
		return c.binary(v, pre)
	case *ast.IndexExpr:
		x, t := c.expr(v.X, pre)
		if t.k == "map" {
			// m[k], one result: the zero value for an absent key
			k, _ := c.expr(v.Index, pre)
			return "(" + c.mapOp(t, "get1") + " " + c.mapEqb(t, v) + " " + paren(c.zeroOf(t.elem, v)) + " " + paren(x) + " " + paren(k) + ")", t.elem
		}
		i, it := c.expr(v.Index, pre)
		if !it.isNum() {
			c.lostAt(v, "index of type %s", it.k)
		}
		var et *fnType
		switch t.k {
		case "slice":
			et = t.elem
			if et.k == "slice" {
				c.lostAt(v, "indexing a slice of slices")
			}
		case "string":
			et = tyByte
		case "table":
			et = t.elem // a package-level table (fn_stdobj.go)
		default:
			c.lostAt(v, "indexing %s", src(v.X))
		}
		tm := c.tmp()
		bindRaw(pre, tm, "go_get "+paren(x)+" "+paren(i))
		return tm, et
	case *ast.SliceExpr:
		x, t := c.expr(v.X, pre)
		if t.k == "string" && !v.Slice3 {
			lo, hi := "0", "(zlen "+paren(x)+")"
			if v.Low != nil {
				lo, _ = c.expr(v.Low, pre)
			}
			if v.High != nil {
				hi, _ = c.expr(v.High, pre)
			}
			tm := c.tmp()
			bindRaw(pre, tm, "go_substr "+paren(x)+" "+paren(lo)+" "+paren(hi))
			return tm, tyString
		}
		if t.k == "view" {
			return c.viewSlice(v, pre), tyView
		}
		c.lostAt(v, "slice expression %s here (aliasing)", src(v))
	case *ast.CallExpr:
		vals, ts := c.call(v, pre, nil)
		if len(vals) != 1 {
			c.lostAt(v, "call %s used as one value", src(v.Fun))
		}
		return vals[0], ts[0]
	case *ast.CompositeLit:
		t := c.goType(v.Type)
		if t.k == "unit" && len(v.Elts) == 0 {
			return "tt", tyUnit
		}
		if t.k == "slice" {
			var xs []string
			for _, el := range v.Elts {
				if _, ok := el.(*ast.KeyValueExpr); ok {
					c.lostAt(v, "keyed composite literal")
				}
				if t.elem.k == "slice" {
					xs = append(xs, c.viewOf(el, pre))
				} else {
					x, _ := c.expr(el, pre)
					xs = append(xs, x)
				}
			}
			return "[" + strings.Join(xs, "; ") + "]", t
		}
		if t.k == "struct" {
			return c.structLit(v, t, pre), t
		}
		c.lostAt(v, "composite literal %s", src(v.Type))
	}
	c.lostAt(e, "expression %s", src(e))
	return "", nil
}

// viewOf: e as a view (a slice parameter itself or a slice expression on one).
func (c *fnCtx) viewOf(e ast.Expr, pre *[]fnBind) string {
	switch v := e.(type) {
	case *ast.ParenExpr:
		return c.viewOf(v.X, pre)
	case *ast.Ident:
		if x := c.lookup(v); x != nil && x.view != nil {
			return x.view.name
		}
	case *ast.SliceExpr:
		return c.viewSlice(v, pre)
	case *ast.CallExpr:
		// pkg.F(vs), F an external func(S) S that hands back a window of its argument (fn_closure.go)
		if key := c.externKey(v); key != "" && len(v.Args) == 1 {
			if efd := c.externDeclQuiet(key); efd != nil && externHandsBack(efd) {
				vals, ts := c.externCall(key, v, pre)
				if len(vals) == 1 && ts[0].k == "view" {
					return vals[0]
				}
			}
		}
	}
	c.lostAt(e, "slice value %s (only a parameter or a slice expression on a parameter can be stored or returned)", src(e))
	return ""
}

func (c *fnCtx) viewSlice(v *ast.SliceExpr, pre *[]fnBind) string {
	id, ok := v.X.(*ast.Ident)
	var x *fnVar
	if ok {
		x = c.lookup(id)
	}
	if x == nil || x.view == nil {
		c.lostAt(v, "slice expression %s (aliasing: only parameters can be re-sliced into a result)", src(v))
	}
	lo, hi := "0", ""
	if v.Low != nil {
		lo, _ = c.expr(v.Low, pre)
	}
	if v.High != nil {
		hi, _ = c.expr(v.High, pre)
	} else {
		hi = c.lenOf(x)
	}
	tm := c.tmp()
	if v.Slice3 {
		mx, _ := c.expr(v.Max, pre)
		bindRaw(pre, tm, "go_slice3 "+x.view.name+" "+paren(lo)+" "+paren(hi)+" "+paren(mx))
	} else {
		bindRaw(pre, tm, "go_slice2 "+x.view.name+" "+paren(lo)+" "+paren(hi))
	}
	return tm
}

func (c *fnCtx) lenOf(x *fnVar) string {
	if x.noElems {
		return "(vlen " + x.view.name + ")"
	}
	return "(zlen " + x.name + ")"
}

func numResult(a, b *fnType) *fnType {
	if a.k == "byte" || b.k == "byte" {
		return tyByte
	}
	if a.k == "u64" || b.k == "u64" {
		return tyU64
	}
	if a.k == "untyped" && b.k == "untyped" {
		return tyUntyped
	}
	return tyInt
}

func hasEffect(pre []fnBind) bool {
	for _, p := range pre {
		if p.effect {
			return true
		}
	}
	return false
}

func (c *fnCtx) binary(v *ast.BinaryExpr, pre *[]fnBind) (string, *fnType) {
	if v.Op == token.LAND || v.Op == token.LOR {
		x, xt := c.expr(v.X, pre)
		var preY []fnBind
		y, yt := c.expr(v.Y, &preY)
		if xt.k != "bool" || yt.k != "bool" {
			c.lostAt(v, "operands of %s", v.Op)
		}
		if len(preY) == 0 {
			if v.Op == token.LAND {
				return "(" + x + " && " + y + ")", tyBool
			}
			return "(" + x + " || " + y + ")", tyBool
		}
		tm := c.tmp()
		// the state the right operand changes (it is evaluated only when the left one asks for it)
		// is joined on both branches
		var st []string
		if hasEffect(preY) {
			for _, w := range sortedVars(c.effects(v.Y).w) {
				st = append(st, w.name)
			}
		}
		res := func(val string) term { return tOk{tuple(append([]string{val}, st...))} }
		var m term
		if v.Op == token.LAND {
			m = tIf{x, wrap(preY, res(y)), res("false")}
		} else {
			m = tIf{x, res("true"), wrap(preY, res(y))}
		}
		*pre = append(*pre, fnBind{pat: tuple(append([]string{tm}, st...)), m: m, effect: len(st) > 0})
		return tm, tyBool
	}
	if s, ok := c.funcNilTest(v); ok {
		return s, tyBool
	}
	if s, ok := c.objNilTest(v); ok {
		return s, tyBool
	}
	x, xt := c.expr(v.X, pre)
	y, yt := c.expr(v.Y, pre)
	switch v.Op {
	case token.ADD, token.SUB, token.MUL:
		if xt.k == "string" && yt.k == "string" && v.Op == token.ADD {
			return "(" + x + " ++ " + y + ")", tyString
		}
		if !xt.isNum() || !yt.isNum() {
			c.lostAt(v, "operands of %s", v.Op)
		}
		rt := numResult(xt, yt)
		s := "(" + x + " " + v.Op.String() + " " + y + ")"
		if rt.k == "byte" {
			s = "(go_byte " + s + ")"
		}
		if rt.k == "u64" {
			s = "(go_u64 " + s + ")"
		}
		return s, rt
	case token.QUO, token.REM:
		if !xt.isNum() || !yt.isNum() {
			c.lostAt(v, "operands of %s", v.Op)
		}
		f, g := "Z.quot", "go_quot"
		if v.Op == token.REM {
			f, g = "Z.rem", "go_rem"
		}
		if n, ok := c.constVal(v.Y); ok && n != 0 {
			return "(" + f + " " + x + " " + y + ")", numResult(xt, yt)
		}
		tm := c.tmp()
		bindRaw(pre, tm, g+" "+paren(x)+" "+paren(y))
		return tm, numResult(xt, yt)
	case token.AND, token.OR, token.XOR, token.AND_NOT:
		if !xt.isNum() || !yt.isNum() {
			c.lostAt(v, "operands of %s", v.Op)
		}
		f := map[token.Token]string{token.AND: "Z.land", token.OR: "Z.lor", token.XOR: "Z.lxor", token.AND_NOT: "Z.ldiff"}[v.Op]
		return "(" + f + " " + x + " " + y + ")", numResult(xt, yt)
	case token.SHL, token.SHR:
		if !xt.isNum() || !yt.isNum() {
			c.lostAt(v, "operands of %s", v.Op)
		}
		if v.Op == token.SHR {
			return "(Z.shiftr " + x + " " + y + ")", xt
		}
		if xt.k == "byte" {
			return "(go_byte (Z.shiftl " + x + " " + y + "))", xt
		}
		if xt.k == "u64" {
			return "(go_u64 (Z.shiftl " + x + " " + y + "))", xt
		}
		return "(Z.shiftl " + x + " " + y + ")", xt
	case token.LSS, token.LEQ, token.GTR, token.GEQ:
		op := map[token.Token]string{token.LSS: "<?", token.LEQ: "<=?", token.GTR: ">?", token.GEQ: ">=?"}[v.Op]
		if xt.isNum() && yt.isNum() {
			return "(" + x + " " + op + " " + y + ")", tyBool
		}
		if xt.k == "string" && yt.k == "string" {
			return "(go_cmp_str " + x + " " + y + " " + op + " 0)", tyBool
		}
		c.lostAt(v, "comparison of %s values", xt.k)
	case token.EQL, token.NEQ:
		var s string
		switch {
		case xt.k == "map" && xt.nilable && yt.k == "nil":
			s = "(go_nmap_isnil " + x + ")"
		case yt.k == "map" && yt.nilable && xt.k == "nil":
			s = "(go_nmap_isnil " + y + ")"
		case xt.isNum() && yt.isNum():
			s = "(" + x + " =? " + y + ")"
		case xt.k == "bool" && yt.k == "bool":
			s = "(Bool.eqb " + x + " " + y + ")"
		case xt.k == "string" && yt.k == "string":
			s = "(str_eqb " + x + " " + y + ")"
		case xt.k == "ptr" && yt.k == "nil":
			s = "(match " + x + " with None => true | Some _ => false end)"
		case yt.k == "ptr" && xt.k == "nil":
			s = "(match " + y + " with None => true | Some _ => false end)"
		case xt.k == "err" || yt.k == "err":
			s = c.errEqual(v, x, xt, y, yt) // fn_err.go: err == nil, err == io.EOF
		case xt.k == "elem" && yt.k == "elem" && xt.name == yt.name:
			// == on a comparable type parameter: the function argument eqb_<T>
			s = "(" + c.mapEqbVar(&fnType{k: "map", key: xt}).name + " " + x + " " + y + ")"
		default:
			c.lostAt(v, "equality of %s values", xt.k)
		}
		if v.Op == token.NEQ {
			s = "(negb " + s + ")"
		}
		return s, tyBool
	}
	c.lostAt(v, "operator %s", v.Op)
	return "", nil
}
