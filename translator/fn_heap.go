package main

// Heap backend of the function translator: Go code that builds and mutates pointer-linked
// structures.  An anchors.d entry of special "fn" whose funcs carry a directive "heap:<Struct>" is
// translated here (the whole package directory is parsed and type-checked with go/types; the
// functions listed may sit in any file of the package).  The generated code is written against
// coq/Common/FnRt.v and coq/Common/FnHeap.v and follows the conventions of the function translator
// (res monad, fuelled Fixpoints for loops, receiver fields as arguments); the cells of the struct
// named by heap: live in a heap `h : list <Record>` that is threaded through every function that
// touches it.  See notes/fn-translator.md, section "Heap backend".
//
// Files: fn_heap.go (loading, types, records, signatures, emission), fn_heap_expr.go (expressions,
// calls, closures), fn_heap_stmt.go (statements, loops, effects).

import (
	"fmt"
	"go/ast"
	"go/parser"
	"go/token"
	"go/types"
	"os"
	"path/filepath"
	"sort"
	"strconv"
	"strings"
)

// ---------------------------------------------------------------- types of the translation

type hty struct {
	k      string // int bool elem str unit hptr struct slice func
	name   string // elem: the type parameter; struct: the Coq record name; hptr: the cell struct
	args   []*hty // struct: type arguments (only those the record uses)
	elem   *hty   // slice
	params []*hty // func
	res    []*hty
	// func values
	stateful bool    // a callback that threads a state: St -> args -> res (results * St)
	stName   string  // ... the name of its state type
	shape    *hshape // a translated function held in a variable (method expression)
	st       *hstruct
	owned    bool // struct: a *V to a fresh value struct nobody else refers to, held by value
	raw      string   // func: its Coq type written out (the function itself at smaller fuel: self_)
	rawTps   []string // ... and the type variables it mentions
	untyped  bool // int: an untyped constant
	monadic  bool   // func: a function of another package (extern:): its result is in res
	own      *heown // eptr: the cell variable and slice field the pointer points into (fn_heap_eptr.go)
	vres     bool   // struct (owned), as a result: nil or the receiver itself on some path: go_vres V
}

// hshape: what a translated function needs besides its Go arguments, when it is used as a value
type hshape struct {
	readsHeap, writesHeap, fuel, pure bool
	cell                             string
}

type hstruct struct {
	name    string // Go name
	named   *types.Named
	st      *types.Struct
	cell    bool   // its values live in the heap (directive heap:)
	wrapper string // the single field, of a cell struct type by value (List.first): *S is the address of that cell
	tps     []string
	used    []bool // which type parameters the record mentions
	fnames  []string
	ftypes  []*hty // in terms of tps
	emitted bool
}

var (
	htInt  = &hty{k: "int"}
	htBool = &hty{k: "bool"}
	htStr  = &hty{k: "str"}
	htUnit = &hty{k: "unit"}
	htUnt  = &hty{k: "int", untyped: true}
	htByte = &hty{k: "int", name: "byte"}
)

func (t *hty) coq() string {
	switch t.k {
	case "int":
		return "Z"
	case "bool":
		return "bool"
	case "elem":
		return t.name
	case "str":
		return "list Z"
	case "unit":
		return "unit"
	case "hptr":
		return "option nat"
	case "struct":
		s := t.name
		for _, a := range t.args {
			s += " " + parenT(a.coq())
		}
		if t.vres {
			return "go_vres " + parenT(s)
		}
		return s
	case "slice":
		return "list " + parenT(t.elem.coq())
	case "eptr":
		return "option Z"
	case "esnap":
		return "option " + parenT(t.elem.coq())
	case "obj":
		return t.name
	case "err":
		return "go_xerr"
	case "opt":
		return "option " + parenT(t.elem.coq())
	case "rmap":
		// a map that is only ranged over: the sequence of its entries in the order of that iteration
		return "list (" + t.params[0].coq() + " * " + t.params[1].coq() + ")"
	case "func":
		return t.funcCoq("")
	}
	return "?"
}

// funcCoq: the Coq type of a function value; heapT is the type of the heap (for shapes)
func (t *hty) funcCoq(heapT string) string {
	if t.raw != "" {
		return t.raw
	}
	var ps []string
	if t.stateful {
		ps = append(ps, t.stName)
	}
	for _, p := range t.params {
		s := p.coq()
		if p.k == "func" || strings.Contains(s, " * ") {
			s = "(" + s + ")"
		}
		ps = append(ps, s)
	}
	rs := htuple(t.res)
	switch {
	case t.stateful:
		if len(t.res) == 0 {
			rs = t.stName
		} else {
			rs += " * " + t.stName
		}
		ps = append(ps, "res ("+rs+")")
	case t.shape != nil:
		if t.shape.readsHeap {
			ps = append(ps, heapT)
		}
		if t.shape.fuel {
			ps = append(ps, "nat")
		}
		if t.shape.writesHeap {
			if len(t.res) == 0 {
				rs = heapT
			} else {
				rs += " * " + heapT
			}
		}
		if t.shape.pure {
			ps = append(ps, rs)
		} else {
			ps = append(ps, "res ("+rs+")")
		}
	case t.monadic:
		ps = append(ps, "res "+paren(rs))
	case len(t.objParamTypes()) > 0:
		// a callback that is handed objects (f(w, ch, fi) with w an io.Writer): it may use them,
		// so it answers in res and hands every object back after its results
		var all []*hty
		all = append(all, t.res...)
		all = append(all, t.objParamTypes()...)
		ps = append(ps, "res "+paren(htuple(all)))
	default:
		ps = append(ps, rs)
	}
	return strings.Join(ps, " -> ")
}

// objParamTypes: the object parameters of a plain callback (no state, no shape, not extern)
func (t *hty) objParamTypes() []*hty {
	if t.k != "func" || t.stateful || t.shape != nil || t.monadic || t.raw != "" {
		return nil
	}
	var os []*hty
	for _, p := range t.params {
		if p.k == "obj" {
			os = append(os, p)
		}
	}
	return os
}

func htuple(ts []*hty) string {
	if len(ts) == 0 {
		return "unit"
	}
	var ps []string
	for _, t := range ts {
		s := t.coq()
		if t.k == "func" {
			s = "(" + s + ")"
		}
		ps = append(ps, s)
	}
	return strings.Join(ps, " * ")
}

func (t *hty) mentions(set map[string]bool) {
	switch t.k {
	case "elem":
		set[t.name] = true
	case "struct":
		for _, a := range t.args {
			a.mentions(set)
		}
	case "obj":
		set[t.name] = true
	case "slice", "eptr", "esnap", "opt":
		t.elem.mentions(set)
	case "rmap":
		t.params[0].mentions(set)
		t.params[1].mentions(set)
	case "func":
		for _, tp := range t.rawTps {
			set[tp] = true
		}
		for _, p := range t.params {
			p.mentions(set)
		}
		for _, p := range t.res {
			p.mentions(set)
		}
		if t.stateful {
			set[t.stName] = true
		}
	}
}

// ---------------------------------------------------------------- the generator

type hgen struct {
	files   []*ast.File
	info    *types.Info
	pkg     *types.Package
	cells   map[string]bool // directive heap:
	structs map[string]*hstruct
	sorder  []string
	funcs   map[*types.Func]*hfunc
	order   []*hfunc
	// stateful callback parameters: "Func.param" / "Recv.Method.param" (directive and inferred)
	stateful map[string]bool
	decls    map[*types.Func]*ast.FuncDecl
	externs  map[string]bool   // directive extern:pkg.F: a function of another package as a function argument
	pkgfns   map[string]bool   // directive pkgfn:f: a function of the package itself as a function argument (fn_heap_ctor.go)
	normText map[string]string // the functions that were normalised before translation (fn_heap_norm.go): their text
	pointedInto map[string]bool // "S.F": slice fields of cells into whose elements pointers are taken (fn_heap_eptr.go)
	tx          *htext          // the text extension (directive std:), nil otherwise (fn_heap_text.go)
}

type hparam struct {
	v        *hvar
	st       *hvar // the state of a stateful callback
	goName   string
	variadic bool
}

type hfunc struct {
	spec, name string
	obj        *types.Func
	decl       *ast.FuncDecl
	state      int // 0 new 1 busy 2 done 3 lost
	lostMsg    string
	text       string
	// signature
	recvFields bool     // the receiver is a value struct: its fields are arguments
	recvStruct *hstruct // ... that struct
	fields     []string // fields used (struct order)
	mutFields  []string // fields assigned: returned
	params     []*hparam
	results    []*hty
	zeros      []string // type parameters whose zero value is an argument
	cell       string   // the heap it touches ("" none)
	cellArgs   []*hty   // ... the type arguments of the cell record
	readsHeap  bool
	writesHeap bool
	fuel, pure bool
	selfRec    bool // calls itself: a Fixpoint on fuel
	ctor       bool // q := new(V); ...; return q: the fields of the new value struct are returned
	retRecv    bool // the only result is the receiver itself (return c): not a result of the translation
	recvNil    bool // the receiver pointer is compared with nil here or in a callee on it: argument <recv>_nil
	tparams    []string
	externs    []*hextern // functions of other packages it (or a callee) calls: function arguments
	recvParam  bool       // the first parameter *V plays the receiver (directive recv:V, fn_heap_textcall.go)
	givenAway  map[string]bool // object parameters handed to a function of another package: not handed back
}

type hextern struct {
	key string // pkg.F
	v   *hvar
}

func heapSpecs(specs []string) bool {
	for _, s := range specs {
		if strings.HasPrefix(s, "heap:") {
			return true
		}
	}
	return false
}

type hfakeImporter struct{ pkgs map[string]*types.Package }

func (im *hfakeImporter) Import(path string) (*types.Package, error) {
	if p := im.pkgs[path]; p != nil {
		return p, nil
	}
	name := path
	if i := strings.LastIndexByte(path, '/'); i >= 0 {
		name = path[i+1:]
	}
	p := types.NewPackage(path, name)
	p.MarkComplete()
	im.pkgs[path] = p
	return p, nil
}

// hmodImporter: packages of the module the translated package belongs to are parsed and type-checked
// from their source (so that their types, constants and function signatures are known: mdiff uses
// slice.Edit, slice.OpEmit, slice.EditScript); everything else is an empty package, as before.
type hmodImporter struct {
	fake      *hfakeImporter
	root, mod string
	done      map[string]*types.Package
	busy      map[string]bool
	std       map[string]bool // packages of the standard library read from GOROOT/src (fn_heap_text.go)
}

func newHmodImporter(dir string) *hmodImporter {
	im := &hmodImporter{fake: &hfakeImporter{pkgs: map[string]*types.Package{}}, done: map[string]*types.Package{}, busy: map[string]bool{}}
	for d := dir; ; d = filepath.Dir(d) {
		if data, err := os.ReadFile(filepath.Join(d, "go.mod")); err == nil {
			for _, line := range strings.Split(string(data), "\n") {
				if strings.HasPrefix(line, "module ") {
					im.root, im.mod = d, strings.TrimSpace(strings.TrimPrefix(line, "module "))
				}
			}
			break
		}
		if d == filepath.Dir(d) {
			break
		}
	}
	return im
}

func (im *hmodImporter) Import(path string) (*types.Package, error) {
	if p := im.done[path]; p != nil {
		return p, nil
	}
	if im.std[path] {
		return im.importStd(path)
	}
	if im.root == "" || !strings.HasPrefix(path, im.mod+"/") || im.busy[path] {
		return im.fake.Import(path)
	}
	im.busy[path] = true
	defer delete(im.busy, path)
	pdir := filepath.Join(im.root, strings.TrimPrefix(path, im.mod+"/"))
	ents, err := os.ReadDir(pdir)
	if err != nil {
		return im.fake.Import(path)
	}
	var files []*ast.File
	for _, e := range ents {
		n := e.Name()
		if e.IsDir() || !strings.HasSuffix(n, ".go") || strings.HasSuffix(n, "_test.go") {
			continue
		}
		if pf, err := parser.ParseFile(fset, filepath.Join(pdir, n), nil, 0); err == nil {
			files = append(files, pf)
		}
	}
	if len(files) == 0 {
		return im.fake.Import(path)
	}
	conf := types.Config{Importer: im, Error: func(error) {}}
	pkg, _ := conf.Check(path, fset, files, nil)
	if pkg == nil {
		return im.fake.Import(path)
	}
	im.done[path] = pkg
	return pkg, nil
}

// fnHeapGenerate: the heap backend for one anchors.d entry.
func fnHeapGenerate(f *ast.File, specs []string) (text string, lostMsgs []string) {
	defer func() {
		if r := recover(); r != nil {
			msg := fmt.Sprint(r)
			if l, ok := r.(lost); ok {
				msg = l.msg
			}
			text = "From Mds Require Import Common.FnRt Common.FnHeap.\nLocal Open Scope Z_scope.\n\n"
			lostMsgs = []string{"fn heap backend lost: " + msg}
		}
	}()
	g := &hgen{cells: map[string]bool{}, structs: map[string]*hstruct{}, funcs: map[*types.Func]*hfunc{},
		stateful: map[string]bool{}, decls: map[*types.Func]*ast.FuncDecl{}, externs: map[string]bool{}}
	dir := filepath.Dir(fset.Position(f.Package).Filename)
	ents, err := os.ReadDir(dir)
	if err != nil {
		fail("cannot read %s: %v", dir, err)
	}
	want := map[string]bool{}
	for _, sp := range specs {
		if !strings.Contains(sp, ":") {
			want[sp] = true
		}
	}
	g.normText = map[string]string{}
	for _, e := range ents {
		n := e.Name()
		if e.IsDir() || !strings.HasSuffix(n, ".go") || strings.HasSuffix(n, "_test.go") {
			continue
		}
		pf, err := parser.ParseFile(fset, filepath.Join(dir, n), nil, 0)
		if err != nil {
			fail("parse error in %s: %v", n, err)
		}
		// switch -> if chain, inlining of local function literals (fn_heap_norm.go)
		pf, texts := hNormalizeFile(pf, filepath.Join(dir, n), want)
		for k, t := range texts {
			g.normText[k] = t
		}
		g.files = append(g.files, pf)
	}
	g.info = &types.Info{Types: map[ast.Expr]types.TypeAndValue{}, Defs: map[*ast.Ident]types.Object{}, Uses: map[*ast.Ident]types.Object{},
		Selections: map[*ast.SelectorExpr]*types.Selection{}, Instances: map[*ast.Ident]types.Instance{}, Implicits: map[ast.Node]types.Object{}}
	conf := types.Config{Importer: g.textImporter(dir, specs), Error: func(error) {}}
	g.pkg, _ = conf.Check(f.Name.Name, fset, g.files, g.info)
	if g.pkg == nil {
		fail("type check of %s failed", dir)
	}
	for _, pf := range g.files {
		for _, d := range pf.Decls {
			if fd, ok := d.(*ast.FuncDecl); ok {
				if o, ok := g.info.Defs[fd.Name].(*types.Func); ok {
					g.decls[o] = fd
				}
			}
		}
	}
	var fspecs []string
	for _, sp := range specs {
		switch {
		case strings.HasPrefix(sp, "heap:"):
			for _, n := range strings.Split(strings.TrimPrefix(sp, "heap:"), ",") {
				g.cells[n] = true
			}
		case strings.HasPrefix(sp, "stateful:"):
			g.stateful[strings.TrimPrefix(sp, "stateful:")] = true
		case strings.HasPrefix(sp, "extern:"):
			g.externs[strings.TrimPrefix(sp, "extern:")] = true
		case hPkgFnDirective(g, sp):
		case g.textDirective(sp):
		case strings.Contains(sp, ":"):
			lostMsgs = append(lostMsgs, "fn "+sp+" lost: directive not supported by the heap backend")
		default:
			fspecs = append(fspecs, sp)
		}
	}
	for _, sp := range fspecs {
		fn := &hfunc{spec: sp}
		g.order = append(g.order, fn)
		recv, name := "", sp
		if i := strings.IndexByte(sp, '.'); i >= 0 {
			recv, name = sp[:i], sp[i+1:]
		}
		for o, fd := range g.decls {
			if fd.Name.Name != name {
				continue
			}
			r := ""
			if sig := o.Type().(*types.Signature); sig.Recv() != nil {
				r = namedOf(sig.Recv().Type()).Obj().Name()
			}
			if r == recv {
				fn.obj, fn.decl = o, fd
			}
		}
		if fn.obj == nil || fn.decl.Body == nil {
			fn.state, fn.lostMsg = 3, "function not found"
			continue
		}
		fn.name = name
		if recv != "" {
			fn.name = recv + "_" + name
		}
		if fnReserved[fn.name] {
			fn.name += "_"
		}
		g.funcs[fn.obj] = fn
	}
	g.inferStateful()
	g.scanPointedInto()
	var emitted []string
	for _, fn := range g.order {
		g.translate(fn, &emitted)
	}
	var b strings.Builder
	if g.tx != nil {
		b.WriteString("From Mds Require Import Common.FnRt Common.FnHeap Common.FnText.\nLocal Open Scope Z_scope.\n\n")
	} else {
		b.WriteString("From Mds Require Import Common.FnRt Common.FnHeap.\nLocal Open Scope Z_scope.\n\n")
	}
	for _, n := range g.sorder {
		if s := g.structs[n]; s.emitted {
			b.WriteString(g.recordText(s))
			b.WriteString("\n")
		}
	}
	for _, t := range emitted {
		b.WriteString(t)
		b.WriteString("\n")
	}
	for _, fn := range g.order {
		if fn.state == 3 {
			lostMsgs = append(lostMsgs, fmt.Sprintf("fn %s lost: %s", fn.spec, fn.lostMsg))
		}
	}
	return b.String(), lostMsgs
}

// coreSliceOf: the slice type S of a type parameter constrained by the single term ~S (`Slice ~[]T`)
func coreSliceOf(tp *types.TypeParam) *types.Slice {
	iface, ok := tp.Constraint().Underlying().(*types.Interface)
	if !ok || iface.NumEmbeddeds() != 1 || iface.NumExplicitMethods() != 0 {
		return nil
	}
	u, ok := iface.EmbeddedType(0).(*types.Union)
	if !ok || u.Len() != 1 {
		return nil
	}
	sl, _ := u.Term(0).Type().Underlying().(*types.Slice)
	return sl
}

func namedOf(t types.Type) *types.Named {
	if t == nil {
		return nil
	}
	t = types.Unalias(t)
	if p, ok := t.(*types.Pointer); ok {
		t = types.Unalias(p.Elem())
	}
	n, _ := t.(*types.Named)
	return n
}

func (g *hgen) translate(fn *hfunc, emitted *[]string) {
	if fn.state != 0 {
		return
	}
	fn.state = 1
	defer func() {
		if r := recover(); r != nil {
			fn.state = 3
			if l, ok := r.(lost); ok {
				fn.lostMsg = l.msg
				return
			}
			fn.lostMsg = fmt.Sprintf("internal error: %v", r) // the translator never crashes
		}
	}()
	// callees first
	ast.Inspect(fn.decl.Body, func(n ast.Node) bool {
		var o *types.Func
		switch v := n.(type) {
		case *ast.Ident:
			o, _ = g.info.Uses[v].(*types.Func)
		case *ast.SelectorExpr:
			o, _ = g.info.Uses[v.Sel].(*types.Func)
		}
		if o == nil {
			return true
		}
		cal := g.funcs[o.Origin()]
		if cal == nil {
			return true
		}
		if cal == fn {
			fn.selfRec = true
			return true
		}
		if cal.state == 1 {
			fail("unsupported recursion through %s at line %d", cal.spec, fset.Position(n.Pos()).Line)
		}
		g.translate(cal, emitted)
		if cal.state == 3 {
			fail("callee %s is lost", cal.spec)
		}
		return true
	})
	c := &hctx{g: g, fn: fn, vars: map[types.Object]*hvar{}, fields: map[string]*hvar{}, used: map[string]bool{},
		zeros: map[string]*hvar{}, loopDone: map[ast.Node]string{}, loopInfo: map[string]*loopInfo{}}
	c.function()
	fn.state = 2
	*emitted = append(*emitted, fn.text)
}

// ---------------------------------------------------------------- Go types -> representation

func (c *hctx) lostAt(n ast.Node, format string, args ...any) {
	line := 0
	if n != nil {
		line = fset.Position(n.Pos()).Line
	}
	fail("unsupported %s at line %d", fmt.Sprintf(format, args...), line)
}

// structOf registers the struct type a named type denotes.
func (g *hgen) structOf(n *types.Named) *hstruct {
	n = n.Origin()
	name := n.Obj().Name()
	if g.isStdNamed(n) {
		return nil // a type of the standard library is abstract (fn_heap_text.go)
	}
	if s, ok := g.structs[name]; ok {
		return s
	}
	st, ok := n.Underlying().(*types.Struct)
	if !ok {
		return nil
	}
	s := &hstruct{name: name, named: n, st: st, cell: g.cells[name]}
	g.structs[name] = s
	if tp := n.TypeParams(); tp != nil {
		for i := 0; i < tp.Len(); i++ {
			s.tps = append(s.tps, tp.At(i).Obj().Name())
		}
	}
	if !s.cell && st.NumFields() == 1 {
		if fn := namedOf(st.Field(0).Type()); fn != nil {
			if _, isPtr := st.Field(0).Type().(*types.Pointer); !isPtr && g.cells[fn.Obj().Name()] {
				s.wrapper = st.Field(0).Name()
				g.structOf(fn)
				return s
			}
		}
	}
	// fields (a field of a wrapper type by value is the address of the embedded cell)
	set := map[string]bool{}
	for i := 0; i < st.NumFields(); i++ {
		ft := g.typeOf(st.Field(i).Type(), nil)
		if ft == nil {
			ft = &hty{k: "?", name: st.Field(i).Type().String()}
		}
		s.fnames = append(s.fnames, st.Field(i).Name())
		s.ftypes = append(s.ftypes, ft)
		ft.mentions(set)
	}
	g.textStructParams(s, set)
	for _, tp := range s.tps {
		s.used = append(s.used, set[tp])
	}
	g.sorder = append(g.sorder, name)
	return s
}

// typeOf: the representation of a Go type; nil when it has none.
func (g *hgen) typeOf(t types.Type, at ast.Node) *hty {
	if t != nil {
		t = types.Unalias(t)
	}
	if r := g.textTypeOf(t, at); r != nil {
		return r
	}
	switch v := t.(type) {
	case *types.Basic:
		switch {
		case v.Info()&types.IsBoolean != 0:
			return htBool
		case v.Info()&types.IsInteger != 0:
			if v.Info()&types.IsUntyped != 0 {
				return htUnt
			}
			switch v.Kind() {
			case types.Int, types.Int64, types.Int32, types.Uint, types.Uint32:
				return htInt
			case types.Uint8:
				return htByte // compared and copied only: arithmetic on it is lost
			}
		case v.Info()&types.IsString != 0:
			return htStr
		case v.Kind() == types.UntypedNil:
			return &hty{k: "nil"}
		}
	case *types.TypeParam:
		if sl := coreSliceOf(v); sl != nil {
			return g.typeOf(sl, at) // Slice ~[]T: a slice of T
		}
		return &hty{k: "elem", name: v.Obj().Name()}
	case *types.Pointer:
		n := namedOf(v.Elem())
		if n == nil {
			return nil
		}
		s := g.structOf(n)
		if s == nil {
			return nil
		}
		if s.cell {
			return &hty{k: "hptr", name: s.name, st: s, args: g.typeArgs(n, s)}
		}
		if s.wrapper != "" {
			cs := g.structOf(namedOf(s.st.Field(0).Type()))
			return &hty{k: "hptr", name: cs.name, st: s, args: g.wrapperCellArgs(n, s)}
		}
		// a pointer to a value struct: held by value (a fresh struct nobody else refers to)
		r := g.typeOf(v.Elem(), at)
		if r == nil || r.k != "struct" {
			return nil
		}
		u := *r
		u.owned = true
		return &u
	case *types.Named:
		s := g.structOf(v)
		if s == nil {
			if b, ok := v.Underlying().(*types.Basic); ok {
				return g.typeOf(b, at)
			}
			// a named function type (`type FormatFunc func(w io.Writer, ch []*Chunk, fi *FileInfo) error`):
			// its signature (a named type without methods of its own adds nothing to the value)
			if sig, ok := v.Underlying().(*types.Signature); ok && v.NumMethods() == 0 {
				return g.typeOf(sig, at)
			}
			return nil
		}
		if s.cell {
			return nil // a cell by value
		}
		if s.wrapper != "" {
			// a wrapper by value (a field of another struct): the address of its embedded cell
			cs := g.structOf(namedOf(s.st.Field(0).Type()))
			return &hty{k: "hptr", name: cs.name, st: s, args: g.wrapperCellArgs(v, s)}
		}
		return &hty{k: "struct", name: s.name, st: s, args: g.typeArgs(v, s)}
	case *types.Slice:
		e := g.typeOf(v.Elem(), at)
		if e == nil || e.k == "slice" || e.k == "func" {
			return nil
		}
		return &hty{k: "slice", elem: e}
	case *types.Struct:
		if v.NumFields() == 0 {
			return htUnit
		}
	case *types.Map:
		// a map: representable only as what a range over it visits (rangeMap in fn_heap_stmt.go);
		// every other use of a variable of this kind is lost where it occurs
		kt, et := g.typeOf(v.Key(), at), g.typeOf(v.Elem(), at)
		if kt == nil || et == nil || (kt.k != "elem" && kt.k != "int" && kt.k != "str") || et.k == "func" || et.k == "slice" {
			return nil
		}
		return &hty{k: "rmap", params: []*hty{kt, et}}
	case *types.Signature:
		ft := &hty{k: "func"}
		for i := 0; i < v.Params().Len(); i++ {
			p := g.typeOf(v.Params().At(i).Type(), at)
			if p == nil {
				return nil
			}
			ft.params = append(ft.params, p)
		}
		for i := 0; i < v.Results().Len(); i++ {
			p := g.typeOf(v.Results().At(i).Type(), at)
			if p == nil {
				return nil
			}
			ft.res = append(ft.res, p)
		}
		if v.Variadic() {
			return nil
		}
		return ft
	}
	return nil
}

// typeArgs: the arguments of the record of s at the instance n (all of them for a cell: the heap
// type needs them; only those the record mentions otherwise)
func (g *hgen) typeArgs(n *types.Named, s *hstruct) []*hty {
	var as []*hty
	ta := n.TypeArgs()
	for i := range s.tps {
		if i >= len(s.used) || !s.used[i] {
			continue
		}
		var a *hty
		if ta != nil && i < ta.Len() {
			a = g.typeOf(ta.At(i), nil)
		} else {
			a = &hty{k: "elem", name: s.tps[i]}
		}
		if a == nil {
			a = &hty{k: "?", name: "?"}
		}
		as = append(as, a)
	}
	return as
}

// wrapperCellArgs: the type arguments of the cell embedded in the wrapper instance n
func (g *hgen) wrapperCellArgs(n *types.Named, s *hstruct) []*hty {
	inst := n.Underlying().(*types.Struct) // instantiated fields
	fn := namedOf(inst.Field(0).Type())
	return g.typeArgs(fn, g.structOf(fn))
}

func (g *hgen) recordText(s *hstruct) string {
	var fs []string
	for i, n := range s.fnames {
		fs = append(fs, s.name+"_"+n+" : "+s.ftypes[i].coq())
	}
	var tps []string
	for i, tp := range s.tps {
		if s.used[i] {
			tps = append(tps, tp)
		}
	}
	var b strings.Builder
	hdr := "type " + s.name
	if len(s.tps) > 0 {
		hdr += "[" + strings.Join(s.tps, ", ") + "]"
	}
	kind := "a value"
	if s.cell {
		kind = "cells of the heap"
	}
	b.WriteString("(* " + hdr + " struct: " + kind + " *)\n")
	params, impl := "", ""
	if len(tps) > 0 {
		params = " (" + strings.Join(tps, " ") + " : Type)"
		impl = " {" + strings.Join(tps, " ") + "}"
	}
	b.WriteString("Record " + s.name + params + " : Type := mk_" + s.name + " { " + strings.Join(fs, "; ") + " }.\n")
	if impl != "" {
		b.WriteString("Arguments mk_" + s.name + impl + ".\n")
		for _, n := range s.fnames {
			b.WriteString("Arguments " + s.name + "_" + n + impl + ".\n")
		}
	}
	return b.String()
}

// ---------------------------------------------------------------- which callback parameters thread a state

func (g *hgen) paramKey(fn *hfunc, name string) string { return fn.spec + "." + name }

// inferStateful: a function-typed parameter that receives a function literal (or the body of a
// range-over-func loop) at some call in the package, or a stateful parameter of the caller, is
// stateful.  Iterated to a fixed point.
func (g *hgen) inferStateful() {
	for changed := true; changed; {
		changed = false
		for _, fn := range g.order {
			if fn.decl == nil || fn.decl.Body == nil {
				continue
			}
			mark := func(cal *hfunc, i int) {
				sig := cal.obj.Type().(*types.Signature)
				if i >= sig.Params().Len() {
					return
				}
				k := g.paramKey(cal, sig.Params().At(i).Name())
				if !g.stateful[k] {
					g.stateful[k] = true
					changed = true
				}
			}
			ast.Inspect(fn.decl.Body, func(n ast.Node) bool {
				switch v := n.(type) {
				case *ast.CallExpr:
					cal := g.calleeOf(v.Fun)
					if cal == nil {
						return true
					}
					for i, a := range v.Args {
						switch x := ast.Unparen(a).(type) {
						case *ast.FuncLit:
							mark(cal, i)
						case *ast.Ident:
							pv, ok := g.info.Uses[x].(*types.Var)
							if !ok || !g.isParamOf(fn, pv) {
								break
							}
							if g.stateful[g.paramKey(fn, pv.Name())] {
								mark(cal, i)
							}
							// handed on to a stateful parameter: stateful here too (a pure function
							// could not show what the callee does with it)
							sig := cal.obj.Type().(*types.Signature)
							if _, isFunc := pv.Type().Underlying().(*types.Signature); isFunc && i < sig.Params().Len() &&
								g.stateful[g.paramKey(cal, sig.Params().At(i).Name())] && !g.stateful[g.paramKey(fn, pv.Name())] {
								g.stateful[g.paramKey(fn, pv.Name())] = true
								changed = true
							}
						}
					}
				case *ast.RangeStmt:
					if cal := g.calleeOf(v.X); cal != nil {
						mark(cal, 0)
					}
				}
				return true
			})
		}
	}
}

func (g *hgen) isParamOf(fn *hfunc, v *types.Var) bool {
	sig := fn.obj.Type().(*types.Signature)
	for i := 0; i < sig.Params().Len(); i++ {
		if sig.Params().At(i) == v {
			return true
		}
	}
	return false
}

// calleeOf: the translated function the expression names (a function, a method value x.M, a
// method expression (*T).M, an instantiation f[T])
func (g *hgen) calleeOf(e ast.Expr) *hfunc {
	switch v := ast.Unparen(e).(type) {
	case *ast.Ident:
		if o, ok := g.info.Uses[v].(*types.Func); ok {
			return g.funcs[o.Origin()]
		}
	case *ast.SelectorExpr:
		if o, ok := g.info.Uses[v.Sel].(*types.Func); ok {
			return g.funcs[o.Origin()]
		}
	case *ast.IndexExpr:
		return g.calleeOf(v.X)
	case *ast.IndexListExpr:
		return g.calleeOf(v.X)
	}
	return nil
}

// ---------------------------------------------------------------- variables, context

type hvar struct {
	name string
	typ  *hty
	idx  int
	role string // local param field heap zero cbstate
	obj  types.Object
	pos  token.Pos // where it is declared (locals); 0: the whole function
	cb   *hvar     // cbstate: its callback
}

type hbind = fnBind

type hloop struct {
	hasRet bool
	cont   func() term
	brk    func() term
}

type hlit struct { // while the body of a function literal is translated
	res   []*hty
	state []*hvar
}

type hctx struct {
	g        *hgen
	fn       *hfunc
	vars     map[types.Object]*hvar
	fields   map[string]*hvar
	used     map[string]bool
	all      []*hvar
	ntmp     int
	nloop    int
	fix      []string
	loops    []*hloop
	zeros    map[string]*hvar
	heap     *hvar
	heapT    string
	recvObj  types.Object
	retNames []*hvar
	fuel     bool
	lit      *hlit
	loopDone map[ast.Node]string
	loopInfo map[string]*loopInfo
	cbState  map[*hvar]*hvar // stateful callback parameter -> its state
	synth    map[ast.Node]*hvar
	synthLim map[ast.Node]*hvar
	nilVar    *hvar        // "the receiver pointer is nil" (methods that compare their receiver with nil)
	selfVar   *hvar        // the function itself (at the smaller fuel) for the recursive calls inside its loops
	ctorNamed *types.Named // a constructor: the instance of the value struct it makes
	ctorRest  []ast.Stmt   // ... and its body after q := new(V)
	// element pointers (fn_heap_eptr.go)
	eptrObjs  map[types.Object]bool // the variables bound to slice.PtrAt(...)
	lhsIdents map[*ast.Ident]bool   // the identifiers that are assignment targets
	epState   map[*hvar]*hepState
	synthWin  map[ast.Node]*hvar // range over a window: the list that holds it
}

func (c *hctx) fresh(base string) string {
	if base == "_" || base == "" {
		base = "x"
	}
	n := base
	if fnReserved[n] || strings.HasPrefix(n, "go_") || strings.HasPrefix(n, "mk_") || n == "h" && c.heap != nil {
		n = base + "_"
	}
	for _, f := range c.g.order {
		if f.name == n {
			n += "_"
			break
		}
	}
	for _, s := range c.g.structs {
		if s.name == n {
			n += "_"
			break
		}
	}
	cand := n
	for i := 1; c.used[cand]; i++ {
		cand = n + "_" + strconv.Itoa(i)
	}
	c.used[cand] = true
	return cand
}

func (c *hctx) newVar(base string, t *hty, role string) *hvar {
	v := &hvar{name: c.fresh(base), typ: t, idx: len(c.all), role: role}
	c.all = append(c.all, v)
	return v
}

func (c *hctx) tmp() string {
	for {
		c.ntmp++
		n := "t" + strconv.Itoa(c.ntmp)
		if !c.used[n] {
			c.used[n] = true
			return n
		}
	}
}

func (c *hctx) declare(id *ast.Ident, t *hty) *hvar {
	if id.Name == "_" {
		return nil
	}
	o := c.g.info.Defs[id]
	if o == nil {
		c.lostAt(id, "declaration of %s (unresolved)", id.Name)
	}
	if v, ok := c.vars[o]; ok {
		return v // the continuation is being translated a second time
	}
	if t.untyped {
		t = htInt
	}
	v := c.newVar(id.Name, t, "local")
	v.obj, v.pos = o, id.Pos()
	c.vars[o] = v
	return v
}

func (c *hctx) lookup(id *ast.Ident) *hvar {
	if o := c.g.info.Uses[id]; o != nil {
		return c.vars[o]
	}
	if o := c.g.info.Defs[id]; o != nil {
		return c.vars[o]
	}
	return nil
}

func (c *hctx) typeOfExpr(e ast.Expr) *hty {
	tv, ok := c.g.info.Types[e]
	if !ok || tv.Type == nil {
		c.lostAt(e, "expression %s (no type)", src(e))
	}
	t := c.g.typeOf(tv.Type, e)
	if t == nil {
		c.lostAt(e, "type %s of %s", tv.Type.String(), src(e))
	}
	return t
}

func (c *hctx) mustType(t types.Type, at ast.Node) *hty {
	r := c.g.typeOf(t, at)
	if r == nil {
		c.lostAt(at, "type %s", t.String())
	}
	if r.k == "struct" {
		c.useStruct(r.st, at)
	}
	// a struct mentioned only behind an optional pointer or in the type of a callback
	// (`fi *FileInfo`, `f FormatFunc` of Diff.Format): its record is needed too
	c.useMentioned(r, at)
	return r
}

func (c *hctx) useMentioned(r *hty, at ast.Node) {
	switch r.k {
	case "opt":
		if r.elem != nil && r.elem.k == "struct" && r.elem.st != nil {
			c.useStruct(r.elem.st, at)
		}
	case "func":
		if r.raw != "" {
			return
		}
		for _, p := range r.params {
			if p.k == "struct" && p.st != nil {
				c.useStruct(p.st, at)
			}
			c.useMentioned(p, at)
		}
		for _, p := range r.res {
			if p.k == "struct" && p.st != nil {
				c.useStruct(p.st, at)
			}
			c.useMentioned(p, at)
		}
	}
}

func (c *hctx) useStruct(s *hstruct, at ast.Node) {
	if s.emitted {
		return
	}
	s.emitted = true // set first: a struct that (through a slice or value field) contains its own type must not recurse forever
	for i, ft := range s.ftypes {
		switch ft.k {
		case "int", "bool", "elem", "str", "hptr", "struct", "unit", "slice", "obj", "err", "opt":
			if ft.k == "struct" {
				c.useStruct(ft.st, at)
			}
			if (ft.k == "opt" || ft.k == "slice") && ft.elem.k == "opt" && ft.elem.elem.k == "struct" {
				c.useStruct(ft.elem.elem.st, at)
			}
			if ft.k == "opt" && ft.elem.k == "struct" {
				c.useStruct(ft.elem.st, at)
			}
			if ft.k == "slice" && ft.elem.k == "struct" {
				c.useStruct(ft.elem.st, at)
			}
		case "func":
			// a pure function held in a field of a value struct (Tree.compare, Tree.limit)
			if s.cell || len(ft.res) == 0 || ft.stateful || ft.monadic || ft.shape != nil || ft.raw != "" {
				c.lostAt(at, "struct type %s with the field %s of type %s", s.name, s.fnames[i], ft.name)
			}
		default:
			c.lostAt(at, "struct type %s with the field %s of type %s", s.name, s.fnames[i], ft.name)
		}
	}
	s.emitted = true
}

// ---------------------------------------------------------------- one function

func (c *hctx) function() {
	fn, g := c.fn, c.g
	fd := fn.decl
	sig := fn.obj.Type().(*types.Signature)
	if tp := sig.RecvTypeParams(); tp != nil {
		for i := 0; i < tp.Len(); i++ {
			fn.tparams = append(fn.tparams, tp.At(i).Obj().Name())
		}
	}
	if tp := sig.TypeParams(); tp != nil {
		for i := 0; i < tp.Len(); i++ {
			if coreSliceOf(tp.At(i)) != nil {
				continue // Slice ~[]T is not an element type of its own
			}
			fn.tparams = append(fn.tparams, tp.At(i).Obj().Name())
		}
	}
	ast.Inspect(fd.Body, func(n ast.Node) bool {
		switch n.(type) {
		case *ast.GoStmt, *ast.DeferStmt, *ast.SelectStmt, *ast.SendStmt, *ast.TypeSwitchStmt, *ast.LabeledStmt, *ast.SwitchStmt:
			c.lostAt(n, "statement %T", n)
		}
		return true
	})
	c.ctorPattern()
	// ---- the heap this function touches
	c.scanHeap()
	c.checkPointedFields()
	if fn.cell != "" {
		cs := g.structs[fn.cell]
		c.useStruct(cs, fd)
		c.heapT = "list " + parenT((&hty{k: "struct", name: cs.name, args: fn.cellArgs}).coq())
		c.used["h"] = true
		c.heap = &hvar{name: "h", typ: &hty{k: "heap"}, role: "heap", idx: 1 << 30} // sorted last: the heap closes every state tuple
	}
	// ---- receiver (or the first parameter *V of a directive recv:V, which plays the receiver)
	r := sig.Recv()
	var recvIdent *ast.Ident
	if r != nil && len(fd.Recv.List[0].Names) == 1 {
		recvIdent = fd.Recv.List[0].Names[0]
	}
	if r == nil {
		r, recvIdent = c.textRecvParam(sig, fd)
	}
	c.checkOptStores()
	c.scanGivenAway()
	if r != nil {
		n := namedOf(r.Type())
		s := g.structOf(n)
		if s == nil {
			c.lostAt(fd, "receiver type %s", r.Type().String())
		}
		if recvIdent != nil {
			c.recvObj = g.info.Defs[recvIdent]
		}
		if s.cell || s.wrapper != "" {
			if _, isPtr := r.Type().(*types.Pointer); !isPtr {
				c.lostAt(fd, "value receiver of the heap struct %s", s.name)
			}
			// a pointer into the heap: the first parameter
			if c.recvObj == nil || r.Name() == "_" {
				c.lostAt(fd, "unnamed receiver")
			}
			v := c.newVar(r.Name(), c.mustType(r.Type(), fd), "param")
			v.obj = c.recvObj
			c.vars[c.recvObj] = v
			fn.params = append(fn.params, &hparam{v: v, goName: r.Name()})
			c.recvObj = nil
		} else {
			// a value struct: its fields are arguments, the assigned ones are returned
			fn.recvFields, fn.recvStruct = true, s
			if _, isPtr := r.Type().(*types.Pointer); isPtr && c.recvObj != nil && c.scanRecvNil() {
				fn.recvNil = true
				c.nilVar = c.newVar(c.recvObj.Name()+"_nil", htBool, "param")
			}
			used, mut := c.scanFields(s)
			wholeRecv := c.derefsRecv() // *t: every field is read
			for i, f := range s.fnames {
				if !used[f] && !mut[f] && !wholeRecv {
					continue
				}
				ft := s.ftypes[i]
				if ft.k == "?" {
					c.lostAt(fd, "receiver field %s of type %s", f, ft.name)
				}
				ft = c.instField(n, s, i)
				if ft.k == "struct" {
					c.useStruct(ft.st, fd)
				}
				if ft.k == "func" && len(ft.res) == 0 {
					c.lostAt(fd, "receiver field %s: a function without results", f)
				}
				name := "recv"
				if c.recvObj != nil {
					name = c.recvObj.Name()
				}
				v := c.newVar(name+"_"+f, ft, "field")
				c.fields[f] = v
				fn.fields = append(fn.fields, f)
				if mut[f] {
					fn.mutFields = append(fn.mutFields, f)
				}
			}
		}
	}
	var ctorPre []hbind
	if c.ctorNamed != nil {
		s := g.structOf(c.ctorNamed)
		fn.recvFields, fn.recvStruct, fn.ctor = true, s, true
		for i, f := range s.fnames {
			ft := c.instField(c.ctorNamed, s, i)
			if ft.k == "struct" {
				c.useStruct(ft.st, fd)
			}
			v := c.newVar(c.recvObj.Name()+"_"+f, ft, "field")
			v.pos = fd.Body.Pos() // a local of the body
			c.fields[f] = v
			fn.mutFields = append(fn.mutFields, f)
		}
	}
	// ---- parameters
	c.cbState = map[*hvar]*hvar{}
	for i := 0; i < sig.Params().Len(); i++ {
		pv := sig.Params().At(i)
		if i == 0 && fn.recvParam {
			continue // plays the receiver
		}
		if pv.Name() == "_" || pv.Name() == "" {
			// never used: no argument
			fn.params = append(fn.params, &hparam{goName: "_"})
			continue
		}
		var t *hty
		variadic := sig.Variadic() && i == sig.Params().Len()-1
		t = c.mustType(pv.Type(), fd)
		if t.k == "func" {
			if len(t.res) == 0 && !g.stateful[g.paramKey(fn, pv.Name())] {
				c.lostAt(fd, "callback parameter %s without results (declare it stateful:%s)", pv.Name(), g.paramKey(fn, pv.Name()))
			}
			if g.stateful[g.paramKey(fn, pv.Name())] {
				u := *t
				u.stateful, u.stName = true, "St_"+pv.Name()
				t = &u
			}
		}
		v := c.newVar(pv.Name(), t, "param")
		v.obj = pv
		c.vars[pv] = v
		p := &hparam{v: v, goName: pv.Name(), variadic: variadic}
		if t.stateful {
			p.st = c.newVar(pv.Name()+"_st", &hty{k: "elem", name: t.stName}, "cbstate")
			p.st.cb = v
			c.cbState[v] = p.st
		}
		fn.params = append(fn.params, p)
	}
	// ---- zero values
	for _, z := range c.scanZeros() {
		v := c.newVar("zero_"+z, &hty{k: "elem", name: z}, "zero")
		c.zeros[z] = v
		fn.zeros = append(fn.zeros, z)
	}
	if c.ctorNamed != nil {
		// the fields of the new struct start at their zero values; an embedded wrapper is a fresh cell
		for _, f := range fn.mutFields {
			v := c.fields[f]
			if v.typ.k == "hptr" && v.typ.st != nil && v.typ.st.wrapper != "" {
				rt := c.cellRecordType(&hty{k: "hptr", name: v.typ.name, args: v.typ.args})
				ctorPre = append(ctorPre, hbind{pat: tuple([]string{v.name, c.needHeap(fd)}), e: "go_hnew " + c.heap.name + " " + c.zeroOf(rt, fd), isLet: true})
				continue
			}
			ctorPre = append(ctorPre, hbind{pat: v.name, e: c.zeroOf(v.typ, fd), isLet: true})
		}
	}
	// ---- results
	fn.retRecv = c.returnsRecv()
	for i := 0; i < sig.Results().Len() && c.ctorNamed == nil && !fn.retRecv; i++ {
		rv := sig.Results().At(i)
		t := c.mustType(rv.Type(), fd)
		if t.k == "func" {
			c.lostAt(fd, "function-typed result")
		}
		if t.k == "struct" && t.owned && c.vresSlots(sig)[i] {
			if rv.Name() != "" {
				c.lostAt(fd, "named result %s that may be nil or the receiver", rv.Name())
			}
			u := *t
			u.vres = true // nil or the receiver itself on some path
			t = &u
		}
		fn.results = append(fn.results, t)
		if rv.Name() != "" {
			// a named result (a blank one too: `(_ T, ok bool)` with a bare return hands back its zero value)
			name := rv.Name()
			if name == "_" {
				name = "ret" + strconv.Itoa(i)
			}
			v := c.newVar(name, t, "local")
			v.obj = rv
			if rv.Name() != "_" {
				c.vars[rv] = v
			}
			c.retNames = append(c.retNames, v)
		}
	}
	if len(c.retNames) != 0 && len(c.retNames) != len(fn.results) {
		c.lostAt(fd, "partly named results")
	}
	// ---- body
	end := func() term {
		if len(fn.results) > 0 {
			if len(c.retNames) == len(fn.results) {
				return c.retTerm(hnames(c.retNames))
			}
			return tRaw{"Panic (PMsg \"unreachable\")"}
		}
		return c.retTerm(nil)
	}
	list := fd.Body.List
	if c.ctorNamed != nil {
		list = c.ctorRest
	}
	body := wrap(ctorPre, c.stmts(list, end))
	if c.selfVar != nil {
		body = tLet{c.selfVar.name, c.selfLambda(), body}
	}
	for i := len(c.retNames) - 1; i >= 0; i-- {
		body = tLet{c.retNames[i].name + " : " + c.retNames[i].typ.coq(), c.zeroOf(c.retNames[i].typ, fd), body}
	}
	c.emit(body)
}

// instField: the type of field i of the receiver struct at the receiver's own type arguments
func (c *hctx) instField(n *types.Named, s *hstruct, i int) *hty {
	inst, ok := n.Underlying().(*types.Struct)
	if !ok || i >= inst.NumFields() {
		return s.ftypes[i]
	}
	return c.mustType(inst.Field(i).Type(), c.fn.decl)
}

func hnames(vs []*hvar) []string {
	var xs []string
	for _, v := range vs {
		xs = append(xs, v.name)
	}
	return xs
}

func (c *hctx) zeroOf(t *hty, at ast.Node) string {
	switch t.k {
	case "int":
		return "0"
	case "bool":
		return "false"
	case "str", "slice":
		return "[]"
	case "unit":
		return "tt"
	case "hptr", "err", "opt":
		return "None"
	case "elem":
		z := c.zeros[t.name]
		if z == nil {
			c.lostAt(at, "zero value of the type parameter %s here", t.name)
		}
		return z.name
	case "struct":
		s := "mk_" + t.name
		for _, ft := range c.fieldTypes(t) {
			s += " " + paren(c.zeroOf(ft, at))
		}
		return "(" + s + ")"
	}
	c.lostAt(at, "zero value of type %s", t.k)
	return ""
}

// fieldTypes: the field types of the struct type t at its type arguments
func (c *hctx) fieldTypes(t *hty) []*hty {
	s := t.st
	sub := map[string]*hty{}
	k := 0
	for i, tp := range s.tps {
		if i < len(s.used) && s.used[i] {
			if k < len(t.args) {
				sub[tp] = t.args[k]
			}
			k++
		}
	}
	var ts []*hty
	for _, ft := range s.ftypes {
		ts = append(ts, hsubst(ft, sub))
	}
	return ts
}

func hsubst(t *hty, sub map[string]*hty) *hty {
	switch t.k {
	case "elem":
		if u, ok := sub[t.name]; ok {
			return u
		}
	case "struct", "hptr":
		if len(t.args) > 0 {
			u := *t
			u.args = nil
			for _, a := range t.args {
				u.args = append(u.args, hsubst(a, sub))
			}
			return &u
		}
	case "slice":
		u := *t
		u.elem = hsubst(t.elem, sub)
		return &u
	}
	return t
}

// ---------------------------------------------------------------- signature and emission

func (c *hctx) sigVars() []*hvar {
	var vs []*hvar
	if c.nilVar != nil {
		vs = append(vs, c.nilVar)
	}
	for _, f := range c.fn.fields {
		vs = append(vs, c.fields[f])
	}
	for _, p := range c.fn.params {
		if p.v == nil {
			continue
		}
		vs = append(vs, p.v)
		if p.st != nil {
			vs = append(vs, p.st)
		}
	}
	for _, e := range c.fn.externs {
		vs = append(vs, e.v)
	}
	if c.fn.readsHeap || c.fn.writesHeap {
		vs = append(vs, c.heap)
	}
	for _, z := range c.fn.zeros {
		vs = append(vs, c.zeros[z])
	}
	return vs
}

// retVars: what every return hands back after the Go results: the receiver fields assigned, the
// states of the stateful callbacks, the heap (when the function changes it)
func (c *hctx) retVars() []*hvar {
	var vs []*hvar
	for _, f := range c.fn.mutFields {
		vs = append(vs, c.fields[f])
	}
	vs = append(vs, objParams(c.fn)...) // objects are handed back (fn_heap_textcall.go)
	for _, p := range c.fn.params {
		if p.st != nil {
			vs = append(vs, p.st)
		}
	}
	if c.fn.writesHeap {
		vs = append(vs, c.heap)
	}
	return vs
}

func (c *hctx) varType(v *hvar) string {
	if v.role == "heap" {
		return c.heapT
	}
	if v.typ.k == "func" {
		return v.typ.funcCoq(c.heapT)
	}
	return v.typ.coq()
}

func (c *hctx) retType() string {
	var ps []string
	for _, t := range c.fn.results {
		ps = append(ps, t.coq())
	}
	for _, v := range c.retVars() {
		ps = append(ps, c.varType(v))
	}
	if len(ps) == 0 {
		return "unit"
	}
	return strings.Join(ps, " * ")
}

func (c *hctx) retTerm(vals []string) term {
	xs := append([]string{}, vals...)
	for _, v := range c.retVars() {
		xs = append(xs, v.name)
	}
	t := tuple(xs)
	if len(c.loops) > 0 {
		return tOk{"Ret " + paren(t)}
	}
	return tOk{t}
}

func (c *hctx) binders(vs []*hvar) string {
	var b strings.Builder
	for _, v := range vs {
		b.WriteString(" (" + v.name + " : " + c.varType(v) + ")")
	}
	return b.String()
}

// tparamsOf: the implicit type arguments a definition over these variables needs
func (c *hctx) tparamsOf(vs []*hvar, withRet bool) string {
	set := map[string]bool{}
	for _, v := range vs {
		if v.role == "heap" {
			for _, a := range c.fn.cellArgs {
				a.mentions(set)
			}
			continue
		}
		if v.typ.k == "func" && v.typ.shape != nil && (v.typ.shape.readsHeap || v.typ.shape.writesHeap) {
			for _, a := range c.fn.cellArgs {
				a.mentions(set)
			}
		}
		v.typ.mentions(set)
	}
	if withRet {
		for _, t := range c.fn.results {
			t.mentions(set)
		}
		for _, v := range c.retVars() {
			if v.role == "heap" {
				for _, a := range c.fn.cellArgs {
					a.mentions(set)
				}
			} else {
				v.typ.mentions(set)
			}
		}
	}
	var names []string
	for n := range set {
		names = append(names, n)
	}
	sort.Strings(names)
	s := ""
	for _, n := range names {
		s += " {" + n + " : Type}"
	}
	return s
}

func (c *hctx) emit(body term) {
	fn := c.fn
	var b strings.Builder
	for _, f := range c.fix {
		b.WriteString(f)
		b.WriteString("\n")
	}
	sig := c.sigVars()
	tp := c.tparamsOf(sig, true)
	body = simp(body)
	fn.pure = isPure(body) && !c.fuel && !fn.selfRec
	fn.fuel = c.fuel || fn.selfRec
	doc := strings.ReplaceAll(strings.ReplaceAll(src(&ast.FuncDecl{Recv: fn.decl.Recv, Name: fn.decl.Name, Type: fn.decl.Type}), "(*", "( *"), "*)", "* )")
	b.WriteString("(* " + doc + " *)\n")
	if nt := c.g.normText[fn.spec]; nt != "" {
		nt = strings.NewReplacer("(*", "( *", "*)", "* )", "\"", "''", "\t", "  ").Replace(nt)
		b.WriteString("(* normalised before translation (switch -> if chain, local function literals inlined at their calls):\n" + nt + "\n*)\n")
	}
	switch {
	case fn.selfRec:
		b.WriteString("Fixpoint " + fn.name + tp + c.binders(sig) + " (fuel : nat) {struct fuel} : res " + paren(c.retType()) + " :=\n  match fuel with\n  | O => OutOfFuel\n  | S fuel =>\n    " + render(body, 2, false) + "\n  end.\n")
	case fn.pure:
		b.WriteString("Definition " + fn.name + tp + c.binders(sig) + " : " + c.retType() + " :=\n  " + render(body, 1, true) + ".\n")
	default:
		fuel := ""
		if c.fuel {
			fuel = " (fuel : nat)"
		}
		b.WriteString("Definition " + fn.name + tp + c.binders(sig) + fuel + " : res " + paren(c.retType()) + " :=\n  " + render(body, 1, false) + ".\n")
	}
	fn.text = b.String()
}

// ctorPattern: a constructor of a value struct: no receiver, the only result *V, the body
// `q := new(V); ...; return q` with q never reassigned and every return returning q.  From that
// statement on q plays the receiver; its fields are locals and ALL of them are returned.
func (c *hctx) ctorPattern() {
	fd, g := c.fn.decl, c.g
	sig := c.fn.obj.Type().(*types.Signature)
	if sig.Recv() != nil || sig.Results().Len() != 1 || len(fd.Body.List) == 0 {
		return
	}
	pt, ok := sig.Results().At(0).Type().(*types.Pointer)
	if !ok {
		return
	}
	n := namedOf(pt)
	if n == nil {
		return
	}
	s := g.structOf(n)
	if s == nil || s.cell || s.wrapper != "" {
		return
	}
	as, ok := fd.Body.List[0].(*ast.AssignStmt)
	if !ok || as.Tok != token.DEFINE || len(as.Lhs) != 1 || len(as.Rhs) != 1 {
		return
	}
	id, ok := as.Lhs[0].(*ast.Ident)
	call, ok2 := as.Rhs[0].(*ast.CallExpr)
	if !ok || !ok2 || !isBuiltin(call, "new", 1) {
		return
	}
	obj := g.info.Defs[id]
	if obj == nil {
		return
	}
	good := true
	ast.Inspect(fd.Body, func(x ast.Node) bool {
		switch v := x.(type) {
		case *ast.ReturnStmt:
			if len(v.Results) != 1 {
				good = false
			} else if rid, ok := ast.Unparen(v.Results[0]).(*ast.Ident); !ok || g.info.Uses[rid] != obj {
				good = false
			}
		case *ast.AssignStmt:
			for _, l := range v.Lhs {
				if lid, ok := l.(*ast.Ident); ok && g.info.Uses[lid] == obj {
					good = false
				}
			}
		case *ast.FuncLit:
			good = false
		}
		return true
	})
	if !good {
		return
	}
	if tv, ok := g.info.Types[call]; ok {
		c.ctorNamed = namedOf(tv.Type)
	}
	if c.ctorNamed == nil {
		return
	}
	c.recvObj = obj
	c.ctorRest = fd.Body.List[1:]
}

// returnsRecv: a method on a value struct whose only result is a pointer to that struct and whose
// every return returns the receiver (func (c *Cursor[T]) Next() *Cursor[T] { ...; return c }):
// no Go result, the assigned fields are returned as usual
func (c *hctx) returnsRecv() bool {
	sig := c.fn.obj.Type().(*types.Signature)
	if !c.fn.recvFields || c.fn.ctor || c.recvObj == nil || sig.Results().Len() != 1 {
		return false
	}
	pt, ok := sig.Results().At(0).Type().(*types.Pointer)
	if !ok || namedOf(pt) == nil || namedOf(sig.Recv().Type()) == nil || namedOf(pt).Origin() != namedOf(sig.Recv().Type()).Origin() {
		return false
	}
	good, any := true, false
	ast.Inspect(c.fn.decl.Body, func(n ast.Node) bool {
		switch v := n.(type) {
		case *ast.FuncLit:
			return false
		case *ast.ReturnStmt:
			any = true
			if len(v.Results) != 1 || !c.isRecvIdent(v.Results[0]) {
				good = false
			}
		}
		return true
	})
	return good && any
}

// selfSig: the Coq type of the function itself applied to fuel (and its zero values): what the
// loops of a recursive function receive as self_
func (c *hctx) selfLambda() string {
	var xs []string
	call := c.fn.name
	i := 0
	if c.nilVar != nil {
		xs = append(xs, "n_")
		call += " n_"
	}
	for _, f := range c.fn.fields {
		_ = f
		x := "a" + strconv.Itoa(i)
		i++
		xs = append(xs, x)
		call += " " + x
	}
	for _, p := range c.fn.params {
		if p.v == nil {
			continue
		}
		x := "a" + strconv.Itoa(i)
		i++
		xs = append(xs, x)
		call += " " + x
		if p.st != nil {
			x := "a" + strconv.Itoa(i)
			i++
			xs = append(xs, x)
			call += " " + x
		}
	}
	if c.fn.readsHeap {
		xs = append(xs, "h_")
		call += " h_"
	}
	for _, z := range c.fn.zeros {
		call += " " + c.zeros[z].name
	}
	call += " fuel"
	return "(fun " + strings.Join(xs, " ") + " => " + call + ")"
}

func (c *hctx) selfType() string {
	var ps []string
	if c.nilVar != nil {
		ps = append(ps, "bool")
	}
	for _, f := range c.fn.fields {
		ps = append(ps, arrowArg(c.varType(c.fields[f])))
	}
	for _, p := range c.fn.params {
		if p.v == nil {
			continue
		}
		ps = append(ps, arrowArg(c.varType(p.v)))
		if p.st != nil {
			ps = append(ps, arrowArg(c.varType(p.st)))
		}
	}
	if c.fn.readsHeap {
		ps = append(ps, arrowArg(c.heapT))
	}
	ps = append(ps, "res "+paren(c.retType()))
	return strings.Join(ps, " -> ")
}

// selfTps: the type variables the type of self_ mentions
func (c *hctx) selfTps() []string {
	set := map[string]bool{}
	for _, f := range c.fn.fields {
		c.fields[f].typ.mentions(set)
	}
	for _, p := range c.fn.params {
		if p.v != nil {
			p.v.typ.mentions(set)
		}
		if p.st != nil {
			p.st.typ.mentions(set)
		}
	}
	for _, a := range c.fn.cellArgs {
		a.mentions(set)
	}
	for _, t := range c.fn.results {
		t.mentions(set)
	}
	var ns []string
	for n := range set {
		ns = append(ns, n)
	}
	sort.Strings(ns)
	return ns
}

// scanRecvNil: the body compares the receiver pointer with nil, or calls a method on it that does
func (c *hctx) scanRecvNil() bool {
	found := false
	ast.Inspect(c.fn.decl.Body, func(n ast.Node) bool {
		switch v := n.(type) {
		case *ast.BinaryExpr:
			if (v.Op == token.EQL || v.Op == token.NEQ) && (c.isRecvIdent(v.X) && isNilExpr(v.Y) || c.isRecvIdent(v.Y) && isNilExpr(v.X)) {
				found = true
			}
		case *ast.SelectorExpr:
			if o, ok := c.g.info.Uses[v.Sel].(*types.Func); ok && c.isRecvIdent(v.X) {
				if cal := c.g.funcs[o.Origin()]; cal != nil && cal != c.fn && cal.recvNil {
					found = true
				}
			}
		}
		return true
	})
	return found
}

// recvCheck: an access to a field of a receiver that may be nil: Go's nil-dereference panic
func (c *hctx) recvCheck(pre *[]hbind) {
	if c.nilVar != nil {
		*pre = append(*pre, hbind{pat: "_", m: tRaw{"go_rcv " + c.nilVar.name}})
	}
}
