package main

// Heap backend: a slice expression x[lo:hi] as an ARGUMENT of a translated callee
// (extract(nodes[:mid]) in stree/node.go).
//
// Slices are lists of their elements in this backend and there is no element store (s[i] = e is
// lost), so the only way two slices that share an array can be told apart from two lists is
// append (x = append(x, e) on a window with spare capacity writes into the shared array) or a
// later re-slice beyond len.  A window handed to a callee is therefore exact BY VALUE
// (go_sub x lo hi, with Go's bounds check against len) as long as the callee uses that parameter
// only to measure it (len), read its elements (p[i], range p), compare it with nil, clone it, or
// hand windows of it on to parameters of translated functions that are read-only in the same
// sense (the function itself included: extract calls itself on nodes[:mid] and nodes[mid+1:]).
// A callee that assigns the parameter, appends to it, returns it, stores it or hands it on whole
// -> lost.

import (
	"go/ast"
	"go/token"
	"go/types"
)

// sliceParamReadOnly: the parameter obj of fn is only measured, indexed for reading, ranged over,
// compared with nil, cloned, or re-sliced into a read-only parameter of a translated function.
func (g *hgen) sliceParamReadOnly(fn *hfunc, obj types.Object, seen map[types.Object]bool) bool {
	if fn == nil || fn.decl == nil || fn.decl.Body == nil || obj == nil {
		return false
	}
	if seen[obj] {
		return true // coinductively: a cycle of re-slices that never leaves the read-only uses
	}
	seen[obj] = true
	ok := true
	var stack []ast.Node
	// parent of the node at depth d, skipping parentheses
	up := func(d int) (ast.Node, int) {
		for d--; d >= 0; d-- {
			if _, isParen := stack[d].(*ast.ParenExpr); !isParen {
				return stack[d], d
			}
		}
		return nil, -1
	}
	ast.Inspect(fn.decl.Body, func(n ast.Node) bool {
		if n == nil {
			stack = stack[:len(stack)-1]
			return true
		}
		stack = append(stack, n)
		id, isId := n.(*ast.Ident)
		if !isId || g.info.Uses[id] != obj {
			return true
		}
		par, pd := up(len(stack) - 1)
		switch p := par.(type) {
		case *ast.IndexExpr:
			if ast.Unparen(p.X) != ast.Expr(id) {
				ok = false // the parameter as an index
				return true
			}
			// p[i] must be read: not assigned, not incremented, not addressed
			gp, _ := up(pd)
			switch q := gp.(type) {
			case *ast.AssignStmt:
				for _, l := range q.Lhs {
					if ast.Unparen(l) == ast.Expr(p) {
						ok = false
					}
				}
			case *ast.IncDecStmt:
				ok = false
			case *ast.UnaryExpr:
				if q.Op == token.AND {
					ok = false
				}
			}
		case *ast.RangeStmt:
			if ast.Unparen(p.X) != ast.Expr(id) {
				ok = false
			}
		case *ast.BinaryExpr:
			if p.Op != token.EQL && p.Op != token.NEQ {
				ok = false
			}
		case *ast.CallExpr:
			// len(p), slices.Clone(p)
			switch f := ast.Unparen(p.Fun).(type) {
			case *ast.Ident:
				if _, isBuiltin := g.info.Uses[f].(*types.Builtin); isBuiltin && f.Name == "len" {
					return true
				}
			case *ast.SelectorExpr:
				if x, isX := f.X.(*ast.Ident); isX && x.Name == "slices" && f.Sel.Name == "Clone" {
					if _, isPkg := g.info.Uses[x].(*types.PkgName); isPkg {
						return true
					}
				}
			}
			ok = false
		case *ast.SliceExpr:
			if ast.Unparen(p.X) != ast.Expr(id) || p.Slice3 {
				ok = false
				return true
			}
			// p[lo:hi] must itself be an argument for a read-only parameter of a translated function
			gp, _ := up(pd)
			call, isCall := gp.(*ast.CallExpr)
			if !isCall {
				ok = false
				return true
			}
			cal := g.calleeOf(call.Fun)
			if cal == nil || call.Ellipsis.IsValid() {
				ok = false
				return true
			}
			sig := cal.obj.Type().(*types.Signature)
			found := false
			for i, a := range call.Args {
				if ast.Unparen(a) == ast.Expr(p) {
					found = true
					if sig.Variadic() && i >= sig.Params().Len()-1 || i >= sig.Params().Len() {
						ok = false
					} else if !g.sliceParamReadOnly(cal, sig.Params().At(i), seen) {
						ok = false
					}
				}
			}
			if !found {
				ok = false // the window is the function or the receiver of the call
			}
		default:
			ok = false // assigned, returned, stored, handed on whole, appended to ...
		}
		return true
	})
	return ok
}

// sliceArg: the argument x[lo:hi] for the slice parameter p of cal, as a list of its own
func (c *hctx) sliceArg(se *ast.SliceExpr, cal *hfunc, p *hparam, pre *[]hbind) string {
	x := c.sliceVar(se.X)
	if x == nil || se.Slice3 {
		c.lostAt(se, "slice expression %s as an argument (only x[lo:hi] on a slice variable or receiver field)", src(se))
	}
	if p.v == nil || p.v.obj == nil || !c.g.sliceParamReadOnly(cal, p.v.obj, map[types.Object]bool{}) {
		c.lostAt(se, "slice expression %s as an argument of %s, which does more with its parameter %s than measure it, read its elements and hand windows of it to such parameters (aliasing)", src(se), cal.name, p.goName)
	}
	if x.role == "field" {
		c.recvCheck(pre)
	}
	lo, hi := "0", "(zlen "+x.name+")"
	if se.Low != nil {
		lo, _ = c.expr(se.Low, pre)
	}
	if se.High != nil {
		hi, _ = c.expr(se.High, pre)
	}
	tm := c.tmp()
	hbindRaw(pre, tm, "go_sub "+x.name+" "+paren(lo)+" "+paren(hi))
	return tm
}
