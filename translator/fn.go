package main

// Function-level translation of a small imperative subset of Go into Gallina
// (special "fn" of an anchors.d entry: {"out":"Gen/FnX.v","src":"pkg/file.go",
// "special":"fn","funcs":["gcd","Recv.Method",...]}).  Whole function bodies are
// printed against coq/Common/FnRt.v.  Anything outside the subset is reported as
// "fn <name> lost: unsupported <construct> at line N" and the function is left
// out of the file (so that whatever depends on it stops compiling) -- it is never
// translated approximately.  See notes/fn-translator.md for the conventions.

import (
	"fmt"
	"go/ast"
	"go/parser"
	"go/token"
	"strconv"
	"strings"
)

// ---------------------------------------------------------------- types

type fnType struct {
	k        string // int bool byte untyped elem slice string func view obj map struct
	elem     *fnType
	name     string // elem: the Go type-parameter name; obj: the Coq name of the state type; struct: the Go type name
	params   []*fnType
	res      []*fnType
	key      *fnType       // map: the key type
	decl     *ast.TypeSpec // struct: its declaration
	fnames   []string      // struct: the field names (their types are in res)
	variadic bool          // func: the last parameter is variadic (a list)
	nilable  bool          // map: nil-ness is represented (go_nmap = option go_map); all maps but unnamed-map struct fields
	monadic  bool          // func: the function can panic: its result type is res (...) (a parameter that receives a function literal)
	ordered  bool          // elem: a cmp.Ordered type parameter (cmp.Compare on it is the argument cmp_<T>)
}

var (
	tyInt     = &fnType{k: "int"}
	tyBool    = &fnType{k: "bool"}
	tyByte    = &fnType{k: "byte"}
	tyU64     = &fnType{k: "u64"}
	tyUntyped = &fnType{k: "untyped"}
	tyString  = &fnType{k: "string"}
	tyView    = &fnType{k: "view"}
	tyUnit    = &fnType{k: "unit"}
)

func (t *fnType) isNum() bool {
	return t.k == "int" || t.k == "byte" || t.k == "untyped" || t.k == "u64"
}

func (t *fnType) coq() string {
	switch t.k {
	case "int", "byte", "untyped", "u64":
		return "Z"
	case "bool":
		return "bool"
	case "elem":
		return t.name
	case "string":
		return "list Z"
	case "view":
		return "view"
	case "raw", "obj":
		return t.name
	case "map":
		if t.nilable {
			return "go_nmap " + parenT(t.key.coq()) + " " + parenT(t.elem.coq())
		}
		return "go_map " + parenT(t.key.coq()) + " " + parenT(t.elem.coq())
	case "unit":
		return "unit"
	case "struct":
		s := t.name
		for _, p := range t.params {
			s += " " + parenT(p.coq())
		}
		return s
	case "seq":
		return "option " + parenT("list "+parenT(t.elem.coq())) // an iter.Seq[T] that is only ranged over: the values it yields; None = nil
	case "eptr":
		return "option Z" // a pointer to an element of a slice parameter: its index
	case "rslice":
		return "list " + parenT(t.elem.coq()) // an inner slice of a read-only slice of slices, by value
	case "slice":
		if t.elem.k == "slice" {
			return "list view"
		}
		e := t.elem.coq()
		if strings.ContainsAny(e, " ") {
			e = "(" + e + ")"
		}
		return "list " + e
	case "func":
		var ps []string
		for _, p := range t.params {
			s := p.coq()
			if p.k == "func" || strings.Contains(s, " * ") {
				s = "(" + s + ")"
			}
			ps = append(ps, s)
		}
		if t.monadic {
			ps = append(ps, "res "+paren(tupleType(t.res)))
		} else {
			ps = append(ps, tupleType(t.res))
		}
		return strings.Join(ps, " -> ")
	case "ptr":
		return "option " + parenT(t.elem.coq())
	case "sres":
		return "go_sres " + parenT(t.elem.coq())
	}
	return t.coqExt() // fn_err.go: err, opaque, table
}

func parenT(s string) string {
	if strings.ContainsAny(s, " ") {
		return "(" + s + ")"
	}
	return s
}

func tupleType(ts []*fnType) string {
	if len(ts) == 0 {
		return "unit"
	}
	var ps []string
	for _, t := range ts {
		s := t.coq()
		if t.k == "func" {
			s = "(" + s + ")"
		}
		ps = append(ps, s)
	}
	return strings.Join(ps, " * ")
}

// ---------------------------------------------------------------- terms (the Gallina being built)

type term interface{}
type tOk struct{ e string }  // Ok e            (pure mode: e)
type tRaw struct{ s string } // any term of type res _
type tLet struct {           // let pat := e in body
	pat, e string
	body   term
}
type tBind struct { // do pat <- m; body
	pat  string
	m    term
	body term
}
type tIf struct {
	c    string
	a, b term
}
type tMatchCtl struct { // match r with Ret x => ret | Next pat => next end
	scrut   string
	retVar  string
	ret     term
	nextPat string
	next    term
}

func isPure(t term) bool {
	switch v := t.(type) {
	case tOk:
		return true
	case tLet:
		return isPure(v.body)
	case tIf:
		return isPure(v.a) && isPure(v.b)
	case tBind:
		return isPure(v.m) && isPure(v.body)
	}
	return false
}

// simp: let x := e in x  ==>  e   (also under Ok), applied bottom-up
func simp(t term) term {
	switch v := t.(type) {
	case tLet:
		b := simp(v.body)
		if o, ok := b.(tOk); ok && o.e == v.pat {
			return tOk{v.e}
		}
		return tLet{v.pat, v.e, b}
	case tBind:
		m, b := simp(v.m), simp(v.body)
		if o, ok := b.(tOk); ok && o.e == v.pat {
			return m
		}
		return tBind{v.pat, m, b}
	case tIf:
		return tIf{v.c, simp(v.a), simp(v.b)}
	case tMatchCtl:
		v.ret, v.next = simp(v.ret), simp(v.next)
		return v
	}
	return t
}

func stripParen(s string) string {
	if len(s) < 2 || s[0] != '(' || s[len(s)-1] != ')' {
		return s
	}
	depth := 0
	for i, ch := range s {
		switch ch {
		case '(':
			depth++
		case ')':
			depth--
			if depth == 0 && i != len(s)-1 {
				return s
			}
		case ',':
			if depth == 1 {
				return s // a tuple
			}
		}
	}
	return s[1 : len(s)-1]
}

func needParen(s string) bool {
	if s == "" {
		return false
	}
	depth := 0
	for i, ch := range s {
		switch ch {
		case '(', '[':
			depth++
		case ')', ']':
			depth--
		case ' ':
			if depth == 0 {
				return true
			}
		}
		_ = i
	}
	return false
}

func paren(s string) string {
	if needParen(s) {
		return "(" + s + ")"
	}
	return s
}

func ind(n int) string { return strings.Repeat("  ", n) }

// render prints t; pure=true drops the Ok wrappers (t must be isPure).  The result starts at the
// current column and continues on lines indented by n.
func render(t term, n int, pure bool) string {
	switch v := t.(type) {
	case tOk:
		if pure {
			return v.e
		}
		return "Ok " + paren(v.e)
	case tRaw:
		return v.s
	case tLet:
		pat := v.pat
		if strings.HasPrefix(pat, "(") {
			pat = "'" + pat
		}
		return "let " + pat + " := " + stripParen(v.e) + " in\n" + ind(n) + render(v.body, n, pure)
	case tBind:
		if isPure(v.m) {
			// a pure computation: plain let
			pat := v.pat
			if strings.HasPrefix(pat, "(") {
				pat = "'" + pat
			}
			return "let " + pat + " := " + renderSub(v.m, n+2, true) + " in\n" + ind(n) + render(v.body, n, pure)
		}
		return "do " + v.pat + " <- " + renderSub(v.m, n+2, false) + ";\n" + ind(n) + render(v.body, n, pure)
	case tIf:
		s := "if " + stripParen(v.c) + " then\n" + ind(n+1) + render(v.a, n+1, pure) + "\n" + ind(n) + "else"
		if _, ok := v.b.(tIf); ok {
			return s + " " + render(v.b, n, pure)
		}
		return s + "\n" + ind(n+1) + render(v.b, n+1, pure)
	case tMatchCtl:
		return "match " + v.scrut + " with\n" +
			ind(n) + "| Ret " + v.retVar + " => " + render(v.ret, n+2, pure) + "\n" +
			ind(n) + "| Next " + v.nextPat + " =>\n" + ind(n+2) + render(v.next, n+2, pure) + "\n" +
			ind(n) + "end"
	}
	return "?"
}

// renderSub prints a term in a non-tail position (parenthesised unless atomic).
func renderSub(t term, n int, pure bool) string {
	switch v := t.(type) {
	case tOk:
		if pure {
			return v.e
		}
		return "Ok " + paren(v.e)
	case tRaw:
		return v.s
	}
	if i, ok := t.(tIf); ok {
		// a small conditional value on one line
		a, b := renderSub(i.a, n, pure), renderSub(i.b, n, pure)
		if one := "if " + stripParen(i.c) + " then " + a + " else " + b; !strings.Contains(one, "\n") && len(one) < 100 {
			return "(" + one + ")"
		}
	}
	return "(\n" + ind(n) + render(t, n, pure) + ")"
}

// ---------------------------------------------------------------- variables, functions

type fnVar struct {
	name     string
	typ      *fnType
	idx      int
	role     string // local param field log view zero
	view     *fnVar // companion view of a slice parameter
	noElems  bool   // slice parameter represented by its view only
	obj      *ast.Object
	pos      token.Pos // declaration position (locals)
	rangeKey bool      // the counter of a range loop: must not be assigned in the body
	ptr      bool      // a parameter/receiver of type *M (M a map type): *x denotes the variable
	// the range variable of `for i, c := range d.field` over a list of distinct pointers: c stands
	// for element aliasIdx of aliasOf, a store through it is written back there at once
	aliasOf, aliasIdx *fnVar
	distinctPtr       bool // a []*S field under the spec distinct:
}

type fnParam struct {
	v        *fnVar
	mutated  bool // slice parameter stored into / map parameter changed: its final value is returned
	goName   string
	variadic bool // items ...T: the remaining arguments as a list
	// a read-only pointer to a struct of the file (c *Chunk): one argument per scalar field read
	ptrFields []string
	ptrVars   []*fnVar
	ptrStruct *ast.TypeSpec
}

type fnFunc struct {
	spec    string // as listed in funcs
	name    string // Coq name
	recv    string
	decl    *ast.FuncDecl
	recvVar string
	// signature (filled by translate)
	fields        []string // receiver fields used, struct order
	mutFields     []string
	logs          []string // logged callbacks (field or parameter names), first-use order
	params        []*fnParam
	results       []*fnType
	needZero      bool
	zeroType      string
	zeroTypes     []string        // the type parameters whose zero value is an argument (zero_T), in signature order
	recvObj       *ast.Object     // a function literal translated as a method of the pointer it captures: that variable
	recvType      string          // the struct whose methods can be called on the receiver (methods, literals, constructors)
	ctor          *ctorInfo       // a constructor: q := &T{...} ... return q
	retRecv       bool            // the Go result is the receiver itself: not a result of the translation
	nilParams     bool            // a function-typed parameter is compared with nil: calls from translated functions are not supported
	localObj      *localObj       // q := Ctor(args) in a function without receiver: q plays the receiver, its fields are locals
	remakes       map[string]bool // fields with a tracked capacity that are assigned a new array (make), here or in a callee
	namedRecv     bool            // a method of a named map type (type Set[T] map[T]struct{}): the receiver is the first parameter
	retFresh      bool            // every map result is a new map (make, maps.Clone, such a call, or a local only assigned those)
	fatFields     map[string]bool // slice fields with a tracked capacity (companion argument <field>_spare)
	reshapes      map[string]bool // fields assigned as a whole (re-sliced, appended to, replaced), here or in a callee
	litOf         string          // ... and the function it sits in
	monadicParams map[int]bool    // function-typed parameters that receive a function literal somewhere: called through the res monad
	pure          bool
	fuel          bool
	extras        []*fnExtra // oracle / external function arguments, in order
	tparams       []string
	state         int // 0 new, 1 busy, 2 done, 3 lost
	text          string
	lostMsg       string
	pooled        *pooledInfo // fn_stdobj.go: x := pool.Get().(*T); defer pool.Put(x) opens the body: x plays the receiver
}

type fnExtra struct {
	key  string // "append" or "pkg.F"
	name string // Coq name
	typ  string // Coq type (set when the first call is translated)
	tps  []string
}

type fnGen struct {
	tparamInst map[string]string // directive tparam:F.T=<Go type>: the type parameter T of F instantiated by hand (union constraints)
	objArgs   bool // directive objargs: emit <f>_objargs after every function
	externs   map[string]bool // "pkg.F": calls are translated as calls of a function argument
	file      *ast.File
	funcs     map[string]*fnFunc // by spec and by call name
	byCall    map[string]*fnFunc // "gcd", "pushUp" (method name)
	order     []*fnFunc
	structs   map[string]*ast.TypeSpec
	consts    map[string]ast.Expr
	ifaces    map[string]*ast.TypeSpec
	desugared map[*ast.FuncDecl]bool
	named     map[string]*ast.TypeSpec // named map types of the file (type Set[T comparable] map[T]struct{})
	// structs of the file used as values: emitted as Records, in declaration order
	structOrder []string
	usedStructs map[string]bool
	recordText  map[string]string
	// "Type.field" -> the receiver fields the methods of that object field may write (through
	// callbacks installed elsewhere): spec "writes:Type.field:f1,f2"
	writes  map[string][]string
	foreign map[string][]*ast.File // parsed packages of the same module, by import path
	// "F.param": function-typed parameters declared monadic by the spec monadic:F.param
	monadicSpecs   []string
	owned          map[string]bool          // "Type.field": a slice field the struct owns (spec owned:...): its elements, by value
	distinct       map[string]bool          // "Type.field": a []*S field whose pointers are pairwise distinct and non-nil (spec distinct:...)
	foreignStructs map[*ast.TypeSpec]string // struct types of other packages used here -> their package
	coqNames       map[*ast.TypeSpec]string // struct types declared inside a function: <function>_<name>
	basicNamed     map[string]ast.Expr      // type EditOp byte: the underlying type
	inlinedLits    map[*ast.FuncDecl]bool   // functions whose local function literals were substituted into the calls (inlineFuncVars)
	capFields      map[string]bool          // "Type.field": spec cap:... -- the capacity of the slice field is tracked wherever it is assigned as a whole
	sx             *fnGenX                  // fn_stdobj.go: methods that share their name with a function, global tables
}

type fnBind struct {
	pat    string
	m      term   // nil for a let
	e      string // let
	isLet  bool
	effect bool // rebinds state (fields, logs, stored-into arguments)
}

type loopCtx struct {
	ranged *fnVar // the map this loop ranges over
	hasRet bool
	cont   func() term // what `continue` / the end of the body does
	brk    func() term
}

type fnCtx struct {
	g           *fnGen
	fn          *fnFunc
	vars        map[*ast.Object]*fnVar
	fields      map[string]*fnVar
	logs        map[string]*fnVar
	cbs         map[string]*fnVar // function-typed fields used as pure callbacks
	used        map[string]bool
	all         []*fnVar
	ntmp        int
	nloop       int
	fix         []string // emitted Fixpoints, in emission order (inner loops first)
	loops       []*loopCtx
	zero        *fnVar            // the zero value of fn.zeroType (the first of zeros)
	zeros       map[string]*fnVar // type parameter -> its zero value argument
	objs        map[string]*objInfo
	body        *ast.BlockStmt // the body without the mutex prologue
	tparams     map[string]bool
	elemT       map[string]*fnType // type parameter name -> its representation
	retNames    []*fnVar           // named results
	fuel        bool
	synth       map[ast.Node]*fnVar
	synthLim    map[ast.Node]*fnVar
	synthKey    map[ast.Node]*fnVar
	foreignPkg  string               // while the signature of a method of another package is read: that package
	mapMut      map[*ast.Object]bool // the variables whose map may be changed
	synthWin    map[ast.Node]*fnVar
	wordPtrDecl map[*ast.Object]*ast.IndexExpr // v := (*uint64)(unsafe.Pointer(&data[i])): v -> data[i]
	wordPtrIdx  map[*ast.Object]string         // ... and the index it was taken at
	noMapMut    bool                           // the body changes no map at all: map variables may be copied (read-only aliases)
	loopDone    map[ast.Node]string
	loopInfo    map[string]*loopInfo
	extras      map[string]*fnVar // by key
	fat         map[*fnVar]*fnVar // slice variable -> the rest of its backing array (up to cap)
	lit         *litCtx           // while the body of a function literal is translated
	// struct types declared inside the function; struct types being expanded (recursion through
	// pointers); which parameter the view-typed fields of struct literals are windows of
	localStructs map[string]*ast.TypeSpec
	structBusy   map[string]*fnType
	viewBase     map[string]*fnVar
	ptrFields    map[*ast.Object]map[string]*fnVar // read-only pointer parameters: field -> its argument
	nilFlags     map[*ast.Object]*fnVar            // function-typed parameters compared with nil: their flag <name>_nil
	logFields    map[string]bool                   // receiver fields that are callbacks called for effect only (their calls are the log)
	handed       map[*fnVar]string                 // slice parameters handed to the constructor of the local object: the field that holds their array
	retPos       token.Pos                         // where the return being translated stands
	seqLoops     map[*ast.RangeStmt]*ast.RangeStmt // range over an iter.Seq parameter -> the range over the list of its values
	seqLists     map[*ast.RangeStmt]*fnVar
	sx           *fnCtxX                           // fn_stdobj.go: local constants, object variables, pooled objects
}

func (c *fnCtx) lostAt(n ast.Node, format string, args ...any) {
	line := 0
	if n != nil {
		line = fset.Position(n.Pos()).Line
	}
	fail("unsupported %s at line %d", fmt.Sprintf(format, args...), line)
}

var fnReserved = map[string]bool{
	"fuel": true, "gas": true, "Ok": true, "Panic": true, "OutOfFuel": true, "Next": true, "Ret": true,
	"negb": true, "andb": true, "orb": true, "fst": true, "snd": true, "tt": true, "true": true, "false": true,
	"nil": true, "cons": true, "Z": true, "nat": true, "list": true, "bool": true, "unit": true, "S": true, "O": true,
	"zlen": true, "upd": true, "bind": true, "view": true, "mkView": true, "voff": true, "vlen": true, "vcap": true,
	"repeat": true, "firstn": true, "skipn": true, "app": true, "length": true, "res": true, "ctl": true,
	"str_eqb": true, "None": true, "Some": true, "option": true, "pair": true, "prod": true,
	// Gallina keywords
	"end": true, "in": true, "at": true, "fix": true, "let": true, "if": true, "then": true, "else": true, "match": true,
	"with": true, "fun": true, "forall": true, "exists": true, "Type": true, "Set": true, "Prop": true, "as": true, "return": true,
	"using": true, "where": true, "for": true, "mod": true, "cofix": true, "struct": true, "do": true, "IF": true, "by": true,
}

func (c *fnCtx) fresh(base string) string {
	if base == "_" || base == "" {
		base = "x"
	}
	n := base
	if fnReserved[n] || strings.HasPrefix(n, "go_") || strings.HasPrefix(n, "PMsg") {
		n = base + "_"
	}
	if _, isFn := c.g.byCall[n]; isFn {
		n = n + "_"
	}
	cand := n
	for i := 1; c.used[cand]; i++ {
		cand = n + "_" + strconv.Itoa(i)
	}
	c.used[cand] = true
	return cand
}

func (c *fnCtx) newVar(base string, t *fnType, role string) *fnVar {
	v := &fnVar{name: c.fresh(base), typ: t, idx: len(c.all), role: role}
	c.all = append(c.all, v)
	return v
}

func (c *fnCtx) tmp() string {
	for {
		c.ntmp++
		n := "t" + strconv.Itoa(c.ntmp)
		if !c.used[n] {
			c.used[n] = true
			return n
		}
	}
}

// declare registers the variable an identifier declares.
func (c *fnCtx) declare(id *ast.Ident, t *fnType) *fnVar {
	if id.Name == "_" {
		return nil
	}
	if id.Obj == nil {
		c.lostAt(id, "declaration of %s (unresolved)", id.Name)
	}
	if v, ok := c.vars[id.Obj]; ok {
		return v // the continuation is being translated a second time
	}
	v := c.newVar(id.Name, t, "local")
	v.obj = id.Obj
	v.pos = id.Pos()
	c.vars[id.Obj] = v
	return v
}

func (c *fnCtx) lookup(id *ast.Ident) *fnVar {
	if id.Obj == nil {
		return nil
	}
	return c.vars[id.Obj]
}

// ---------------------------------------------------------------- Go types

func (c *fnCtx) goType(e ast.Expr) *fnType {
	switch v := e.(type) {
	case *ast.Ident:
		switch v.Name {
		case "int", "int64", "uint", "int32", "uint32":
			return tyInt
		case "uint64":
			return tyU64 // + - * << and conversions wrap modulo 2^64 (go_u64)
		case "bool":
			return tyBool
		case "byte", "uint8":
			return tyByte
		case "string":
			return tyString
		}
		if t, ok := c.elemT[v.Name]; ok {
			return t
		}
		if u, ok := c.g.basicNamed[v.Name]; ok && (v.Obj == nil || v.Obj.Kind == ast.Typ) {
			return c.goType(u) // type EditOp byte
		}
		if t := c.foreignBasic(v.Name); t != nil {
			return t // ... of the package whose declarations are being read
		}
		if a := c.g.aliasTarget(v.Name); a != nil && c.foreignPkg == "" {
			return c.goType(a) // type Edit = slice.Edit[string]
		}
		if t := c.structTypeOf(v); t != nil {
			return t
		}
		if t := c.namedMapTypeOf(v); t != nil {
			return t
		}
	case *ast.IndexExpr, *ast.IndexListExpr:
		if t := c.seqTypeOf(e); t != nil {
			return t
		}
		if t := c.structTypeOf(v); t != nil {
			return t
		}
		if t := c.namedMapTypeOf(v); t != nil {
			return t
		}
		if base, args := baseAndArgs(v); base != nil {
			if sel, ok := base.(*ast.SelectorExpr); ok {
				if t := c.foreignNamedMapTypeOf(sel, args); t != nil {
					return t
				}
				if t := c.foreignStructTypeOf(sel, args); t != nil {
					return t
				}
			}
		}
	case *ast.SelectorExpr:
		if t := c.foreignNamedMapTypeOf(v, nil); t != nil {
			return t
		}
		if t := c.foreignStructTypeOf(v, nil); t != nil {
			return t
		}
	case *ast.StarExpr:
		if t := c.ptrTypeOf(v); t != nil {
			return t
		}
	case *ast.StructType:
		if v.Fields == nil || len(v.Fields.List) == 0 {
			return tyUnit
		}
	case *ast.Ellipsis:
		return &fnType{k: "slice", elem: c.goType(v.Elt)}
	case *ast.MapType:
		kt, vt := c.goType(v.Key), c.goType(v.Value)
		switch kt.k {
		case "int", "byte", "bool", "string", "elem", "u64":
		default:
			c.lostAt(e, "map key type %s", src(v.Key))
		}
		switch vt.k {
		case "int", "byte", "bool", "string", "elem", "struct", "unit", "u64":
		default:
			c.lostAt(e, "map value type %s (aliasing)", src(v.Value))
		}
		return &fnType{k: "map", key: kt, elem: vt, nilable: true}
	case *ast.ArrayType:
		if v.Len == nil {
			return &fnType{k: "slice", elem: c.goType(v.Elt)}
		}
	case *ast.FuncType:
		t := &fnType{k: "func"}
		if v.Params != nil {
			if n := len(v.Params.List); n > 0 {
				_, t.variadic = v.Params.List[n-1].Type.(*ast.Ellipsis)
			}
			for _, f := range v.Params.List {
				n := len(f.Names)
				if n == 0 {
					n = 1
				}
				for i := 0; i < n; i++ {
					t.params = append(t.params, c.goType(f.Type))
				}
			}
		}
		if v.Results != nil {
			for _, f := range v.Results.List {
				n := len(f.Names)
				if n == 0 {
					n = 1
				}
				for i := 0; i < n; i++ {
					t.res = append(t.res, c.goType(f.Type))
				}
			}
		}
		return t
	case *ast.ParenExpr:
		return c.goType(v.X)
	}
	if c.foreignPkg != "" {
		// an unqualified name inside the other package
		base, args := baseAndArgs(e)
		if id, ok := base.(*ast.Ident); ok {
			if t := c.foreignNamedMapTypeOf(&ast.SelectorExpr{X: ast.NewIdent(c.foreignPkg), Sel: id}, args); t != nil {
				return t
			}
		}
	}
	if t := c.goTypeExt(e); t != nil {
		return t // fn_err.go: error, interface and struct types of the standard library as opaque values
	}
	c.lostAt(e, "type %s", src(e))
	return nil
}

// typeParams registers the type parameters of a declaration: `T any`/`comparable` -> abstract
// element, `S ~[]T` -> slice of T.
func (c *fnCtx) typeParams(fl *ast.FieldList) {
	if fl == nil {
		return
	}
	// the abstract elements first: `S ~[]E, E any` names E before it declares it
	for _, f := range fl.List {
		if ct, ok := f.Type.(*ast.Ident); ok && (ct.Name == "any" || ct.Name == "comparable") {
			for _, nm := range f.Names {
				c.elemT[nm.Name] = &fnType{k: "elem", name: nm.Name}
			}
		}
	}
	for _, f := range fl.List {
		for _, nm := range f.Names {
			switch ct := f.Type.(type) {
			case *ast.Ident:
				if ct.Name == "any" || ct.Name == "comparable" {
					continue
				}
			case *ast.UnaryExpr:
				if ct.Op == token.TILDE {
					c.elemT[nm.Name] = c.goType(ct.X)
					continue
				}
			case *ast.SelectorExpr:
				// cmp.Ordered: an abstract element; cmp.Compare on it is the function argument cmp_<T>
				if id, ok := ct.X.(*ast.Ident); ok && id.Name == "cmp" && id.Obj == nil && ct.Sel.Name == "Ordered" {
					c.elemT[nm.Name] = &fnType{k: "elem", name: nm.Name, ordered: true}
					continue
				}
			}
			if c.fn != nil && c.g != nil && c.g.tparamInst != nil {
				if gt, ok := c.g.tparamInst[c.fn.name+"."+nm.Name]; ok {
					if e, err := parser.ParseExpr(gt); err == nil {
						c.elemT[nm.Name] = c.goType(e)
						continue
					}
				}
			}
			c.lostAt(f, "type constraint %s", src(f.Type))
		}
	}
}

// ---------------------------------------------------------------- generator entry

func fnGenerate(f *ast.File, specs []string) (string, []string) {
	if heapSpecs(specs) {
		return fnHeapGenerate(f, specs) // the heap backend (fn_heap.go)
	}
	if cfgSpecs(specs) {
		return fnCfgGenerate(f, specs) // the configuration backend (fn_cfg.go)
	}
	f, specs = fnFresh(f, specs) // fn_fresh.go: fresh:R.F -- a method that builds an object sharing R's object field
	f, normText := fnNormalize(f, specs) // fn_stdobj.go: switch -> if chain in the listed functions that have a switch
	g := &fnGen{file: f, funcs: map[string]*fnFunc{}, byCall: map[string]*fnFunc{}, structs: map[string]*ast.TypeSpec{}, consts: pkgConsts(f),
		ifaces: map[string]*ast.TypeSpec{}, named: map[string]*ast.TypeSpec{}, usedStructs: map[string]bool{}, recordText: map[string]string{}, writes: map[string][]string{},
		foreign: map[string][]*ast.File{}, coqNames: map[*ast.TypeSpec]string{}, basicNamed: map[string]ast.Expr{},
		owned: map[string]bool{}, distinct: map[string]bool{}}
	g.sx = newFnGenX(normText, specs)
	g.addIotaConsts(f) // fn_err.go: const ( a T = iota; b; c )
	for _, d := range f.Decls {
		if gd, ok := d.(*ast.GenDecl); ok && gd.Tok == token.TYPE {
			for _, s := range gd.Specs {
				ts := s.(*ast.TypeSpec)
				if id, ok := ts.Type.(*ast.Ident); ok && ts.TypeParams == nil && !ts.Assign.IsValid() {
					switch id.Name {
					case "int", "int64", "uint", "int32", "uint32", "uint64", "bool", "byte", "uint8", "string":
						g.basicNamed[ts.Name.Name] = id
					}
				}
				if _, ok := ts.Type.(*ast.StructType); ok {
					g.structs[ts.Name.Name] = ts
					g.structOrder = append(g.structOrder, ts.Name.Name)
				}
				if _, ok := ts.Type.(*ast.InterfaceType); ok {
					g.ifaces[ts.Name.Name] = ts
				}
				if _, ok := ts.Type.(*ast.MapType); ok {
					g.named[ts.Name.Name] = ts
				}
			}
		}
	}
	var lostMsgs []string
	g.externs = map[string]bool{}
	for _, sp := range specs {
		if strings.HasPrefix(sp, "extern:") {
			g.externs[strings.TrimPrefix(sp, "extern:")] = true
			continue
		}
		if strings.HasPrefix(sp, "tparam:") {
			// tparam:Length.T=string -- the type parameter T of Length, whose constraint is a union the
			// translator cannot keep abstract, is instantiated with this Go type in this entry
			if k, v, ok := strings.Cut(strings.TrimPrefix(sp, "tparam:"), "="); ok {
				if g.tparamInst == nil {
					g.tparamInst = map[string]string{}
				}
				g.tparamInst[k] = v
			}
			continue
		}
		if strings.HasPrefix(sp, "monadic:") {
			// monadic:F.param -- the function-typed parameter of F is called through the res monad
			// (callers in other files hand it function literals that can panic)
			g.monadicSpecs = append(g.monadicSpecs, strings.TrimPrefix(sp, "monadic:"))
			continue
		}
		if strings.HasPrefix(sp, "owned:") || strings.HasPrefix(sp, "distinct:") {
			// owned:Chunk.Edits,Edit.X -- slice fields held by value; distinct:Diff.Chunks -- a list of distinct pointers
			i := strings.IndexByte(sp, ':')
			for _, k := range strings.Split(sp[i+1:], ",") {
				if sp[:i] == "owned" {
					g.owned[k] = true
				} else {
					g.distinct[k] = true
				}
			}
			continue
		}
		if sp == "objargs" {
			// objargs -- after every function, the list of its arguments that stand for methods (or the
			// nil test / nil value) of object fields, by NAME in argument order: <f>_objargs.  The
			// arguments are positional; a tie states this list, so that handing the function generated
			// from stree's Replace to an argument that stands for Add is noticed.
			g.objArgs = true
			continue
		}
		if strings.HasPrefix(sp, "cap:") {
			// cap:Queue.data -- the capacity of the slice field is tracked in every function that assigns it as a whole
			if g.capFields == nil {
				g.capFields = map[string]bool{}
			}
			for _, k := range strings.Split(strings.TrimPrefix(sp, "cap:"), ",") {
				g.capFields[k] = true
			}
			continue
		}
		if strings.HasPrefix(sp, "writes:") {
			// writes:Type.field:f1,f2 -- the methods of the object field may write these fields of the receiver
			parts := strings.Split(sp, ":")
			if len(parts) == 3 {
				g.writes[parts[1]] = strings.Split(parts[2], ",")
			}
			continue
		}
		fn := &fnFunc{spec: sp, name: sp}
		if strings.HasPrefix(sp, "lit:") {
			g.literalFunc(fn)
		} else {
			if i := strings.IndexByte(sp, '.'); i >= 0 {
				fn.recv, fn.name = sp[:i], sp[i+1:]
			}
			fn.decl = findFunc(f, sp)
		}
		if fn.decl != nil && fn.recvVar == "" {
			fn.recvVar, fn.recvType, _ = recvInfo(fn.decl)
		}
		g.inlineFuncVars(fn.decl)
		if ci := g.constructorOf(fn.decl); ci != nil {
			fn.ctor, fn.recvVar, fn.recvObj, fn.recvType = ci, ci.v, ci.obj, ci.tname
		} else if lo := g.localObjectOf(fn.decl); lo != nil {
			fn.localObj, fn.recvVar, fn.recvObj, fn.recvType = lo, lo.v, lo.obj, lo.tname
		}
		if pi := g.pooledRecvOf(fn.decl); pi != nil {
			fn.pooled, fn.recvVar, fn.recvObj, fn.recvType = pi, pi.v, pi.obj, pi.tname
		}
		fn.fatFields, fn.reshapes, fn.remakes = map[string]bool{}, map[string]bool{}, map[string]bool{}
		if fn.decl != nil && g.named[fn.recvType] != nil {
			fn.namedRecv = true
		}
		g.order = append(g.order, fn)
		g.funcs[sp] = fn
		if g.methodBesideFunc(fn) {
			continue // fn_stdobj.go: a method and a function of the same name (Scanner.Split, Split): the method is <Recv>_<name>
		}
		if _, dup := g.byCall[fn.name]; dup {
			fn.state = 3
			fn.lostMsg = "duplicate name " + fn.name
			continue
		}
		g.byCall[fn.name] = fn // by the Go name
		if fnReserved[fn.name] {
			fn.name += "_" // Set, Type, ...: not usable as a Coq name
		}
		if fn.decl == nil || fn.decl.Body == nil {
			fn.state = 3
			fn.lostMsg = "function not found"
		}
	}
	g.markMonadicParams()
	var b strings.Builder
	b.WriteString("From Mds Require Import Common.FnRt.\nLocal Open Scope Z_scope.\n\n")
	var emitted []string
	var emit func(fn *fnFunc)
	emit = func(fn *fnFunc) {
		if fn.state != 0 {
			return
		}
		g.translate(fn, emit)
		if fn.state == 2 {
			emitted = append(emitted, fn.text+g.objArgsText(fn))
		}
	}
	for _, fn := range g.order {
		emit(fn)
	}
	for _, n := range g.structOrder {
		if g.usedStructs[n] {
			b.WriteString(g.recordText[n])
			b.WriteString("\n")
		}
	}
	b.WriteString(g.sx.globalText()) // fn_stdobj.go: package-level tables as constants
	for _, t := range emitted {
		b.WriteString(t)
		b.WriteString("\n")
	}
	for _, fn := range g.order {
		if fn.state == 3 {
			lostMsgs = append(lostMsgs, fmt.Sprintf("fn %s lost: %s", fn.spec, fn.lostMsg))
		}
	}
	return b.String(), lostMsgs
}

// objArgsText (directive objargs): the object-field arguments of fn by name, in argument order.
func (g *fnGen) objArgsText(fn *fnFunc) string {
	if !g.objArgs {
		return ""
	}
	var names []string
	for _, e := range fn.extras {
		switch {
		case strings.HasPrefix(e.key, "obj:"):
			names = append(names, "\""+strings.TrimPrefix(e.key, "obj:")+"\"%string")
		case strings.HasPrefix(e.key, "objnil:"):
			names = append(names, "\""+strings.TrimPrefix(e.key, "objnil:")+" == nil\"%string")
		case strings.HasPrefix(e.key, "objnilval:"):
			names = append(names, "\"nil "+strings.TrimPrefix(e.key, "objnilval:")+"\"%string")
		}
	}
	return "\n(* the arguments of " + fn.name + " that stand for an object field's methods / nil test / nil value, in argument order *)\nDefinition " + fn.name + "_objargs : list String.string := [" + strings.Join(names, "; ") + "].\n"
}

func (g *fnGen) translate(fn *fnFunc, emit func(*fnFunc)) {
	fn.state = 1
	defer func() {
		if r := recover(); r != nil {
			if l, ok := r.(lost); ok {
				fn.state = 3
				fn.lostMsg = l.msg
				return
			}
			panic(r)
		}
	}()
	// callees first
	ast.Inspect(fn.decl.Body, func(n ast.Node) bool {
		if call, ok := n.(*ast.CallExpr); ok {
			if cal := g.calleeOf(fn, call); cal != nil && cal != fn {
				if cal.state == 1 {
					fail("unsupported recursion through %s at line %d", cal.spec, fset.Position(call.Pos()).Line)
				}
				emit(cal)
				if cal.state == 3 {
					fail("callee %s is lost", cal.spec)
				}
			} else if cal == fn {
				fail("unsupported recursion at line %d", fset.Position(call.Pos()).Line)
			}
			// translated functions of the file handed on as function values
			for _, a := range call.Args {
				if id, ok := a.(*ast.Ident); ok {
					if cal := g.funcValueOf(id); cal != nil && cal != fn {
						if cal.state == 1 {
							fail("unsupported recursion through %s at line %d", cal.spec, fset.Position(call.Pos()).Line)
						}
						emit(cal)
						if cal.state == 3 {
							fail("callee %s is lost", cal.spec)
						}
					}
				}
			}
		}
		return true
	})
	c := &fnCtx{g: g, fn: fn, vars: map[*ast.Object]*fnVar{}, fields: map[string]*fnVar{}, logs: map[string]*fnVar{},
		cbs: map[string]*fnVar{}, used: map[string]bool{}, tparams: map[string]bool{}, elemT: map[string]*fnType{},
		extras: map[string]*fnVar{}, fat: map[*fnVar]*fnVar{}, zeros: map[string]*fnVar{}, objs: map[string]*objInfo{}}
	c.function()
	fn.state = 2
}

// calleeOf: the translated function a call refers to (plain name, or method on the receiver).
func (g *fnGen) calleeOf(fn *fnFunc, call *ast.CallExpr) *fnFunc {
	switch f := call.Fun.(type) {
	case *ast.Ident:
		if f.Obj != nil && f.Obj.Kind == ast.Var {
			return nil // a local function value
		}
		if cal, ok := g.byCall[f.Name]; ok && cal.recv == "" {
			return cal
		}
	case *ast.SelectorExpr:
		if id, ok := f.X.(*ast.Ident); ok && fn.recvVar != "" && id.Name == fn.recvVar && !fn.namedRecv {
			if cal := g.sx.byMethod[fn.recvType+"."+f.Sel.Name]; cal != nil {
				return cal // a method that shares its name with a function of the file
			}
			if cal, ok := g.byCall[f.Sel.Name]; ok && cal.recv != "" && cal.recv == fn.recvType {
				return cal
			}
		}
		// x.M(...) with M a translated method of a named map type: x (a variable, *x or (*x)) is
		// its first argument; that x has that type is checked when the call is translated
		if cal, ok := g.byCall[f.Sel.Name]; ok && cal.namedRecv {
			if id, ok := derefIdent(f.X); ok && id.Obj != nil && id.Obj.Kind == ast.Var {
				return cal
			}
		}
	case *ast.IndexExpr: // explicit instantiation f[T](...)
		return g.calleeOf(fn, &ast.CallExpr{Fun: f.X, Args: call.Args})
	}
	return nil
}

func recvInfo(fd *ast.FuncDecl) (varName, typeName string, targs []string) {
	if fd.Recv == nil || len(fd.Recv.List) != 1 {
		return
	}
	r := fd.Recv.List[0]
	if len(r.Names) == 1 {
		varName = r.Names[0].Name
	}
	t := r.Type
	if s, ok := t.(*ast.StarExpr); ok {
		t = s.X
	}
	switch v := t.(type) {
	case *ast.Ident:
		typeName = v.Name
	case *ast.IndexExpr:
		if id, ok := v.X.(*ast.Ident); ok {
			typeName = id.Name
		}
		targs = append(targs, src(v.Index))
	case *ast.IndexListExpr:
		if id, ok := v.X.(*ast.Ident); ok {
			typeName = id.Name
		}
		for _, x := range v.Indices {
			targs = append(targs, src(x))
		}
	}
	return
}
