package main

// Function-level translator (syntactic backend): Go `error` values, constants declared with iota
// or inside a function, strings.IndexByte.  See notes/fn-translator.md, "shell.go".
//
// error.  Only the forms shell.go uses are translated: the values nil, io.EOF and "any other
// error, carried through"; the tests x == nil, x != nil, x == io.EOF (and == between two error
// values, which is identity in Go for the sentinel and pointer errors of the standard library).
// Representation (coq/Common/FnRt.v): Inductive go_error := ENil | EEOF | EOther (code : Z).
// An error can be a field, a local, a parameter, a result, and a result of a method of an object
// (s.buf.ReadByte() : byte * go_error * St_buf).  Anything else done with an error (calling
// .Error(), wrapping, errors.Is, a type assertion) is lost.

import (
	"go/ast"
	"go/token"
	"strconv"
)

var tyErr = &fnType{k: "err"}

// coqExt: the Coq types of the kinds added by fn_err.go / fn_stdobj.go
func (t *fnType) coqExt() string {
	switch t.k {
	case "err":
		return "go_error"
	case "opaque":
		return t.name
	case "table":
		return "list " + parenT(t.elem.coq())
	}
	return "?"
}

// goTypeExt: `error`; an interface type or a (pointer to a) struct type of the standard library
// used as a plain value (io.Reader, *strings.Reader): an OPAQUE type, a type argument of the
// generated function named <pkg>_<Type>.  Values of such a type can only be handed on.
func (c *fnCtx) goTypeExt(e ast.Expr) *fnType {
	opaque := func(pkg, name string) *fnType {
		ts := c.foreignTypeSpec(pkg, name)
		if ts == nil || ts.TypeParams != nil {
			return nil
		}
		switch ts.Type.(type) {
		case *ast.InterfaceType, *ast.StructType:
			return &fnType{k: "opaque", name: pkg + "_" + name}
		}
		return nil
	}
	switch v := e.(type) {
	case *ast.Ident:
		if v.Name == "error" && v.Obj == nil {
			return tyErr
		}
		if c.foreignPkg != "" && (v.Obj == nil || v.Obj.Kind == ast.Typ) {
			return opaque(c.foreignPkg, v.Name) // an unqualified type name inside the other package
		}
	case *ast.SelectorExpr:
		if id, ok := v.X.(*ast.Ident); ok && id.Obj == nil {
			return opaque(id.Name, v.Sel.Name)
		}
	case *ast.StarExpr:
		// *T for a struct T of the standard library: the pointer is the value that is handed around
		switch x := v.X.(type) {
		case *ast.Ident:
			if c.foreignPkg != "" && (x.Obj == nil || x.Obj.Kind == ast.Typ) {
				return opaque(c.foreignPkg, x.Name)
			}
		case *ast.SelectorExpr:
			if id, ok := x.X.(*ast.Ident); ok && id.Obj == nil {
				return opaque(id.Name, x.Sel.Name)
			}
		}
	}
	return nil
}

// errSelector: io.EOF
func (c *fnCtx) errSelector(v *ast.SelectorExpr) (string, *fnType) {
	if id, ok := v.X.(*ast.Ident); ok && id.Obj == nil && id.Name == "io" && v.Sel.Name == "EOF" {
		return "EEOF", tyErr
	}
	return "", nil
}

// errEqual: x == y with an error on one side: against nil, against another error value
func (c *fnCtx) errEqual(v *ast.BinaryExpr, x string, xt *fnType, y string, yt *fnType) string {
	switch {
	case xt.k == "err" && yt.k == "nil":
		return "(go_err_isnil " + x + ")"
	case yt.k == "err" && xt.k == "nil":
		return "(go_err_isnil " + y + ")"
	case xt.k == "err" && yt.k == "err":
		return "(go_err_eqb " + x + " " + y + ")"
	}
	c.lostAt(v, "comparison of an error with a value of type %s", map[bool]string{true: yt.k, false: xt.k}[xt.k == "err"])
	return ""
}

func isNilIdent(e ast.Expr) bool {
	if p, ok := e.(*ast.ParenExpr); ok {
		return isNilIdent(p.X)
	}
	id, ok := e.(*ast.Ident)
	return ok && id.Name == "nil" && id.Obj == nil
}

// returnExt: `return nil` for an error result; `return s.buf` for an interface result that is
// always that object field (fn_stdobj.go)
func (c *fnCtx) returnExt(slot int, rt *fnType, r ast.Expr) (string, bool) {
	if rt.k == "err" && isNilIdent(r) {
		return "ENil", true
	}
	if c.sx.objResult[slot] {
		if sel, ok := r.(*ast.SelectorExpr); ok && c.isRecv(sel.X) {
			if fv := c.fields[sel.Sel.Name]; fv != nil && fv.typ == rt {
				return fv.name, true
			}
		}
		c.lostAt(r, "returned value %s (the result is the object field itself on every path)", src(r))
	}
	return "", false
}

// callExt: functions of the standard library that are part of the run-time library
func (c *fnCtx) callExt(v *ast.CallExpr, pre *[]fnBind) ([]string, []*fnType) {
	sel, ok := v.Fun.(*ast.SelectorExpr)
	if !ok {
		return nil, nil
	}
	id, ok := sel.X.(*ast.Ident)
	if !ok || id.Obj != nil {
		return nil, nil
	}
	switch id.Name + "." + sel.Sel.Name {
	case "strings.IndexByte":
		// the index of the first occurrence of the byte, -1 if there is none (go_index_byte)
		if len(v.Args) == 2 && !v.Ellipsis.IsValid() {
			x, xt := c.expr(v.Args[0], pre)
			y, yt := c.expr(v.Args[1], pre)
			if xt.k == "string" && yt.isNum() {
				return []string{"(go_index_byte " + paren(x) + " " + paren(y) + ")"}, []*fnType{tyInt}
			}
		}
	}
	return nil, nil
}

// ---------------------------------------------------------------- constants

// addIotaConsts: the constants of a group that uses iota (explicitly or by repetition of the
// previous expression) get their values; pkgConsts leaves them out.  Only expressions built from
// iota, literals, + - * << and parentheses (and a conversion T(iota)).
func (g *fnGen) addIotaConsts(f *ast.File) {
	for _, d := range f.Decls {
		gd, ok := d.(*ast.GenDecl)
		if !ok || gd.Tok != token.CONST {
			continue
		}
		var last []ast.Expr
		for i, s := range gd.Specs {
			vs := s.(*ast.ValueSpec)
			g.sx.pkgSpecs[vs] = true
			if len(vs.Values) > 0 {
				last = vs.Values
			}
			for j, n := range vs.Names {
				if _, known := g.consts[n.Name]; known || j >= len(last) || !mentionsIota(last[j]) {
					continue
				}
				if e := substIota(last[j], i); e != nil {
					g.consts[n.Name] = e
				}
			}
		}
	}
}

func mentionsIota(e ast.Expr) bool {
	found := false
	ast.Inspect(e, func(n ast.Node) bool {
		if id, ok := n.(*ast.Ident); ok && id.Name == "iota" && id.Obj == nil {
			found = true
		}
		return !found
	})
	return found
}

// substIota: e with iota replaced by the literal k; nil if e has another shape
func substIota(e ast.Expr, k int) ast.Expr {
	switch v := e.(type) {
	case *ast.Ident:
		if v.Name == "iota" && v.Obj == nil {
			return &ast.BasicLit{ValuePos: v.Pos(), Kind: token.INT, Value: strconv.Itoa(k)}
		}
		return v
	case *ast.BasicLit:
		return v
	case *ast.ParenExpr:
		if x := substIota(v.X, k); x != nil {
			return &ast.ParenExpr{Lparen: v.Lparen, X: x, Rparen: v.Rparen}
		}
	case *ast.UnaryExpr:
		if x := substIota(v.X, k); x != nil {
			return &ast.UnaryExpr{OpPos: v.OpPos, Op: v.Op, X: x}
		}
	case *ast.BinaryExpr:
		x, y := substIota(v.X, k), substIota(v.Y, k)
		if x != nil && y != nil {
			return &ast.BinaryExpr{X: x, OpPos: v.OpPos, Op: v.Op, Y: y}
		}
	case *ast.CallExpr:
		// a conversion T(iota) to a named integer type
		if len(v.Args) == 1 {
			if id, ok := v.Fun.(*ast.Ident); ok && id.Obj != nil && id.Obj.Kind == ast.Typ {
				return substIota(v.Args[0], k)
			}
		}
	}
	return nil
}

// localConst: the value expression of a constant declared inside a function (found through the
// identifier's declaration, so shadowing is respected)
func (c *fnCtx) localConst(id *ast.Ident) (ast.Expr, bool) {
	if id.Obj == nil || id.Obj.Kind != ast.Con {
		return nil, false
	}
	vs, ok := id.Obj.Decl.(*ast.ValueSpec)
	if !ok || c.g.sx.pkgSpecs[vs] {
		return nil, false
	}
	for i, n := range vs.Names {
		if n.Obj == id.Obj {
			if i >= len(vs.Values) || mentionsIota(vs.Values[i]) {
				c.lostAt(id, "constant %s (declared inside the function without a value of its own)", id.Name)
			}
			return vs.Values[i], true
		}
	}
	return nil, false
}

// localConstDecl: const (...) inside a function: nothing is emitted, the values are inlined
func (c *fnCtx) localConstDecl(gd *ast.GenDecl) {
	for _, s := range gd.Specs {
		vs := s.(*ast.ValueSpec)
		if len(vs.Values) != len(vs.Names) {
			c.lostAt(gd, "constant declaration without explicit values")
		}
		for _, e := range vs.Values {
			if mentionsIota(e) {
				c.lostAt(gd, "constant declaration with iota inside a function")
			}
		}
	}
}
