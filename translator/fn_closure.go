package main

// Function literals handed to a callee, callback parameters that can panic (monadic), function
// values (cmp.Compare, a translated function of the file), external functions called for their
// results, range loops whose body assigns the counter, slice expressions as arguments, and slice
// results that are an argument on one path and a new slice on another (go_sres).
// See notes/fn-translator.md.

import (
	"go/ast"
	"go/token"
	"strings"
)

// ---------------------------------------------------------------- which callback parameters are monadic

// markMonadicParams: a function-typed parameter of a translated function that receives a function
// literal at some call in the file has a monadic type (A -> B -> res C): the literal may read
// slices and so may panic.  (Every other function value is pure and is wrapped at such a call.)
func (g *fnGen) markMonadicParams() {
	for _, sp := range g.monadicSpecs {
		i := strings.LastIndexByte(sp, '.')
		if i < 0 {
			continue
		}
		fn := g.funcs[sp[:i]]
		if fn == nil || fn.decl == nil {
			continue
		}
		k := 0
		if fn.namedRecv {
			k = 1
		}
		for _, f := range fn.decl.Type.Params.List {
			for _, n := range f.Names {
				if n.Name == sp[i+1:] {
					if fn.monadicParams == nil {
						fn.monadicParams = map[int]bool{}
					}
					fn.monadicParams[k] = true
				}
				k++
			}
		}
	}
	for _, fn := range g.order {
		if fn.decl == nil || fn.decl.Body == nil {
			continue
		}
		ast.Inspect(fn.decl.Body, func(n ast.Node) bool {
			call, ok := n.(*ast.CallExpr)
			if !ok {
				return true
			}
			cal := g.calleeOf(fn, call)
			if cal == nil {
				return true
			}
			for i, a := range callArgs(cal, call) {
				if lit, isLit := a.(*ast.FuncLit); isLit && !litIsTotal(fn.decl, lit) {
					if cal.monadicParams == nil {
						cal.monadicParams = map[int]bool{}
					}
					cal.monadicParams[i] = true
				}
			}
			return true
		})
	}
}

// allowedLits: the function literals of the body that are arguments of a translated callee or of
// a declared external function.
func (c *fnCtx) allowedLits(body ast.Node) map[*ast.FuncLit]bool {
	ok := map[*ast.FuncLit]bool{}
	ast.Inspect(body, func(n ast.Node) bool {
		call, isCall := n.(*ast.CallExpr)
		if !isCall {
			return true
		}
		if c.g.calleeOf(c.fn, call) == nil && c.externKey(call) == "" {
			return true
		}
		for _, a := range call.Args {
			if lit, isLit := a.(*ast.FuncLit); isLit {
				ok[lit] = true
			}
		}
		return true
	})
	return ok
}

// ---------------------------------------------------------------- function literals

type litCtx struct {
	res []*fnType
}

func baseIdent(e ast.Expr) *ast.Ident {
	for {
		switch v := e.(type) {
		case *ast.ParenExpr:
			e = v.X
		case *ast.IndexExpr:
			e = v.X
		case *ast.SelectorExpr:
			e = v.X
		case *ast.StarExpr:
			e = v.X
		case *ast.Ident:
			return v
		default:
			return nil
		}
	}
}

// funcLit: a function literal as a Gallina lambda.  It may read the variables it captures; it must
// not change any state outside itself (assignments to captured variables, logged callbacks,
// methods of object fields, callees that change fields or arguments) and contains no loop.
// want (nil for an external function) is the type of the parameter it is handed to: when that is
// pure the body must be total.
func (c *fnCtx) funcLit(lit *ast.FuncLit, want *fnType) (string, *fnType) {
	ft := c.goType(lit.Type)
	inside := func(o *ast.Object) bool { return o != nil && o.Pos() >= lit.Pos() && o.Pos() < lit.End() }
	ast.Inspect(lit.Body, func(n ast.Node) bool {
		switch v := n.(type) {
		case *ast.ForStmt, *ast.RangeStmt:
			c.lostAt(n, "loop inside a function literal")
		case *ast.FuncLit:
			c.lostAt(n, "function literal inside a function literal")
		case *ast.AssignStmt:
			for _, l := range v.Lhs {
				if id := baseIdent(l); id == nil || (id.Name != "_" && !inside(id.Obj)) {
					c.lostAt(v, "function literal that assigns %s, which it captures", src(l))
				}
			}
		case *ast.IncDecStmt:
			if id := baseIdent(v.X); id == nil || !inside(id.Obj) {
				c.lostAt(v, "function literal that assigns %s, which it captures", src(v.X))
			}
		case *ast.CallExpr:
			if c.loggedCall(v) != nil {
				c.lostAt(v, "call of the logged callback %s inside a function literal", src(v.Fun))
			}
			if fv, _ := c.objCallOf(v); fv != nil {
				c.lostAt(v, "call of a method of %s inside a function literal", fv.name)
			}
			if k := c.externKey(v); k != "" {
				c.lostAt(v, "call of %s inside a function literal", k)
			}
			if cal := c.g.calleeOf(c.fn, v); cal != nil {
				if len(cal.mutFields) > 0 || len(cal.logs) > 0 {
					c.lostAt(v, "call of %s, which changes state, inside a function literal", cal.name)
				}
				for _, p := range cal.params {
					if p.mutated {
						c.lostAt(v, "call of %s, which changes its argument %s, inside a function literal", cal.name, p.goName)
					}
				}
			}
			if isBuiltin(v, "delete", 2) || isBuiltin(v, "clear", 1) || isBuiltin(v, "copy", 2) {
				c.lostAt(v, "%s inside a function literal", src(v.Fun))
			}
		}
		return true
	})
	var bs []string
	if lit.Type.Params != nil {
		i := 0
		for _, f := range lit.Type.Params.List {
			if len(f.Names) == 0 {
				c.lostAt(f, "unnamed parameter of a function literal")
			}
			for _, n := range f.Names {
				pt := ft.params[i]
				i++
				if pt.k == "slice" || pt.k == "map" || pt.k == "func" || pt.k == "view" {
					c.lostAt(f, "parameter %s of a function literal of type %s", n.Name, pt.k)
				}
				name := "_"
				if n.Name != "_" {
					name = c.declare(n, pt).name
				}
				bs = append(bs, "("+name+" : "+pt.coq()+")")
			}
		}
	}
	savedLoops, savedLit := c.loops, c.lit
	c.loops, c.lit = nil, &litCtx{res: ft.res}
	end := func() term {
		if len(ft.res) == 0 {
			return tOk{"tt"}
		}
		return tRaw{"Panic (PMsg \"unreachable\")"}
	}
	body := simp(c.stmts(lit.Body.List, end))
	c.loops, c.lit = savedLoops, savedLit
	pure := isPure(body)
	rt := &fnType{k: "func", params: ft.params, res: ft.res, monadic: true}
	if want != nil && !want.monadic {
		if !pure {
			c.lostAt(lit, "function literal that can panic handed to a parameter that is not called through the res monad")
		}
		rt.monadic = false
	}
	hdr := "fun"
	if len(bs) == 0 {
		hdr += " (_ : unit)"
	}
	for _, b := range bs {
		hdr += " " + b
	}
	return "(" + hdr + " =>\n" + ind(4) + render(body, 4, !rt.monadic) + ")", rt
}

// litReturn: a return statement inside a function literal
func (c *fnCtx) litReturn(v *ast.ReturnStmt) term {
	var pre []fnBind
	var vals []string
	if len(v.Results) != len(c.lit.res) {
		c.lostAt(v, "return arity inside a function literal")
	}
	for i, r := range v.Results {
		x, t := c.expr(r, &pre)
		if t.k == "view" || t.k == "slice" || t.k == "map" || t.k == "obj" {
			c.lostAt(r, "function literal returning a %s", t.k)
		}
		_ = i
		vals = append(vals, x)
	}
	return wrap(pre, tOk{tuple(vals)})
}

// ---------------------------------------------------------------- function values as arguments

// etaOk wraps a pure function of n arguments into the res monad
func etaOk(f string, n int) string {
	var xs []string
	for i := 0; i < n; i++ {
		xs = append(xs, "a"+string(rune('0'+i)))
	}
	return "(fun " + strings.Join(xs, " ") + " => Ok (" + f + " " + strings.Join(xs, " ") + "))"
}

// cmpVar: cmp.Compare on the cmp.Ordered type parameter T: the function argument cmp_<T>
func (c *fnCtx) cmpVar(t *fnType) *fnVar {
	key := "cmp:" + t.name
	if c.extras[key] == nil {
		x := c.extra(key, "cmp_"+t.name)
		typ := t.coq() + " -> " + t.coq() + " -> Z"
		x.typ = &fnType{k: "raw", name: typ, params: []*fnType{t}}
		c.setExtraType(key, typ, map[string]bool{t.name: true})
	}
	return c.extras[key]
}

// funcArg: the argument a handed to a function-typed parameter of type want.
func (c *fnCtx) funcArg(a ast.Expr, want *fnType, pre *[]fnBind) string {
	for {
		p, ok := a.(*ast.ParenExpr)
		if !ok {
			break
		}
		a = p.X
	}
	adapt := func(s string, monadic bool) string {
		if want.monadic && !monadic {
			return etaOk(s, len(want.params))
		}
		if !want.monadic && monadic {
			c.lostAt(a, "function value %s, which can panic, handed to a parameter that is not called through the res monad", src(a))
		}
		return s
	}
	switch v := a.(type) {
	case *ast.FuncLit:
		s, _ := c.funcLit(v, want)
		return s
	case *ast.SelectorExpr:
		if id, ok := v.X.(*ast.Ident); ok && id.Obj == nil && id.Name == "cmp" && v.Sel.Name == "Compare" && len(want.params) == 2 {
			switch t := want.params[0]; {
			case t.isNum():
				return adapt("go_cmp_int", false)
			case t.k == "string":
				return adapt("go_cmp_str", false)
			case t.k == "elem":
				et := c.elemT[t.name]
				if et == nil || !et.ordered {
					c.lostAt(a, "cmp.Compare at the type parameter %s (not cmp.Ordered)", t.name)
				}
				return adapt(c.cmpVar(et).name, false)
			}
		}
	case *ast.Ident:
		if x := c.lookup(v); x != nil && x.typ.k == "func" {
			return adapt(x.name, x.typ.monadic)
		}
		if cal := c.g.funcValueOf(v); cal != nil {
			return adapt(c.translatedAsValue(cal, v, want), !cal.pure)
		}
	}
	c.lostAt(a, "function value %s", src(a))
	return ""
}

// funcValueOf: the identifier names a translated function of the file (used as a value)
func (g *fnGen) funcValueOf(id *ast.Ident) *fnFunc {
	if id.Obj == nil || id.Obj.Kind != ast.Fun {
		return nil
	}
	if cal, ok := g.byCall[id.Name]; ok && cal.recv == "" {
		return cal
	}
	return nil
}

// translatedAsValue: a translated function of the file as a function value: a lambda over its Go
// parameters that supplies the further arguments (equalities, zero values, fuel) of its translation.
func (c *fnCtx) translatedAsValue(cal *fnFunc, at ast.Node, want *fnType) string {
	if cal.state != 2 {
		c.lostAt(at, "function value %s (not translated)", cal.spec)
	}
	if len(cal.fields) > 0 || len(cal.mutFields) > 0 || len(cal.logs) > 0 || len(cal.params) != len(want.params) {
		c.lostAt(at, "function value %s", cal.spec)
	}
	var xs []string
	s := cal.name
	for i, p := range cal.params {
		if p.v == nil || p.mutated || p.v.view != nil || p.variadic {
			c.lostAt(at, "function value %s (parameter %s)", cal.spec, p.goName)
		}
		switch p.v.typ.k {
		case "slice", "map", "func", "view":
			c.lostAt(at, "function value %s (parameter %s of type %s)", cal.spec, p.goName, p.v.typ.k)
		}
		x := "a" + string(rune('0'+i))
		xs = append(xs, x)
		s += " " + x
	}
	for _, e := range cal.extras {
		switch {
		case strings.HasPrefix(e.key, "eqb:"):
			s += " " + c.mapEqb(&fnType{k: "map", key: &fnType{k: "elem", name: strings.TrimPrefix(e.key, "eqb:")}}, at)
		case strings.HasPrefix(e.key, "cmp:"):
			s += " " + c.cmpVar(&fnType{k: "elem", name: strings.TrimPrefix(e.key, "cmp:"), ordered: true}).name
		default:
			c.lostAt(at, "function value %s (it needs %s)", cal.spec, e.name)
		}
	}
	for _, z := range cal.zeroTypes {
		s += " " + paren(c.zeroOf(&fnType{k: "elem", name: z}, at))
	}
	if cal.fuel {
		s += " fuel"
		c.fuel = true
	}
	return "(fun " + strings.Join(xs, " ") + " => " + s + ")"
}

// ---------------------------------------------------------------- external functions called for their results

func (c *fnCtx) externDecl(key string, at ast.Node) *ast.FuncDecl {
	i := strings.IndexByte(key, '.')
	pkg, name := key[:i], key[i+1:]
	for _, f := range c.g.foreignFiles(c, pkg) {
		for _, d := range f.Decls {
			if fd, ok := d.(*ast.FuncDecl); ok && fd.Recv == nil && fd.Name.Name == name {
				return fd
			}
		}
	}
	c.lostAt(at, "external function %s (source not found)", key)
	return nil
}

// externDeclQuiet: like externDecl, nil when the source is not found
func (c *fnCtx) externDeclQuiet(key string) *ast.FuncDecl {
	i := strings.IndexByte(key, '.')
	if i < 0 {
		return nil
	}
	pkg, name := key[:i], key[i+1:]
	for _, f := range c.g.foreignFiles(c, pkg) {
		for _, d := range f.Decls {
			if fd, ok := d.(*ast.FuncDecl); ok && fd.Recv == nil && fd.Name.Name == name {
				return fd
			}
		}
	}
	return nil
}

// paramReadOnly: the slice parameter name of fd is only measured, indexed for reading and ranged
// over (so an argument can be handed over by value)
func paramReadOnly(fd *ast.FuncDecl, name string) bool {
	if fd.Body == nil {
		return false
	}
	var obj *ast.Object
	for _, f := range fd.Type.Params.List {
		for _, n := range f.Names {
			if n.Name == name {
				obj = n.Obj
			}
		}
	}
	if obj == nil {
		return false
	}
	ok := true
	okUse := map[*ast.Ident]bool{}
	ast.Inspect(fd.Body, func(n ast.Node) bool {
		switch v := n.(type) {
		case *ast.AssignStmt:
			for _, l := range v.Lhs {
				if id := baseIdent(l); id != nil && id.Obj == obj {
					ok = false
				}
			}
		case *ast.IncDecStmt:
			if id := baseIdent(v.X); id != nil && id.Obj == obj {
				ok = false
			}
		case *ast.UnaryExpr:
			if v.Op == token.AND {
				if id := baseIdent(v.X); id != nil && id.Obj == obj {
					ok = false
				}
			}
		case *ast.IndexExpr:
			if id, isId := v.X.(*ast.Ident); isId && id.Obj == obj {
				okUse[id] = true
			}
		case *ast.RangeStmt:
			if id, isId := v.X.(*ast.Ident); isId && id.Obj == obj {
				okUse[id] = true
			}
		case *ast.CallExpr:
			if fid, isId := v.Fun.(*ast.Ident); isId && fid.Obj == nil && (fid.Name == "len" || fid.Name == "cap") && len(v.Args) == 1 {
				if id, isId := v.Args[0].(*ast.Ident); isId && id.Obj == obj {
					okUse[id] = true
				}
			}
		}
		return true
	})
	ast.Inspect(fd.Body, func(n ast.Node) bool {
		if id, isId := n.(*ast.Ident); isId && id.Obj == obj && !okUse[id] {
			ok = false
		}
		return true
	})
	return ok
}

// unifyAst binds the type parameters (tps: name -> constraint) of a foreign signature from the
// type of an argument
func unifyAst(p ast.Expr, a *fnType, tps map[string]ast.Expr, sub map[string]*fnType) {
	if a == nil {
		return
	}
	switch v := p.(type) {
	case *ast.Ident:
		cons, isTp := tps[v.Name]
		if !isTp {
			return
		}
		if _, done := sub[v.Name]; !done {
			sub[v.Name] = a
		}
		if u, ok := cons.(*ast.UnaryExpr); ok && u.Op == token.TILDE {
			unifyAst(u.X, a, tps, sub)
		}
	case *ast.ArrayType:
		if v.Len == nil && a.k == "slice" {
			unifyAst(v.Elt, a.elem, tps, sub)
		}
	case *ast.StarExpr:
		if a.k == "ptr" {
			unifyAst(v.X, a.elem, tps, sub)
		}
	case *ast.FuncType:
		if a.k != "func" {
			return
		}
		i := 0
		if v.Params != nil {
			for _, f := range v.Params.List {
				k := len(f.Names)
				if k == 0 {
					k = 1
				}
				for j := 0; j < k; j++ {
					if i < len(a.params) {
						unifyAst(f.Type, a.params[i], tps, sub)
					}
					i++
				}
			}
		}
	}
}

// externHandsBack: fd is func F[...](s S) S with a body that is not read-only on s
func externHandsBack(fd *ast.FuncDecl) bool {
	if fd.Type.Params == nil || len(fd.Type.Params.List) != 1 || len(fd.Type.Params.List[0].Names) != 1 {
		return false
	}
	if fd.Type.Results == nil || len(fd.Type.Results.List) != 1 || len(fd.Type.Results.List[0].Names) > 1 {
		return false
	}
	pt, rt := fd.Type.Params.List[0].Type, fd.Type.Results.List[0].Type
	if src(pt) != src(rt) {
		return false
	}
	return !paramReadOnly(fd, fd.Type.Params.List[0].Names[0].Name)
}

// externCall: pkg.F(args) used for its results, pkg.F declared with extern:pkg.F: a function
// argument pkg_F : args -> res (results).  The result types are read from the source of the other
// package (module or GOROOT); a slice argument is handed over by value, which is exact because
// the source of F only measures, indexes and ranges over that parameter (checked); a function
// argument is handed over in the res monad.
func (c *fnCtx) externCall(key string, v *ast.CallExpr, pre *[]fnBind) ([]string, []*fnType) {
	fd := c.externDecl(key, v)
	x := c.extras[key]
	if x == nil {
		c.lostAt(v, "call of %s here", key)
	}
	var pnames []string
	var ptypes []ast.Expr
	for _, f := range fd.Type.Params.List {
		if _, isVar := f.Type.(*ast.Ellipsis); isVar {
			c.lostAt(v, "call of the variadic external function %s", key)
		}
		for _, n := range f.Names {
			pnames = append(pnames, n.Name)
			ptypes = append(ptypes, f.Type)
		}
	}
	if len(pnames) != len(v.Args) || v.Ellipsis.IsValid() {
		c.lostAt(v, "call of %s (arity)", key)
	}
	// pkg.F(vs) with ONE argument, a slice parameter of this function with a view, F of type
	// func(S) S and not read-only on it (slices.Compact): F may store into the argument's array
	// and hands back a slice of the SAME type -- taken to be a window of that array, as the
	// functions of package slices with this signature document.  The function argument gets the
	// elements and the view and answers the result's view and the new elements:
	//     pkg_F : list T -> view -> res (view * list T)
	if len(v.Args) == 1 && externHandsBack(fd) {
		if xv := c.plainVar(v.Args[0]); xv != nil && xv.typ.k == "slice" && xv.view != nil && !xv.noElems && c.fat[xv] == nil && xv.typ.elem.k != "slice" {
			tset := map[string]bool{}
			xv.typ.mentionsT(tset)
			typ := arrowArg(xv.typ.coq()) + " -> view -> res (view * " + xv.typ.coq() + ")"
			if x.typ.name != "?" && x.typ.name != typ {
				c.lostAt(v, "second call of %s with different argument types", key)
			}
			x.typ = &fnType{k: "raw", name: typ}
			for tp := range tset {
				x.typ.params = append(x.typ.params, &fnType{k: "elem", name: tp})
			}
			c.setExtraType(key, typ, tset)
			t := c.tmp()
			*pre = append(*pre, fnBind{pat: tuple([]string{t, xv.name}), m: tRaw{x.name + " " + xv.name + " " + xv.view.name}, effect: true})
			return []string{t}, []*fnType{tyView}
		}
	}
	tps := map[string]ast.Expr{}
	if fd.Type.TypeParams != nil {
		for _, f := range fd.Type.TypeParams.List {
			for _, n := range f.Names {
				tps[n.Name] = f.Type
			}
		}
	}
	sub := map[string]*fnType{}
	s := x.name
	var ats []string
	tset := map[string]bool{}
	for i, a := range v.Args {
		var y string
		var t *fnType
		if lit, isLit := a.(*ast.FuncLit); isLit {
			y, t = c.funcLit(lit, nil)
		} else if se, isSl := a.(*ast.SliceExpr); isSl {
			y, t = c.sliceByValue(se, pre)
		} else {
			y, t = c.expr(a, pre)
		}
		switch t.k {
		case "slice":
			if t.elem.k == "slice" || !paramReadOnly(fd, pnames[i]) {
				c.lostAt(a, "slice argument %s of %s (the function may store into it)", src(a), key)
			}
		case "func":
			if !t.monadic {
				y = etaOk(y, len(t.params))
				u := *t
				u.monadic = true
				t = &u
			}
		case "view", "map", "obj", "sres":
			c.lostAt(a, "argument %s of %s", src(a), key)
		case "untyped":
			t = tyInt
		}
		unifyAst(ptypes[i], t, tps, sub)
		s += " " + paren(y)
		ats = append(ats, arrowArg(t.coq()))
		t.mentionsT(tset)
	}
	var rts []*fnType
	if fd.Type.Results != nil {
		saved := map[string]*fnType{}
		for n := range tps {
			saved[n] = c.elemT[n]
			if t, ok := sub[n]; ok {
				c.elemT[n] = t
			} else {
				delete(c.elemT, n)
			}
		}
		func() {
			defer func() {
				for n, t := range saved {
					if t != nil {
						c.elemT[n] = t
					} else {
						delete(c.elemT, n)
					}
				}
			}()
			for _, f := range fd.Type.Results.List {
				k := len(f.Names)
				if k == 0 {
					k = 1
				}
				for j := 0; j < k; j++ {
					rts = append(rts, c.externResType(key, f.Type)) // fn_stdobj.go: read inside that package
				}
			}
		}()
	}
	if len(rts) == 0 {
		c.lostAt(v, "call of %s used as a value (no results)", key)
	}
	for _, t := range rts {
		switch t.k {
		case "int", "byte", "bool", "string", "elem", "u64", "err", "opaque":
		case "obj":
			if c.sx.externAs[key] != t {
				c.lostAt(v, "result of %s of type %s", key, t.k)
			}
		default:
			c.lostAt(v, "result of %s of type %s", key, t.k)
		}
		t.mentionsT(tset)
	}
	typ := strings.Join(append(ats, "res "+paren(tupleType(rts))), " -> ")
	if x.typ.name != "?" && x.typ.name != typ {
		c.lostAt(v, "second call of %s with different argument types", key)
	}
	x.typ = &fnType{k: "raw", name: typ}
	for tp := range tset {
		x.typ.params = append(x.typ.params, &fnType{k: "elem", name: tp})
	}
	c.setExtraType(key, typ, tset)
	var res []string
	for range rts {
		res = append(res, c.tmp())
	}
	*pre = append(*pre, fnBind{pat: tuple(res), m: tRaw{s}})
	return res, rts
}

// ---------------------------------------------------------------- slice expressions handed over by value

// sliceByValue: x[lo:hi] on a list-represented slice variable as a list of its own (go_sub): for
// an argument of a callee that neither stores into it nor hands it back.
func (c *fnCtx) sliceByValue(se *ast.SliceExpr, pre *[]fnBind) (string, *fnType) {
	base := c.plainVar(se.X)
	if se.Slice3 || base == nil || base.typ.k != "slice" || base.noElems || base.typ.elem.k == "slice" {
		c.lostAt(se, "slice expression %s as an argument", src(se))
	}
	lo, hi := "0", "(zlen "+base.name+")"
	if se.Low != nil {
		lo, _ = c.expr(se.Low, pre)
	}
	if se.High != nil {
		hi, _ = c.expr(se.High, pre)
	}
	t := c.tmp()
	if sp := c.fat[base]; sp != nil {
		bindRaw(pre, t, "go_sub_cap "+base.name+" "+sp.name+" "+paren(lo)+" "+paren(hi))
	} else {
		bindRaw(pre, t, "go_sub "+base.name+" "+paren(lo)+" "+paren(hi))
	}
	return t, base.typ
}

// ---------------------------------------------------------------- range loops whose body assigns the counter

// assignsObj: the body assigns the variable (x = e, x += e, x++)
func assignsObj(body ast.Node, obj *ast.Object) bool {
	found := false
	ast.Inspect(body, func(n ast.Node) bool {
		switch v := n.(type) {
		case *ast.AssignStmt:
			for _, l := range v.Lhs {
				if id, ok := l.(*ast.Ident); ok && id.Obj == obj && v.Tok != token.DEFINE {
					found = true
				}
			}
		case *ast.IncDecStmt:
			if id, ok := v.X.(*ast.Ident); ok && id.Obj == obj {
				found = true
			}
		}
		return true
	})
	return found
}

// ---------------------------------------------------------------- results that are sometimes an argument, sometimes new

// paramRooted: e is a slice parameter with a view, or a slice expression on one
func (c *fnCtx) paramRooted(e ast.Expr) bool {
	switch v := e.(type) {
	case *ast.ParenExpr:
		return c.paramRooted(v.X)
	case *ast.Ident:
		x := c.lookup(v)
		return x != nil && x.view != nil
	case *ast.SliceExpr:
		if id, ok := v.X.(*ast.Ident); ok {
			x := c.lookup(id)
			return x != nil && x.view != nil
		}
	}
	return false
}

// sresValue: the returned expression r as a go_sres: SlOf (a window of an argument) or SlNew (the
// elements of a new slice); the result of a callee of that kind is handed through.
func (c *fnCtx) sresValue(r ast.Expr, pre *[]fnBind) string {
	if id, ok := r.(*ast.Ident); ok && id.Name == "nil" && id.Obj == nil {
		return "(SlNew [])"
	}
	if call, ok := r.(*ast.CallExpr); ok {
		if cal := c.g.calleeOf(c.fn, call); cal != nil && len(cal.results) == 1 && cal.results[0].k == "sres" {
			x, _ := c.expr(r, pre)
			return x
		}
	}
	if c.paramRooted(r) {
		return "(SlOf " + c.viewOf(r, pre) + ")"
	}
	x, t := c.expr(r, pre)
	if t.k != "slice" || t.elem.k == "slice" {
		c.lostAt(r, "returned slice %s", src(r))
	}
	return "(SlNew " + x + ")"
}
