package main

// Constructs added by the sweep of the remaining functions (see notes/fn-translator.md,
// "Sweep of the remaining functions"): nil tests on function-typed parameters, assignments to a
// logged callback field.

import (
	"go/ast"
	"go/token"
)

// nilTestedFuncParams: the function-typed parameters the body compares with nil (u == nil,
// u != nil).  Each gets a bool argument <name>_nil ("the argument is the nil function").
func nilTestedFuncParams(fd *ast.FuncDecl) map[*ast.Object]bool {
	isFunc := map[*ast.Object]bool{}
	for _, f := range fd.Type.Params.List {
		if _, ok := f.Type.(*ast.FuncType); ok {
			for _, n := range f.Names {
				if n.Obj != nil {
					isFunc[n.Obj] = true
				}
			}
		}
	}
	out := map[*ast.Object]bool{}
	if len(isFunc) == 0 || fd.Body == nil {
		return out
	}
	ast.Inspect(fd.Body, func(n ast.Node) bool {
		if b, ok := n.(*ast.BinaryExpr); ok && (b.Op == token.EQL || b.Op == token.NEQ) {
			if o := nilTestOperand(b); o != nil && isFunc[o] {
				out[o] = true
			}
		}
		return true
	})
	return out
}

// nilTestOperand: x of `x == nil` / `nil != x` when x is an identifier
func nilTestOperand(b *ast.BinaryExpr) *ast.Object {
	isNil := func(e ast.Expr) bool {
		id, ok := e.(*ast.Ident)
		return ok && id.Name == "nil" && id.Obj == nil
	}
	x, y := b.X, b.Y
	if isNil(x) {
		x, y = y, x
	}
	if !isNil(y) {
		return nil
	}
	if id, ok := x.(*ast.Ident); ok {
		return id.Obj
	}
	return nil
}

// funcNilTest: `u == nil` on a function-typed parameter → its flag
func (c *fnCtx) funcNilTest(b *ast.BinaryExpr) (string, bool) {
	if b.Op != token.EQL && b.Op != token.NEQ {
		return "", false
	}
	o := nilTestOperand(b)
	if o == nil || c.nilFlags[o] == nil {
		return "", false
	}
	if b.Op == token.EQL {
		return c.nilFlags[o].name, true
	}
	return "(negb " + c.nilFlags[o].name + ")", true
}

// iterMethodType: the signature by which an ITERATOR method of an object field is represented:
//   func (t *Tree[T]) InorderAfter(key T) iter.Seq[T]   ->  func(key T) []T
//   func (t *Tree[T]) Inorder(yield func(T) bool)        ->  func() []T
// (the list of the values it yields, in order; a loop that stops early leaves the rest
// unconsumed).  nil for any other signature.
func iterMethodType(ft *ast.FuncType) *ast.FuncType {
	if r := ft.Results; r != nil && len(r.List) == 1 && len(r.List[0].Names) == 0 {
		if ix, ok := r.List[0].Type.(*ast.IndexExpr); ok {
			if sel, ok := ix.X.(*ast.SelectorExpr); ok && sel.Sel.Name == "Seq" {
				if id, ok := sel.X.(*ast.Ident); ok && id.Name == "iter" {
					cp := *ft
					cp.Results = &ast.FieldList{List: []*ast.Field{{Type: &ast.ArrayType{Elt: ix.Index}}}}
					return &cp
				}
			}
		}
		return nil
	}
	if ft.Results != nil && len(ft.Results.List) > 0 {
		return nil
	}
	ps := ft.Params.List
	if len(ps) == 0 || len(ps[len(ps)-1].Names) > 1 {
		return nil
	}
	yt, ok := ps[len(ps)-1].Type.(*ast.FuncType)
	if !ok || yt.Params == nil || yt.Params.NumFields() != 1 || yt.Results == nil || yt.Results.NumFields() != 1 {
		return nil
	}
	if id, ok := yt.Results.List[0].Type.(*ast.Ident); !ok || id.Name != "bool" {
		return nil
	}
	cp := *ft
	cp.Params = &ast.FieldList{List: ps[:len(ps)-1]}
	cp.Results = &ast.FieldList{List: []*ast.Field{{Type: &ast.ArrayType{Elt: yt.Params.List[0].Type}}}}
	return &cp
}

// objIterOperand: the operand of `for v := range X` when X is an iterator method of an object field
// of the receiver: the method value r.f.M, or the call r.f.M(args).  Returns the field, the
// method and the arguments.
func objIterOperand(x ast.Expr, isRecv func(ast.Expr) bool) (string, string, *ast.CallExpr) {
	call, isCall := x.(*ast.CallExpr)
	if isCall {
		x = call.Fun
	}
	sel, ok := x.(*ast.SelectorExpr)
	if !ok {
		return "", "", nil
	}
	inner, ok := sel.X.(*ast.SelectorExpr)
	if !ok || !isRecv(inner.X) {
		return "", "", nil
	}
	if !isCall {
		call = &ast.CallExpr{Fun: sel, Lparen: sel.End(), Rparen: sel.End()}
	}
	return inner.Sel.Name, sel.Sel.Name, call
}

// objSeqRange: `for v := range r.f.M` / `for v := range r.f.M(args)` over an iterator method of an
// object field: the method is the function argument f_M : St -> args -> res (list X * St), the
// list of the values the iterator yields, obtained BEFORE the loop; the loop is a range over that
// list (as for an iter.Seq parameter: an iterator is code, what else it does while it yields is
// outside the representation).
func (c *fnCtx) objSeqRange(v *ast.RangeStmt, pre *[]fnBind) *ast.RangeStmt {
	f, m, call := objIterOperand(v.X, c.isRecv)
	if call == nil || c.objs[f] == nil || c.fields[f] == nil {
		return nil
	}
	fv := c.fields[f]
	ft := c.objMethodType(fv, m, v)
	o := c.objOf(fv)
	if !o.seqRes[m] {
		c.lostAt(v, "range over %s.%s (not an iterator method)", f, m)
	}
	if v.Value != nil || v.Tok != token.DEFINE {
		c.lostAt(v, "range over the iterator %s.%s with two variables", f, m)
	}
	if c.seqLoops == nil {
		c.seqLoops = map[*ast.RangeStmt]*ast.RangeStmt{}
		c.seqLists = map[*ast.RangeStmt]*fnVar{}
	}
	rw := c.seqLoops[v]
	if rw == nil {
		w := c.newVar(f+"_"+m+"_seq", ft.res[0], "local")
		w.pos = v.Pos()
		obj := ast.NewObj(ast.Var, w.name)
		c.vars[obj] = w
		w.obj = obj
		lid := &ast.Ident{Name: w.name, NamePos: v.X.Pos(), Obj: obj}
		rw = &ast.RangeStmt{For: v.For, Key: &ast.Ident{Name: "_", NamePos: v.For}, Value: v.Key, TokPos: v.TokPos, Tok: v.Tok, Range: v.Range, X: lid, Body: v.Body}
		if v.Key == nil {
			rw.Key, rw.Value, rw.Tok = nil, nil, token.ILLEGAL
		}
		c.seqLoops[v], c.seqLists[v] = rw, w
	}
	c.objCall(fv, m, call, pre, []string{c.seqLists[v].name})
	return rw
}

// objFieldStore: an assignment to an object field of the receiver.  Only two values keep the
// representation exact (nobody else holds them): `r.f = nil` (the function argument f_nilptr : St_f,
// "the nil pointer of that type") and `r.f = r.g.M(args)` where M hands back a NEW object of f's kind
// (the result is bound to the field's state).  Anything else -> lost (aliasing).
func (c *fnCtx) objFieldStore(st *ast.AssignStmt, l, r ast.Expr, k func() term) (term, bool) {
	sel, ok := l.(*ast.SelectorExpr)
	if !ok || !c.isRecv(sel.X) || c.objs[sel.Sel.Name] == nil {
		return nil, false
	}
	f := sel.Sel.Name
	fv := c.fields[f]
	if fv == nil || st.Tok != token.ASSIGN {
		c.lostAt(st, "assignment to the object field %s", f)
	}
	var pre []fnBind
	if id, isId := r.(*ast.Ident); isId && id.Name == "nil" && id.Obj == nil {
		x := c.extras["objnilval:"+f]
		if x == nil {
			c.lostAt(st, "nil stored into the object field %s here", f)
		}
		pre = append(pre, fnBind{pat: fv.name, e: x.name, isLet: true, effect: true})
		return wrap(pre, k()), true
	}
	if outer, isCall := r.(*ast.CallExpr); isCall {
		// r.f = r.g.M1(a...).M2(b...): M1 hands back a new object of f's kind, M2 is a method of that
		// object that hands its receiver back
		if osel, ok := outer.Fun.(*ast.SelectorExpr); ok {
			if inner, ok := osel.X.(*ast.CallExpr); ok {
				if fv2, m1 := c.objCallOf(inner); fv2 != nil {
					ft1 := c.objMethodType(fv2, m1, inner)
					if len(ft1.res) != 1 || ft1.res[0] != fv.typ {
						c.lostAt(st, "value %s stored into the object field %s", src(r), f)
					}
					c.objMethodType(fv, osel.Sel.Name, outer)
					if !c.objOf(fv).selfRes[osel.Sel.Name] {
						c.lostAt(st, "method %s of the object stored into %s (must hand its receiver back)", osel.Sel.Name, f)
					}
					c.objCall(fv2, m1, inner, &pre, []string{fv.name})
					c.objCall(fv, osel.Sel.Name, outer, &pre, nil)
					return wrap(pre, k()), true
				}
			}
		}
	}
	if call, isCall := r.(*ast.CallExpr); isCall {
		if fv2, m := c.objCallOf(call); fv2 != nil {
			ft := c.objMethodType(fv2, m, call)
			if len(ft.res) == 1 && ft.res[0] == fv.typ {
				c.objCall(fv2, m, call, &pre, []string{fv.name})
				return wrap(pre, k()), true
			}
		}
	}
	c.lostAt(st, "value %s stored into the object field %s (only nil or a new object handed back by a method of another object field: aliasing)", src(r), f)
	return nil, false
}

// returnsOnlyRecv: every return statement of the method returns the receiver identifier.
func returnsOnlyRecv(fd *ast.FuncDecl) bool {
	if fd.Recv == nil || len(fd.Recv.List) == 0 || len(fd.Recv.List[0].Names) == 0 || fd.Body == nil {
		return false
	}
	rn := fd.Recv.List[0].Names[0]
	ok, any := true, false
	ast.Inspect(fd.Body, func(n ast.Node) bool {
		switch v := n.(type) {
		case *ast.FuncLit:
			return false
		case *ast.ReturnStmt:
			any = true
			if len(v.Results) != 1 {
				ok = false
				return true
			}
			id, isId := v.Results[0].(*ast.Ident)
			if !isId || id.Name != rn.Name || id.Obj != rn.Obj {
				ok = false
			}
		}
		return true
	})
	return ok && any
}

// objNilOperand: f of `r.f == nil` / `r.f != nil` (r the receiver), else "".
func objNilOperand(b *ast.BinaryExpr, isRecv func(ast.Expr) bool) string {
	if b.Op != token.EQL && b.Op != token.NEQ {
		return ""
	}
	isNil := func(e ast.Expr) bool {
		id, ok := e.(*ast.Ident)
		return ok && id.Name == "nil" && id.Obj == nil
	}
	x, y := b.X, b.Y
	if isNil(x) {
		x, y = y, x
	}
	if !isNil(y) {
		return ""
	}
	if sel, ok := x.(*ast.SelectorExpr); ok && isRecv(sel.X) {
		return sel.Sel.Name
	}
	return ""
}

// objNilTest: `m.f == nil` on an object field of the receiver (a pointer to a struct of another
// package) -> the bool argument <f>_nil ("the field is the nil pointer"); the methods of the
// object are still function arguments: what they do on a nil receiver is theirs to say.
func (c *fnCtx) objNilTest(b *ast.BinaryExpr) (string, bool) {
	f := objNilOperand(b, c.isRecv)
	if f == "" || c.objs[f] == nil {
		return "", false
	}
	x := c.extras["objnil:"+f]
	if x == nil {
		return "", false
	}
	if b.Op == token.EQL {
		return x.name, true
	}
	return "(negb " + x.name + ")", true
}

// logFieldStore: q.move = e for a callback field whose calls are only logged: the log lists the
// calls made to the field, whoever receives them, so the store itself is nothing.  Only values
// that are such callbacks themselves: a function of the file with an empty body (nmove[T]) or a
// function-typed parameter without results.
func (c *fnCtx) logFieldStore(st *ast.AssignStmt, l, r ast.Expr) bool {
	sel, ok := l.(*ast.SelectorExpr)
	if !ok || !c.isRecv(sel.X) || !c.logFields[sel.Sel.Name] || st.Tok != token.ASSIGN {
		return false
	}
	b, _ := baseAndArgs(r)
	id, ok := b.(*ast.Ident)
	if !ok {
		c.lostAt(st, "value %s stored in the callback field %s (only a function of the file with an empty body or a function parameter without results)", src(r), sel.Sel.Name)
	}
	if id.Obj != nil && id.Obj.Kind == ast.Var {
		if f, ok := id.Obj.Decl.(*ast.Field); ok {
			if ft, ok := f.Type.(*ast.FuncType); ok && (ft.Results == nil || len(ft.Results.List) == 0) {
				return true
			}
		}
		c.lostAt(st, "value %s stored in the callback field %s", src(r), sel.Sel.Name)
	}
	fd := findFunc(c.g.file, id.Name)
	if fd == nil || fd.Recv != nil || fd.Body == nil || len(fd.Body.List) != 0 {
		c.lostAt(st, "value %s stored in the callback field %s (only a function of the file with an empty body or a function parameter without results)", src(r), sel.Sel.Name)
	}
	return true
}

// ---------------------------------------------------------------- local function literals handed on as arguments

// inlineFuncVars: `f := func(...) R { ... }` where f is never assigned again and is used ONLY as
// an argument of calls (never called itself, never stored or returned): every use is replaced by
// the literal and the definition is dropped, so that the rules for a function literal as an
// argument apply.  A literal captures its variables by reference: the replacement is the same
// function only if no variable it captures is assigned anywhere in the enclosing function
// (checked; its own parameters and locals are not captures).
func (g *fnGen) inlineFuncVars(fd *ast.FuncDecl) {
	if fd == nil || fd.Body == nil || g.inlinedLits[fd] {
		return
	}
	if g.inlinedLits == nil {
		g.inlinedLits = map[*ast.FuncDecl]bool{}
	}
	g.inlinedLits[fd] = true
	assigned := map[*ast.Object]bool{}
	ast.Inspect(fd.Body, func(n ast.Node) bool {
		switch v := n.(type) {
		case *ast.AssignStmt:
			if v.Tok != token.DEFINE {
				for _, l := range v.Lhs {
					if id := restRootIdent(l); id != nil && id.Obj != nil {
						assigned[id.Obj] = true
					}
				}
			}
		case *ast.IncDecStmt:
			if id := restRootIdent(v.X); id != nil && id.Obj != nil {
				assigned[id.Obj] = true
			}
		case *ast.UnaryExpr:
			if v.Op == token.AND {
				if id := restRootIdent(v.X); id != nil && id.Obj != nil {
					assigned[id.Obj] = true // its address escapes
				}
			}
		case *ast.RangeStmt:
			if v.Tok == token.ASSIGN {
				for _, e := range []ast.Expr{v.Key, v.Value} {
					if id := restRootIdent(e); id != nil && id.Obj != nil {
						assigned[id.Obj] = true
					}
				}
			}
		}
		return true
	})
	var walk func(list []ast.Stmt) []ast.Stmt
	walk = func(list []ast.Stmt) []ast.Stmt {
		var out []ast.Stmt
		for _, s := range list {
			as, ok := s.(*ast.AssignStmt)
			if !ok || as.Tok != token.DEFINE || len(as.Lhs) != 1 || len(as.Rhs) != 1 {
				out = append(out, s)
				continue
			}
			id, ok1 := as.Lhs[0].(*ast.Ident)
			lit, ok2 := as.Rhs[0].(*ast.FuncLit)
			if !ok1 || !ok2 || id.Obj == nil || assigned[id.Obj] {
				out = append(out, s)
				continue
			}
			// every other mention of f is an argument of a call
			okUse, uses := true, 0
			ast.Inspect(fd.Body, func(n ast.Node) bool {
				switch v := n.(type) {
				case *ast.CallExpr:
					for _, a := range v.Args {
						if aid, ok := a.(*ast.Ident); ok && aid.Obj == id.Obj {
							uses++
						}
					}
				}
				return true
			})
			mentions := 0
			ast.Inspect(fd.Body, func(n ast.Node) bool {
				if x, ok := n.(*ast.Ident); ok && x.Obj == id.Obj && x != id {
					mentions++
				}
				return true
			})
			if mentions != uses || uses == 0 {
				okUse = false
			}
			// captured variables are never assigned
			ast.Inspect(lit.Body, func(n ast.Node) bool {
				if x, ok := n.(*ast.Ident); ok && x.Obj != nil && x.Obj.Kind == ast.Var {
					if p := x.Obj.Pos(); (p < lit.Pos() || p >= lit.End()) && assigned[x.Obj] {
						okUse = false
					}
				}
				return true
			})
			if !okUse {
				out = append(out, s)
				continue
			}
			ast.Inspect(fd.Body, func(n ast.Node) bool {
				if call, ok := n.(*ast.CallExpr); ok {
					for i, a := range call.Args {
						if aid, ok := a.(*ast.Ident); ok && aid.Obj == id.Obj {
							call.Args[i] = lit
						}
					}
				}
				return true
			})
			// the definition is dropped
		}
		return out
	}
	fd.Body.List = walk(fd.Body.List)
}

func restRootIdent(e ast.Expr) *ast.Ident {
	for {
		switch v := e.(type) {
		case *ast.ParenExpr:
			e = v.X
		case *ast.IndexExpr:
			e = v.X
		case *ast.SelectorExpr:
			e = v.X
		case *ast.StarExpr:
			e = v.X
		case *ast.Ident:
			return v
		default:
			return nil
		}
	}
}

// ---------------------------------------------------------------- a local object built by a constructor of the file

// localObj: `q := Ctor(args)` as a statement of the body of a function without receiver, Ctor a
// constructor of the file (constructorOf), q used afterwards only as `q.M(...)` / `q.f`: from
// that statement on q plays the receiver; its fields are LOCALS bound from what the translated
// constructor returns, they are neither arguments nor results of this function.
type localObj struct {
	stmt   *ast.AssignStmt
	call   *ast.CallExpr
	v      string
	obj    *ast.Object
	tname  string
	targs  []string
	callee *ast.FuncDecl
	hands  map[int]string // parameter index of the constructor -> the slice field it is stored into
}

func (g *fnGen) localObjectOf(fd *ast.FuncDecl) *localObj {
	if fd == nil || fd.Recv != nil || fd.Body == nil {
		return nil
	}
	var lo *localObj
	for _, s := range fd.Body.List {
		as, ok := s.(*ast.AssignStmt)
		if !ok || as.Tok != token.DEFINE || len(as.Lhs) != 1 || len(as.Rhs) != 1 {
			continue
		}
		id, ok := as.Lhs[0].(*ast.Ident)
		call, ok2 := as.Rhs[0].(*ast.CallExpr)
		if !ok || !ok2 || id.Obj == nil {
			continue
		}
		fid, ok := call.Fun.(*ast.Ident)
		if !ok || fid.Obj == nil || fid.Obj.Kind != ast.Fun {
			continue
		}
		cd := findFunc(g.file, fid.Name)
		if cd == nil || cd == fd {
			continue
		}
		ci := g.constructorOf(cd)
		if ci == nil {
			continue
		}
		if lo != nil {
			return nil // two objects: not supported
		}
		lo = &localObj{stmt: as, call: call, v: id.Name, obj: id.Obj, tname: ci.tname, targs: ci.targs, callee: cd, hands: map[int]string{}}
		// which parameters the constructor stores into slice fields
		idx := 0
		pidx := map[*ast.Object]int{}
		for _, f := range cd.Type.Params.List {
			for _, n := range f.Names {
				if n.Obj != nil {
					pidx[n.Obj] = idx
				}
				idx++
			}
			if len(f.Names) == 0 {
				idx++
			}
		}
		for _, el := range ci.lit.Elts {
			if kv, ok := el.(*ast.KeyValueExpr); ok {
				if vid, ok := kv.Value.(*ast.Ident); ok && vid.Obj != nil {
					if i, isParam := pidx[vid.Obj]; isParam {
						if f, ok := vid.Obj.Decl.(*ast.Field); ok {
							if _, isSlice := f.Type.(*ast.ArrayType); isSlice {
								if k, ok := kv.Key.(*ast.Ident); ok {
									lo.hands[i] = k.Name
								}
							}
						}
					}
				}
			}
		}
	}
	if lo == nil {
		return nil
	}
	// the type arguments of the object must be type parameters of this function, under the same
	// names as in the constructor (the call is checked against that when it is translated)
	tps := map[string]bool{}
	if fd.Type.TypeParams != nil {
		for _, f := range fd.Type.TypeParams.List {
			for _, n := range f.Names {
				tps[n.Name] = true
			}
		}
	}
	for _, a := range lo.targs {
		if !tps[a] {
			return nil
		}
	}
	// q is mentioned only as q.M / q.f
	ok := true
	ast.Inspect(fd.Body, func(n ast.Node) bool {
		if sel, isSel := n.(*ast.SelectorExpr); isSel {
			if id, isId := sel.X.(*ast.Ident); isId && id.Obj == lo.obj {
				return false
			}
		}
		if id, isId := n.(*ast.Ident); isId && id.Obj == lo.obj && id != lo.stmt.Lhs[0] {
			ok = false
		}
		return true
	})
	if !ok {
		return nil
	}
	return lo
}

// localObjChecks (when the function is set up): the call infers the constructor's type
// parameters as this function's parameters of the same names: every argument is a parameter of
// this function, or a function literal, whose type is written exactly as the constructor's
// parameter type; no return inside a loop (the fields are not part of a loop's result).
func (c *fnCtx) localObjChecks(lo *localObj) {
	fd := c.fn.decl
	var ptypes []ast.Expr
	for _, f := range lo.callee.Type.Params.List {
		n := len(f.Names)
		if n == 0 {
			n = 1
		}
		for i := 0; i < n; i++ {
			ptypes = append(ptypes, f.Type)
		}
	}
	if len(ptypes) != len(lo.call.Args) || lo.call.Ellipsis.IsValid() {
		c.lostAt(lo.call, "call of the constructor %s (arity)", lo.callee.Name.Name)
	}
	for i, a := range lo.call.Args {
		var at ast.Expr
		switch v := a.(type) {
		case *ast.Ident:
			if v.Obj != nil {
				if f, ok := v.Obj.Decl.(*ast.Field); ok {
					at = f.Type
				}
			}
		case *ast.FuncLit:
			at = v.Type
		}
		if at == nil || src(at) != src(ptypes[i]) {
			c.lostAt(a, "argument %s of the constructor %s (must be a parameter or a function literal whose type is written as the constructor's parameter type %s: the type arguments are not inferred)", src(a), lo.callee.Name.Name, src(ptypes[i]))
		}
	}
	ast.Inspect(fd.Body, func(n ast.Node) bool {
		switch v := n.(type) {
		case *ast.ForStmt:
			if hasReturn(v.Body) {
				c.lostAt(v, "return inside a loop of a function that holds a local object")
			}
		case *ast.RangeStmt:
			if hasReturn(v.Body) {
				c.lostAt(v, "return inside a loop of a function that holds a local object")
			}
		}
		return true
	})
}

// handedParam: the slice parameter of THIS function that the local object's constructor stores
// into field f (the object works on the caller's array), or nil.
func (c *fnCtx) handedParams(lo *localObj) map[*ast.Object]string {
	out := map[*ast.Object]string{}
	for i, f := range lo.hands {
		if i >= len(lo.call.Args) {
			continue
		}
		id, ok := lo.call.Args[i].(*ast.Ident)
		if !ok || id.Obj == nil {
			c.lostAt(lo.call.Args[i], "slice %s handed to the constructor %s (only a slice parameter)", src(lo.call.Args[i]), lo.callee.Name.Name)
		}
		if _, isField := id.Obj.Decl.(*ast.Field); !isField {
			c.lostAt(lo.call.Args[i], "slice %s handed to the constructor %s (only a slice parameter)", src(lo.call.Args[i]), lo.callee.Name.Name)
		}
		out[id.Obj] = f
	}
	return out
}

// localObjInit: the statement q := Ctor(args)
func (c *fnCtx) localObjInit(lo *localObj, k func() term) term {
	cal := c.g.calleeOf(c.fn, lo.call)
	if cal == nil || cal.ctor == nil {
		c.lostAt(lo.call, "call of the constructor %s (not translated)", lo.callee.Name.Name)
	}
	var pre []fnBind
	c.callTranslated(cal, lo.call, &pre, nil)
	// a field whose capacity is tracked here but not by the constructor: nothing is known beyond
	// its length (for a handed-over parameter: the part of the array this function was given)
	for _, f := range cal.mutFields {
		if x := c.fields[f]; x != nil && c.fat[x] != nil && !cal.fatFields[f] {
			pre = append(pre, fnBind{pat: c.fat[x].name + " : " + varType(c.fat[x]), e: "[]", isLet: true})
		}
	}
	return wrap(pre, k())
}

// litIsTotal: a function literal that cannot panic, syntactically: its body is one `return e`
// with e built from identifiers, literals, + - * comparisons and logical operators, and calls
// of function-typed parameters of the enclosing function (if such a parameter is itself called
// through the res monad, handing the literal to a pure parameter is refused where it is
// translated).  A parameter that receives only such literals stays a pure function.
func litIsTotal(encl *ast.FuncDecl, lit *ast.FuncLit) bool {
	if len(lit.Body.List) != 1 {
		return false
	}
	ret, ok := lit.Body.List[0].(*ast.ReturnStmt)
	if !ok || len(ret.Results) != 1 {
		return false
	}
	funcParam := map[*ast.Object]bool{}
	if encl != nil {
		for _, f := range encl.Type.Params.List {
			if _, isF := f.Type.(*ast.FuncType); isF {
				for _, n := range f.Names {
					if n.Obj != nil {
						funcParam[n.Obj] = true
					}
				}
			}
		}
	}
	var total func(e ast.Expr) bool
	total = func(e ast.Expr) bool {
		switch v := e.(type) {
		case *ast.Ident, *ast.BasicLit:
			return true
		case *ast.ParenExpr:
			return total(v.X)
		case *ast.UnaryExpr:
			return (v.Op == token.SUB || v.Op == token.ADD || v.Op == token.NOT) && total(v.X)
		case *ast.BinaryExpr:
			switch v.Op {
			case token.ADD, token.SUB, token.MUL, token.EQL, token.NEQ, token.LSS, token.LEQ, token.GTR, token.GEQ, token.LAND, token.LOR:
				return total(v.X) && total(v.Y)
			}
			return false
		case *ast.CallExpr:
			id, ok := v.Fun.(*ast.Ident)
			if !ok || id.Obj == nil || !funcParam[id.Obj] || v.Ellipsis.IsValid() {
				return false
			}
			for _, a := range v.Args {
				if !total(a) {
					return false
				}
			}
			return true
		}
		return false
	}
	return total(ret.Results[0])
}

// ---------------------------------------------------------------- a read-only slice of slices as a parameter

// nestedReadOnly: the parameter p of type [][]T / []Slice is only measured (len(p)) and ranged
// over, and the range variables bound to its inner slices are only measured, read by index and
// ranged over in turn: then the parameter can be handed over BY VALUE (list (list T)): nothing
// the function does depends on who else holds the arrays.
func nestedReadOnly(fd *ast.FuncDecl, p *ast.Object) bool {
	inner := map[*ast.Object]bool{}
	ast.Inspect(fd.Body, func(n ast.Node) bool {
		if r, ok := n.(*ast.RangeStmt); ok && r.Tok == token.DEFINE {
			if x, ok := r.X.(*ast.Ident); ok && x.Obj == p {
				if v, ok := r.Value.(*ast.Ident); ok && v.Obj != nil {
					inner[v.Obj] = true
				}
			}
		}
		return true
	})
	ok := true
	var stack []ast.Node
	ast.Inspect(fd.Body, func(n ast.Node) bool {
		if n == nil {
			stack = stack[:len(stack)-1]
			return true
		}
		if id, isId := n.(*ast.Ident); isId && id.Obj != nil && (id.Obj == p || inner[id.Obj]) {
			var parent ast.Node
			if len(stack) > 0 {
				parent = stack[len(stack)-1]
			}
			switch pv := parent.(type) {
			case *ast.CallExpr:
				if !isBuiltin(pv, "len", 1) {
					ok = false
				}
			case *ast.RangeStmt:
				if pv.X != ast.Expr(id) && !(pv.Value == ast.Expr(id) && pv.Tok == token.DEFINE) {
					ok = false
				}
			case *ast.IndexExpr:
				// v[i] read: the inner slice only, and not as the target of a store or of &
				if pv.X != ast.Expr(id) || id.Obj == p {
					ok = false
				} else if len(stack) > 1 {
					switch gp := stack[len(stack)-2].(type) {
					case *ast.AssignStmt:
						for _, l := range gp.Lhs {
							if l == ast.Expr(pv) {
								ok = false
							}
						}
					case *ast.IncDecStmt:
						ok = false
					case *ast.UnaryExpr:
						if gp.Op == token.AND {
							ok = false
						}
					}
				}
			default:
				ok = false
			}
		}
		stack = append(stack, n)
		return true
	})
	return ok
}

// ---------------------------------------------------------------- a pointer to an element of a slice parameter as the result

// elemPtrResult: result slot `slot` of type *T, and every return gives it `&s[i]` for ONE slice
// parameter s, or nil: the result is the INDEX (option Z): which element of the argument the
// pointer designates, None for nil.  (The address itself is not represented; &s[i] checks the
// index like a read.)  Returns the parameter.
func elemPtrResult(fd *ast.FuncDecl, slot, nres int) *ast.Object {
	var param *ast.Object
	ok, any := true, false
	ast.Inspect(fd.Body, func(n ast.Node) bool {
		switch v := n.(type) {
		case *ast.FuncLit:
			return false
		case *ast.ReturnStmt:
			if len(v.Results) != nres {
				ok = false
				return true
			}
			r := v.Results[slot]
			if id, isId := r.(*ast.Ident); isId && id.Name == "nil" && id.Obj == nil {
				return true
			}
			u, isU := r.(*ast.UnaryExpr)
			if !isU || u.Op != token.AND {
				ok = false
				return true
			}
			ix, isIx := u.X.(*ast.IndexExpr)
			if !isIx {
				ok = false
				return true
			}
			id, isId := ix.X.(*ast.Ident)
			if !isId || id.Obj == nil {
				ok = false
				return true
			}
			if _, isField := id.Obj.Decl.(*ast.Field); !isField || (param != nil && param != id.Obj) {
				ok = false
				return true
			}
			param, any = id.Obj, true
		}
		return true
	})
	if !ok || !any {
		return nil
	}
	return param
}

// elemPtrValue: the value of such a result at a return
func (c *fnCtx) elemPtrValue(r ast.Expr, pre *[]fnBind) string {
	if id, ok := r.(*ast.Ident); ok && id.Name == "nil" && id.Obj == nil {
		return "(@None Z)"
	}
	ix := r.(*ast.UnaryExpr).X.(*ast.IndexExpr)
	x := c.plainVar(ix.X)
	if x == nil || x.typ.k != "slice" || x.noElems {
		c.lostAt(r, "address of an element of %s (must be a list-represented slice parameter)", src(ix.X))
	}
	i, it := c.expr(ix.Index, pre)
	if !it.isNum() {
		c.lostAt(r, "index of type %s", it.k)
	}
	tm := c.tmp()
	*pre = append(*pre, fnBind{pat: tm, e: i, isLet: true})
	bindRaw(pre, "_", "go_get "+x.name+" "+tm) // &s[i] checks the index
	return "(Some " + tm + ")"
}

// ---------------------------------------------------------------- an iterator parameter that is only ranged over

// seqTypeOf: iter.Seq[T]
func (c *fnCtx) seqTypeOf(e ast.Expr) *fnType {
	ix, ok := e.(*ast.IndexExpr)
	if !ok {
		return nil
	}
	sel, ok := ix.X.(*ast.SelectorExpr)
	if !ok || sel.Sel.Name != "Seq" {
		return nil
	}
	if id, ok := sel.X.(*ast.Ident); !ok || id.Name != "iter" || id.Obj != nil {
		return nil
	}
	return &fnType{k: "seq", elem: c.goType(ix.Index)}
}

// seqOnlyRanged: the iter.Seq parameter p is mentioned only as the operand of range statements
func seqOnlyRanged(fd *ast.FuncDecl, p *ast.Object) bool {
	ranged := map[*ast.Ident]bool{}
	ast.Inspect(fd.Body, func(n ast.Node) bool {
		if r, ok := n.(*ast.RangeStmt); ok {
			if id, ok := r.X.(*ast.Ident); ok && id.Obj == p {
				ranged[id] = true
			}
		}
		return true
	})
	ok := true
	ast.Inspect(fd.Body, func(n ast.Node) bool {
		if id, isId := n.(*ast.Ident); isId && id.Obj == p && !ranged[id] {
			ok = false
		}
		return true
	})
	return ok
}

// seqRange: `for v := range it` over an iter.Seq[T] parameter: the iterator is represented by the
// sequence of values it yields (option (list T): None = the nil function, whose call panics), so
// the loop is a range over that list; stopping early (break, return) leaves the rest unconsumed.
// Returns the equivalent `for _, v := range <list>` (the same node every time the statement is
// translated, so that its Fixpoint is emitted once).
func (c *fnCtx) seqRange(v *ast.RangeStmt, pre *[]fnBind) *ast.RangeStmt {
	id, ok := v.X.(*ast.Ident)
	if !ok {
		return nil
	}
	x := c.lookup(id)
	if x == nil || x.typ.k != "seq" {
		return nil
	}
	if v.Value != nil || v.Tok != token.DEFINE {
		c.lostAt(v, "range over the iterator %s with two variables", x.name)
	}
	if c.seqLoops == nil {
		c.seqLoops = map[*ast.RangeStmt]*ast.RangeStmt{}
		c.seqLists = map[*ast.RangeStmt]*fnVar{}
	}
	rw := c.seqLoops[v]
	if rw == nil {
		w := c.newVar(x.name+"_seq", &fnType{k: "slice", elem: x.typ.elem}, "local")
		w.pos = v.Pos()
		obj := ast.NewObj(ast.Var, w.name)
		c.vars[obj] = w
		w.obj = obj
		lid := &ast.Ident{Name: w.name, NamePos: v.X.Pos(), Obj: obj}
		rw = &ast.RangeStmt{For: v.For, Key: &ast.Ident{Name: "_", NamePos: v.For}, Value: v.Key, TokPos: v.TokPos, Tok: v.Tok, Range: v.Range, X: lid, Body: v.Body}
		if v.Key == nil {
			rw.Key, rw.Value, rw.Tok = nil, nil, token.ILLEGAL
		}
		c.seqLoops[v], c.seqLists[v] = rw, w
	}
	bindRaw(pre, c.seqLists[v].name, "go_seq "+x.name)
	return rw
}
