package main

// Function-level translator (syntactic backend): objects of the standard library outside receiver
// fields, pooled objects, opaque interface values, package-level tables, methods that share their
// name with a function, switch statements.  See notes/fn-translator.md, "shell.go".
//
//   - an OBJECT PARAMETER `buf *bytes.Buffer` (a pointer to a struct of the standard library, used
//     only as the receiver of method calls and handed on to translated callees): an abstract state
//     {St_buf : Type}, the argument `buf : St_buf`, returned after the Go results (like a slice
//     parameter stored into), and one function argument per method called, as for object fields:
//     buf_WriteByte : St_buf -> Z -> res (go_error * St_buf).  Handing it to a translated callee
//     needs a variable of the same name there (the method arguments are shared by name).
//   - a POOLED OBJECT `x := pool.Get().(*pkg.T); defer pool.Put(x)` (pool a package-level
//     sync.Pool): x is an object variable whose initial state is the argument `pool_Get : St_x`
//     (whatever state the pool hands out); the deferred Put has no effect on the results (what the
//     next Get of ANOTHER call sees is outside the translation).  With T a struct of the file and
//     the two statements opening the body, x plays the receiver: the fields used are arguments
//     (the state of the pooled object) and the assigned fields are returned (what is put back).
//   - a method of an object that takes `p []byte`: the argument must be a composite literal (a
//     fresh slice nobody else holds), handed over by value.
//   - an interface value of the standard library (r io.Reader) is OPAQUE (fn_err.go); a value of
//     another opaque type handed to such a parameter goes through a conversion function argument
//     <iface>_of_<type> (Go's implicit conversion to the interface).
//   - `return s.buf` for an interface result, s.buf an object field, on every path: the result is
//     the object itself (its state).
//   - package-level `var t = [...]T{...}` / `[N]T{...}` / nested `[]T`, with constant elements,
//     never assigned, sliced, or used other than fully indexed (or measured): a constant of the
//     generated file, `Definition t : list ... := [...]`; an anonymous struct element type is the
//     Record <t>_elem (an embedded field is named after its type).  Indexing is go_get.
//   - a method and a function of the same name (Scanner.Split, Split): the method's Coq name is
//     <Recv>_<name>.
//   - switch: the listed functions that contain one are normalised first (hNormalizeFile of the
//     heap backend: switch -> if chain); the normalised text is quoted above the function.

import (
	"go/ast"
	"go/token"
	"strconv"
	"strings"
)

type fnGenX struct {
	byMethod   map[string]*fnFunc // "Recv.M" for methods that share their name with a listed function
	plainFuncs map[string]bool    // names of the listed functions without receiver
	pkgSpecs   map[*ast.ValueSpec]bool
	normText   map[string]string // spec -> the normalised source of the function
	globals    map[string]*globalTable
	globalOrd  []string
	tableOK    map[*ast.Object]string // "" = usable as a constant; else why not
}

type globalTable struct {
	typ  *fnType
	text string
}

type fnCtxX struct {
	externAs  map[string]*fnType       // the result type an external function is given at the call being translated (objInit)
	objByObj  map[*ast.Object]*objInfo // object parameters and pooled objects, by the variable
	objVar    map[string]*fnVar        // ... their variables, by name
	poolOf    map[*ast.Object]string   // pooled objects: the pool variable
	objResult map[int]bool             // result slots that are an object field handed out as an interface value
}

type pooledInfo struct {
	v     string
	obj   *ast.Object
	tname string
	pool  string
	rest  []ast.Stmt
}

func newFnGenX(normText map[string]string, specs []string) *fnGenX {
	x := &fnGenX{byMethod: map[string]*fnFunc{}, plainFuncs: map[string]bool{}, pkgSpecs: map[*ast.ValueSpec]bool{},
		normText: normText, globals: map[string]*globalTable{}, tableOK: map[*ast.Object]string{}}
	for _, sp := range specs {
		if !strings.ContainsAny(sp, ":.") {
			x.plainFuncs[sp] = true
		}
	}
	return x
}

func (x *fnCtxX) isObjVar(v *fnVar) bool {
	return x != nil && v != nil && x.objVar[v.name] == v
}

// ---------------------------------------------------------------- normalisation (switch)

func fnNormalize(f *ast.File, specs []string) (*ast.File, map[string]string) {
	want := map[string]bool{}
	for _, sp := range specs {
		if strings.Contains(sp, ":") {
			continue
		}
		fd := findFunc(f, sp)
		if fd == nil || fd.Body == nil {
			continue
		}
		has := false
		ast.Inspect(fd.Body, func(n ast.Node) bool {
			if _, ok := n.(*ast.SwitchStmt); ok {
				has = true
			}
			return !has
		})
		if has {
			want[hDeclSpec(fd)] = true
		}
	}
	if len(want) == 0 {
		return f, nil
	}
	return hNormalizeFile(f, fset.Position(f.Pos()).Filename, want)
}

// normComment: the normalised source, quoted above the generated function
func (g *fnGen) normComment(fn *fnFunc) string {
	if fn.decl == nil {
		return ""
	}
	t, ok := g.sx.normText[hDeclSpec(fn.decl)]
	if !ok {
		return ""
	}
	t = strings.ReplaceAll(strings.ReplaceAll(t, "(*", "( *"), "*)", "* )")
	return "(* normalised (switch -> if chain):\n" + t + "\n*)\n"
}

// ---------------------------------------------------------------- a method beside a function of the same name

func (g *fnGen) methodBesideFunc(fn *fnFunc) bool {
	if fn.recv == "" || !g.sx.plainFuncs[fn.name] || strings.HasPrefix(fn.spec, "lit:") {
		return false
	}
	g.sx.byMethod[fn.recv+"."+fn.name] = fn
	fn.name = fn.recv + "_" + fn.name
	if fn.decl == nil || fn.decl.Body == nil {
		fn.state = 3
		fn.lostMsg = "function not found"
	}
	return true
}

// ---------------------------------------------------------------- pooled objects

// poolGet: e is P.Get().(*T) with P a package-level variable initialised with &sync.Pool{...}:
// (P, T's type expression)
func (g *fnGen) poolGet(e ast.Expr) (string, ast.Expr) {
	ta, ok := e.(*ast.TypeAssertExpr)
	if !ok || ta.Type == nil {
		return "", nil
	}
	st, ok := ta.Type.(*ast.StarExpr)
	if !ok {
		return "", nil
	}
	call, ok := ta.X.(*ast.CallExpr)
	if !ok || len(call.Args) != 0 {
		return "", nil
	}
	sel, ok := call.Fun.(*ast.SelectorExpr)
	if !ok || sel.Sel.Name != "Get" {
		return "", nil
	}
	id, ok := sel.X.(*ast.Ident)
	if !ok || !g.isPoolVar(id) {
		return "", nil
	}
	return id.Name, st.X
}

func (g *fnGen) isPoolVar(id *ast.Ident) bool {
	if id.Obj == nil || id.Obj.Kind != ast.Var {
		return false
	}
	vs, ok := id.Obj.Decl.(*ast.ValueSpec)
	if !ok {
		return false
	}
	top := false
	for _, d := range g.file.Decls {
		if gd, ok := d.(*ast.GenDecl); ok && gd.Tok == token.VAR {
			for _, s := range gd.Specs {
				if s == ast.Spec(vs) {
					top = true
				}
			}
		}
	}
	if !top {
		return false
	}
	for i, n := range vs.Names {
		if n.Obj == id.Obj && i < len(vs.Values) {
			if u, ok := vs.Values[i].(*ast.UnaryExpr); ok && u.Op == token.AND {
				if cl, ok := u.X.(*ast.CompositeLit); ok {
					if s, ok := cl.Type.(*ast.SelectorExpr); ok {
						if p, ok := s.X.(*ast.Ident); ok && p.Name == "sync" && p.Obj == nil && s.Sel.Name == "Pool" {
							return true
						}
					}
				}
			}
		}
	}
	return false
}

// isPoolPut: s is `defer P.Put(x)`
func isPoolPut(s ast.Node, pool string, obj *ast.Object) bool {
	ds, ok := s.(*ast.DeferStmt)
	if !ok || len(ds.Call.Args) != 1 {
		return false
	}
	sel, ok := ds.Call.Fun.(*ast.SelectorExpr)
	if !ok || sel.Sel.Name != "Put" {
		return false
	}
	p, ok := sel.X.(*ast.Ident)
	if !ok || p.Name != pool {
		return false
	}
	a, ok := ds.Call.Args[0].(*ast.Ident)
	return ok && a.Obj == obj
}

// pooledRecvOf: a function without receiver whose body opens with
//
//	x := P.Get().(*T); defer P.Put(x)        (T a struct of the file)
//
// and uses x only as x.f / x.M(...): x plays the receiver from there on.
func (g *fnGen) pooledRecvOf(fd *ast.FuncDecl) *pooledInfo {
	if fd == nil || fd.Recv != nil || fd.Body == nil || len(fd.Body.List) < 2 {
		return nil
	}
	as, ok := fd.Body.List[0].(*ast.AssignStmt)
	if !ok || as.Tok != token.DEFINE || len(as.Lhs) != 1 || len(as.Rhs) != 1 {
		return nil
	}
	id, ok := as.Lhs[0].(*ast.Ident)
	if !ok || id.Obj == nil {
		return nil
	}
	pool, te := g.poolGet(as.Rhs[0])
	tid, ok := te.(*ast.Ident)
	if pool == "" || !ok || g.structs[tid.Name] == nil || !isPoolPut(fd.Body.List[1], pool, id.Obj) {
		return nil
	}
	pi := &pooledInfo{v: id.Name, obj: id.Obj, tname: tid.Name, pool: pool, rest: fd.Body.List[2:]}
	okUse := true
	for _, s := range pi.rest {
		var stack []ast.Node
		ast.Inspect(s, func(n ast.Node) bool {
			if n == nil {
				stack = stack[:len(stack)-1]
				return true
			}
			if u, ok := n.(*ast.Ident); ok && u.Obj == pi.obj {
				// only as the X of a selector
				if len(stack) == 0 {
					okUse = false
				} else if sel, ok := stack[len(stack)-1].(*ast.SelectorExpr); !ok || sel.X != ast.Expr(u) {
					okUse = false
				}
			}
			if _, ok := n.(*ast.FuncLit); ok {
				okUse = false
			}
			stack = append(stack, n)
			return true
		})
	}
	if !okUse {
		return nil
	}
	return pi
}

// ---------------------------------------------------------------- object parameters and pooled objects of the standard library

// stdObjType: *pkg.T with T a struct type of an imported package that is not of this file: (pkg, T)
func (c *fnCtx) stdObjType(e ast.Expr) (string, string) {
	st, ok := e.(*ast.StarExpr)
	if !ok {
		return "", ""
	}
	sel, ok := st.X.(*ast.SelectorExpr)
	if !ok {
		return "", ""
	}
	id, ok := sel.X.(*ast.Ident)
	if !ok || id.Obj != nil {
		return "", ""
	}
	ts := c.foreignTypeSpec(id.Name, sel.Sel.Name)
	if ts == nil || ts.TypeParams != nil {
		return "", ""
	}
	if _, isStruct := ts.Type.(*ast.StructType); !isStruct {
		return "", ""
	}
	return id.Name, sel.Sel.Name
}

func (c *fnCtx) newObjVar(id *ast.Ident, pkg, tname string, at ast.Node) *objInfo {
	if id.Name == "_" || id.Obj == nil {
		c.lostAt(at, "blank object variable")
	}
	if c.objs[id.Name] != nil {
		c.lostAt(at, "object variable %s: an object of that name exists already (the method arguments are shared by name)", id.Name)
	}
	o := &objInfo{field: id.Name, typ: &fnType{k: "obj", name: "St_" + id.Name}, pkg: pkg, tname: tname, methods: map[string]*fnType{}}
	c.objs[id.Name] = o
	c.sx.objByObj[id.Obj] = o
	return o
}

// scanObjVars (before the scan of the body): the object parameters and the pooled objects of the
// function, by syntax.  The variables of pooled objects are created here (the types of the method
// arguments need them); those of parameters in objParams, in parameter order.
func (c *fnCtx) scanObjVars(fd *ast.FuncDecl) {
	c.sx.objByObj, c.sx.objVar = map[*ast.Object]*objInfo{}, map[string]*fnVar{}
	c.sx.poolOf, c.sx.objResult = map[*ast.Object]string{}, map[int]bool{}
	for _, f := range fd.Type.Params.List {
		if pkg, tn := c.stdObjType(f.Type); pkg != "" {
			for _, n := range f.Names {
				c.newObjVar(n, pkg, tn, f)
			}
		}
	}
	var lists [][]ast.Stmt
	ast.Inspect(c.body, func(n ast.Node) bool {
		switch v := n.(type) {
		case *ast.BlockStmt:
			lists = append(lists, v.List)
		case *ast.CaseClause:
			lists = append(lists, v.Body)
		case *ast.FuncLit:
			return false
		}
		return true
	})
	for _, l := range lists {
		for i, s := range l {
			as, ok := s.(*ast.AssignStmt)
			if !ok || as.Tok != token.DEFINE || len(as.Lhs) != 1 || len(as.Rhs) != 1 {
				continue
			}
			pool, _ := c.g.poolGet(as.Rhs[0])
			if pool == "" {
				continue
			}
			ta := as.Rhs[0].(*ast.TypeAssertExpr)
			pkg, tn := c.stdObjType(ta.Type)
			id, isId := as.Lhs[0].(*ast.Ident)
			if pkg == "" || !isId || id.Obj == nil {
				c.lostAt(as, "pooled object %s (only x := pool.Get().(*pkg.T) for a struct of the standard library, or of the file as the first statement)", src(as.Rhs[0]))
			}
			if i+1 >= len(l) || !isPoolPut(l[i+1], pool, id.Obj) {
				c.lostAt(as, "pooled object %s that is not put back by `defer %s.Put(%s)` in the next statement", id.Name, pool, id.Name)
			}
			if assignsObj(c.body, id.Obj) {
				c.lostAt(as, "pooled object %s is assigned again", id.Name)
			}
			if len(c.loopsAround(as)) > 0 {
				c.lostAt(as, "pooled object %s taken inside a loop", id.Name)
			}
			o := c.newObjVar(id, pkg, tn, as)
			v := c.newVar(id.Name, o.typ, "local")
			v.obj, v.pos = id.Obj, id.Pos()
			c.vars[id.Obj] = v
			c.sx.objVar[id.Name] = v
			c.sx.poolOf[id.Obj] = pool
			// the state the pool hands out: an argument
			key := "pool:" + pool
			if c.extras[key] != nil {
				c.lostAt(as, "second object taken from the pool %s", pool)
			}
			x := c.extra(key, pool+"_Get")
			x.typ = &fnType{k: "raw", name: o.typ.coq(), params: []*fnType{o.typ}}
			c.setExtraType(key, o.typ.coq(), map[string]bool{o.typ.name: true})
		}
	}
}

// loopsAround: the loop statements of the body that contain n
func (c *fnCtx) loopsAround(n ast.Node) []ast.Node {
	var out []ast.Node
	ast.Inspect(c.body, func(x ast.Node) bool {
		switch x.(type) {
		case *ast.ForStmt, *ast.RangeStmt:
			if x.Pos() <= n.Pos() && n.End() <= x.End() {
				out = append(out, x)
			}
		}
		return true
	})
	return out
}

// objVarSyntax: e is an object parameter or a pooled object
func (c *fnCtx) objVarSyntax(e ast.Expr) *objInfo {
	if c.sx == nil {
		return nil
	}
	if id, ok := e.(*ast.Ident); ok && id.Obj != nil {
		return c.sx.objByObj[id.Obj]
	}
	return nil
}

// objParams: the parameters of field f are object parameters: handed in, threaded, handed back
func (c *fnCtx) objParams(f *ast.Field) bool {
	if len(f.Names) == 0 {
		return false
	}
	o := c.sx.objByObj[f.Names[0].Obj]
	if o == nil {
		return false
	}
	for _, n := range f.Names {
		o := c.sx.objByObj[n.Obj]
		v := c.newVar(n.Name, o.typ, "param")
		v.obj = n.Obj
		c.vars[n.Obj] = v
		c.sx.objVar[n.Name] = v
		c.fn.params = append(c.fn.params, &fnParam{goName: n.Name, v: v, mutated: true})
	}
	return true
}

// poolPutDefer: n is the `defer P.Put(x)` of a pooled object
func (c *fnCtx) poolPutDefer(n ast.Node) bool {
	ds, ok := n.(*ast.DeferStmt)
	if !ok || c.sx == nil || len(ds.Call.Args) != 1 {
		return false
	}
	a, ok := ds.Call.Args[0].(*ast.Ident)
	if !ok || a.Obj == nil {
		return false
	}
	pool, ok := c.sx.poolOf[a.Obj]
	return ok && isPoolPut(ds, pool, a.Obj)
}

// poolGetAssign: x := P.Get().(*pkg.T): x starts in the state the pool hands out
func (c *fnCtx) poolGetAssign(st *ast.AssignStmt, l, r ast.Expr, k func() term) (term, bool) {
	id, ok := l.(*ast.Ident)
	if !ok || id.Obj == nil || st.Tok != token.DEFINE {
		return nil, false
	}
	pool, ok := c.sx.poolOf[id.Obj]
	if !ok {
		return nil, false
	}
	v := c.vars[id.Obj]
	return tLet{v.name, c.extras["pool:"+pool].name, k()}, true
}

// objArg: the argument for an object parameter of a translated callee: an object variable of the
// same name and type (the method arguments of the callee are the caller's, by name)
func (c *fnCtx) objArg(cal *fnFunc, p *fnParam, a ast.Expr) *fnVar {
	id, ok := a.(*ast.Ident)
	var x *fnVar
	if ok {
		x = c.lookup(id)
	}
	if x == nil || !c.sx.isObjVar(x) {
		c.lostAt(a, "argument %s for the object parameter %s of %s (only an object variable)", src(a), p.goName, cal.name)
	}
	if x.name != p.v.name || x.typ.name != p.v.typ.name {
		c.lostAt(a, "argument %s for the object parameter %s of %s (the variable must have the same name: the method arguments are shared by name)", src(a), p.goName, cal.name)
	}
	return x
}

// opaqueArg: the argument for a parameter of an opaque (interface) type: a value of that type, or
// a value of another opaque type through the conversion function argument <to>_of_<from>
func (c *fnCtx) opaqueArg(a ast.Expr, want *fnType, pre *[]fnBind) string {
	y, t := c.expr(a, pre)
	if t.k != "opaque" {
		c.lostAt(a, "argument %s of type %s for a parameter of the interface type %s", src(a), t.k, want.name)
	}
	if t.name == want.name {
		return paren(y)
	}
	if len(c.loops) > 0 || c.lit != nil {
		c.lostAt(a, "conversion of %s to %s inside a loop or a function literal", t.name, want.name)
	}
	key := "conv:" + t.name + ":" + want.name
	x := c.extras[key]
	if x == nil {
		x = c.extra(key, want.name+"_of_"+t.name)
		typ := t.name + " -> " + want.name
		x.typ = &fnType{k: "raw", name: typ, params: []*fnType{t, want}}
		c.setExtraType(key, typ, map[string]bool{t.name: true, want.name: true})
	}
	return "(" + x.name + " " + paren(y) + ")"
}

// objZero: the zero value of an object field that is a struct BY VALUE (cur bytes.Buffer left out
// of a constructor literal): the argument <field>_zero : St_<field>
func (c *fnCtx) objZero(t *fnType, at ast.Node) string {
	for f, o := range c.objs {
		if o.typ != t {
			continue
		}
		if o.iface != nil || o.concrete || c.sx.objByObj != nil && c.sx.objVar[f] != nil {
			break
		}
		if ts := c.foreignTypeSpec(o.pkg, o.tname); ts == nil {
			break
		} else if _, isStruct := ts.Type.(*ast.StructType); !isStruct {
			break
		}
		if fv := c.fields[f]; fv == nil || !c.objFieldByValue(f) {
			break
		}
		if len(c.loops) > 0 || c.lit != nil {
			break
		}
		key := "zero:" + f
		x := c.extras[key]
		if x == nil {
			x = c.extra(key, f+"_zero")
			x.typ = &fnType{k: "raw", name: t.coq(), params: []*fnType{t}}
			c.setExtraType(key, t.coq(), map[string]bool{t.name: true})
		}
		return x.name
	}
	c.lostAt(at, "zero value of an object (only a field that holds a struct of the standard library by value)")
	return ""
}

// objFieldByValue: the receiver struct declares field f as pkg.T (not *pkg.T)
func (c *fnCtx) objFieldByValue(f string) bool {
	ts := c.g.structs[c.fn.recvType]
	if ts == nil {
		return false
	}
	_, types := structFields(ts.Type.(*ast.StructType))
	_, isSel := types[f].(*ast.SelectorExpr)
	return isSel
}

// objInit: the value a constructor literal gives an object field: a call of a declared external
// function (buf: bufio.NewReader(r)), whose result is taken to be that object: the function
// argument pkg_F : args -> res St_<field>
func (c *fnCtx) objInit(fv *fnVar, e ast.Expr, pre *[]fnBind) string {
	call, ok := e.(*ast.CallExpr)
	key := ""
	if ok {
		key = c.externKey(call)
	}
	if key == "" {
		c.lostAt(e, "value %s of an object field (only a call of a function declared extern:)", src(e))
	}
	if c.sx.externAs == nil {
		c.sx.externAs = map[string]*fnType{}
	}
	if c.extras[key] == nil {
		c.extra(key, strings.ReplaceAll(key, ".", "_")) // the literal of `return &T{...}` is not part of the scanned body
	}
	c.sx.externAs[key] = fv.typ
	defer delete(c.sx.externAs, key)
	vals, ts := c.externCall(key, call, pre)
	if len(vals) != 1 || ts[0] != fv.typ {
		c.lostAt(e, "value %s of an object field", src(e))
	}
	return vals[0]
}

// externResType: a result type of the external function key, read inside its package
func (c *fnCtx) externResType(key string, e ast.Expr) *fnType {
	if t := c.sx.externAs[key]; t != nil {
		return t // the call initialises an object field: the result is that object
	}
	saved := c.foreignPkg
	defer func() { c.foreignPkg = saved }()
	if i := strings.IndexByte(key, '.'); i > 0 {
		if t := func() *fnType {
			c.foreignPkg = key[:i]
			switch e.(type) {
			case *ast.StarExpr, *ast.SelectorExpr:
				return c.goTypeExt(e)
			case *ast.Ident:
				if ts := c.foreignTypeSpec(key[:i], e.(*ast.Ident).Name); ts != nil {
					return c.goTypeExt(e)
				}
			}
			return nil
		}(); t != nil {
			return t
		}
	}
	c.foreignPkg = saved
	return c.goType(e)
}

// objResults: a result slot of an interface type for which every return hands out the same object
// field (`return s.buf` as an io.Reader): the result is that object (its state)
func (c *fnCtx) objResults(fd *ast.FuncDecl) {
	for i, rt := range c.fn.results {
		if rt.k != "opaque" {
			continue
		}
		field, all, any := "", true, false
		ast.Inspect(c.body, func(n ast.Node) bool {
			switch v := n.(type) {
			case *ast.FuncLit:
				return false
			case *ast.ReturnStmt:
				any = true
				if len(v.Results) != len(c.fn.results) {
					all = false
					return true
				}
				sel, ok := v.Results[i].(*ast.SelectorExpr)
				if !ok || !c.isRecv(sel.X) || c.objs[sel.Sel.Name] == nil || c.fields[sel.Sel.Name] == nil || (field != "" && field != sel.Sel.Name) {
					all = false
					return true
				}
				field = sel.Sel.Name
			}
			return true
		})
		if all && any && field != "" {
			c.fn.results[i] = c.fields[field].typ
			c.sx.objResult[i] = true
		}
	}
}

// ---------------------------------------------------------------- package-level tables

func rootIdent(e ast.Expr) *ast.Ident {
	for {
		switch v := e.(type) {
		case *ast.ParenExpr:
			e = v.X
		case *ast.IndexExpr:
			e = v.X
		case *ast.SelectorExpr:
			e = v.X
		case *ast.StarExpr:
			e = v.X
		case *ast.SliceExpr:
			e = v.X
		case *ast.Ident:
			return v
		default:
			return nil
		}
	}
}

// tableConstant: why the package-level variable obj cannot be read as a constant ("" if it can):
// every occurrence in the file must be fully indexed (down to an element that is not a table) or
// measured with len, and never on the left of an assignment, under & or sliced
func (g *fnGen) tableConstant(obj *ast.Object, depth int) string {
	if why, ok := g.sx.tableOK[obj]; ok {
		return why
	}
	why := ""
	bad := func(n ast.Node, what string) {
		if why == "" {
			why = what + " at line " + strconv.Itoa(fset.Position(n.Pos()).Line)
		}
	}
	var stack []ast.Node
	ast.Inspect(g.file, func(n ast.Node) bool {
		if n == nil {
			stack = stack[:len(stack)-1]
			return true
		}
		switch v := n.(type) {
		case *ast.AssignStmt:
			for _, l := range v.Lhs {
				if id := rootIdent(l); id != nil && id.Obj == obj {
					bad(v, "it is assigned")
				}
			}
		case *ast.IncDecStmt:
			if id := rootIdent(v.X); id != nil && id.Obj == obj {
				bad(v, "it is assigned")
			}
		case *ast.UnaryExpr:
			if id := rootIdent(v.X); v.Op == token.AND && id != nil && id.Obj == obj {
				bad(v, "its address is taken")
			}
		case *ast.RangeStmt:
			if id := rootIdent(v.X); id != nil && id.Obj == obj {
				bad(v, "it is ranged over")
			}
		case *ast.Ident:
			if v.Obj == obj && len(stack) > 0 {
				if _, isDecl := stack[len(stack)-1].(*ast.ValueSpec); isDecl {
					break
				}
				// climb the index chain
				var cur ast.Node = v
				d := 0
				i := len(stack) - 1
				for ; i >= 0; i-- {
					if p, ok := stack[i].(*ast.ParenExpr); ok && p.X == cur {
						cur = p
						continue
					}
					if ix, ok := stack[i].(*ast.IndexExpr); ok && ix.X == cur {
						cur = ix
						d++
						continue
					}
					break
				}
				if d < depth {
					isLen := false
					if i >= 0 {
						if call, ok := stack[i].(*ast.CallExpr); ok && isBuiltin(call, "len", 1) && call.Args[0] == cur {
							isLen = true
						}
					}
					if !isLen {
						bad(v, "it is used without being indexed down to an element")
					}
				}
			}
		}
		stack = append(stack, n)
		return true
	})
	g.sx.tableOK[obj] = why
	return why
}

// globalTable: id names a package-level variable initialised with an array / slice literal of
// constants: the name of its definition in the generated file and its type
func (c *fnCtx) globalTable(id *ast.Ident) (string, *fnType) {
	if id.Obj == nil || id.Obj.Kind != ast.Var || c.lookup(id) != nil {
		return "", nil
	}
	if gt := c.g.sx.globals[id.Name]; gt != nil {
		return id.Name, gt.typ
	}
	vs, ok := id.Obj.Decl.(*ast.ValueSpec)
	if !ok {
		return "", nil
	}
	top := false
	for _, d := range c.g.file.Decls {
		if gd, ok := d.(*ast.GenDecl); ok && gd.Tok == token.VAR {
			for _, s := range gd.Specs {
				if s == ast.Spec(vs) {
					top = true
				}
			}
		}
	}
	var lit *ast.CompositeLit
	for i, n := range vs.Names {
		if n.Obj == id.Obj && i < len(vs.Values) {
			lit, _ = vs.Values[i].(*ast.CompositeLit)
		}
	}
	if !top || lit == nil || vs.Type != nil {
		return "", nil
	}
	if _, isArr := lit.Type.(*ast.ArrayType); !isArr {
		return "", nil
	}
	if _, isFn := c.g.byCall[id.Name]; isFn || fnReserved[id.Name] {
		c.lostAt(id, "package-level table %s (its name is taken)", id.Name)
	}
	t, depth := c.tableType(id.Name, lit.Type)
	if why := c.g.tableConstant(id.Obj, depth); why != "" {
		c.lostAt(id, "package-level variable %s as a constant table: %s", id.Name, why)
	}
	val := c.tableValue(lit, lit.Type, t)
	text := "(* var " + id.Name + " = " + strings.ReplaceAll(strings.ReplaceAll(src(lit.Type), "(*", "( *"), "*)", "* )") + "{...}: never assigned *)\n" +
		"Definition " + id.Name + " : " + t.coq() + " :=\n  " + val + ".\n"
	c.g.sx.globals[id.Name] = &globalTable{typ: t, text: text}
	c.g.sx.globalOrd = append(c.g.sx.globalOrd, id.Name)
	return id.Name, t
}

func (x *fnGenX) globalText() string {
	var b strings.Builder
	for _, n := range x.globalOrd {
		b.WriteString(x.globals[n].text)
		b.WriteString("\n")
	}
	return b.String()
}

// tableType: [N]T, [...]T, []T (nested) over integers or an anonymous struct of integer fields
func (c *fnCtx) tableType(name string, e ast.Expr) (*fnType, int) {
	at, ok := e.(*ast.ArrayType)
	if !ok {
		c.lostAt(e, "table type %s", src(e))
	}
	if inner, ok := at.Elt.(*ast.ArrayType); ok {
		t, d := c.tableType(name, inner)
		return &fnType{k: "table", elem: t}, d + 1
	}
	if st, ok := at.Elt.(*ast.StructType); ok {
		return &fnType{k: "table", elem: c.anonStruct(name+"_elem", st)}, 1
	}
	t := c.goType(at.Elt)
	if !t.isNum() && t.k != "bool" {
		c.lostAt(e, "table of %s", src(at.Elt))
	}
	return &fnType{k: "table", elem: t}, 1
}

// anonStruct: struct { state; action } as a Record; an embedded field is named after its type
func (c *fnCtx) anonStruct(name string, st *ast.StructType) *fnType {
	t := &fnType{k: "struct", name: name}
	var fs []string
	for _, f := range st.Fields.List {
		ft := c.goType(f.Type)
		if !ft.isNum() && ft.k != "bool" {
			c.lostAt(f, "field of type %s in an anonymous struct", src(f.Type))
		}
		var ns []string
		for _, n := range f.Names {
			ns = append(ns, n.Name)
		}
		if len(ns) == 0 {
			id, ok := f.Type.(*ast.Ident)
			if !ok {
				c.lostAt(f, "embedded field %s", src(f.Type))
			}
			ns = []string{id.Name}
		}
		for _, n := range ns {
			t.fnames = append(t.fnames, n)
			t.res = append(t.res, ft)
			fs = append(fs, name+"_"+n+" : "+ft.coq())
		}
	}
	if !c.g.usedStructs[name] {
		if c.g.structs[name] != nil {
			c.lostAt(st, "anonymous struct %s: a struct of that name is declared in this file", name)
		}
		c.g.usedStructs[name] = true
		c.g.structOrder = append(c.g.structOrder, name)
		c.g.recordText[name] = "(* " + src(st) + " *)\nRecord " + name + " : Type := mk_" + name + " { " + strings.Join(fs, "; ") + " }.\n"
	}
	return t
}

func (c *fnCtx) tableZero(t *fnType) string {
	switch t.k {
	case "table":
		return "[]"
	case "struct":
		s := "mk_" + t.name
		for _, ft := range t.res {
			s += " " + c.tableZero(ft)
		}
		return "(" + s + ")"
	case "bool":
		return "false"
	}
	return "0"
}

// tableValue: the literal with keyed elements placed, gaps filled with zero values, constants evaluated
func (c *fnCtx) tableValue(lit *ast.CompositeLit, te ast.Expr, t *fnType) string {
	switch t.k {
	case "table":
		at, _ := te.(*ast.ArrayType)
		var eltT ast.Expr
		if at != nil {
			eltT = at.Elt
		}
		vals := map[int64]string{}
		var idx, max int64
		for _, el := range lit.Elts {
			e := el
			if kv, ok := el.(*ast.KeyValueExpr); ok {
				n, ok := c.constVal(kv.Key)
				if !ok || n < 0 || n > 1<<16 {
					c.lostAt(kv, "table index %s (must be a small constant)", src(kv.Key))
				}
				idx, e = n, kv.Value
			}
			if _, dup := vals[idx]; dup {
				c.lostAt(el, "table index %d set twice", idx)
			}
			if t.elem.k == "table" || t.elem.k == "struct" {
				sub, ok := e.(*ast.CompositeLit)
				if !ok || sub.Type != nil {
					c.lostAt(e, "table element %s (only a literal with its type elided)", src(e))
				}
				vals[idx] = c.tableValue(sub, eltT, t.elem)
			} else {
				vals[idx] = c.tableScalar(e, t.elem)
			}
			idx++
			if idx > max {
				max = idx
			}
		}
		if at != nil && at.Len != nil {
			if _, isEll := at.Len.(*ast.Ellipsis); !isEll {
				n, ok := c.constVal(at.Len)
				if !ok || n < max || n > 1<<16 {
					c.lostAt(at, "array length %s", src(at.Len))
				}
				max = n
			}
		}
		z := c.tableZero(t.elem)
		var xs []string
		for i := int64(0); i < max; i++ {
			if v, ok := vals[i]; ok {
				xs = append(xs, v)
			} else {
				xs = append(xs, z)
			}
		}
		sep := "; "
		if t.elem.k == "table" {
			sep = ";\n   "
		}
		return "[" + strings.Join(xs, sep) + "]"
	case "struct":
		if len(lit.Elts) == 0 {
			return c.tableZero(t)
		}
		vals := make([]string, len(t.fnames))
		for i, el := range lit.Elts {
			if kv, ok := el.(*ast.KeyValueExpr); ok {
				kid, ok := kv.Key.(*ast.Ident)
				if !ok || t.fieldIndex(kid.Name) < 0 {
					c.lostAt(kv, "struct literal key %s", src(kv.Key))
				}
				vals[t.fieldIndex(kid.Name)] = c.tableScalar(kv.Value, t.res[t.fieldIndex(kid.Name)])
				continue
			}
			if len(lit.Elts) != len(t.fnames) {
				c.lostAt(lit, "struct literal (number of values)")
			}
			vals[i] = c.tableScalar(el, t.res[i])
		}
		s := "mk_" + t.name
		for i, v := range vals {
			if v == "" {
				v = c.tableZero(t.res[i])
			}
			s += " " + v
		}
		return "(" + s + ")"
	}
	c.lostAt(lit, "table value")
	return ""
}

func (c *fnCtx) tableScalar(e ast.Expr, t *fnType) string {
	if t.k == "bool" {
		if id, ok := e.(*ast.Ident); ok && id.Obj == nil && (id.Name == "true" || id.Name == "false") {
			return id.Name
		}
		c.lostAt(e, "table element %s", src(e))
	}
	n, ok := c.constVal(e)
	if !ok {
		c.lostAt(e, "table element %s (must be a constant)", src(e))
	}
	return zlit(n)
}
