package main

// Further constructs of the function-level translator (see notes/fn-translator.md):
//   - the canonical mutex prologue (c.mu.Lock(); defer c.mu.Unlock()) has no effect in the
//     sequential translation; a mutex anywhere else is lost
//   - object fields: a receiver field of an interface type declared in the file, or a pointer to
//     a struct of another package of the module, whose methods are called: an abstract state type
//     St_<field> threaded through the function and one function argument per method
//   - maps without iteration (go_map of FnRt.v)
//   - struct values of a type declared in the file: a Coq Record per Go type
//   - panic(fmt.Sprintf("format", args...)): the format string is the message
//   - a function literal translated as a method of the pointer variable it captures (lit:F#k(x))

import (
	"go/ast"
	"go/parser"
	"go/token"
	"os"
	"path/filepath"
	"strconv"
	"strings"
)

// ---------------------------------------------------------------- type parameters under other names

// typeParamsAs registers the type parameters of the receiver's struct under the names the method
// gives them (func (c *Cache[K, _]) ...): the generated code uses the method's names (the
// struct's own name for _); the struct's names stay bound to the same types, for the field types.
func (c *fnCtx) typeParamsAs(fl *ast.FieldList, as []string, at ast.Node) {
	if fl == nil {
		return
	}
	i := 0
	for _, f := range fl.List {
		for _, nm := range f.Names {
			name := as[i]
			i++
			if name == "_" {
				name = nm.Name
			}
			switch ct := f.Type.(type) {
			case *ast.Ident:
				if ct.Name == "any" || ct.Name == "comparable" {
					t := &fnType{k: "elem", name: name}
					c.elemT[nm.Name] = t
					c.elemT[name] = t
					continue
				}
			case *ast.UnaryExpr:
				if ct.Op == token.TILDE && name == nm.Name {
					c.elemT[nm.Name] = c.goType(ct.X)
					continue
				}
			}
			c.lostAt(at, "type constraint %s", src(f.Type))
		}
	}
}

// ---------------------------------------------------------------- the mutex prologue

func isMutexType(e ast.Expr) bool {
	sel, ok := e.(*ast.SelectorExpr)
	if !ok {
		return false
	}
	id, ok := sel.X.(*ast.Ident)
	return ok && id.Name == "sync" && id.Obj == nil && (sel.Sel.Name == "Mutex" || sel.Sel.Name == "RWMutex")
}

// mutexCall: c.f.M() with f a mutex field of the receiver: (f, M).
func (c *fnCtx) mutexCall(e ast.Expr, fieldTypes map[string]ast.Expr) (string, string) {
	call, ok := e.(*ast.CallExpr)
	if !ok || len(call.Args) != 0 {
		return "", ""
	}
	sel, ok := call.Fun.(*ast.SelectorExpr)
	if !ok {
		return "", ""
	}
	inner, ok := sel.X.(*ast.SelectorExpr)
	if !ok {
		return "", ""
	}
	id, ok := inner.X.(*ast.Ident)
	if !ok || c.fn.recvVar == "" || id.Name != c.fn.recvVar {
		return "", ""
	}
	if t, ok := fieldTypes[inner.Sel.Name]; !ok || !isMutexType(t) {
		return "", ""
	}
	return inner.Sel.Name, sel.Sel.Name
}

// mutexPrologue: the body without its first two statements if they are
// c.f.Lock(); defer c.f.Unlock()  (or RLock / RUnlock) on a sync.Mutex / sync.RWMutex field.
// Holding the lock for the whole call has no effect in the sequential translation.
func (c *fnCtx) mutexPrologue(fd *ast.FuncDecl, fieldTypes map[string]ast.Expr) ([]ast.Stmt, bool) {
	l := fd.Body.List
	if len(l) < 2 {
		return nil, false
	}
	es, ok := l[0].(*ast.ExprStmt)
	if !ok {
		return nil, false
	}
	ds, ok := l[1].(*ast.DeferStmt)
	if !ok {
		return nil, false
	}
	f1, m1 := c.mutexCall(es.X, fieldTypes)
	f2, m2 := c.mutexCall(ds.Call, fieldTypes)
	if f1 == "" || f1 != f2 {
		return nil, false
	}
	if (m1 == "Lock" && m2 == "Unlock") || (m1 == "RLock" && m2 == "RUnlock") {
		return l[2:], true
	}
	return nil, false
}

// ---------------------------------------------------------------- object fields

type objInfo struct {
	field    string
	typ      *fnType // k "obj", name St_<field>
	iface    *ast.TypeSpec
	pkg      string // foreign: the import name, and the type
	tname    string
	targs    []ast.Expr
	writes   []string // receiver fields the methods may write (spec writes:Type.field:...)
	concrete bool     // the state is not abstract: a named map type of another package
	methods  map[string]*fnType
	seqRes   map[string]bool // iterator methods (result iter.Seq[X], or only a yield func(X) bool parameter): the list of the values they yield
	selfRes  map[string]bool // methods whose only result is a pointer to the object's own struct (the receiver handed back): no result
}

func baseAndArgs(e ast.Expr) (ast.Expr, []ast.Expr) {
	switch v := e.(type) {
	case *ast.IndexExpr:
		return v.X, []ast.Expr{v.Index}
	case *ast.IndexListExpr:
		return v.X, v.Indices
	}
	return e, nil
}

// objectField: is the receiver field f an object (only its methods are called)?
func (c *fnCtx) objectField(recvType, f string, t ast.Expr) *objInfo {
	o := &objInfo{field: f, typ: &fnType{k: "obj", name: "St_" + f}, methods: map[string]*fnType{}, writes: c.g.writes[recvType+"."+f]}
	if st, ok := t.(*ast.StarExpr); ok {
		base, args := baseAndArgs(st.X)
		if sel, ok := base.(*ast.SelectorExpr); ok {
			if id, ok := sel.X.(*ast.Ident); ok && id.Obj == nil {
				o.pkg, o.tname, o.targs = id.Name, sel.Sel.Name, args
				return o
			}
		}
		return nil
	}
	base, args := baseAndArgs(t)
	if id, ok := base.(*ast.Ident); ok {
		if ts := c.g.ifaces[id.Name]; ts != nil {
			o.iface, o.targs = ts, args
			return o
		}
	}
	if sel, ok := base.(*ast.SelectorExpr); ok {
		if id, ok := sel.X.(*ast.Ident); ok && id.Obj == nil && c.g.foreignFiles(c, id.Name) != nil {
			o.pkg, o.tname, o.targs = id.Name, sel.Sel.Name, args
			// a named map type of another package: the state is the map itself (it can be
			// ranged over and measured); its methods are function arguments all the same
			if mt := c.foreignNamedMapTypeOf(sel, args); mt != nil {
				o.typ = mt
				o.concrete = true
			}
			return o
		}
	}
	return nil
}

// objCallSyntax (during the scan of the body): c.f.M(...) with f an object field.
func (c *fnCtx) objCallSyntax(v *ast.CallExpr, isRecvIdent func(ast.Expr) bool) (*objInfo, string) {
	sel, ok := v.Fun.(*ast.SelectorExpr)
	if !ok {
		return nil, ""
	}
	if o := c.objVarSyntax(sel.X); o != nil {
		return o, sel.Sel.Name // x.M(...) on an object parameter or a pooled object
	}
	inner, ok := sel.X.(*ast.SelectorExpr)
	if !ok || !isRecvIdent(inner.X) {
		return nil, ""
	}
	if o := c.objs[inner.Sel.Name]; o != nil {
		return o, sel.Sel.Name
	}
	return nil, ""
}

// objCallOf (during translation): the field variable and method of c.f.M(...).
func (c *fnCtx) objCallOf(v *ast.CallExpr) (*fnVar, string) {
	sel, ok := v.Fun.(*ast.SelectorExpr)
	if !ok {
		return nil, ""
	}
	if o := c.objVarSyntax(sel.X); o != nil {
		return c.sx.objVar[o.field], sel.Sel.Name // x.M(...) on an object parameter or a pooled object
	}
	inner, ok := sel.X.(*ast.SelectorExpr)
	if !ok || !c.isRecv(inner.X) {
		return nil, ""
	}
	if fv := c.fields[inner.Sel.Name]; fv != nil && c.objs[inner.Sel.Name] != nil {
		return fv, sel.Sel.Name
	}
	return nil, ""
}

func (c *fnCtx) objOf(fv *fnVar) *objInfo {
	for _, o := range c.objs {
		if o.typ == fv.typ {
			return o
		}
	}
	fail("unsupported object field %s", fv.name)
	return nil
}

// withTypeArgs evaluates f with the type parameters names bound to the types of args.
func (c *fnCtx) withTypeArgs(names []string, args []ast.Expr, at ast.Node, f func()) {
	if len(names) != len(args) {
		c.lostAt(at, "type arguments %d (declared: %d)", len(args), len(names))
	}
	var ts []*fnType
	for _, a := range args {
		ts = append(ts, c.goType(a))
	}
	saved := map[string]*fnType{}
	had := map[string]bool{}
	for i, n := range names {
		saved[n], had[n] = c.elemT[n], c.elemT[n] != nil
		c.elemT[n] = ts[i]
	}
	defer func() {
		for _, n := range names {
			if had[n] {
				c.elemT[n] = saved[n]
			} else {
				delete(c.elemT, n)
			}
		}
	}()
	f()
}

func fieldListNames(fl *ast.FieldList) []string {
	var ns []string
	if fl != nil {
		for _, f := range fl.List {
			for _, n := range f.Names {
				ns = append(ns, n.Name)
			}
		}
	}
	return ns
}

// objMethodType: the signature of method m of the object field, from the interface declaration
// of the file or from the source of the other package.
func (c *fnCtx) objMethodType(fv *fnVar, m string, at ast.Node) *fnType {
	o := c.objOf(fv)
	if t, ok := o.methods[m]; ok {
		return t
	}
	var ft *fnType
	if o.iface != nil {
		it := o.iface.Type.(*ast.InterfaceType)
		var mt *ast.FuncType
		for _, f := range it.Methods.List {
			for _, n := range f.Names {
				if n.Name == m {
					mt, _ = f.Type.(*ast.FuncType)
				}
			}
		}
		if mt == nil {
			c.lostAt(at, "method %s of interface %s (not declared there)", m, o.iface.Name.Name)
		}
		c.withTypeArgs(fieldListNames(o.iface.TypeParams), o.targs, at, func() { ft = c.goType(mt) })
	} else {
		fd := c.g.foreignMethod(c, o.pkg, o.tname, m, at)
		_, _, names := recvInfo(fd)
		if fd.Recv == nil {
			names = nil // a method of an interface of the other package
			if len(o.targs) > 0 {
				c.lostAt(at, "method %s.%s of a generic interface of another package", o.field, m)
			}
		}
		saved := c.foreignPkg
		c.foreignPkg = o.pkg
		func() {
			defer func() { c.foreignPkg = saved }()
			if fd.Recv == nil {
				ft = c.goType(fd.Type)
			} else {
				typ := fd.Type
				if r := fd.Type.Results; r != nil && len(r.List) == 1 && len(r.List[0].Names) == 0 {
					if st, ok := r.List[0].Type.(*ast.StarExpr); ok {
						if b, _ := baseAndArgs(st.X); b != nil {
							if id, ok := b.(*ast.Ident); ok && id.Name == o.tname && returnsOnlyRecv(fd) {
								// func (c *Cursor[T]) Next() *Cursor[T] { ...; return c }: the receiver
								// handed back: no result (a call used for its value is lost)
								cp := *fd.Type
								cp.Results = nil
								typ = &cp
								if o.selfRes == nil {
									o.selfRes = map[string]bool{}
								}
								o.selfRes[m] = true
							}
						}
					}
				}
				objRes := map[int]*fnType{}
				if r := typ.Results; r != nil {
					var fl []*ast.Field
					changed := false
					for i, f := range r.List {
						if st, ok := f.Type.(*ast.StarExpr); ok && len(f.Names) == 0 && len(r.List) == r.NumFields() {
							if bb, _ := baseAndArgs(st.X); bb != nil {
								if id, ok := bb.(*ast.Ident); ok {
									for _, o2 := range c.objs {
										if o2 != o && o2.iface == nil && o2.pkg == o.pkg && o2.tname == id.Name && !o2.concrete {
											// a pointer to the struct of ANOTHER object field of the receiver
											// (Tree.Cursor(key) *Cursor[T] with it.c a *stree.Cursor): an object
											// of that field's kind
											objRes[i] = o2.typ
										}
									}
								}
							}
						}
						if objRes[i] != nil {
							fl = append(fl, &ast.Field{Type: ast.NewIdent("bool")})
							changed = true
						} else {
							fl = append(fl, f)
						}
					}
					if changed {
						cp := *typ
						cp.Results = &ast.FieldList{List: fl}
						typ = &cp
					}
				}
				defer func() {
					for i, t := range objRes {
						if ft != nil && i < len(ft.res) {
							ft.res[i] = t
						}
					}
				}()
				if it := iterMethodType(typ); it != nil {
					// an iterator method: represented by the list of the values it yields
					typ = it
					if o.seqRes == nil {
						o.seqRes = map[string]bool{}
					}
					o.seqRes[m] = true
				}
				c.withTypeArgs(names, o.targs, at, func() { ft = c.goType(typ) })
			}
		}()
	}
	for i, p := range ft.params {
		switch p.k {
		case "int", "byte", "bool", "string", "elem", "struct", "unit", "u64", "err", "opaque":
		case "slice":
			if p.elem.isNum() && !(ft.variadic && i == len(ft.params)-1) {
				break // p []byte: the argument must be a composite literal (checked at the call): nobody else holds it
			}
			if !(ft.variadic && i == len(ft.params)-1) || p.elem.k == "slice" || p.elem.k == "map" {
				c.lostAt(at, "method %s.%s with a slice parameter (aliasing)", o.field, m)
			}
		default:
			c.lostAt(at, "method %s.%s with a parameter of type %s", o.field, m, p.k)
		}
	}
	for _, p := range ft.res {
		switch p.k {
		case "int", "byte", "bool", "string", "elem", "struct", "unit", "u64", "err":
		case "map":
			// handed back by content; which map object it is, is not represented
		case "obj":
			// an object of the kind of another object field (see above): only stored into that field
		case "slice":
			if !o.seqRes[m] {
				c.lostAt(at, "method %s.%s with a result of type %s", o.field, m, p.k)
			}
		default:
			c.lostAt(at, "method %s.%s with a result of type %s", o.field, m, p.k)
		}
	}
	o.methods[m] = ft
	return ft
}

// foreignMethod: the declaration of (pkg.T).m in another package of the same module.
func (g *fnGen) foreignMethod(c *fnCtx, pkg, tname, m string, at ast.Node) *ast.FuncDecl {
	files := g.foreignFiles(c, pkg)
	if files == nil {
		c.lostAt(at, "package %s (source not found)", pkg)
	}
	// a method of an interface type of that package
	for _, f := range files {
		for _, d := range f.Decls {
			gd, ok := d.(*ast.GenDecl)
			if !ok || gd.Tok != token.TYPE {
				continue
			}
			for _, sp := range gd.Specs {
				ts := sp.(*ast.TypeSpec)
				it, isIface := ts.Type.(*ast.InterfaceType)
				if !isIface || ts.Name.Name != tname {
					continue
				}
				for _, mf := range it.Methods.List {
					for _, n := range mf.Names {
						if ft, ok := mf.Type.(*ast.FuncType); ok && n.Name == m {
							return &ast.FuncDecl{Name: ast.NewIdent(m), Type: ft}
						}
					}
				}
			}
		}
	}
	for _, f := range files {
		for _, d := range f.Decls {
			if fd, ok := d.(*ast.FuncDecl); ok && fd.Name.Name == m {
				if _, tn, _ := recvInfo(fd); tn == tname {
					return fd
				}
			}
		}
	}
	c.lostAt(at, "method %s.%s.%s (source not found in the module)", pkg, tname, m)
	return nil
}

// parseImport: the non-test files of an imported package: a package of the module (the nearest
// go.mod above the file being translated) or of the standard library (GOROOT/src).
func (g *fnGen) parseImport(path string) []*ast.File {
	var files []*ast.File
	dir := filepath.Dir(fset.Position(g.file.Pos()).Filename)
	root, mod := "", ""
	for d := dir; ; d = filepath.Dir(d) {
		if data, err := os.ReadFile(filepath.Join(d, "go.mod")); err == nil {
			for _, line := range strings.Split(string(data), "\n") {
				if strings.HasPrefix(line, "module ") {
					root, mod = d, strings.TrimSpace(strings.TrimPrefix(line, "module "))
				}
			}
			break
		}
		if d == filepath.Dir(d) {
			break
		}
	}
	pdir := ""
	if root != "" && (path == mod || strings.HasPrefix(path, mod+"/")) {
		pdir = filepath.Join(root, strings.TrimPrefix(strings.TrimPrefix(path, mod), "/"))
	} else if !strings.Contains(strings.SplitN(path, "/", 2)[0], ".") {
		pdir = filepath.Join(goroot(), "src", path)
	}
	if pdir == "" {
		return nil
	}
	ents, _ := os.ReadDir(pdir)
	for _, e := range ents {
		if strings.HasSuffix(e.Name(), ".go") && !strings.HasSuffix(e.Name(), "_test.go") {
			if f, err := parser.ParseFile(fset, filepath.Join(pdir, e.Name()), nil, 0); err == nil {
				files = append(files, f)
			}
		}
	}
	return files
}

// typeKnownExtra fills in the type of a function argument whose type does not depend on a call:
// a method of an object field (obj:field.M) or the equality of a map key type (eqb:K).
func (c *fnCtx) typeKnownExtra(key string) {
	x := c.extras[key]
	if x == nil || x.typ.name != "?" {
		return
	}
	var typ string
	var mention []*fnType
	switch {
	case strings.HasPrefix(key, "eqb:"):
		k := strings.TrimPrefix(key, "eqb:")
		kt := c.elemT[k]
		if kt == nil {
			kt = &fnType{k: "elem", name: k}
		}
		typ = kt.coq() + " -> " + kt.coq() + " -> bool"
		mention = []*fnType{kt}
	case strings.HasPrefix(key, "objnil:"):
		typ = "bool"
	case strings.HasPrefix(key, "objnilval:"):
		fv := c.fields[strings.TrimPrefix(key, "objnilval:")]
		if fv == nil {
			return
		}
		typ = fv.typ.coq()
		mention = []*fnType{fv.typ}
	case strings.HasPrefix(key, "obj:"):
		fm := strings.TrimPrefix(key, "obj:")
		i := strings.IndexByte(fm, '.')
		fv := c.fields[fm[:i]]
		if fv == nil {
			fv = c.sx.objVar[fm[:i]] // an object parameter or a pooled object
		}
		if fv == nil {
			return
		}
		o := c.objOf(fv)
		ft := c.objMethodType(fv, fm[i+1:], c.fn.decl)
		// St -> (fields its callbacks write) -> arguments -> res (results * St * those fields)
		parts := []string{fv.typ.coq()}
		out := []string{}
		mention = append(mention, fv.typ)
		for _, w := range o.writes {
			wv := c.fields[w]
			if wv == nil {
				c.lostAt(c.fn.decl, "field %s written by the methods of %s", w, o.field)
			}
			parts = append(parts, arrowArg(wv.typ.coq()))
			mention = append(mention, wv.typ)
		}
		for _, p := range ft.params {
			parts = append(parts, arrowArg(p.coq()))
			mention = append(mention, p)
		}
		for _, r := range ft.res {
			out = append(out, arrowArg(r.coq()))
			mention = append(mention, r)
		}
		out = append(out, fv.typ.coq())
		for _, w := range o.writes {
			out = append(out, arrowArg(c.fields[w].typ.coq()))
		}
		typ = strings.Join(parts, " -> ") + " -> res " + paren(strings.Join(out, " * "))
	default:
		return
	}
	x.typ = &fnType{k: "raw", name: typ, params: mention}
	tset := map[string]bool{}
	for _, t := range mention {
		t.mentionsT(tset)
	}
	c.setExtraType(key, typ, tset)
}

// objCall: do (results, St, written fields) <- field_M St (written fields) args
func (c *fnCtx) objCall(fv *fnVar, m string, v *ast.CallExpr, pre *[]fnBind, want []string) ([]string, []*fnType) {
	o := c.objOf(fv)
	ft := c.objMethodType(fv, m, v)
	nfix := len(ft.params)
	if ft.variadic {
		nfix--
	}
	if v.Ellipsis.IsValid() || len(v.Args) < nfix || (!ft.variadic && len(v.Args) != nfix) {
		c.lostAt(v, "call of %s.%s (arity)", o.field, m)
	}
	x := c.extras["obj:"+o.field+"."+m]
	if x == nil {
		c.lostAt(v, "call of %s.%s here", o.field, m)
	}
	if o.selfRes[m] {
		for _, w := range want {
			if w != "" {
				c.lostAt(v, "the receiver returned by %s.%s used as a value", o.field, m)
			}
		}
	}
	snap := c.rangedSnapshot(pre, fv)
	s := x.name + " " + fv.name
	for _, w := range o.writes {
		s += " " + c.fields[w].name
	}
	var rest []string
	for i, a := range v.Args {
		y, yt := c.expr(a, pre)
		c.noAlias(a, yt)
		if _, isLit := a.(*ast.CompositeLit); yt.k == "slice" && !isLit {
			c.lostAt(a, "slice argument %s of %s.%s (only a composite literal: aliasing)", src(a), o.field, m)
		}
		if i >= nfix {
			rest = append(rest, y)
		} else {
			s += " " + paren(y)
		}
	}
	if ft.variadic {
		s += " [" + strings.Join(rest, "; ") + "]"
	}
	var res []string
	for i := range ft.res {
		if i < len(want) && want[i] != "" {
			res = append(res, want[i])
		} else {
			res = append(res, c.tmp())
		}
	}
	pat := append([]string{}, res...)
	pat = append(pat, fv.name)
	for _, w := range o.writes {
		pat = append(pat, c.fields[w].name)
	}
	*pre = append(*pre, fnBind{pat: tuple(pat), m: tRaw{s}, effect: true})
	c.nogrowCheck(pre, snap)
	return res, ft.res
}

// noAlias: a map or an object handed to a function could be changed behind the translation.
func (c *fnCtx) noAlias(a ast.Expr, t *fnType) {
	if t != nil && (t.k == "map" || t.k == "obj") {
		c.lostAt(a, "argument %s of type %s (aliasing)", src(a), t.k)
	}
}

// ---------------------------------------------------------------- maps

// mapEqb: the equality on the key type of map type t.
func (c *fnCtx) mapEqb(t *fnType, at ast.Node) string {
	switch t.key.k {
	case "int", "byte", "untyped":
		return "Z.eqb"
	case "bool":
		return "Bool.eqb"
	case "string":
		return "str_eqb"
	case "elem":
		return c.mapEqbVar(t).name
	}
	c.lostAt(at, "equality on the map key type %s here", t.key.k)
	return ""
}

func (c *fnCtx) mapEqbVar(t *fnType) *fnVar {
	if t != nil && t.k == "map" && t.key.k == "elem" {
		key := "eqb:" + t.key.name
		if c.extras[key] == nil {
			c.extra(key, "eqb_"+t.key.name)
			c.typeKnownExtra(key)
		}
		return c.extras[key]
	}
	return nil
}

// mapIndexZeroNeeds (during the scan): m[k] on a map-typed receiver field yields the zero value of
// the value type for an absent key.
func (c *fnCtx) mapIndexZeroNeeds(v *ast.IndexExpr, fieldTypes map[string]ast.Expr, isRecvIdent func(ast.Expr) bool) []string {
	sel, ok := v.X.(*ast.SelectorExpr)
	if !ok || !isRecvIdent(sel.X) {
		return nil
	}
	mt, ok := fieldTypes[sel.Sel.Name].(*ast.MapType)
	if !ok {
		return nil
	}
	return zeroNeeds(c.goType(mt.Value))
}

// ---------------------------------------------------------------- struct values

func structFieldTypes(t *fnType) []*fnType { return t.res }

// structTypeOf: e names (an instance of) a struct type declared in the file: its representation,
// with the field types in res and the field names in fnames.  The Record is emitted once.
func (c *fnCtx) structTypeOf(e ast.Expr) *fnType {
	if e == nil {
		return nil
	}
	base, args := baseAndArgs(e)
	id, ok := base.(*ast.Ident)
	if !ok {
		return nil
	}
	ts := c.structDecl(id)
	if ts == nil || (id.Obj != nil && id.Obj.Kind != ast.Typ) {
		return nil
	}
	tps := fieldListNames(ts.TypeParams)
	if len(tps) != len(args) {
		c.lostAt(e, "type %s (type arguments)", src(e))
	}
	t := &fnType{k: "struct", name: c.g.coqName(ts), decl: ts}
	for _, a := range args {
		t.params = append(t.params, c.goType(a))
	}
	// a struct that refers to itself through a pointer field (type seq struct{...; prev *seq})
	key := t.coq()
	if busy := c.structBusy[key]; busy != nil {
		return busy
	}
	if c.structBusy == nil {
		c.structBusy = map[string]*fnType{}
	}
	c.structBusy[key] = t
	defer delete(c.structBusy, key)
	names, types := structFields(ts.Type.(*ast.StructType))
	c.withTypeArgs(tps, args, e, func() {
		for _, n := range names {
			ft := c.fieldTypeOf(id.Name, n, types[n])
			switch ft.k {
			case "int", "byte", "bool", "string", "elem", "struct", "u64", "ptr", "view", "slice":
			default:
				c.lostAt(e, "struct type %s with a field of type %s (aliasing)", id.Name, src(types[n]))
			}
			t.fnames = append(t.fnames, n)
			t.res = append(t.res, ft)
		}
	})
	c.g.record(c, ts)
	return t
}

// fieldType: the representation of a struct field: a slice field holds a window of a slice
// parameter (a view; which parameter is checked at the literals that set it)
func (c *fnCtx) fieldType(e ast.Expr) *fnType {
	ft := c.goType(e)
	if ft.k == "slice" && ft.elem.k != "slice" && ft.elem.k != "map" {
		return tyView
	}
	return ft
}

// record emits the Coq Record of a struct type (once per file).
func (g *fnGen) record(c *fnCtx, ts *ast.TypeSpec) {
	name := g.coqName(ts)
	if g.usedStructs[name] {
		return
	}
	g.usedStructs[name] = true
	tps := fieldListNames(ts.TypeParams)
	// the field types in terms of the struct's own type parameters
	saved, savedPkg := c.elemT, c.foreignPkg
	c.elemT = map[string]*fnType{}
	if pkg, ok := g.foreignStructs[ts]; ok {
		c.foreignPkg = pkg // the field types are read inside that package
	}
	defer func() { c.elemT, c.foreignPkg = saved, savedPkg }()
	c.typeParams(ts.TypeParams)
	names, types := structFields(ts.Type.(*ast.StructType))
	var fs []string
	recursive := false
	for _, n := range names {
		ft := c.fieldTypeOf(ts.Name.Name, n, types[n])
		if ft.k == "ptr" && ft.elem.decl == ts {
			recursive = true
		}
		fs = append(fs, name+"_"+n+" : "+ft.coq())
	}
	var b strings.Builder
	hdr := "type " + ts.Name.Name
	if ts.TypeParams != nil {
		var ps []string
		for _, f := range ts.TypeParams.List {
			ps = append(ps, strings.Join(fieldListNamesOf(f), ", ")+" "+src(f.Type))
		}
		hdr += "[" + strings.Join(ps, ", ") + "]"
	}
	b.WriteString("(* " + hdr + " struct *)\n")
	params, impl := "", ""
	if len(tps) > 0 {
		params = " (" + strings.Join(tps, " ") + " : Type)"
		impl = " {" + strings.Join(tps, " ") + "}"
	}
	kw := "Record "
	if recursive {
		kw = "Inductive " // a struct that points to itself (type seq struct{...; prev *seq})
	}
	b.WriteString(kw + name + params + " : Type := mk_" + name + " { " + strings.Join(fs, "; ") + " }.\n")
	if impl != "" {
		b.WriteString("Arguments mk_" + name + impl + ".\n")
		for _, n := range names {
			b.WriteString("Arguments " + name + "_" + n + impl + ".\n")
		}
	}
	g.recordText[name] = b.String()
}

func fieldListNamesOf(f *ast.Field) []string {
	var ns []string
	for _, n := range f.Names {
		ns = append(ns, n.Name)
	}
	return ns
}

func (t *fnType) fieldIndex(name string) int {
	for i, n := range t.fnames {
		if n == name {
			return i
		}
	}
	return -1
}

// structSelect: x.f of a struct value
func (c *fnCtx) structSelect(v *ast.SelectorExpr, pre *[]fnBind) (string, *fnType) {
	if id, ok := v.X.(*ast.Ident); ok && c.lookup(id) == nil {
		return "", nil // a package or an unknown name
	}
	x, t := c.expr(v.X, pre)
	if t.k == "ptr" {
		// p.f through a pointer to an immutable struct: nil panics
		tm := c.tmp()
		bindRaw(pre, tm, "go_deref "+paren(x))
		x, t = tm, t.elem
	}
	if t.k != "struct" {
		return "", nil
	}
	i := t.fieldIndex(v.Sel.Name)
	if i < 0 {
		c.lostAt(v, "selector %s (no such field)", src(v))
	}
	return "(" + t.name + "_" + v.Sel.Name + " " + paren(x) + ")", t.res[i]
}

// litValues: the element expressions of a struct literal by field index (nil: left out).
func (c *fnCtx) litValues(v *ast.CompositeLit, t *fnType) []ast.Expr {
	vals := make([]ast.Expr, len(t.fnames))
	keyed := false
	for _, el := range v.Elts {
		if _, ok := el.(*ast.KeyValueExpr); ok {
			keyed = true
		}
	}
	if !keyed {
		if len(v.Elts) != 0 && len(v.Elts) != len(t.fnames) {
			c.lostAt(v, "struct literal (number of values)")
		}
		copy(vals, v.Elts)
		return vals
	}
	for _, el := range v.Elts {
		kv, ok := el.(*ast.KeyValueExpr)
		if !ok {
			c.lostAt(v, "struct literal mixing keyed and positional values")
		}
		id, ok := kv.Key.(*ast.Ident)
		if !ok || t.fieldIndex(id.Name) < 0 {
			c.lostAt(v, "struct literal key %s", src(kv.Key))
		}
		vals[t.fieldIndex(id.Name)] = kv.Value
	}
	return vals
}

func (c *fnCtx) litZeroNeeds(v *ast.CompositeLit, t *fnType) []string {
	var ns []string
	for i, e := range c.litValues(v, t) {
		if e == nil {
			ns = append(ns, zeroNeeds(t.res[i])...)
		}
	}
	return ns
}

// structLit: T{f: e, ...}; the values are evaluated in source order, fields left out are zero
func (c *fnCtx) structLit(v *ast.CompositeLit, t *fnType, pre *[]fnBind) string {
	vals := c.litValues(v, t)
	strs := make([]string, len(vals))
	// source order of evaluation
	order := make([]int, 0, len(vals))
	for _, el := range v.Elts {
		e := el
		if kv, ok := el.(*ast.KeyValueExpr); ok {
			e = kv.Value
		}
		for i, x := range vals {
			if x == e {
				order = append(order, i)
			}
		}
	}
	for _, i := range order {
		if t.res[i].k == "view" {
			// a slice field: a window of a slice parameter (always the same one for this field)
			if id, ok := vals[i].(*ast.Ident); ok && id.Name == "nil" && id.Obj == nil {
				strs[i] = "(mkView 0 0 0)"
				continue
			}
			c.viewField(t, t.fnames[i], vals[i])
			strs[i] = c.viewOf(vals[i], pre)
			continue
		}
		if t.res[i].k == "slice" {
			strs[i] = c.ownedValue(vals[i], nil, t.fnames[i], t.res[i], pre) // a slice field the struct owns
			continue
		}
		x, xt := c.expr(vals[i], pre)
		c.noAlias(vals[i], xt)
		strs[i] = x
	}
	s := "mk_" + t.name
	for i := range vals {
		if vals[i] == nil {
			strs[i] = c.zeroOf(t.res[i], v)
		}
		s += " " + paren(strs[i])
	}
	return "(" + s + ")"
}

// structStore: x.f = e  on a struct-valued variable or receiver field: the record rebuilt
func (c *fnCtx) structStore(st *ast.AssignStmt, sel *ast.SelectorExpr, r ast.Expr, k func() term) term {
	var pre []fnBind
	x := c.plainVar(sel.X)
	if x == nil || x.typ.k != "struct" {
		c.lostAt(st, "assignment target %s", src(sel))
	}
	if st.Tok != token.ASSIGN {
		c.lostAt(st, "declaration of %s", src(sel))
	}
	i := x.typ.fieldIndex(sel.Sel.Name)
	if i < 0 {
		c.lostAt(st, "assignment target %s (no such field)", src(sel))
	}
	var e string
	if x.typ.res[i].k == "slice" {
		e = c.ownedValue(r, x, sel.Sel.Name, x.typ.res[i], &pre) // a slice field the struct owns
	} else if x.typ.res[i].k == "view" {
		c.lostAt(st, "assignment to the slice field %s", src(sel))
	} else {
		var et *fnType
		e, et = c.expr(r, &pre)
		c.noAlias(r, et)
	}
	s := "mk_" + x.typ.name
	for j, n := range x.typ.fnames {
		if j == i {
			s += " " + paren(e)
		} else {
			s += " (" + x.typ.name + "_" + n + " " + x.name + ")"
		}
	}
	pre = append(pre, fnBind{pat: x.name, e: s, isLet: true, effect: x.role == "field"})
	if x.aliasOf != nil {
		// x stands for an element of a list of distinct pointers: the store is visible there at once
		pre = append(pre, fnBind{pat: x.aliasOf.name, m: tRaw{"go_set " + x.aliasOf.name + " " + x.aliasIdx.name + " " + x.name}, effect: true})
	}
	return wrap(pre, k())
}

// ---------------------------------------------------------------- panic(fmt.Sprintf("format", args...))

// sprintfPanic: the format string of panic(fmt.Sprintf("...", args...)) is the message; the
// arguments must be effect-free and total (they are dropped).
func (c *fnCtx) sprintfPanic(call *ast.CallExpr) (string, bool) {
	if len(call.Args) != 1 {
		return "", false
	}
	sp, ok := call.Args[0].(*ast.CallExpr)
	if !ok || len(sp.Args) < 1 || sp.Ellipsis.IsValid() {
		return "", false
	}
	sel, ok := sp.Fun.(*ast.SelectorExpr)
	if !ok || sel.Sel.Name != "Sprintf" {
		return "", false
	}
	if id, ok := sel.X.(*ast.Ident); !ok || id.Name != "fmt" || id.Obj != nil {
		return "", false
	}
	lit, ok := sp.Args[0].(*ast.BasicLit)
	if !ok || lit.Kind != token.STRING {
		return "", false
	}
	m, err := strconv.Unquote(lit.Value)
	if err != nil || strings.ContainsAny(m, "\"\\\n") {
		return "", false
	}
	for _, a := range sp.Args[1:] {
		var pre []fnBind
		_, t := c.expr(a, &pre)
		if len(pre) != 0 {
			c.lostAt(a, "argument %s of fmt.Sprintf in a panic (must be effect-free and total)", src(a))
		}
		c.noAlias(a, t)
	}
	return m, true
}

// ---------------------------------------------------------------- function literals

// literalFunc: spec lit:F#k(x) -- the k-th function literal (source order) of function F,
// translated as a method F_lit<k> of the struct the captured variable x points to
// (x := &T{...} in F).  Other captured variables are not supported.
func (g *fnGen) literalFunc(fn *fnFunc) {
	sp := strings.TrimPrefix(fn.spec, "lit:")
	i, j, e := strings.IndexByte(sp, '#'), strings.IndexByte(sp, '('), strings.LastIndexByte(sp, ')')
	if i < 0 || j < i || e < j {
		return
	}
	outer, capt := sp[:i], sp[j+1:e]
	k, err := strconv.Atoi(sp[i+1 : j])
	if err != nil {
		return
	}
	fn.recv, fn.name = "", strings.ReplaceAll(outer, ".", "_")+"_lit"+strconv.Itoa(k)
	fn.litOf = outer
	od := findFunc(g.file, outer)
	if od == nil || od.Body == nil {
		return
	}
	var lit *ast.FuncLit
	n := 0
	var obj *ast.Object
	var recvT ast.Expr
	ast.Inspect(od.Body, func(x ast.Node) bool {
		switch v := x.(type) {
		case *ast.FuncLit:
			if n == k && lit == nil {
				lit = v
			}
			n++
		case *ast.AssignStmt:
			if v.Tok == token.DEFINE && len(v.Lhs) == 1 && len(v.Rhs) == 1 {
				if id, ok := v.Lhs[0].(*ast.Ident); ok && id.Name == capt && obj == nil {
					if u, ok := v.Rhs[0].(*ast.UnaryExpr); ok && u.Op == token.AND {
						if cl, ok := u.X.(*ast.CompositeLit); ok && cl.Type != nil {
							obj, recvT = id.Obj, cl.Type
						}
					}
				}
			}
		}
		return true
	})
	if lit == nil || obj == nil {
		return
	}
	// every assignment to the captured variable other than its declaration would change what the
	// literal refers to
	reassigned := false
	ast.Inspect(od.Body, func(x ast.Node) bool {
		if as, ok := x.(*ast.AssignStmt); ok {
			for _, l := range as.Lhs {
				if id, ok := l.(*ast.Ident); ok && id.Obj == obj && as.Tok != token.DEFINE {
					reassigned = true
				}
			}
		}
		return true
	})
	if reassigned {
		return
	}
	fn.recvObj, fn.recvVar = obj, capt
	if b, _ := baseAndArgs(recvT); b != nil {
		if id, ok := b.(*ast.Ident); ok {
			fn.recvType = id.Name
		}
	}
	fn.decl = &ast.FuncDecl{
		Recv: &ast.FieldList{List: []*ast.Field{{Names: []*ast.Ident{ast.NewIdent(capt)}, Type: &ast.StarExpr{X: recvT}}}},
		Name: ast.NewIdent(fn.name),
		Type: &ast.FuncType{Func: lit.Type.Func, TypeParams: od.Type.TypeParams, Params: lit.Type.Params, Results: lit.Type.Results},
		Body: lit.Body,
	}
}
