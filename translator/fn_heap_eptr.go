package main

// Heap backend: cells with OWNED slice fields and pointers into their elements (mdiff.Chunk with
// Edits []Edit; end := slice.PtrAt(last.Edits, -1)), functions of other packages, ranges over a
// window.  See notes/fn-translator.md, "Heap backend: owned slice fields, element pointers".
//
// Element pointers.  p := slice.PtrAt(O.F, k) with O a pointer VARIABLE to a heap cell and F a slice
// field of the cell is translated as the INDEX of the element in O.F (go_ptrat: option Z, None =
// nil), statically tied to its owner O and field F:
//   p.g          ->  do c <- go_hget h O; do e <- go_eget (S_F c) p; ... (E_g e)
//   p.g = v      ->  the same reads, then go_eset and go_hmod: the element rebuilt in place
// This is exact as long as p still designates that position of the CURRENT value of O.F.  The
// translator keeps that true:
//   - O is never assigned after its declaration (else lost);
//   - when two element pointers with different owner variables O1, O2 are in scope, the statement
//     that declares the second one is followed by `go_apart O1 O2`: if the two owners are the SAME
//     cell the result is the distinguished `Panic PAliased` (outside the representation: a store
//     through one pointer would then change what the other one designates).  Different cells own
//     different arrays (the fields are owned: nobody else holds their arrays);
//   - an assignment to O.F (a re-slice, an append) DETACHES the pointers owned by O: a pointer
//     whose next mention in the source is its own re-binding is simply dead; one that is READ
//     again gets a snapshot taken just before the assignment (go_esnap: the element it designates,
//     None for nil) and its later reads use the snapshot (in Go the slot is still there and
//     unchanged: re-slicing changes no array element).  A detached pointer must not be written
//     through, and not be read after another store into that cell's field or through a sibling
//     pointer (else lost).
// The per-variable state (attached / snapshot / dead) follows the control flow of the translation:
// it is saved and restored around the branches of an if and merged at a join (different states at
// a join + a later use = lost); a pointer declared outside a loop and used inside is lost.

import (
	"go/ast"
	"go/token"
	"go/types"
	"strings"
)

type heown struct {
	owner *hvar    // the pointer variable that holds the cell
	cs    *hstruct // the cell struct
	field string   // its slice field
}

const (
	epAttached = iota
	epSnap
	epDead
	epConflict
)

type hepState struct {
	mode  int
	snap  string // epSnap: the variable that holds the snapshot (option E)
	stale bool   // epSnap: a later store may have changed the slot
}

// ---------------------------------------------------------------- summaries

// pkgFunc: the call v is pkg.F(...) of an imported package: its name "pkg.F" and the function
func (c *hctx) pkgFunc(fun ast.Expr) (string, *types.Func) { return c.g.pkgFunc(fun) }

func (g *hgen) pkgFunc(fun ast.Expr) (string, *types.Func) {
	fun = ast.Unparen(fun)
	switch v := fun.(type) {
	case *ast.IndexExpr:
		fun = ast.Unparen(v.X)
	case *ast.IndexListExpr:
		fun = ast.Unparen(v.X)
	}
	sel, ok := fun.(*ast.SelectorExpr)
	if !ok {
		return "", nil
	}
	id, ok := sel.X.(*ast.Ident)
	if !ok {
		return "", nil
	}
	pn, ok := g.info.Uses[id].(*types.PkgName)
	if !ok {
		return "", nil
	}
	f, _ := g.info.Uses[sel.Sel].(*types.Func)
	return pn.Imported().Name() + "." + sel.Sel.Name, f
}

// scanPointedInto: the slice fields of heap cells into whose elements some translated function
// takes a pointer (slice.PtrAt(O.F, i)): "S.F".  Elements of such a field are CHANGED in place
// through those pointers, so its value must never be held by anything else (checkPointedFields).
func (g *hgen) scanPointedInto() {
	g.pointedInto = map[string]bool{}
	for _, fn := range g.order {
		if fn.decl == nil || fn.decl.Body == nil {
			continue
		}
		ast.Inspect(fn.decl.Body, func(n ast.Node) bool {
			call, ok := n.(*ast.CallExpr)
			if !ok || len(call.Args) != 2 {
				return true
			}
			if name, f := g.pkgFunc(call.Fun); name != "slice.PtrAt" || f == nil {
				return true
			}
			if sel, ok := ast.Unparen(call.Args[0]).(*ast.SelectorExpr); ok {
				if s := g.info.Selections[sel]; s != nil && s.Kind() == types.FieldVal {
					if nm := namedOf(s.Recv()); nm != nil {
						g.pointedInto[nm.Obj().Name()+"."+sel.Sel.Name] = true
					}
				}
			}
			return true
		})
	}
}

// checkPointedFields: a slice field O.F of a heap cell into which pointers are taken may be used
// only where its VALUE is not kept: len(O.F), O.F[i], range O.F, slice.PtrAt(O.F, i), as the spread
// argument of an append (the elements are copied), and in the assignments O.F = nil,
// O.F = O.F[lo:hi], O.F = append(O.F, ...), O.F = append([]E{...}, ...), O.F = []E{...} / make(...).
// Anything else (a variable bound to it, an argument, a result, another field) could share its
// array, which the list representation cannot express: lost.
func (c *hctx) checkPointedFields() {
	g := c.g
	if len(g.pointedInto) == 0 {
		return
	}
	pointed := func(e ast.Expr) bool {
		sel, ok := ast.Unparen(e).(*ast.SelectorExpr)
		if !ok {
			return false
		}
		cs := c.cellSel(sel)
		return cs != nil && g.pointedInto[cs.name+"."+sel.Sel.Name]
	}
	fresh := func(e ast.Expr) bool { // a slice value nobody else holds
		switch v := ast.Unparen(e).(type) {
		case *ast.Ident:
			return v.Name == "nil"
		case *ast.CompositeLit:
			return true
		case *ast.CallExpr:
			if isBuiltin(v, "make", len(v.Args)) {
				return true
			}
			if isBuiltin(v, "append", len(v.Args)) && len(v.Args) >= 1 {
				_, isLit := ast.Unparen(v.Args[0]).(*ast.CompositeLit)
				return isLit
			}
		}
		return false
	}
	ok := map[ast.Expr]bool{}
	ast.Inspect(c.fn.decl.Body, func(n ast.Node) bool {
		switch v := n.(type) {
		case *ast.CallExpr:
			name, f := g.pkgFunc(v.Fun)
			switch {
			case isBuiltin(v, "len", 1):
				ok[ast.Unparen(v.Args[0])] = true
			case name == "slice.PtrAt" && f != nil && len(v.Args) == 2:
				ok[ast.Unparen(v.Args[0])] = true
			case isBuiltin(v, "append", len(v.Args)) && v.Ellipsis.IsValid() && len(v.Args) == 2:
				ok[ast.Unparen(v.Args[1])] = true // the elements are copied
			}
		case *ast.IndexExpr:
			ok[ast.Unparen(v.X)] = true
		case *ast.RangeStmt:
			ok[ast.Unparen(v.X)] = true
		case *ast.AssignStmt:
			if len(v.Lhs) != len(v.Rhs) {
				return true
			}
			for i, l := range v.Lhs {
				if !pointed(l) {
					continue
				}
				ok[ast.Unparen(l)] = true
				r := ast.Unparen(v.Rhs[i])
				same := func(e ast.Expr) bool { return src(ast.Unparen(e)) == src(ast.Unparen(l)) }
				switch {
				case fresh(r):
				case v.Tok == token.ASSIGN && len(v.Lhs) == 1:
					switch rv := r.(type) {
					case *ast.SliceExpr:
						if same(rv.X) {
							ok[ast.Unparen(rv.X)] = true
							continue
						}
					case *ast.CallExpr:
						if isBuiltin(rv, "append", len(rv.Args)) && len(rv.Args) >= 1 && same(rv.Args[0]) {
							ok[ast.Unparen(rv.Args[0])] = true
							continue
						}
					}
					c.lostAt(v, "value %s stored into the slice field %s, into whose elements pointers are taken (aliasing)", src(r), src(l))
				default:
					c.lostAt(v, "value %s stored into the slice field %s, into whose elements pointers are taken (aliasing)", src(r), src(l))
				}
			}
		}
		return true
	})
	ast.Inspect(c.fn.decl.Body, func(n ast.Node) bool {
		if e, isExpr := n.(ast.Expr); isExpr && pointed(e) {
			if _, isSel := e.(*ast.SelectorExpr); isSel && !ok[e] {
				c.lostAt(e, "the slice field %s, into whose elements pointers are taken, used as a value (its array could be shared)", src(e))
			}
		}
		return true
	})
}

// epKillAll: a call that may change any cell: every element pointer is detached, every snapshot stale
func (c *hctx) epKillAll() {
	for _, st := range c.epState {
		switch st.mode {
		case epAttached:
			*st = hepState{mode: epDead}
		case epSnap:
			st.stale = true
		}
	}
}

// epBound: an element pointer owned by ov has been bound on this path (so the go_apart checks
// between ov and the owners of the other bound pointers have been executed)
func (c *hctx) epBound(ov *hvar, cs *hstruct, field string) bool {
	for y, st := range c.epState {
		if st.mode != epConflict && y.typ.own.owner == ov && y.typ.own.cs == cs && y.typ.own.field == field {
			return true
		}
	}
	return false
}

func (c *hctx) isPtrAtCall(e ast.Expr) bool {
	call, ok := ast.Unparen(e).(*ast.CallExpr)
	if !ok {
		return false
	}
	n, f := c.pkgFunc(call.Fun)
	return n == "slice.PtrAt" && f != nil && len(call.Args) == 2
}

// scanEptr: the variables that are bound to slice.PtrAt(...) somewhere in the function
func (c *hctx) scanEptr() {
	c.eptrObjs = map[types.Object]bool{}
	c.lhsIdents = map[*ast.Ident]bool{}
	ast.Inspect(c.fn.decl.Body, func(n ast.Node) bool {
		as, ok := n.(*ast.AssignStmt)
		if !ok {
			return true
		}
		for _, l := range as.Lhs {
			if id, ok := ast.Unparen(l).(*ast.Ident); ok {
				c.lhsIdents[id] = true
			}
		}
		if len(as.Lhs) != len(as.Rhs) {
			return true
		}
		for i, r := range as.Rhs {
			if !c.isPtrAtCall(r) {
				continue
			}
			if id, ok := ast.Unparen(as.Lhs[i]).(*ast.Ident); ok {
				if o := c.g.info.Defs[id]; o != nil {
					c.eptrObjs[o] = true
				} else if o := c.g.info.Uses[id]; o != nil {
					c.eptrObjs[o] = true
				}
			}
		}
		return true
	})
}

// eptrIdent: e is a variable that holds an element pointer (by the summary; it need not be declared yet)
func (c *hctx) eptrIdent(e ast.Expr) bool {
	id, ok := ast.Unparen(e).(*ast.Ident)
	if !ok || len(c.eptrObjs) == 0 {
		return false
	}
	if o := c.g.info.Uses[id]; o != nil && c.eptrObjs[o] {
		return true
	}
	if o := c.g.info.Defs[id]; o != nil && c.eptrObjs[o] {
		return true
	}
	return false
}

func (c *hctx) eptrVar(e ast.Expr) *hvar {
	id, ok := ast.Unparen(e).(*ast.Ident)
	if !ok {
		return nil
	}
	if x := c.lookup(id); x != nil && x.typ.k == "eptr" {
		return x
	}
	return nil
}

// ---------------------------------------------------------------- state

func (c *hctx) epGet(x *hvar) *hepState {
	if c.epState == nil {
		c.epState = map[*hvar]*hepState{}
	}
	st := c.epState[x]
	if st == nil {
		return &hepState{mode: epDead} // not bound on this path
	}
	return st
}

func (c *hctx) epSave() map[*hvar]hepState {
	if len(c.epState) == 0 {
		return nil
	}
	m := map[*hvar]hepState{}
	for x, st := range c.epState {
		m[x] = *st
	}
	return m
}

func (c *hctx) epRestore(m map[*hvar]hepState) {
	if c.epState == nil && m == nil {
		return
	}
	c.epState = map[*hvar]*hepState{}
	for x, st := range m {
		s := st
		c.epState[x] = &s
	}
}

// epMerge: the state after a join of the given branch ends
func (c *hctx) epMerge(ends []map[*hvar]hepState) {
	if len(ends) == 0 {
		return
	}
	any := false
	for _, e := range ends {
		if len(e) > 0 {
			any = true
		}
	}
	if !any {
		return
	}
	res := map[*hvar]hepState{}
	for x, st := range ends[0] {
		res[x] = st
	}
	for _, e := range ends[1:] {
		for x, st := range res {
			o, ok := e[x]
			if !ok || o != st {
				res[x] = hepState{mode: epConflict}
			}
		}
		for x := range e {
			if _, ok := res[x]; !ok {
				res[x] = hepState{mode: epConflict}
			}
		}
	}
	c.epRestore(res)
}

// ---------------------------------------------------------------- binding

// bindsEptr: the assignment binds element pointers (every right-hand side is slice.PtrAt(...))
func (c *hctx) bindsEptr(v *ast.AssignStmt) bool {
	if len(c.eptrObjs) == 0 || len(v.Lhs) != len(v.Rhs) {
		return false
	}
	for _, r := range v.Rhs {
		if c.isPtrAtCall(r) {
			return true
		}
	}
	return false
}

// ptrAt: slice.PtrAt(O.F, k): the index and its static owner
func (c *hctx) ptrAt(call *ast.CallExpr, pre *[]hbind) (string, *hty) {
	if c.lit != nil {
		c.lostAt(call, "slice.PtrAt inside a function literal")
	}
	sel, ok := ast.Unparen(call.Args[0]).(*ast.SelectorExpr)
	if !ok {
		c.lostAt(call, "slice.PtrAt(%s, ...) (only of a slice field O.F of a heap cell held in a variable O)", src(call.Args[0]))
	}
	cs := c.cellSel(sel)
	id, isId := ast.Unparen(sel.X).(*ast.Ident)
	if cs == nil || !isId {
		c.lostAt(call, "slice.PtrAt(%s, ...) (only of a slice field O.F of a heap cell held in a variable O)", src(call.Args[0]))
	}
	ov := c.lookup(id)
	if ov == nil || ov.typ.k != "hptr" || ov.role != "local" && ov.role != "param" {
		c.lostAt(call, "slice.PtrAt(%s, ...) (the owner must be a pointer variable)", src(call.Args[0]))
	}
	if o := c.g.info.Uses[id]; o == nil || c.assignedAfterDecl(o) {
		c.lostAt(call, "slice.PtrAt(%s, ...): the owner %s is assigned after its declaration", src(call.Args[0]), id.Name)
	}
	x, t := c.expr(sel, pre)
	if t.k != "slice" || t.elem.k != "struct" {
		c.lostAt(call, "slice.PtrAt of a %s (only a slice of struct values)", t.k)
	}
	i, it := c.expr(call.Args[1], pre)
	if it.k != "int" {
		c.lostAt(call, "slice.PtrAt index")
	}
	return "(go_ptrat " + paren(x) + " " + paren(i) + ")", &hty{k: "eptr", elem: t.elem, own: &heown{owner: ov, cs: cs, field: sel.Sel.Name}}
}

// assignedAfterDecl: the variable is the target of an assignment other than its declaration
func (c *hctx) assignedAfterDecl(o types.Object) bool {
	found := false
	ast.Inspect(c.fn.decl.Body, func(n ast.Node) bool {
		switch v := n.(type) {
		case *ast.AssignStmt:
			for _, l := range v.Lhs {
				if id, ok := ast.Unparen(l).(*ast.Ident); ok && c.g.info.Uses[id] == o {
					found = true
				}
			}
		case *ast.IncDecStmt:
			if id, ok := ast.Unparen(v.X).(*ast.Ident); ok && c.g.info.Uses[id] == o {
				found = true
			}
		case *ast.RangeStmt:
			if v.Tok == token.ASSIGN {
				for _, e := range []ast.Expr{v.Key, v.Value} {
					if id, ok := e.(*ast.Ident); ok && c.g.info.Uses[id] == o {
						found = true
					}
				}
			}
		case *ast.UnaryExpr:
			if id, ok := ast.Unparen(v.X).(*ast.Ident); ok && v.Op == token.AND && c.g.info.Uses[id] == o {
				found = true
			}
		}
		return true
	})
	return found
}

// assignEptr: p, q := slice.PtrAt(O1.F, i), slice.PtrAt(O2.F, j)   /   p = slice.PtrAt(O.F, i)
func (c *hctx) assignEptr(v *ast.AssignStmt, k func() term) term {
	if v.Tok != token.ASSIGN && v.Tok != token.DEFINE {
		c.lostAt(v, "assignment %s of an element pointer", v.Tok)
	}
	var pre []hbind
	var vals []string
	var ts []*hty
	for i, r := range v.Rhs {
		if !c.isPtrAtCall(r) {
			c.lostAt(v, "assignment mixing slice.PtrAt with other values")
		}
		if _, ok := ast.Unparen(v.Lhs[i]).(*ast.Ident); !ok {
			c.lostAt(v, "slice.PtrAt stored into %s (only into a variable)", src(v.Lhs[i]))
		}
		x, t := c.ptrAt(ast.Unparen(r).(*ast.CallExpr), &pre)
		vals = append(vals, x)
		ts = append(ts, t)
	}
	var bound []*hvar
	var pats []string
	for i, l := range v.Lhs {
		id := ast.Unparen(l).(*ast.Ident)
		if id.Name == "_" {
			pats = append(pats, "_")
			continue
		}
		x := c.lookup(id)
		if x == nil {
			if v.Tok != token.DEFINE || c.g.info.Defs[id] == nil {
				c.lostAt(id, "assignment target %s", id.Name)
			}
			x = c.declare(id, ts[i])
		} else {
			if x.typ.k != "eptr" || x.typ.own.owner != ts[i].own.owner || x.typ.own.field != ts[i].own.field {
				c.lostAt(v, "element pointer %s re-pointed into another owner (%s.%s)", x.name, ts[i].own.owner.name, ts[i].own.field)
			}
		}
		if x.role != "local" {
			c.lostAt(v, "element pointer stored into %s", x.name)
		}
		bound = append(bound, x)
		pats = append(pats, x.name)
	}
	if len(pats) == 1 {
		pre = append(pre, hbind{pat: pats[0], e: vals[0], isLet: true})
	} else {
		pre = append(pre, hbind{pat: tuple(pats), e: tuple(vals), isLet: true})
	}
	for _, x := range bound {
		c.epGet(x) // allocates the map
		c.epState[x] = &hepState{mode: epAttached}
	}
	// two owners in scope: they must be different cells
	if v.Tok == token.DEFINE {
		done := map[[2]*hvar]bool{}
		for _, x := range bound {
			for _, y := range c.all {
				if y == x || y.typ == nil || y.typ.k != "eptr" || y.typ.own.owner == x.typ.own.owner {
					continue
				}
				if y.typ.own.cs != x.typ.own.cs || y.typ.own.field != x.typ.own.field {
					continue
				}
				if y.obj == nil || y.obj.Parent() == nil || !y.obj.Parent().Contains(v.Pos()) {
					continue
				}
				a, b := x.typ.own.owner, y.typ.own.owner
				if a.idx > b.idx {
					a, b = b, a
				}
				if done[[2]*hvar{a, b}] {
					continue
				}
				done[[2]*hvar{a, b}] = true
				pre = append(pre, hbind{pat: "_", m: tRaw{"go_apart " + a.name + " " + b.name}})
			}
		}
	}
	return wrap(pre, k())
}

// ---------------------------------------------------------------- reads and writes through an element pointer

func (c *hctx) eptrElem(x *hvar, at ast.Node, pre *[]hbind) string {
	if c.lit != nil {
		c.lostAt(at, "element pointer %s inside a function literal", x.name)
	}
	own := x.typ.own
	st := c.epGet(x)
	switch st.mode {
	case epAttached:
		tc := c.tmp()
		hbindRaw(pre, tc, "go_hget "+c.needHeap(at)+" "+own.owner.name)
		te := c.tmp()
		hbindRaw(pre, te, "go_eget ("+own.cs.name+"_"+own.field+" "+tc+") "+x.name)
		return te
	case epSnap:
		if st.stale {
			c.lostAt(at, "read through %s after %s.%s was assigned and the cell was stored into again", x.name, own.owner.name, own.field)
		}
		te := c.tmp()
		hbindRaw(pre, te, "go_deref "+st.snap)
		return te
	}
	c.lostAt(at, "use of the element pointer %s after %s.%s was assigned (it must be re-bound first)", x.name, own.owner.name, own.field)
	return ""
}

// eptrRead: p.g
func (c *hctx) eptrRead(x *hvar, v *ast.SelectorExpr, pre *[]hbind) (string, *hty) {
	et := x.typ.elem
	i := fieldIdx(et.st, v.Sel.Name)
	if i < 0 {
		c.lostAt(v, "selector %s", src(v))
	}
	te := c.eptrElem(x, v, pre)
	return "(" + et.name + "_" + v.Sel.Name + " " + te + ")", c.fieldTypes(et)[i]
}

// eptrStore: p.g = val
func (c *hctx) eptrStore(x *hvar, v *ast.SelectorExpr, pre *[]hbind) func(val string, t *hty) {
	et := x.typ.elem
	if fieldIdx(et.st, v.Sel.Name) < 0 {
		c.lostAt(v, "assignment target %s", src(v))
	}
	return func(val string, t *hty) {
		own := x.typ.own
		if st := c.epGet(x); st.mode != epAttached {
			c.lostAt(v, "store through the element pointer %s after %s.%s was assigned (it must be re-bound first)", x.name, own.owner.name, own.field)
		}
		if c.lit != nil {
			c.lostAt(v, "element pointer %s inside a function literal", x.name)
		}
		h := c.needHeap(v)
		tc := c.tmp()
		hbindRaw(pre, tc, "go_hget "+h+" "+own.owner.name)
		fld := "(" + own.cs.name + "_" + own.field + " " + tc + ")"
		te := c.tmp()
		hbindRaw(pre, te, "go_eget "+fld+" "+x.name)
		rec := "mk_" + et.name
		for _, f := range et.st.fnames {
			if f == v.Sel.Name {
				rec += " " + paren(val)
			} else {
				rec += " (" + et.name + "_" + f + " " + te + ")"
			}
		}
		tl := c.tmp()
		hbindRaw(pre, tl, "go_eset "+fld+" "+x.name+" ("+rec+")")
		cv := c.tmp()
		cell := "mk_" + own.cs.name
		for _, f := range own.cs.fnames {
			if f == own.field {
				cell += " " + tl
			} else {
				cell += " (" + own.cs.name + "_" + f + " " + cv + ")"
			}
		}
		*pre = append(*pre, hbind{pat: h, m: tRaw{"go_hmod " + h + " " + own.owner.name + " (fun " + cv + " => " + cell + ")"}, effect: true})
		// a snapshot of a sibling may be out of date now
		for y, st := range c.epState {
			if y != x && st.mode == epSnap && y.typ.own.owner == own.owner && y.typ.own.field == own.field {
				st.stale = true
			}
		}
	}
}

// fieldStored: the cell field O.F is about to be assigned (the store itself follows): the element
// pointers into it are detached
func (c *hctx) fieldStored(v *ast.SelectorExpr, cs *hstruct, at ast.Node, pre *[]hbind) {
	if len(c.epState) == 0 {
		return
	}
	var ov *hvar
	if id, ok := ast.Unparen(v.X).(*ast.Ident); ok {
		ov = c.lookup(id)
	}
	for _, x := range c.all {
		if x.typ == nil || x.typ.k != "eptr" {
			continue
		}
		st, ok := c.epState[x]
		if !ok {
			continue
		}
		own := x.typ.own
		if own.cs != cs || own.field != v.Sel.Name {
			continue
		}
		if ov != nil && own.owner != ov && c.epBound(ov, cs, v.Sel.Name) && st.mode != epConflict {
			continue // another cell (the go_apart check between the two owners has been executed), another array
		}
		known := ov != nil && own.owner == ov
		switch st.mode {
		case epSnap:
			st.stale = true
		case epAttached:
			if !known || !c.readAgain(x, at.End()) {
				*st = hepState{mode: epDead}
				continue
			}
			tc := c.tmp()
			hbindRaw(pre, tc, "go_hget "+c.needHeap(at)+" "+own.owner.name)
			sn := c.newVar(x.name+"_snap", &hty{k: "esnap", elem: x.typ.elem}, "local")
			sn.pos = at.Pos()
			hbindRaw(pre, sn.name, "go_esnap ("+own.cs.name+"_"+own.field+" "+tc+") "+x.name)
			*st = hepState{mode: epSnap, snap: sn.name}
		}
	}
}

// readAgain: the next mention of x in the source after pos is a read (not its own re-binding)
func (c *hctx) readAgain(x *hvar, pos token.Pos) bool {
	var next *ast.Ident
	ast.Inspect(c.fn.decl.Body, func(n ast.Node) bool {
		if id, ok := n.(*ast.Ident); ok && id.Pos() >= pos && (c.g.info.Uses[id] == x.obj || c.g.info.Defs[id] == x.obj) {
			if next == nil || id.Pos() < next.Pos() {
				next = id
			}
		}
		return true
	})
	return next != nil && !c.lhsIdents[next]
}

// epLoopCheck: an element pointer declared outside the loop body must not be used inside
func (c *hctx) epLoopCheck(body *ast.BlockStmt) {
	if len(c.eptrObjs) == 0 {
		return
	}
	ast.Inspect(body, func(n ast.Node) bool {
		if id, ok := n.(*ast.Ident); ok {
			if x := c.lookup(id); x != nil && x.typ.k == "eptr" && c.outside(x, body.Pos(), body.End()) {
				c.lostAt(id, "element pointer %s declared outside the loop it is used in", x.name)
			}
		}
		return true
	})
}

// ---------------------------------------------------------------- slice-valued lvalues: O.F and p.G

// pathLvalue: l is O.F (a slice field of a heap cell, O a variable) or p.G (a slice field of the
// element p points to)
func (c *hctx) pathLvalue(l ast.Expr) bool {
	sel, ok := ast.Unparen(l).(*ast.SelectorExpr)
	if !ok {
		return false
	}
	if _, isId := ast.Unparen(sel.X).(*ast.Ident); !isId {
		return false
	}
	if c.isRecvIdent(sel.X) {
		return false
	}
	if c.cellSel(sel) != nil {
		return true
	}
	if c.textPathLvalue(sel) {
		return true // e.X of a struct-valued variable (fn_heap_text.go)
	}
	return c.eptrVar(sel.X) != nil
}

// pathSliceUpdate: L = L[lo:hi], L = append(L, e...), L = append(L, ys...) on such an lvalue: the
// field's own value re-sliced / appended to (exact for the elements, as for variables)
func (c *hctx) pathSliceUpdate(v *ast.AssignStmt, pre *[]hbind) bool {
	if v.Tok != token.ASSIGN || !c.pathLvalue(v.Lhs[0]) {
		return false
	}
	lsel := ast.Unparen(v.Lhs[0]).(*ast.SelectorExpr)
	same := func(e ast.Expr) bool { return src(ast.Unparen(e)) == src(lsel) }
	var newVal func(cur string, t *hty) string
	switch r := ast.Unparen(v.Rhs[0]).(type) {
	case *ast.CallExpr:
		if !isBuiltin(r, "append", len(r.Args)) || len(r.Args) < 1 {
			return false
		}
		if !same(r.Args[0]) {
			c.lostAt(v, "append (only L = append(L, ...) on the field's own value)")
		}
		newVal = func(cur string, t *hty) string {
			if r.Ellipsis.IsValid() {
				if len(r.Args) != 2 {
					c.lostAt(v, "append")
				}
				y, yt := c.expr(r.Args[1], pre)
				if yt.k != "slice" {
					c.lostAt(v, "append of %s...", src(r.Args[1]))
				}
				return cur + " ++ " + paren(y)
			}
			var xs []string
			for _, a := range r.Args[1:] {
				y, yt := c.expr(a, pre)
				if yt.k == "slice" || yt.k == "func" || yt.k == "eptr" {
					c.lostAt(a, "appended value of type %s", yt.k)
				}
				xs = append(xs, y)
			}
			return cur + " ++ [" + strings.Join(xs, "; ") + "]"
		}
	case *ast.SliceExpr:
		if !same(r.X) || r.Slice3 {
			c.lostAt(v, "slice expression %s (only L = L[lo:hi] on the field's own value: aliasing)", src(r))
		}
		newVal = func(cur string, t *hty) string {
			lo, hi := "0", "(zlen "+paren(cur)+")"
			if r.Low != nil {
				lo, _ = c.expr(r.Low, pre)
			}
			if r.High != nil {
				hi, _ = c.expr(r.High, pre)
			}
			tm := c.tmp()
			hbindRaw(pre, tm, "go_sub "+paren(cur)+" "+paren(lo)+" "+paren(hi))
			return tm
		}
	default:
		return false
	}
	st := c.storePrep(v.Lhs[0], v, pre)
	cur, t := c.expr(lsel, pre)
	if t.k != "slice" {
		c.lostAt(v, "assignment target %s", src(lsel))
	}
	st(newVal(cur, t), t)
	return true
}

// ---------------------------------------------------------------- functions of other packages

// callPkg: slice.At / slice.PtrAt (package slice of the module: built in), and the functions
// declared extern:pkg.F (function arguments)
func (c *hctx) callPkg(v *ast.CallExpr, pre *[]hbind) ([]string, []*hty, bool) {
	name, f := c.pkgFunc(v.Fun)
	if name == "" {
		return nil, nil, false
	}
	switch {
	case name == "slice.At" && f != nil && len(v.Args) == 2:
		x, t := c.expr(v.Args[0], pre)
		i, it := c.expr(v.Args[1], pre)
		if t.k != "slice" || it.k != "int" {
			c.lostAt(v, "slice.At of a %s", t.k)
		}
		tm := c.tmp()
		hbindRaw(pre, tm, "go_at "+paren(x)+" "+paren(i))
		return []string{tm}, []*hty{t.elem}, true
	case name == "slice.PtrAt" && f != nil:
		c.lostAt(v, "slice.PtrAt(...) (only bound to a variable: p := slice.PtrAt(O.F, i))")
	case c.g.externs[name]:
		if f == nil {
			c.lostAt(v, "call of %s (the package is not part of the module: its signature is unknown)", name)
		}
		return c.callExtern(name, f, v, pre)
	}
	return nil, nil, false
}

func (c *hctx) callExtern(name string, f *types.Func, v *ast.CallExpr, pre *[]hbind) ([]string, []*hty, bool) {
	if c.fn.selfRec || c.lit != nil {
		c.lostAt(v, "call of the extern function %s in a recursive function or a function literal", name)
	}
	if v.Ellipsis.IsValid() {
		c.lostAt(v, "call of %s with ...", name)
	}
	// the signature at this instantiation
	sig, _ := c.g.info.Types[v.Fun].Type.(*types.Signature)
	if sig == nil {
		c.lostAt(v, "call of %s (no signature)", name)
	}
	ft := &hty{k: "func", monadic: true}
	noPtr := func(t *hty) {
		bad := false
		var walk func(t *hty)
		walk = func(t *hty) {
			switch t.k {
			case "hptr", "func", "eptr":
				bad = true
			case "slice":
				walk(t.elem)
			case "struct":
				for _, ft := range c.fieldTypes(t) {
					walk(ft)
				}
			}
		}
		walk(t)
		if bad {
			c.lostAt(v, "call of %s: a pointer or function in its signature", name)
		}
	}
	for i := 0; i < sig.Params().Len(); i++ {
		t := c.mustType(sig.Params().At(i).Type(), v)
		noPtr(t)
		ft.params = append(ft.params, t)
	}
	if sig.Variadic() || len(v.Args) != len(ft.params) || sig.Results().Len() == 0 {
		c.lostAt(v, "call of %s (variadic, arity, or no results)", name)
	}
	for i := 0; i < sig.Results().Len(); i++ {
		t := c.mustType(sig.Results().At(i).Type(), v)
		noPtr(t)
		ft.res = append(ft.res, t)
	}
	x := c.externVar(name, ft, v)
	s := x.name
	for _, a := range v.Args {
		c.textExternObjArg(a, v)
		y, _ := c.expr(a, pre)
		s += " " + paren(y)
	}
	var ts []string
	for range ft.res {
		ts = append(ts, c.tmp())
	}
	*pre = append(*pre, hbind{pat: tuple(ts), m: tRaw{s}})
	return ts, ft.res, true
}

// externVar: the function argument that stands for pkg.F
func (c *hctx) externVar(name string, ft *hty, at ast.Node) *hvar {
	for _, e := range c.fn.externs {
		if e.key == name {
			if e.v.typ.funcCoq("") != ft.funcCoq("") {
				c.lostAt(at, "call of %s at two different types", name)
			}
			return e.v
		}
	}
	x := c.newVar(strings.ReplaceAll(name, ".", "_"), ft, "extern")
	c.fn.externs = append(c.fn.externs, &hextern{key: name, v: x})
	return x
}

// ---------------------------------------------------------------- range over a window of a slice variable

// rangeWindow: for i, x := range xs[lo:hi]: the window is bound to a list of its own
func (c *hctx) rangeWindow(v *ast.RangeStmt, se *ast.SliceExpr, pre *[]hbind) *hvar {
	id, ok := ast.Unparen(se.X).(*ast.Ident)
	var xv *hvar
	if ok {
		xv = c.lookup(id)
	}
	if xv == nil || xv.typ.k != "slice" || se.Slice3 {
		c.lostAt(v, "range over %s (must be a slice variable or a window xs[lo:hi] of one)", src(v.X))
	}
	if c.synthWin == nil {
		c.synthWin = map[ast.Node]*hvar{}
	}
	w, ok := c.synthWin[v]
	if !ok {
		w = c.newVar("win", xv.typ, "local")
		w.pos = v.Pos()
		c.synthWin[v] = w
	}
	lo, hi := "0", "(zlen "+xv.name+")"
	if se.Low != nil {
		lo, _ = c.expr(se.Low, pre)
	}
	if se.High != nil {
		hi, _ = c.expr(se.High, pre)
	}
	*pre = append(*pre, hbind{pat: w.name, m: tRaw{"go_sub " + xv.name + " " + paren(lo) + " " + paren(hi)}})
	return w
}
