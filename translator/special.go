package main

import (
	"fmt"
	"go/ast"
	"go/constant"
	"go/token"
	"sort"
	"strconv"
	"strings"
)

// special generators: whole-declaration facts that are not single integer expressions.
func special(kind string, f *ast.File) (s string, err error) {
	defer func() {
		if r := recover(); r != nil {
			if l, ok := r.(lost); ok {
				err = fmt.Errorf("%s", l.msg)
				return
			}
			panic(r)
		}
	}()
	switch kind {
	case "shelltable":
		return shellTable(f), nil
	case "cachelocks":
		return cacheLocks(f), nil
	}
	return "", fmt.Errorf("unknown special %q", kind)
}

// ---- a tiny evaluator for Go constant/boolean expressions over an environment of ints

type val struct {
	isBool bool
	b      bool
	n      int64
}

func evalExpr(e ast.Expr, env map[string]int64) val {
	switch v := e.(type) {
	case *ast.ParenExpr:
		return evalExpr(v.X, env)
	case *ast.Ident:
		if v.Name == "true" {
			return val{isBool: true, b: true}
		}
		if v.Name == "false" {
			return val{isBool: true}
		}
		if n, ok := env[v.Name]; ok {
			return val{n: n}
		}
		fail("free identifier %s", v.Name)
	case *ast.SelectorExpr:
		if n, ok := env[src(v)]; ok {
			return val{n: n}
		}
		fail("free selector %s", src(v))
	case *ast.BasicLit:
		c := constant.MakeFromLiteral(v.Value, v.Kind, 0)
		n, ok := constant.Int64Val(constant.ToInt(c))
		if !ok {
			fail("literal %s", v.Value)
		}
		return val{n: n}
	case *ast.UnaryExpr:
		x := evalExpr(v.X, env)
		switch v.Op {
		case token.NOT:
			return val{isBool: true, b: !x.b}
		case token.SUB:
			return val{n: -x.n}
		}
	case *ast.BinaryExpr:
		x, y := evalExpr(v.X, env), evalExpr(v.Y, env)
		switch v.Op {
		case token.LAND:
			return val{isBool: true, b: x.b && y.b}
		case token.LOR:
			return val{isBool: true, b: x.b || y.b}
		case token.EQL:
			if x.isBool {
				return val{isBool: true, b: x.b == y.b}
			}
			return val{isBool: true, b: x.n == y.n}
		case token.NEQ:
			if x.isBool {
				return val{isBool: true, b: x.b != y.b}
			}
			return val{isBool: true, b: x.n != y.n}
		case token.LSS:
			return val{isBool: true, b: x.n < y.n}
		case token.LEQ:
			return val{isBool: true, b: x.n <= y.n}
		case token.GTR:
			return val{isBool: true, b: x.n > y.n}
		case token.GEQ:
			return val{isBool: true, b: x.n >= y.n}
		case token.ADD:
			return val{n: x.n + y.n}
		case token.SUB:
			return val{n: x.n - y.n}
		case token.MUL:
			return val{n: x.n * y.n}
		}
	}
	fail("cannot evaluate %s", src(e))
	return val{}
}

// ---- shell/shell.go

func shellTable(f *ast.File) string {
	enums := map[string][]string{}
	strConsts := map[string]ast.Expr{}
	var updateLit, classLit *ast.CompositeLit
	for _, d := range f.Decls {
		gd, ok := d.(*ast.GenDecl)
		if !ok {
			continue
		}
		switch gd.Tok {
		case token.CONST:
			var curType string
			for _, s := range gd.Specs {
				vs := s.(*ast.ValueSpec)
				if id, ok := vs.Type.(*ast.Ident); ok {
					curType = id.Name
				} else if len(vs.Values) > 0 {
					curType = ""
				}
				if len(vs.Values) == 1 {
					if id, isId := vs.Values[0].(*ast.Ident); !isId || id.Name != "iota" {
						strConsts[vs.Names[0].Name] = vs.Values[0]
						continue
					}
				}
				if curType != "" {
					for _, n := range vs.Names {
						enums[curType] = append(enums[curType], n.Name)
					}
				}
			}
		case token.VAR:
			for _, s := range gd.Specs {
				vs := s.(*ast.ValueSpec)
				if len(vs.Names) == 1 && len(vs.Values) == 1 {
					if cl, ok := vs.Values[0].(*ast.CompositeLit); ok {
						switch vs.Names[0].Name {
						case "update":
							updateLit = cl
						case "classOf":
							classLit = cl
						}
					}
				}
			}
		}
	}
	for _, t := range []string{"state", "class", "action"} {
		if len(enums[t]) == 0 {
			fail("enum %s not found", t)
		}
	}
	if updateLit == nil || classLit == nil {
		fail("update/classOf not found")
	}
	var evalStr func(e ast.Expr) string
	evalStr = func(e ast.Expr) string {
		switch v := e.(type) {
		case *ast.BasicLit:
			s, err := strconv.Unquote(v.Value)
			if err != nil {
				fail("unquote %s", v.Value)
			}
			return s
		case *ast.BinaryExpr:
			return evalStr(v.X) + evalStr(v.Y)
		case *ast.Ident:
			x, ok := strConsts[v.Name]
			if !ok {
				fail("unknown const %s", v.Name)
			}
			return evalStr(x)
		}
		fail("unsupported string expr %T", e)
		return ""
	}
	var b strings.Builder
	b.WriteString("Local Open Scope N_scope.\n\n")
	for _, t := range []string{"state", "class", "action"} {
		fmt.Fprintf(&b, "Inductive %s : Set := %s.\n", t, strings.Join(enums[t], " | "))
	}
	fmt.Fprintf(&b, "\nDefinition update (s : state) (c : class) : option (state * action) :=\n  match s, c with\n")
	rows := 0
	seen := map[string]bool{}
	for _, el := range updateLit.Elts {
		kv, ok := el.(*ast.KeyValueExpr)
		if !ok {
			fail("update: unkeyed row")
		}
		st := kv.Key.(*ast.Ident).Name
		for _, e2 := range kv.Value.(*ast.CompositeLit).Elts {
			kv2, ok := e2.(*ast.KeyValueExpr)
			if !ok {
				fail("update[%s]: unkeyed entry", st)
			}
			cl := kv2.Key.(*ast.Ident).Name
			pair := kv2.Value.(*ast.CompositeLit).Elts
			if len(pair) != 2 {
				fail("update[%s][%s]: not a pair", st, cl)
			}
			if seen[st+","+cl] {
				fail("update[%s][%s]: duplicate", st, cl)
			}
			seen[st+","+cl] = true
			fmt.Fprintf(&b, "  | %s, %s => Some (%s, %s)\n", st, cl, src(pair[0]), src(pair[1]))
			rows++
		}
	}
	// Entries absent from a row that is shorter than the class index would panic (index out of
	// range); entries absent below the row's length are the zero value {stNone, drop}.
	fmt.Fprintf(&b, "  | _, _ => None\n  end.\n")
	type ent struct {
		b  int64
		cl string
	}
	var ents []ent
	for _, el := range classLit.Elts {
		kv := el.(*ast.KeyValueExpr)
		lit, ok := kv.Key.(*ast.BasicLit)
		if !ok {
			fail("classOf: non-literal key")
		}
		v := constant.MakeFromLiteral(lit.Value, lit.Kind, 0)
		n, _ := constant.Int64Val(constant.ToInt(v))
		ents = append(ents, ent{n, src(kv.Value)})
	}
	sort.Slice(ents, func(i, j int) bool { return ents[i].b < ents[j].b })
	fmt.Fprintf(&b, "\nDefinition class_of (b : N) : class :=\n  match b with\n")
	for _, e := range ents {
		fmt.Fprintf(&b, "  | %d => %s\n", e.b, e.cl)
	}
	fmt.Fprintf(&b, "  | _ => %s\n  end.\n", enums["class"][0])
	for _, name := range []string{"mustQuote", "shouldQuote", "spaces", "allQuote"} {
		x, ok := strConsts[name]
		if !ok {
			fail("const %s not found", name)
		}
		var nums []string
		for _, c := range []byte(evalStr(x)) {
			nums = append(nums, strconv.Itoa(int(c)))
		}
		fmt.Fprintf(&b, "\nDefinition %s : list N := [%s].\n", name, strings.Join(nums, "; "))
	}
	// per-state boolean facts read from method bodies
	stateEnv := func(i int) map[string]int64 {
		env := map[string]int64{"s.st": int64(i)}
		for j, n := range enums["state"] {
			env[n] = int64(j)
		}
		return env
	}
	perState := func(name, fn, at string) {
		fd := findFunc(f, fn)
		if fd == nil {
			fail("function %s not found", fn)
		}
		e, _ := find(fd.Body, at)
		fmt.Fprintf(&b, "\n(* %s %s : %s *)\nDefinition %s (s : state) : bool :=\n  match s with\n", fn, at, src(e), name)
		for i, n := range enums["state"] {
			v := evalExpr(e, stateEnv(i))
			fmt.Fprintf(&b, "  | %s => %v\n", n, v.b)
		}
		b.WriteString("  end.\n")
	}
	perState("complete_state", "Scanner.Complete", "return:#0")
	// the EOF return of Next is its last return statement
	fd := findFunc(f, "Scanner.Next")
	if fd == nil {
		fail("Scanner.Next not found")
	}
	nret := 0
	ast.Inspect(fd.Body, func(n ast.Node) bool {
		if _, ok := n.(*ast.ReturnStmt); ok {
			nret++
		}
		return true
	})
	perState("eof_has_token", "Scanner.Next", fmt.Sprintf("return:#%d", nret-1))
	// initial states
	stOf := func(fn, lhs string) string {
		fd := findFunc(f, fn)
		if fd == nil {
			fail("function %s not found", fn)
		}
		var out string
		ast.Inspect(fd.Body, func(n ast.Node) bool {
			switch s := n.(type) {
			case *ast.AssignStmt:
				if len(s.Lhs) == 1 && src(s.Lhs[0]) == lhs {
					out = src(s.Rhs[0])
				}
			case *ast.KeyValueExpr:
				if src(s.Key) == lhs {
					out = src(s.Value)
				}
			}
			return true
		})
		if out == "" {
			fail("%s: no assignment to %s", fn, lhs)
		}
		return out
	}
	fmt.Fprintf(&b, "\nDefinition reset_state : state := %s.\n", stOf("Scanner.Reset", "s.st"))
	fmt.Fprintf(&b, "Definition new_state : state := %s.\n", stOf("NewScanner", "st"))
	fmt.Fprintf(&b, "Definition rest_state : state := %s.\n", stOf("Scanner.Rest", "s.st"))
	b.WriteString(shellSkeleton(f, enums["action"]))
	fmt.Fprintf(&b, "\n(* %d table entries, %d class entries *)\n", rows, len(ents))
	return b.String()
}

// ---- cache/cache.go: the special generator "cachelocks" lives in cachelocks.go
