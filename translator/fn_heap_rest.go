package main

// Heap backend, round 6 (see notes/fn-translator.md, "Sweep of the remaining functions"):
//   - a *V result (V a value struct) that is nil on some path or the receiver itself on some
//     path: go_vres V = VRecv | VNil | VNew v (FnHeap.v);
//   - *t of a receiver held by its fields: the record built from them;
//   - pure function-typed fields in the Record of a value struct.

import (
	"go/ast"
	"go/token"
	"go/types"
)

// vresSlots: for every result of type *V held by value (owned struct): whether some return hands
// back nil or the receiver itself in that slot.
func (c *hctx) vresSlots(sig *types.Signature) map[int]bool {
	out := map[int]bool{}
	n := sig.Results().Len()
	ast.Inspect(c.fn.decl.Body, func(nd ast.Node) bool {
		switch v := nd.(type) {
		case *ast.FuncLit:
			return false
		case *ast.ReturnStmt:
			if len(v.Results) != n {
				return true
			}
			for i, r := range v.Results {
				if _, isPtr := sig.Results().At(i).Type().(*types.Pointer); !isPtr {
					continue
				}
				if isNilExpr(r) || c.isRecvIdent(r) {
					out[i] = true
				}
			}
		}
		return true
	})
	return out
}

// vresValue: the value of such a result at a return
func (c *hctx) vresValue(r ast.Expr, rt *hty, pre *[]hbind) string {
	if isNilExpr(r) {
		return "VNil"
	}
	if c.isRecvIdent(r) {
		if !c.fn.recvFields {
			c.lostAt(r, "returned receiver")
		}
		return "VRecv"
	}
	if u, ok := ast.Unparen(r).(*ast.UnaryExpr); !ok || u.Op != token.AND {
		c.lostAt(r, "returned value %s (only nil, the receiver, or &V{...})", src(r))
	}
	x, t := c.expr(r, pre)
	if t.k != "struct" || t.vres {
		c.lostAt(r, "returned value %s (only nil, the receiver, or a pointer to a fresh struct)", src(r))
	}
	return "(VNew " + paren(x) + ")"
}

// recvDeref: *t where t is a receiver held by its fields: the record of its current fields
func (c *hctx) recvDeref(v *ast.StarExpr, pre *[]hbind) (string, *hty, bool) {
	if !c.isRecvIdent(v.X) || !c.fn.recvFields || c.fn.recvStruct == nil {
		return "", nil, false
	}
	s := c.fn.recvStruct
	c.recvCheck(pre)
	str := "mk_" + s.name
	for _, f := range s.fnames {
		fv := c.fields[f]
		if fv == nil {
			c.lostAt(v, "copy of the receiver (field %s)", f)
		}
		str += " " + fv.name
	}
	tv, ok := c.g.info.Types[v]
	if !ok {
		c.lostAt(v, "dereference %s", src(v))
	}
	t := c.mustType(tv.Type, v)
	if t.k != "struct" {
		c.lostAt(v, "dereference %s", src(v))
	}
	c.useStruct(s, v)
	return "(" + str + ")", t, true
}

// derefsRecv: the body copies the whole receiver (*t)
func (c *hctx) derefsRecv() bool {
	found := false
	ast.Inspect(c.fn.decl.Body, func(n ast.Node) bool {
		if st, ok := n.(*ast.StarExpr); ok && c.isRecvIdent(st.X) {
			found = true
		}
		return true
	})
	return found
}

// hUncurry (normalisation before type checking, see fn_heap_norm.go): a function whose body is
// the single statement `return func(ps) rs { B }` and whose declared result is a function type or
// an iter.Seq / iter.Seq2 (Tree.InorderAfter: `return func(yield func(T) bool) { … }`) becomes the
// function of its own parameters AND the literal's, with the literal's results and body:
//     F(a)(y)  =  F'(a, y)
// The outer function does nothing before it returns the closure, and the closure may not assign
// the outer parameters (it captures them by reference: a second call of the same closure would
// see the change), so calling the closure IS running B with both parameter lists bound.
func hUncurry(fd *ast.FuncDecl) bool {
	if fd.Body == nil || len(fd.Body.List) != 1 || fd.Type.Results == nil || len(fd.Type.Results.List) != 1 {
		return false
	}
	ret, ok := fd.Body.List[0].(*ast.ReturnStmt)
	if !ok || len(ret.Results) != 1 {
		return false
	}
	lit, ok := ret.Results[0].(*ast.FuncLit)
	if !ok {
		return false
	}
	rt := fd.Type.Results.List[0]
	if len(rt.Names) != 0 {
		return false
	}
	switch t := rt.Type.(type) {
	case *ast.FuncType:
	case *ast.IndexExpr, *ast.IndexListExpr:
		var x ast.Expr
		if ix, ok := t.(*ast.IndexExpr); ok {
			x = ix.X
		} else {
			x = t.(*ast.IndexListExpr).X
		}
		sel, ok := x.(*ast.SelectorExpr)
		if !ok {
			return false
		}
		if id, ok := sel.X.(*ast.Ident); !ok || id.Name != "iter" || (sel.Sel.Name != "Seq" && sel.Sel.Name != "Seq2") {
			return false
		}
	default:
		return false
	}
	outer := map[string]bool{}
	if fd.Recv != nil {
		for _, f := range fd.Recv.List {
			for _, n := range f.Names {
				outer[n.Name] = true
			}
		}
	}
	for _, f := range fd.Type.Params.List {
		for _, n := range f.Names {
			outer[n.Name] = true
		}
	}
	for _, f := range lit.Type.Params.List {
		if len(f.Names) == 0 {
			return false
		}
		for _, n := range f.Names {
			if outer[n.Name] || n.Name == "_" {
				return false
			}
		}
	}
	bad := false
	ast.Inspect(lit.Body, func(n ast.Node) bool {
		switch v := n.(type) {
		case *ast.AssignStmt:
			if v.Tok != token.DEFINE {
				for _, l := range v.Lhs {
					if id, ok := l.(*ast.Ident); ok && outer[id.Name] {
						bad = true
					}
				}
			}
		case *ast.IncDecStmt:
			if id, ok := v.X.(*ast.Ident); ok && outer[id.Name] {
				bad = true
			}
		case *ast.UnaryExpr:
			if id, ok := v.X.(*ast.Ident); ok && v.Op == token.AND && outer[id.Name] {
				bad = true
			}
		}
		return true
	})
	if bad {
		return false
	}
	fd.Type.Params.List = append(fd.Type.Params.List, lit.Type.Params.List...)
	fd.Type.Results = lit.Type.Results
	fd.Body = lit.Body
	return true
}
