package main

// Heap backend, round 6 (see notes/fn-translator.md, "Sweep of the remaining functions"):
//   - a *V result (V a value struct) that is nil on some path or the receiver itself on some
//     path: go_vres V = VRecv | VNil | VNew v (FnHeap.v);
//   - *t of a receiver held by its fields: the record built from them;
//   - pure function-typed fields in the Record of a value struct.

import (
	"go/ast"
	"go/token"
	"go/types"
)

// vresSlots: for every result of type *V held by value (owned struct): whether some return hands
// back nil or the receiver itself in that slot.
func (c *hctx) vresSlots(sig *types.Signature) map[int]bool {
	out := map[int]bool{}
	n := sig.Results().Len()
	ast.Inspect(c.fn.decl.Body, func(nd ast.Node) bool {
		switch v := nd.(type) {
		case *ast.FuncLit:
			return false
		case *ast.ReturnStmt:
			if len(v.Results) != n {
				return true
			}
			for i, r := range v.Results {
				if _, isPtr := sig.Results().At(i).Type().(*types.Pointer); !isPtr {
					continue
				}
				if isNilExpr(r) || c.isRecvIdent(r) {
					out[i] = true
				}
			}
		}
		return true
	})
	return out
}

// vresValue: the value of such a result at a return
func (c *hctx) vresValue(r ast.Expr, rt *hty, pre *[]hbind) string {
	if isNilExpr(r) {
		return "VNil"
	}
	if c.isRecvIdent(r) {
		if !c.fn.recvFields {
			c.lostAt(r, "returned receiver")
		}
		return "VRecv"
	}
	if u, ok := ast.Unparen(r).(*ast.UnaryExpr); !ok || u.Op != token.AND {
		c.lostAt(r, "returned value %s (only nil, the receiver, or &V{...})", src(r))
	}
	x, t := c.expr(r, pre)
	if t.k != "struct" || t.vres {
		c.lostAt(r, "returned value %s (only nil, the receiver, or a pointer to a fresh struct)", src(r))
	}
	return "(VNew " + paren(x) + ")"
}

// recvDeref: *t where t is a receiver held by its fields: the record of its current fields
func (c *hctx) recvDeref(v *ast.StarExpr, pre *[]hbind) (string, *hty, bool) {
	if !c.isRecvIdent(v.X) || !c.fn.recvFields || c.fn.recvStruct == nil {
		return "", nil, false
	}
	s := c.fn.recvStruct
	c.recvCheck(pre)
	str := "mk_" + s.name
	for _, f := range s.fnames {
		fv := c.fields[f]
		if fv == nil {
			c.lostAt(v, "copy of the receiver (field %s)", f)
		}
		str += " " + fv.name
	}
	tv, ok := c.g.info.Types[v]
	if !ok {
		c.lostAt(v, "dereference %s", src(v))
	}
	t := c.mustType(tv.Type, v)
	if t.k != "struct" {
		c.lostAt(v, "dereference %s", src(v))
	}
	c.useStruct(s, v)
	return "(" + str + ")", t, true
}

// derefsRecv: the body copies the whole receiver (*t)
func (c *hctx) derefsRecv() bool {
	found := false
	ast.Inspect(c.fn.decl.Body, func(n ast.Node) bool {
		if st, ok := n.(*ast.StarExpr); ok && c.isRecvIdent(st.X) {
			found = true
		}
		return true
	})
	return found
}
